(* HtmlRow.v - the row of a suite WITHOUT any guard on the input.

   Specification (independent of the pointer walk of render_suite, which moves
   a pointer through the sorted columns): counting.  [newer cts t] is the number
   of invocations that started after t - computed on the view as given, in any
   order.  The runs of a suite, in the order qsort left them, are placed from
   left to right: a run goes to the first column that is not newer than it and
   lies after the column of the run before it ([place]).  [row_placed] says
   what the rendered row is in terms of these positions; it determines the row.

   Proved for every input and every qsort: the rendered row of every suite is
   [row_placed] (row_unguarded).  Corollaries: every rendered status/link is
   the status/link of SOME run of that suite with its own arch/date path, never
   under an invocation that started later than the run's own (cells_sound); no row has more
   cells than there are columns; under the per-row guard [row_guard v S] the row
   is the specified one (row_guarded); when a suite is recorded at most once
   per invocation, a run is shown under another invocation exactly when its
   rank among the suite's runs of that start time differs from the rank of its
   invocation among the columns of that start time (run_column_iff). *)
From Robsd Require Export Html.HtmlProofs Html.HtmlTie Html.HtmlSuccess.
From Robsd Require Import Base.Sort.
From RobsdGen Require Import Gen_Html.
From Coq Require Import Sorting.Sorted Sorting.Permutation.

(* ---- specification ---- *)

Definition newer (cts : list Z) (t : Z) : nat := List.length (filter (fun c => (t <? c)%Z) cts).

Fixpoint place (cts : list Z) (next : nat) (rts : list Z) : list nat :=
  match rts with
  | [] => []
  | t :: rts' => let p := Nat.max (newer cts t) next in p :: place cts (S p) rts'
  end.

(* a run together with the invocation it belongs to *)
Definition irun := (sinv * srun)%type.
Definition suite_runs (v : list sinv) (S : bytes) : list irun :=
  flat_map (fun I => map (pair I) (filter (fun sr => beq (sr_suite sr) S) (si_runs I))) v.
Definition irun_time (x : irun) : Z := si_time (fst x).
Definition irun_cell (x : irun) : status * bytes :=
  (srun_status (snd x), pjoin (sinv_dir (fst x)) (sr_log (snd x))).

(* the row of a suite whose runs stand in the order [irs]: the run number k is
   shown at column index place_k if there is such a column, nothing else is
   shown, and no empty cell is rendered after the last run *)
Definition row_placed (v : list sinv) (irs : list irun) (cells : list cell) : Prop :=
  let ps := place (map si_time v) 0 (map irun_time irs) in
  (List.length cells <= List.length v)%nat /\
  (forall k p x, nth_error ps k = Some p -> nth_error irs k = Some x -> (p < List.length v)%nat ->
                 nth_error cells p = Some (Some (irun_cell x))) /\
  (forall j c, nth_error cells j = Some (Some c) ->
               exists k x, nth_error ps k = Some j /\ nth_error irs k = Some x /\ c = irun_cell x) /\
  trim_cells cells = cells.

(* the per-row guard: S is recorded at most once per invocation, and an
   invocation in which S ran shares its start time with no other invocation *)
Definition once (S : bytes) (I : sinv) : Prop :=
  (List.length (filter (fun sr => beq (sr_suite sr) S) (si_runs I)) <= 1)%nat.
Definition row_guard (v : list sinv) (S : bytes) : Prop :=
  (forall I, In I v -> once S I) /\
  (forall I J, In I v -> In J v -> ran_in S I -> si_time I = si_time J -> I = J).

(* ---- counting ---- *)

Lemma newer_app a b t : newer (a ++ b) t = (newer a t + newer b t)%nat.
Proof. unfold newer. now rewrite filter_app, app_length. Qed.

Lemma newer_le a t : (newer a t <= List.length a)%nat.
Proof. unfold newer. induction a as [|x a IH]; cbn; [lia|]. destruct (t <? x)%Z; cbn; lia. Qed.

Lemma newer_all a t : (forall x, In x a -> (t < x)%Z) -> newer a t = List.length a.
Proof.
  unfold newer. induction a as [|x a IH]; intros H; [reflexivity|]. cbn.
  destruct (Z.ltb_spec t x) as [_|Hge]; [|specialize (H x (or_introl eq_refl)); lia].
  cbn. f_equal. apply IH. intros y Hy. apply H. now right.
Qed.

Lemma newer_none a t : (forall x, In x a -> (x <= t)%Z) -> newer a t = 0%nat.
Proof.
  unfold newer. induction a as [|x a IH]; intros H; [reflexivity|]. cbn.
  destruct (Z.ltb_spec t x) as [Hlt|_]; [specialize (H x (or_introl eq_refl)); lia|].
  apply IH. intros y Hy. apply H. now right.
Qed.

Lemma newer_lt a t : In t a -> (newer a t < List.length a)%nat.
Proof.
  unfold newer. induction a as [|x a IH]; intros H; [destruct H|]. destruct H as [->|H]; cbn.
  - rewrite Z.ltb_irrefl. pose proof (newer_le a t). unfold newer in *. lia.
  - specialize (IH H). destruct (t <? x)%Z; cbn; lia.
Qed.

Lemma newer_perm a b t : Permutation a b -> newer a t = newer b t.
Proof.
  unfold newer. induction 1 as [|x a b _ IH|x y a|a b c _ IH1 _ IH2]; cbn.
  - reflexivity.
  - destruct (t <? x)%Z; cbn; now rewrite IH.
  - destruct (t <? x)%Z; destruct (t <? y)%Z; reflexivity.
  - now rewrite IH1.
Qed.

Lemma place_ext a b : (forall t, newer a t = newer b t) -> forall ts next, place a next ts = place b next ts.
Proof. intros H ts. induction ts as [|t ts IH]; intros next; cbn; [reflexivity|]. now rewrite H, IH. Qed.

Lemma place_length cts ts : forall next, List.length (place cts next ts) = List.length ts.
Proof. induction ts as [|t ts IH]; intros next; cbn; [reflexivity|]. now rewrite IH. Qed.

Lemma ssorted_app_inv {A} (R : A -> A -> Prop) a x b :
  StronglySorted R (a ++ x :: b) -> (forall y, In y a -> R y x) /\ (forall z, In z b -> R x z).
Proof.
  induction a as [|y a IH]; cbn; intros H; inversion H as [|? ? Hs Hall]; subst.
  - split; [intros ? []|]. rewrite Forall_forall in Hall. exact Hall.
  - destruct (IH Hs) as [H1 H2]. split; [|exact H2].
    intros z [<-|Hz]; [|now apply H1]. rewrite Forall_forall in Hall. apply Hall.
    apply in_or_app. right. now left.
Qed.

(* in a descending list an element newer than t stands among the first [newer] ones *)
Lemma sorted_newer_nth cts t : StronglySorted (fun a b => (b <= a)%Z) cts ->
  forall p c, nth_error cts p = Some c -> (t < c)%Z -> (p < newer cts t)%nat.
Proof.
  induction 1 as [|x l Hs IH Hall]; intros p c Hp Hc; [destruct p; discriminate|].
  unfold newer. cbn [filter]. destruct p as [|p]; cbn in Hp.
  - injection Hp as ->. apply Z.ltb_lt in Hc. rewrite Hc. cbn. lia.
  - rewrite Forall_forall in Hall. pose proof (Hall c (nth_error_In _ _ Hp)) as Hcx.
    assert (Hx : (t <? x)%Z = true) by (apply Z.ltb_lt; lia). rewrite Hx. cbn.
    specialize (IH p c Hp Hc). unfold newer in IH. lia.
Qed.

(* ---- laying the runs out ---- *)

Fixpoint lay (n next : nat) (pxs : list (nat * (status * bytes))) : list cell :=
  match pxs with
  | [] => []
  | (p, x) :: r => if Nat.leb n p then [] else repeat None (p - next) ++ Some x :: lay n (S p) r
  end.

Fixpoint asc (next : nat) (ps : list nat) : Prop :=
  match ps with
  | [] => True
  | p :: r => (next <= p)%nat /\ asc (S p) r
  end.

Lemma place_asc cts ts : forall next, asc next (place cts next ts).
Proof. induction ts as [|t ts IH]; intros next; cbn; [exact I|]. split; [lia|apply IH]. Qed.

Lemma asc_nth ps : forall next k p, asc next ps -> nth_error ps k = Some p -> (next + k <= p)%nat.
Proof.
  induction ps as [|p0 ps IH]; intros next k p Ha Hk; [destruct k; discriminate|].
  cbn [map fst asc] in Ha. destruct Ha as [H0 Ha]. destruct k as [|k]; cbn in Hk.
  - injection Hk as <-. lia.
  - specialize (IH (S p0) k p Ha Hk). lia.
Qed.

Lemma lay_length n pxs : forall next, asc next (map fst pxs) -> (next <= n)%nat ->
  (List.length (lay n next pxs) <= n - next)%nat.
Proof.
  induction pxs as [|[p x] r IH]; intros next Ha Hn; cbn [lay List.length]; [lia|].
  cbn [map fst asc] in Ha. destruct Ha as [H0 Ha]. destruct (Nat.leb_spec n p); cbn [List.length]; [lia|].
  rewrite app_length, repeat_length. cbn [List.length].
  assert (Hsp : (S p <= n)%nat) by lia. specialize (IH (S p) Ha Hsp). unfold cell in *. lia.
Qed.

Lemma lay_nth n pxs : forall next k p x, asc next (map fst pxs) ->
  nth_error pxs k = Some (p, x) -> (p < n)%nat ->
  nth_error (lay n next pxs) (p - next) = Some (Some x).
Proof.
  induction pxs as [|[p0 x0] r IH]; intros next k p x Ha Hk Hp; [destruct k; discriminate|].
  cbn [map fst asc] in Ha. destruct Ha as [H0 Ha]. cbn [lay]. destruct k as [|k]; cbn in Hk.
  - injection Hk as <- <-. destruct (Nat.leb_spec n p0); [lia|].
    rewrite nth_error_app2 by (rewrite repeat_length; lia). rewrite repeat_length, Nat.sub_diag. reflexivity.
  - assert (Hlt : (S p0 + k <= p)%nat).
    { apply (asc_nth (map fst r) (S p0) k p Ha). now rewrite nth_error_map, Hk. }
    destruct (Nat.leb_spec n p0); [lia|].
    rewrite nth_error_app2 by (rewrite repeat_length; lia). rewrite repeat_length.
    replace (p - next - (p0 - next))%nat with (S (p - S p0)) by lia. cbn [nth_error].
    now apply (IH (S p0) k).
Qed.

Lemma lay_some n pxs : forall next j c, asc next (map fst pxs) ->
  nth_error (lay n next pxs) j = Some (Some c) ->
  exists k, nth_error pxs k = Some ((next + j)%nat, c).
Proof.
  induction pxs as [|[p0 x0] r IH]; intros next j c Ha Hj; [destruct j; discriminate|].
  cbn [map fst asc] in Ha. destruct Ha as [H0 Ha]. cbn [lay] in Hj. destruct (Nat.leb_spec n p0); [destruct j; discriminate|].
  destruct (Nat.lt_ge_cases j (p0 - next)) as [Hlt|Hge].
  - rewrite nth_error_app1 in Hj by (now rewrite repeat_length).
    rewrite nth_error_repeat in Hj by exact Hlt. discriminate.
  - rewrite nth_error_app2 in Hj by (now rewrite repeat_length). rewrite repeat_length in Hj.
    destruct (j - (p0 - next))%nat as [|j'] eqn:Ej; cbn in Hj.
    + injection Hj as <-. exists 0%nat. cbn [nth_error]. replace (next + j)%nat with p0 by lia. reflexivity.
    + destruct (IH (S p0) j' c Ha Hj) as [k Hk]. exists (S k). cbn [nth_error]. rewrite Hk.
      replace (S p0 + j')%nat with (next + j)%nat by lia. reflexivity.
Qed.

Lemma lay_in n pxs : forall next c, In (Some c) (lay n next pxs) -> In c (map snd pxs).
Proof.
  induction pxs as [|[p0 x0] r IH]; intros next c Hin; [destruct Hin|]. cbn [lay] in Hin.
  destruct (Nat.leb n p0); [destruct Hin|].
  apply in_app_or in Hin as [Hin|[Hin|Hin]].
  - apply repeat_spec in Hin. discriminate.
  - injection Hin as <-. now left.
  - right. now apply (IH (S p0)).
Qed.

Lemma trim_cells_app_some (a : list cell) x l :
  trim_cells (a ++ Some x :: l) = a ++ Some x :: trim_cells l.
Proof.
  induction a as [|c a IH]; cbn [app trim_cells]; [reflexivity|]. rewrite IH.
  destruct c; [reflexivity|]. destruct a; reflexivity.
Qed.

Lemma lay_trim n pxs : forall next, trim_cells (lay n next pxs) = lay n next pxs.
Proof.
  induction pxs as [|[p0 x0] r IH]; intros next; cbn [lay]; [reflexivity|].
  destruct (Nat.leb n p0); [reflexivity|]. now rewrite trim_cells_app_some, IH.
Qed.

Lemma nth_error_combine {A B} (a : list A) (b : list B) : forall k x y,
  nth_error (combine a b) k = Some (x, y) <-> nth_error a k = Some x /\ nth_error b k = Some y.
Proof.
  revert b. induction a as [|x0 a IH]; intros b k x y.
  - cbn. destruct k; split; intros H; try discriminate; destruct H; discriminate.
  - destruct b as [|y0 b]; cbn.
    + destruct k; split; intros H; try discriminate; destruct H; discriminate.
    + destruct k as [|k]; cbn; [|apply IH]. split.
      * intros H. injection H as -> ->. now split.
      * intros [H1 H2]. injection H1 as ->. injection H2 as ->. reflexivity.
Qed.

Lemma map_fst_combine {A B} (a : list A) (b : list B) :
  List.length a = List.length b -> map fst (combine a b) = a.
Proof.
  revert b. induction a as [|x a IH]; intros [|y b] H; cbn in *; try discriminate; [reflexivity|].
  f_equal. apply IH. lia.
Qed.

Lemma map_snd_combine {A B} (a : list A) (b : list B) :
  List.length a = List.length b -> map snd (combine a b) = b.
Proof.
  revert b. induction a as [|x a IH]; intros [|y b] H; cbn in *; try discriminate; [reflexivity|].
  f_equal. apply IH. lia.
Qed.

(* ---- the pointer walk is the layout of the counted positions ---- *)

Definition cell_of_run (r : run) : status * bytes := (r_status r, r_log r).

Lemma walk_s_lay cts rest : forall pre runs acc,
  cts = pre ++ map ri_time rest ->
  StronglySorted (fun a b => (b <= a)%Z) cts ->
  (forall r, In r runs -> (newer cts (r_time r) < List.length cts)%nat) ->
  walk_s true rest runs acc =
  RowOk (acc ++ lay (List.length cts) (List.length pre)
                    (combine (place cts (List.length pre) (map r_time runs)) (map cell_of_run runs))).
Proof.
  induction rest as [|c rest IH]; intros pre runs acc Hc Hs Hlt.
  - cbn [map] in Hc. rewrite app_nil_r in Hc. subst pre.
    destruct runs as [|r runs]; cbn; [now rewrite app_nil_r|].
    destruct (Nat.leb_spec (List.length cts) (Nat.max (newer cts (r_time r)) (List.length cts))); [|lia].
    now rewrite app_nil_r.
  - destruct runs as [|r runs]; [cbn; now rewrite app_nil_r|].
    cbn [map] in Hc. pose proof Hs as Hs'. rewrite Hc in Hs'.
    destruct (ssorted_app_inv _ _ _ _ Hs') as [Hpre Hpost].
    assert (Hn : List.length cts = (List.length pre + S (List.length rest))%nat).
    { rewrite Hc, app_length. cbn. now rewrite map_length. }
    cbn [walk_s map place combine].
    destruct (Z.ltb_spec (r_time r) (ri_time c)) as [Hnew|Hold].
    + (* the column is newer than the run: an empty cell *)
      assert (Hge : (S (List.length pre) <= newer cts (r_time r))%nat).
      { rewrite Hc, newer_app. rewrite (newer_all pre) by (intros x Hx; specialize (Hpre x Hx); cbn in Hpre; lia).
        unfold newer at 1. cbn [filter]. apply Z.ltb_lt in Hnew. rewrite Hnew. cbn. lia. }
      rewrite (IH (pre ++ [ri_time c]) (r :: runs) (acc ++ [None])); [|now rewrite <- app_assoc|exact Hs|exact Hlt].
      rewrite app_length. cbn [List.length map place combine lay]. rewrite Nat.add_1_r.
      rewrite !Nat.max_l by lia.
      pose proof (Hlt r (or_introl eq_refl)) as Hp.
      destruct (Nat.leb_spec (List.length cts) (newer cts (r_time r))); [lia|].
      rewrite <- app_assoc. cbn [app]. do 2 f_equal.
      replace (newer cts (r_time r) - List.length pre)%nat with (S (newer cts (r_time r) - S (List.length pre))) by lia.
      reflexivity.
    + (* the run goes to this column *)
      assert (Hle : (newer cts (r_time r) <= List.length pre)%nat).
      { rewrite Hc, newer_app. unfold newer at 2. cbn [filter].
        destruct (Z.ltb_spec (r_time r) (ri_time c)) as [?|_]; [lia|].
        fold (newer (map ri_time rest) (r_time r)).
        rewrite (newer_none (map ri_time rest)) by (intros x Hx; specialize (Hpost x Hx); cbn in Hpost; lia).
        pose proof (newer_le pre (r_time r)). lia. }
      rewrite Nat.max_r by exact Hle.
      rewrite (IH (pre ++ [ri_time c]) runs (acc ++ [Some (r_status r, r_log r)]));
        [|now rewrite <- app_assoc|exact Hs|intros r' Hr'; apply Hlt; now right].
      rewrite app_length. cbn [List.length lay]. rewrite Nat.add_1_r.
      destruct (Nat.leb_spec (List.length cts) (List.length pre)); [lia|].
      rewrite Nat.sub_diag. cbn [repeat app]. rewrite <- app_assoc. reflexivity.
Qed.

(* ---- the rows of the page ---- *)

Definition run_of' (x : irun) : run := snd (run_of (fst x) (snd x)).

Lemma runs_for_suite_runs S v : runs_for S (flat_map runs_of v) = map run_of' (suite_runs v S).
Proof.
  rewrite runs_for_view. unfold suite_runs. induction v as [|I v IH]; [reflexivity|].
  cbn [flat_map]. rewrite map_app, IH. f_equal. now rewrite map_map.
Qed.

Lemma in_suite_runs v S I sr :
  In (I, sr) (suite_runs v S) <-> In I v /\ In sr (si_runs I) /\ sr_suite sr = S.
Proof.
  unfold suite_runs. rewrite in_flat_map. split.
  - intros [J [HJ Hin]]. apply in_map_iff in Hin. destruct Hin as [sr' [E Hsr]]. injection E as <- <-.
    apply filter_In in Hsr. destruct Hsr as [Hsr He]. apply beq_eq in He. tauto.
  - intros [HI [Hsr He]]. exists I. split; [exact HI|]. apply in_map, filter_In. split; [exact Hsr|].
    subst S. apply beq_refl.
Qed.

Lemma row_unguarded q inp pg : qsorts_ok q -> run_html q inp = Some pg ->
  exists v vs, page_of_view q inp pg v vs /\
    forall S row, In (S, row) (p_rows pg) ->
      exists cells irs, row = RowOk cells /\
        qs_runs q (map run_of' (suite_runs v S)) = map run_of' irs /\
        Permutation (suite_runs v S) irs /\
        StronglySorted (fun a b => (irun_time b <= irun_time a)%Z) irs /\
        row_placed v irs cells.
Proof.
  intros Hq H. destruct (page_shape q inp pg Hq H) as [v [vs [Hv [_ [Hp [Hs [Hc Hr]]]]]]].
  exists v, vs. split; [repeat split; assumption|].
  intros S row Hin. rewrite Hr in Hin. apply in_map_iff in Hin. destruct Hin as [s [He Hin]].
  rewrite render_suite_eq, walk_is_fixed in He. injection He as <- <-.
  apply (Permutation_in _ (Permutation_sym (sort_suites_perm q _ Hq))) in Hin.
  destruct (suites_inv_all (flat_map runs_of v)) as [_ [Hel _]]. destruct (Hel s Hin) as [Hruns _].
  rewrite Hruns, runs_for_suite_runs. set (S := s_name s).
  destruct Hq as [_ [_ [Hqr _]]]. destruct (Hqr (map run_of' (suite_runs v S))) as [Hperm Hsorted].
  apply Permutation_sym, Permutation_map_inv in Hperm. destruct Hperm as [irs [Eirs Hpirs]].
  rewrite Eirs in Hsorted |- *.
  assert (Hcts : map ri_time (map rinv_of vs) = map si_time vs) by (now rewrite map_map).
  assert (Hss : StronglySorted (fun a b => (b <= a)%Z) (map si_time vs)) by (now apply ssorted_map).
  rewrite walk_eq. cbn [skipn].
  rewrite (walk_s_lay (map si_time vs) (map rinv_of vs) [] (map run_of' irs) []);
    [|now rewrite Hcts|exact Hss|].
  2:{ intros r Hr'. apply in_map_iff in Hr'. destruct Hr' as [[I sr] [<- Hx]].
      apply newer_lt. change (r_time (run_of' (I, sr))) with (si_time I). apply in_map.
      apply (Permutation_in _ Hp). apply (Permutation_in _ (Permutation_sym Hpirs)) in Hx.
      now apply in_suite_runs in Hx. }
  cbn [List.length app].
  assert (Ht : map r_time (map run_of' irs) = map irun_time irs) by (now rewrite map_map).
  assert (Hx : map cell_of_run (map run_of' irs) = map irun_cell irs).
  { rewrite map_map. apply map_ext. intros [I sr]. reflexivity. }
  rewrite Ht, Hx, map_length, <- (Permutation_length Hp).
  rewrite (place_ext (map si_time vs) (map si_time v))
    by (intros t; apply newer_perm, Permutation_map, Permutation_sym, Hp).
  set (ps := place (map si_time v) 0 (map irun_time irs)).
  assert (Hlen : List.length ps = List.length (map irun_cell irs)).
  { unfold ps. now rewrite place_length, !map_length. }
  assert (Hasc : asc 0 (map fst (combine ps (map irun_cell irs)))).
  { rewrite map_fst_combine by exact Hlen. apply place_asc. }
  eexists. exists irs. split; [reflexivity|]. split; [reflexivity|]. split; [exact Hpirs|]. split.
  { apply ssorted_map in Hsorted. eapply ssorted_impl; [|exact Hsorted].
    intros a b _ _ Hab. unfold run_le in Hab. apply Z.leb_le in Hab. exact Hab. }
  unfold row_placed. fold ps. repeat split.
  - pose proof (lay_length (List.length v) _ 0 Hasc ltac:(lia)). lia.
  - intros k p x Hk Hxk Hpn.
    rewrite <- (Nat.sub_0_r p). apply (lay_nth _ _ 0 k p); [exact Hasc| |exact Hpn].
    apply nth_error_combine. split; [exact Hk|]. now rewrite nth_error_map, Hxk.
  - intros j c Hj. destruct (lay_some _ _ 0 j c Hasc Hj) as [k Hk].
    apply nth_error_combine in Hk. destruct Hk as [Hk1 Hk2]. rewrite nth_error_map in Hk2.
    destruct (nth_error irs k) as [x|] eqn:Ex; [|discriminate]. injection Hk2 as <-.
    exists k, x. repeat split; assumption.
  - apply lay_trim.
Qed.

(* ---- corollary: every rendered cell is a run of that suite, and no row is
   longer than the header - for every input ---- *)

Lemma place_ge_newer cts ts : forall next k p t,
  nth_error (place cts next ts) k = Some p -> nth_error ts k = Some t -> (newer cts t <= p)%nat.
Proof.
  induction ts as [|t0 ts IH]; intros next k p t Hp Ht; [destruct k; discriminate|].
  destruct k as [|k]; cbn in Hp, Ht.
  - injection Hp as <-. injection Ht as <-. lia.
  - exact (IH _ k p t Hp Ht).
Qed.

Lemma cells_sound q inp pg : qsorts_ok q -> run_html q inp = Some pg ->
  exists v vs, page_of_view q inp pg v vs /\
    forall S row, In (S, row) (p_rows pg) ->
      exists cells, row = RowOk cells /\ (List.length cells <= List.length (p_cols pg))%nat /\
        forall j st href, nth_error cells j = Some (Some (st, href)) ->
          exists I sr J, In I v /\ In sr (si_runs I) /\ sr_suite sr = S /\
            st = spec_status (sr_exit sr) (sr_content sr) /\
            href = pjoin (pjoin (si_arch I) (si_date I)) (sr_log sr) /\
            nth_error vs j = Some J /\ (si_time J <= si_time I)%Z.
Proof.
  intros Hq H. destruct (row_unguarded q inp pg Hq H) as [v [vs [Hpv Hrows]]].
  exists v, vs. split; [exact Hpv|]. destruct Hpv as [Hv [Hp [Hs Hc]]].
  intros S row Hin. destruct (Hrows S row Hin) as [cells [irs [-> [_ [Hpirs [_ [Hlen [_ [Hinv _]]]]]]]]].
  exists cells. split; [reflexivity|].
  assert (Hlv : List.length v = List.length vs) by (now apply Permutation_length).
  split; [rewrite Hc, map_length; lia|].
  intros j st href Hj. destruct (Hinv j _ Hj) as [k [[I sr] [Hk [Hx Hcell]]]].
  injection Hcell as -> ->.
  assert (Hxin : In (I, sr) (suite_runs v S)).
  { apply (Permutation_in _ (Permutation_sym Hpirs)). eapply nth_error_In, Hx. }
  apply in_suite_runs in Hxin. destruct Hxin as [HI [Hsr HS]].
  assert (Hjl : (j < List.length vs)%nat).
  { assert (nth_error cells j <> None) by congruence. apply nth_error_Some in H0. lia. }
  destruct (nth_error vs j) as [J|] eqn:EJ; [|apply nth_error_None in EJ; lia].
  exists I, sr, J. repeat split; try assumption; try reflexivity.
  destruct (Z.le_gt_cases (si_time J) (si_time I)) as [Hle|Hgt]; [exact Hle|exfalso].
  assert (Hnew : (j < newer (map si_time vs) (si_time I))%nat).
  { apply (sorted_newer_nth (map si_time vs) (si_time I)) with (c := si_time J).
    - now apply ssorted_map.
    - now rewrite nth_error_map, EJ.
    - lia. }
  rewrite (newer_perm _ (map si_time v)) in Hnew by (apply Permutation_map, Permutation_sym, Hp).
  assert (Hge : (newer (map si_time v) (si_time I) <= j)%nat).
  { apply (place_ge_newer _ _ 0 k j (si_time I) Hk). now rewrite nth_error_map, Hx. }
  lia.
Qed.

(* ---- corollary: under the per-row guard the row is the specified one ---- *)

Section WalkGuarded.
  Variable X : Type.
  Variable colf : X -> rinv.
  Variable pick : X -> option run.
  Hypothesis pick_time : forall x r, pick x = Some r -> r_time r = ri_time (colf x).

  (* descending, and strictly so as soon as one of the two columns has a run *)
  Definition Rg (a c : X) : Prop :=
    (ri_time (colf c) <= ri_time (colf a))%Z /\
    ((pick a <> None \/ pick c <> None) -> (ri_time (colf c) < ri_time (colf a))%Z).

  Lemma walk_s_guarded b xs : StronglySorted Rg xs ->
    forall acc, walk_s b (map colf xs) (picked X pick xs) acc =
                RowOk (acc ++ trim_cells (map (cell_of X pick) xs)).
  Proof.
    induction 1 as [|x xs Hs IH Hall]; intros acc.
    - cbn. now rewrite app_nil_r.
    - cbn [map]. unfold picked. cbn [flat_map]. fold (picked X pick xs). unfold cell_of at 1.
      destruct (pick x) as [r|] eqn:Ep.
      + cbn [app walk_s]. rewrite (pick_time x r Ep), Z.ltb_irrefl.
        rewrite IH, <- app_assoc. cbn [app trim_cells]. reflexivity.
      + cbn [app]. destruct (picked X pick xs) as [|r rs] eqn:Epk.
        * cbn [walk_s]. rewrite trim_cells_all_none; [now rewrite app_nil_r|].
          intros c [<-|Hc]; [reflexivity|]. apply in_map_iff in Hc. destruct Hc as [y [<- Hy]].
          unfold cell_of. destruct (pick y) as [r|] eqn:Ey; [|reflexivity].
          exfalso. assert (Hin : In r (picked X pick xs)).
          { unfold picked. apply in_flat_map. exists y. split; [exact Hy|]. rewrite Ey. now left. }
          rewrite Epk in Hin. destruct Hin.
        * cbn [walk_s].
          assert (Hin : In r (picked X pick xs)) by (rewrite Epk; now left).
          apply picked_in in Hin. destruct Hin as [y [Hy Hpy]].
          rewrite Forall_forall in Hall. destruct (Hall y Hy) as [_ Hst].
          assert (Hlt : (ri_time (colf y) < ri_time (colf x))%Z) by (apply Hst; right; congruence).
          rewrite (pick_time y r Hpy). apply Z.ltb_lt in Hlt. rewrite Hlt.
          rewrite IH, <- app_assoc. cbn [app]. f_equal. f_equal.
          cbn [trim_cells]. destruct (trim_cells (map (cell_of X pick) xs)) eqn:Et; [|reflexivity].
          exfalso. eapply trim_cells_some; [|exact Et].
          apply in_map_iff. exists y. split; [|exact Hy]. unfold cell_of. now rewrite Hpy.
  Qed.

  Lemma picked_sorted_g xs : StronglySorted Rg xs ->
    StronglySorted (fun a b => (r_time b < r_time a)%Z) (picked X pick xs).
  Proof.
    induction 1 as [|x xs Hs IH Hall]; [constructor|].
    unfold picked. cbn [flat_map]. fold (picked X pick xs).
    destruct (pick x) as [r|] eqn:Ep; [|exact IH]. cbn [app]. constructor; [exact IH|].
    rewrite Forall_forall in *. intros r' Hr'. apply picked_in in Hr'. destruct Hr' as [y [Hy Hp]].
    rewrite (pick_time _ _ Ep), (pick_time _ _ Hp). destruct (Hall y Hy) as [_ Hst]. apply Hst. left. congruence.
  Qed.
End WalkGuarded.

Lemma pick_suite_ran S I : pick_suite S I <> None <-> ran_in S I.
Proof.
  rewrite <- spec_cell_ran. unfold pick_suite, spec_cell. destruct (find _ _); split; congruence.
Qed.

Lemma ssorted_guard S vs : NoDup vs -> StronglySorted time_ge vs ->
  (forall I J, In I vs -> In J vs -> ran_in S I -> si_time I = si_time J -> I = J) ->
  StronglySorted (Rg sinv rinv_of (pick_suite S)) vs.
Proof.
  intros Hnd Hs. induction Hs as [|x l Hs IH Hall]; intros Hg; [constructor|].
  inversion Hnd as [|? ? Hni Hnd']; subst. constructor.
  - apply IH; [exact Hnd'|]. intros I J HI HJ. apply Hg; now right.
  - rewrite Forall_forall in *. intros y Hy. specialize (Hall y Hy). unfold time_ge in Hall.
    split; [exact Hall|]. cbn [rinv_of ri_time]. intros Hran.
    destruct (Z.eq_dec (si_time x) (si_time y)) as [E|E]; [exfalso|lia].
    destruct Hran as [Hr|Hr]; apply pick_suite_ran in Hr.
    + assert (x = y) by (apply Hg; [now left|now right|exact Hr|exact E]). subst y. contradiction.
    + assert (y = x) by (apply Hg; [now right|now left|exact Hr|now symmetry]). subst y. contradiction.
Qed.

Lemma filter_find_once {A} (f : A -> bool) l : (List.length (filter f l) <= 1)%nat ->
  filter f l = match find f l with Some x => [x] | None => [] end.
Proof.
  induction l as [|x l IH]; intros H; [reflexivity|]. cbn in *. destruct (f x).
  - cbn in H. destruct (filter f l); [reflexivity|cbn in H; lia].
  - now apply IH.
Qed.

Lemma runs_for_picked_once S v : (forall I, In I v -> once S I) ->
  runs_for S (flat_map runs_of v) = picked sinv (pick_suite S) v.
Proof.
  intros H. rewrite runs_for_view. unfold picked.
  induction v as [|I v IH]; [reflexivity|]. cbn [flat_map]. rewrite IH.
  - f_equal. rewrite filter_find_once by (apply H; now left). unfold pick_suite.
    destruct (find _ _); reflexivity.
  - intros J HJ. apply H. now right.
Qed.

Lemma ssorted_lt_nodup_keys {A} (key : A -> Z) l :
  StronglySorted (fun a b => (key b < key a)%Z) l -> NoDup (map key l).
Proof.
  induction 1 as [|x l Hs IH Hall]; cbn; constructor; [|exact IH].
  intros Hin. apply in_map_iff in Hin. destruct Hin as [y [E Hy]].
  rewrite Forall_forall in Hall. specialize (Hall y Hy). lia.
Qed.

(* the row of a suite, under the per-row guard *)
Lemma row_of_suite_g q b v vs S :
  qsorts_ok q -> Permutation v vs -> StronglySorted time_ge vs -> NoDup v -> row_guard v S ->
  walk b (map rinv_of vs) 0 (qs_runs q (runs_for S (flat_map runs_of v))) [] = RowOk (spec_row vs S).
Proof.
  intros [_ [_ [Hq _]]] Hp Hs Hnd [Honce Hg].
  assert (Hsg : StronglySorted (Rg sinv rinv_of (pick_suite S)) vs).
  { apply ssorted_guard; [eapply Permutation_NoDup; eassumption|exact Hs|].
    intros I J HI HJ. apply Hg; eapply Permutation_in; try (apply Permutation_sym; exact Hp); assumption. }
  rewrite runs_for_picked_once by exact Honce.
  assert (Hpk : StronglySorted (fun a c => (r_time c < r_time a)%Z) (picked sinv (pick_suite S) vs)).
  { apply (picked_sorted_g sinv rinv_of (pick_suite S) (pick_suite_time S)). exact Hsg. }
  assert (Hruns : qs_runs q (picked sinv (pick_suite S) v) = picked sinv (pick_suite S) vs).
  { destruct (Hq (picked sinv (pick_suite S) v)) as [Hperm Hsorted].
    assert (Hpp : Permutation (qs_runs q (picked sinv (pick_suite S) v)) (picked sinv (pick_suite S) vs)).
    { eapply perm_trans; [apply Permutation_sym; exact Hperm|]. now apply picked_perm. }
    apply (ssorted_perm_unique run (fun a c => (r_time c < r_time a)%Z)).
    - intros a. lia.
    - intros a c d. lia.
    - apply (ssorted_strict r_time).
      + eapply ssorted_impl; [|exact Hsorted]. intros a c _ _ H. unfold run_le in H. now apply Z.leb_le.
      + eapply Permutation_NoDup; [apply Permutation_map, Permutation_sym; exact Hpp|].
        now apply ssorted_lt_nodup_keys.
    - exact Hpk.
    - exact Hpp. }
  rewrite Hruns, walk_eq. cbn [skipn].
  rewrite (walk_s_guarded sinv rinv_of (pick_suite S) (pick_suite_time S) b vs Hsg).
  cbn [app]. unfold spec_row. f_equal. f_equal. apply map_ext. intros I. apply cell_of_pick.
Qed.

Lemma row_guarded q inp pg : qsorts_ok q -> run_html q inp = Some pg ->
  exists v vs, page_of_view q inp pg v vs /\ NoDup (map sinv_dir v) /\
    forall S row, In (S, row) (p_rows pg) -> row_guard v S ->
      row = RowOk (spec_row vs S) /\ cells_correct vs S (spec_row vs S).
Proof.
  intros Hq H. destruct (page_shape q inp pg Hq H) as [v [vs [Hv [_ [Hp [Hs [Hc Hr]]]]]]].
  pose proof (run_html_dirs_nodup q inp pg v H Hv) as Hnd.
  exists v, vs. split; [repeat split; assumption|]. split; [exact Hnd|].
  intros S row Hin Hg. split; [|apply spec_row_correct].
  rewrite Hr in Hin. apply in_map_iff in Hin. destruct Hin as [s [He Hin]].
  rewrite render_suite_eq in He. injection He as <- <-.
  apply (Permutation_in _ (Permutation_sym (sort_suites_perm q _ Hq))) in Hin.
  destruct (suites_inv_all (flat_map runs_of v)) as [_ [Hel _]]. destruct (Hel s Hin) as [Hruns _].
  rewrite Hruns. apply row_of_suite_g; try assumption. eapply nodup_map_inv, Hnd.
Qed.

(* the global guards of the first version imply the per-row guard of every suite *)
Lemma global_guards_row v S : NoDup v -> distinct_times v -> one_run_per_suite v -> row_guard v S.
Proof.
  intros Hnd Hd Ho. split.
  - intros I HI. unfold once. specialize (Ho I HI).
    rewrite filter_find_nodup by exact Ho. destruct (find _ _); cbn; lia.
  - intros I J HI HJ _ Ht. unfold distinct_times in Hd. clear - Hd HI HJ Ht.
    induction v as [|x v IH]; [destruct HI|]. cbn in Hd. inversion Hd as [|? ? Hni Hd']; subst.
    destruct HI as [<-|HI]; destruct HJ as [<-|HJ]; try reflexivity.
    + exfalso. apply Hni. rewrite Ht. now apply in_map.
    + exfalso. apply Hni. rewrite <- Ht. now apply in_map.
    + now apply IH.
Qed.

(* ---- corollary: which column a run is shown under, when its suite is recorded
   at most once per invocation - for every input, every qsort ---- *)

Definition count_eq (t : Z) (ts : list Z) : nat := List.length (filter (Z.eqb t) ts).

Lemma count_eq_app t a b : count_eq t (a ++ b) = (count_eq t a + count_eq t b)%nat.
Proof. unfold count_eq. now rewrite filter_app, app_length. Qed.

Lemma count_eq_cons t x a :
  count_eq t (x :: a) = ((if (t =? x)%Z then 1 else 0) + count_eq t a)%nat.
Proof. unfold count_eq. cbn. destruct (t =? x)%Z; reflexivity. Qed.

Lemma count_eq_none t a : (forall x, In x a -> x <> t) -> count_eq t a = 0%nat.
Proof.
  unfold count_eq. induction a as [|x a IH]; intros H; [reflexivity|]. cbn.
  destruct (Z.eqb_spec t x) as [E|_]; [exfalso; apply (H x); [now left|now symmetry]|].
  apply IH. intros y Hy. apply H. now right.
Qed.

Lemma perm_filter_length {A} (f : A -> bool) a b :
  Permutation a b -> List.length (filter f a) = List.length (filter f b).
Proof.
  induction 1 as [|x a b _ IH|x y a|a b c _ IH1 _ IH2]; cbn.
  - reflexivity.
  - destruct (f x); cbn; now rewrite IH.
  - destruct (f x); destruct (f y); reflexivity.
  - now rewrite IH1.
Qed.

(* later columns: everything at least as new as t' is newer than an older t0 *)
Lemma newer_older cts t0 t' : (t0 < t')%Z -> (newer cts t' + count_eq t' cts <= newer cts t0)%nat.
Proof.
  intros Hlt. unfold newer, count_eq. induction cts as [|x cts IH]; cbn; [lia|].
  destruct (Z.ltb_spec t' x); destruct (Z.eqb_spec t' x); destruct (Z.ltb_spec t0 x); cbn; lia.
Qed.

(* where the walk stands after the runs [pre]: at the start, or one past the last of them *)
Definition place_state (cts pre : list Z) (next : nat) : Prop :=
  (pre = [] /\ next = 0%nat) \/
  (exists pre' t', pre = pre' ++ [t'] /\ next = S (newer cts t' + count_eq t' pre')).

Lemma place_head cts pre t0 ts next :
  StronglySorted (fun a b => (b <= a)%Z) (pre ++ t0 :: ts) ->
  (forall t, (count_eq t (pre ++ t0 :: ts) <= count_eq t cts)%nat) ->
  place_state cts pre next ->
  Nat.max (newer cts t0) next = (newer cts t0 + count_eq t0 pre)%nat.
Proof.
  intros Hs Hc [[-> ->]|[pre' [t' [-> ->]]]]; [cbn; lia|].
  rewrite <- app_assoc in Hs. cbn [app] in Hs.
  destruct (ssorted_app_inv _ _ _ _ Hs) as [Hbefore Hafter].
  assert (Hle : (t0 <= t')%Z) by (apply Hafter; now left).
  assert (E1 : forall a b, count_eq a [b] = if (a =? b)%Z then 1%nat else 0%nat).
  { intros a b. unfold count_eq. cbn. destruct (a =? b)%Z; reflexivity. }
  rewrite count_eq_app, E1.
  destruct (Z.eqb_spec t0 t') as [->|Hne]; [lia|].
  rewrite (count_eq_none t0 pre') by (intros x Hx; specialize (Hbefore x Hx); cbn in Hbefore; lia).
  assert (Hlt : (t0 < t')%Z) by lia.
  pose proof (newer_older cts t0 t' Hlt) as Hno. specialize (Hc t').
  rewrite !count_eq_app, E1, Z.eqb_refl in Hc. lia.
Qed.

Lemma place_ranks cts ts : forall pre next,
  StronglySorted (fun a b => (b <= a)%Z) (pre ++ ts) ->
  (forall t, (count_eq t (pre ++ ts) <= count_eq t cts)%nat) ->
  place_state cts pre next ->
  forall k t, nth_error ts k = Some t ->
    nth_error (place cts next ts) k = Some (newer cts t + count_eq t (pre ++ firstn k ts))%nat.
Proof.
  induction ts as [|t0 ts IH]; intros pre next Hs Hc Hst k t Hk; [destruct k; discriminate|].
  pose proof (place_head cts pre t0 ts next Hs Hc Hst) as Hp.
  cbn [place]. rewrite Hp. destruct k as [|k]; cbn [nth_error firstn] in *.
  - injection Hk as <-. now rewrite app_nil_r.
  - replace (pre ++ t0 :: firstn k ts) with ((pre ++ [t0]) ++ firstn k ts) by (now rewrite <- app_assoc).
    apply IH; [now rewrite <- app_assoc|intros t'; now rewrite <- app_assoc| |exact Hk].
    right. exists pre, t0. split; reflexivity.
Qed.

(* in a descending list: the position of an element, and what stands in a tie block *)
Lemma sorted_index cts : StronglySorted (fun a b => (b <= a)%Z) cts ->
  forall i t, nth_error cts i = Some t -> i = (newer cts t + count_eq t (firstn i cts))%nat.
Proof.
  induction 1 as [|x l Hs IH Hall]; intros i t Hi; [destruct i; discriminate|].
  rewrite Forall_forall in Hall. destruct i as [|i]; cbn [nth_error firstn] in *.
  - injection Hi as ->. unfold newer. cbn [filter]. rewrite Z.ltb_irrefl.
    fold (newer l t). rewrite (newer_none l t) by exact Hall. reflexivity.
  - pose proof (Hall t (nth_error_In _ _ Hi)) as Hle. specialize (IH i t Hi).
    unfold newer, count_eq in *. cbn [filter].
    destruct (Z.ltb_spec t x); destruct (Z.eqb_spec t x); cbn [List.length]; lia.
Qed.

Lemma sorted_block cts : StronglySorted (fun a b => (b <= a)%Z) cts ->
  forall t r, (r < count_eq t cts)%nat -> nth_error cts (newer cts t + r) = Some t.
Proof.
  induction 1 as [|x l Hs IH Hall]; intros t r Hr; [cbn in Hr; lia|].
  rewrite Forall_forall in Hall. unfold newer, count_eq in *. cbn [filter] in *.
  destruct (Z.ltb_spec t x) as [Hlt|Hge].
  - destruct (Z.eqb_spec t x) as [E|_]; [lia|]. cbn [List.length plus nth_error]. now apply IH.
  - fold (newer l t). rewrite (newer_none l t) by (intros y Hy; specialize (Hall y Hy); lia).
    destruct (Z.eqb_spec t x) as [->|Hne].
    + destruct r as [|r]; [reflexivity|]. cbn [List.length] in Hr. cbn [plus nth_error].
      specialize (IH x r ltac:(lia)). fold (newer l x) in IH.
      rewrite (newer_none l x) in IH by exact Hall. exact IH.
    + exfalso. fold (count_eq t l) in Hr. rewrite (count_eq_none t l) in Hr; [lia|].
      intros y Hy. specialize (Hall y Hy). lia.
Qed.

Lemma suite_runs_count S v t : (forall I, In I v -> once S I) ->
  (count_eq t (map irun_time (suite_runs v S)) <= count_eq t (map si_time v))%nat.
Proof.
  induction v as [|I v IH]; intros Ho; [cbn; lia|].
  unfold suite_runs. cbn [flat_map map]. fold (suite_runs v S). rewrite map_app, count_eq_app.
  specialize (IH (fun J HJ => Ho J (or_intror HJ))). specialize (Ho I (or_introl eq_refl)). unfold once in Ho.
  change (si_time I :: map si_time v) with ([si_time I] ++ map si_time v). rewrite count_eq_app.
  unfold irun in *.
  destruct (filter _ (si_runs I)) as [|a [|b l]]; cbn [List.length map] in Ho |- *; [change (count_eq t []) with 0%nat; lia| |lia].
  change (irun_time (I, a)) with (si_time I). lia.
Qed.

Lemma run_column q inp pg : qsorts_ok q -> run_html q inp = Some pg ->
  exists v vs, page_of_view q inp pg v vs /\
    forall S row, In (S, row) (p_rows pg) -> (forall I, In I v -> once S I) ->
      exists cells irs, row = RowOk cells /\ Permutation (suite_runs v S) irs /\
        forall k I sr, nth_error irs k = Some (I, sr) ->
          let t := si_time I in
          let rank_run := count_eq t (map irun_time (firstn k irs)) in
          let p := (newer (map si_time v) t + rank_run)%nat in
          (* the run is shown, at column index p *)
          nth_error cells p = Some (Some (irun_cell (I, sr))) /\
          (* that column belongs to an invocation with the same start time *)
          (exists J, nth_error vs p = Some J /\ si_time J = t) /\
          (* and it is the run's own column exactly when the ranks among the ties agree *)
          (forall i, nth_error vs i = Some I ->
             (i = p <-> count_eq t (map si_time (firstn i vs)) = rank_run)).
Proof.
  intros Hq H. destruct (row_unguarded q inp pg Hq H) as [v [vs [Hpv Hrows]]].
  exists v, vs. split; [exact Hpv|]. destruct Hpv as [Hv [Hp [Hs Hc]]].
  intros S row Hin Honce.
  destruct (Hrows S row Hin) as [cells [irs [-> [_ [Hpirs [Hsirs [Hlen [Hput _]]]]]]]].
  exists cells, irs. split; [reflexivity|]. split; [exact Hpirs|].
  intros k I sr Hk t rank_run p.
  assert (Hssv : StronglySorted (fun a b => (b <= a)%Z) (map si_time vs)) by (now apply ssorted_map).
  assert (Hpt : Permutation (map si_time v) (map si_time vs)) by (now apply Permutation_map).
  assert (Hcnt : forall t', (count_eq t' (map irun_time irs) <= count_eq t' (map si_time v))%nat).
  { intros t'. unfold count_eq at 1.
    rewrite <- (perm_filter_length _ _ _ (Permutation_map irun_time Hpirs)).
    now apply suite_runs_count. }
  assert (Hpk : nth_error (place (map si_time v) 0 (map irun_time irs)) k = Some p).
  { rewrite (place_ranks (map si_time v) (map irun_time irs) [] 0) with (t := t).
    - cbn [app]. now rewrite firstn_map.
    - cbn [app]. now apply ssorted_map.
    - exact Hcnt.
    - left. now split.
    - now rewrite nth_error_map, Hk. }
  assert (Hrank : (rank_run < count_eq t (map si_time vs))%nat).
  { assert (Hcv : count_eq t (map si_time vs) = count_eq t (map si_time v)).
    { unfold count_eq. symmetry. apply perm_filter_length, Hpt. }
    rewrite Hcv. eapply Nat.lt_le_trans; [|apply Hcnt]. unfold rank_run.
    destruct (nth_error_split irs k Hk) as [l1 [l2 [E Hl]]]. rewrite E, <- Hl.
    rewrite firstn_app, Nat.sub_diag, firstn_all, firstn_O, app_nil_r.
    rewrite map_app, count_eq_app. cbn [map]. rewrite count_eq_cons.
    change (irun_time (I, sr)) with t. rewrite Z.eqb_refl. lia. }
  assert (Hcol : nth_error (map si_time vs) p = Some t).
  { unfold p. rewrite (newer_perm _ _ t Hpt). now apply sorted_block. }
  rewrite nth_error_map in Hcol. destruct (nth_error vs p) as [J|] eqn:EJ; [|discriminate].
  injection Hcol as HJ.
  assert (Hpn : (p < List.length v)%nat).
  { rewrite (Permutation_length Hp). apply nth_error_Some. congruence. }
  split; [exact (Hput k p (I, sr) Hpk Hk Hpn)|]. split; [eauto|].
  intros i Hi.
  assert (Hidx : i = (newer (map si_time vs) t + count_eq t (firstn i (map si_time vs)))%nat).
  { apply sorted_index; [exact Hssv|]. now rewrite nth_error_map, Hi. }
  rewrite firstn_map in Hidx. unfold p. rewrite (newer_perm _ _ t Hpt). lia.
Qed.

(* ---- the column pointer: no read outside the vector, no row longer than the
   header - for every input and every qsort whatsoever ---- *)

Definition row_cells (r : rowres) : list cell := match r with RowOk c => c | RowOOB c => c end.

Lemma walk_s_width b rest : forall runs acc,
  (List.length (row_cells (walk_s b rest runs acc)) <= List.length acc + List.length rest)%nat.
Proof.
  induction rest as [|c rest IH]; intros runs acc; cbn [walk_s].
  - destruct runs; [cbn; lia|]. destruct b; cbn; lia.
  - destruct runs as [|r runs]; [cbn; lia|].
    destruct (r_time r <? ri_time c)%Z.
    + eapply Nat.le_trans; [apply IH|]. rewrite app_length. cbn. lia.
    + eapply Nat.le_trans; [apply IH|]. rewrite app_length. cbn. lia.
Qed.

Lemma no_oob_width q inp pg S row : run_html q inp = Some pg -> In (S, row) (p_rows pg) ->
  exists cells, row = RowOk cells /\ (List.length cells <= List.length (p_cols pg))%nat.
Proof.
  intros H Hin. unfold run_html in H. destruct inp as [|a inp]; [discriminate|].
  destruct (parse_all q (a :: inp) _) as [st|]; [|discriminate]. injection H as <-.
  unfold render in *. cbn [p_rows p_cols] in *. apply in_map_iff in Hin. destruct Hin as [s [He _]].
  rewrite render_suite_eq, walk_is_fixed, walk_eq in He. injection He as _ <-. cbn [skipn].
  destruct (walk_s_bounded (qs_invs q (st_invs st)) (qs_runs q (s_runs s)) []) as [cells E].
  exists cells. split; [exact E|].
  pose proof (walk_s_width true (qs_invs q (st_invs st)) (qs_runs q (s_runs s)) []) as Hw.
  rewrite E in Hw. cbn in Hw. now rewrite map_length.
Qed.

(* the bound of render_suite is the largest safe one: with one invocation, any
   end pointer that lets the loop look at index 1 reads outside the vector when
   a suite is recorded twice *)
Definition oob_col : rinv := mkrinv [97; 49]%N [100]%N 2000 100 DNone 2 0 false 0.
Definition oob_r1 : run := mkrun [108; 49]%N 2000 0 PASS.
Definition oob_r2 : run := mkrun [108; 50]%N 2000 0 PASS.

Lemma bound_is_tight wl : in_range (Some wl) 1 = true ->
  walk_ix (Some wl) [oob_col] 0 [oob_r1; oob_r2] [] = RowOOB [Some (PASS, [108; 49]%N)].
Proof.
  intros H1.
  assert (H0 : in_range (Some wl) 0 = true).
  { unfold in_range in *. destruct (wl_strict wl).
    - apply Z.ltb_lt in H1. apply Z.ltb_lt. lia.
    - apply Z.leb_le in H1. apply Z.leb_le. lia. }
  assert (He : at_end (Some wl) 0 = false).
  { unfold in_range, at_end in *. destruct (wl_strict wl); destruct (wl_break_eq wl).
    - apply Z.ltb_lt in H1. apply Z.eqb_neq. lia.
    - apply Z.ltb_lt in H1. apply Z.leb_gt. lia.
    - apply Z.leb_le in H1. apply Z.eqb_neq. lia.
    - apply Z.leb_le in H1. apply Z.leb_gt. lia. }
  cbn [walk_ix skipn skip_ix]. rewrite H0. cbn [r_time ri_time oob_r1 oob_col]. rewrite Z.ltb_irrefl.
  rewrite He. cbn [skipn skip_ix]. rewrite H1. reflexivity.
Qed.

(* ... while the limit the source has excludes index n = VECTOR_LENGTH for every vector *)
Lemma source_limit_exact cols :
  in_range (walk_limit cols) (List.length cols) = false.
Proof.
  unfold walk_limit. rewrite walk_is_fixed. unfold in_range. cbn [wl_strict wl_end].
  destruct walk_params_sane as [Hb|[He Hs]]; [rewrite walk_is_fixed in Hb; discriminate|].
  rewrite He, Hs, Z.add_0_r. apply Z.ltb_irrefl.
Qed.

(* ---- the pass rate, for all counts ---- *)

Lemma si_fail_le I : (si_fail I <= si_total I)%nat.
Proof.
  unfold si_fail, si_total. induction (si_runs I) as [|x l IH]; cbn; [lia|].
  destruct (status_failure (srun_status x)); cbn; lia.
Qed.

Lemma spec_rate_facts total fail :
  spec_rate 0 fail = 0%Z /\
  ((fail <= total)%nat -> (0 <= spec_rate total fail <= 100)%Z) /\
  ((0 < total)%nat -> spec_rate total 0 = 100%Z) /\
  ((0 < total)%nat -> (fail <= total)%nat -> (spec_rate total fail = 100%Z <-> fail = 0%nat)).
Proof.
  split; [reflexivity|]. unfold spec_rate.
  destruct total as [|n]; cbn [Nat.eqb].
  { split; [lia|]. split; lia. }
  assert (Hpos : (0 < Z.of_nat (S n))%Z) by lia.
  split; [|split].
  - intros Hf. split.
    + apply Z.div_pos; lia.
    + apply Z.div_le_upper_bound; lia.
  - intros _. rewrite Z.sub_0_r. apply Z.div_mul. lia.
  - intros _ Hf. split.
    + intros E. destruct fail as [|f]; [reflexivity|exfalso].
      assert (Hlt : (100 * (Z.of_nat (S n) - Z.of_nat (S f)) / Z.of_nat (S n) < 100)%Z).
      { apply Z.div_lt_upper_bound; lia. }
      lia.
    + intros ->. rewrite Z.sub_0_r. apply Z.div_mul. lia.
Qed.
