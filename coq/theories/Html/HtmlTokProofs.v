(* HtmlTokProofs.v - the tokenizer of HtmlParse.v reads back what html.c writes.

   [Emits b ts]: from a state between tags in which only white space is pending,
   the bytes b produce exactly the tokens ts and leave such a state again.
   Proved for the writer's primitives (open_bytes, close_bytes, white space, a
   text followed by an end tag, the duration line with its span) and, by
   induction over the document, for [emit d n] of every well-formed document
   ([wfdoc]: names [a-z0-9]+, keys distinct, values without a double quote, texts
   non-empty without a less-than sign and without white space at either end). *)
From Robsd Require Export Html.HtmlParse.
From Robsd Require Import Base.DecimalProofs.
Local Open Scope N_scope.

(* ---- predicates on bytes ---- *)

Definition no_lt (s : bytes) : Prop := forallb (fun x => negb (x =? 60)) s = true.
Definition wsb (s : bytes) : Prop := forallb is_ws s = true.
Definition nameb (s : bytes) : Prop := forallb name_char s = true.
Definition attr_ok (s : bytes) : Prop := attr_okb s = true.
Definition tag_ok (t : bytes) : Prop := t <> [] /\ nameb t.

Lemma forallb_rev {A} (f : A -> bool) l : forallb f (rev l) = forallb f l.
Proof.
  induction l as [|x l IH]; [reflexivity|]. cbn [rev forallb]. rewrite forallb_app, IH. cbn.
  rewrite andb_true_r. apply andb_comm.
Qed.

Lemma name_char_ge c : name_char c = true -> 48 <= c.
Proof.
  unfold name_char. rewrite orb_true_iff, !andb_true_iff, !N.leb_le. lia.
Qed.

Lemma name_char_neq c k : name_char c = true -> k < 48 -> (c =? k) = false.
Proof. intros H Hk. apply name_char_ge in H. apply N.eqb_neq. lia. Qed.

Lemma name_char_not c : name_char c = true ->
  (c =? 47) = false /\ (c =? 33) = false /\ (c =? 32) = false /\ (c =? 34) = false /\
  (c =? 60) = false /\ (c =? 61) = false /\ (c =? 62) = false.
Proof.
  intros H. repeat split; try (apply name_char_neq; [exact H|lia]).
  all: apply N.eqb_neq; intros ->; discriminate H.
Qed.

Lemma is_ws_not_lt c : is_ws c = true -> (c =? 60) = false.
Proof.
  unfold is_ws. rewrite !orb_true_iff, !N.eqb_eq. intros H. apply N.eqb_neq. lia.
Qed.

Lemma wsb_no_lt s : wsb s -> no_lt s.
Proof.
  unfold wsb, no_lt. rewrite !forallb_forall. intros H x Hx. now rewrite (is_ws_not_lt x (H x Hx)).
Qed.

Lemma wsb_app a b : wsb a -> wsb b -> wsb (a ++ b).
Proof. unfold wsb. intros Ha Hb. now rewrite forallb_app, Ha, Hb. Qed.

Lemma no_lt_app a b : no_lt a -> no_lt b -> no_lt (a ++ b).
Proof. unfold no_lt. intros Ha Hb. now rewrite forallb_app, Ha, Hb. Qed.

Lemma wsb_indent d : wsb (indent d).
Proof. unfold wsb, indent. induction (2 * d)%nat as [|n IH]; [reflexivity|]. cbn. exact IH. Qed.

(* ---- trimming ---- *)

Lemma ltrim_ws a s : wsb a -> ltrim (a ++ s) = ltrim s.
Proof.
  unfold wsb. induction a as [|c a IH]; intros H; [reflexivity|]. cbn in H. apply andb_true_iff in H.
  destruct H as [Hc Ha]. cbn. rewrite Hc. now apply IH.
Qed.

Lemma ltrim_keep c s : is_ws c = false -> ltrim (c :: s) = c :: s.
Proof. intros H. cbn. now rewrite H. Qed.

Lemma trim_ws a : wsb a -> trim a = [].
Proof.
  intros H. unfold trim. rewrite <- (app_nil_r a), (ltrim_ws a [] H). reflexivity.
Qed.

(* what text_okb says *)
Lemma text_okb_inv s : text_okb s = true ->
  exists c r e r', s = c :: r /\ rev s = e :: r' /\ is_ws c = false /\ is_ws e = false /\ no_lt s.
Proof.
  unfold text_okb. destruct s as [|c r]; [discriminate|]. destruct (rev (c :: r)) as [|e r'] eqn:E; [discriminate|].
  rewrite !andb_true_iff, !negb_true_iff. intros [[Hc He] Hn]. exists c, r, e, r'. repeat split; assumption.
Qed.

Lemma trim_pad a s b : wsb a -> wsb b -> text_okb s = true -> trim (a ++ s ++ b) = s.
Proof.
  intros Ha Hb Hs. destruct (text_okb_inv s Hs) as [c [r [e [r' [E1 [E2 [Hc [He _]]]]]]]].
  unfold trim. rewrite (ltrim_ws a _ Ha). rewrite E1. cbn [app]. rewrite (ltrim_keep c _ Hc).
  change (c :: r ++ b) with ((c :: r) ++ b). rewrite <- E1, rev_app_distr.
  rewrite (ltrim_ws (rev b)) by (unfold wsb; now rewrite forallb_rev).
  rewrite E2, (ltrim_keep e _ He), <- E2. apply rev_involutive.
Qed.

Lemma flush_ws acc T : wsb acc -> flush_text acc T = T.
Proof.
  intros H. unfold flush_text. rewrite trim_ws; [reflexivity|]. unfold wsb. now rewrite forallb_rev.
Qed.

(* the tokens of a run of character data *)
Definition text_toks (a : bytes) : list token := match trim a with [] => [] | t => [TText t] end.

Lemma flush_toks acc T : flush_text acc T = rev (text_toks (rev acc)) ++ T.
Proof. unfold flush_text, text_toks. destruct (trim (rev acc)); reflexivity. Qed.

(* ---- runs of the automaton ---- *)

Lemma fold_trun st l : fold_left tstep l st = trun st l.
Proof. reflexivity. Qed.

Lemma trun_app st a b : trun st (a ++ b) = trun (trun st a) b.
Proof. apply fold_left_app. Qed.

Lemma trun_data T d : forall acc, no_lt d -> trun (T, MText acc) d = (T, MText (rev d ++ acc)).
Proof.
  unfold no_lt. induction d as [|c d IH]; intros acc H; [reflexivity|]. cbn in H. apply andb_true_iff in H.
  destruct H as [Hc Hd]. apply negb_true_iff in Hc. cbn [trun fold_left tstep]. rewrite Hc.
  rewrite fold_trun.
  rewrite (IH _ Hd). cbn [rev]. now rewrite <- app_assoc.
Qed.

Lemma trun_name T n : forall acc, nameb n -> trun (T, MName acc) n = (T, MName (rev n ++ acc)).
Proof.
  unfold nameb. induction n as [|c n IH]; intros acc H; [reflexivity|]. cbn in H. apply andb_true_iff in H.
  destruct H as [Hc Hn]. cbn [trun fold_left tstep]. rewrite Hc.
  rewrite fold_trun.
  rewrite (IH _ Hn). cbn [rev]. now rewrite <- app_assoc.
Qed.

Lemma trun_cname T n : forall acc, nameb n -> trun (T, MClose acc) n = (T, MClose (rev n ++ acc)).
Proof.
  unfold nameb. induction n as [|c n IH]; intros acc H; [reflexivity|]. cbn in H. apply andb_true_iff in H.
  destruct H as [Hc Hn]. cbn [trun fold_left tstep]. rewrite Hc.
  rewrite fold_trun.
  rewrite (IH _ Hn). cbn [rev]. now rewrite <- app_assoc.
Qed.

Lemma trun_key T nm a k : forall acc, nameb k -> trun (T, MKey nm a acc) k = (T, MKey nm a (rev k ++ acc)).
Proof.
  unfold nameb. induction k as [|c k IH]; intros acc H; [reflexivity|]. cbn in H. apply andb_true_iff in H.
  destruct H as [Hc Hk]. cbn [trun fold_left tstep]. rewrite Hc.
  rewrite fold_trun.
  rewrite (IH _ Hk). cbn [rev]. now rewrite <- app_assoc.
Qed.

Lemma trun_val T nm a k v : forall acc, attr_ok v -> trun (T, MVal nm a k acc) v = (T, MVal nm a k (rev v ++ acc)).
Proof.
  unfold attr_ok, attr_okb. induction v as [|c v IH]; intros acc H; [reflexivity|]. cbn in H. apply andb_true_iff in H.
  destruct H as [Hc Hv]. apply negb_true_iff in Hc. cbn [trun fold_left tstep]. rewrite Hc.
  rewrite fold_trun.
  rewrite (IH _ Hv). cbn [rev]. now rewrite <- app_assoc.
Qed.

(* attributes: every key is a name, differs from the keys before it; no value holds a double quote *)
Fixpoint attrs_okp (done : attrs) (a : attrs) : Prop :=
  match a with
  | [] => True
  | (k, v) :: r => tag_ok k /\ attr_ok v /\ has_key k done = false /\ attrs_okp ((k, v) :: done) r
  end.
Definition attrs_ok (a : attrs) : Prop := attrs_okp [] a.

Lemma rev_nonnil {A} (l : list A) : l <> [] -> rev l <> [].
Proof. destruct l as [|x l]; [congruence|]. intros _ E. apply (f_equal (@List.length A)) in E. cbn in E. rewrite app_length in E. cbn in E. lia. Qed.

(* one attribute, read from the state after a value (or after the name: see trun_open) *)
Lemma trun_attr T nm done k v : tag_ok k -> attr_ok v -> has_key k done = false ->
  trun (T, MKey nm done []) (k ++ [61; 34] ++ v ++ [34]) = (T, MAttrs nm ((k, v) :: done)).
Proof.
  intros [Hk0 Hk] Hv Hd. rewrite trun_app, (trun_key T nm done k [] Hk), app_nil_r.
  cbn [app trun fold_left tstep].
  assert (Hr : rev k <> []) by (now apply rev_nonnil).
  destruct (rev k) as [|x r] eqn:Er; [congruence|].
  assert (H61 : name_char 61 = false) by reflexivity. rewrite H61. cbn [N.eqb Pos.eqb].
  rewrite <- Er, rev_involutive, Hd.
  cbn [tstep N.eqb Pos.eqb].
  rewrite fold_trun.
  rewrite trun_app, (trun_val T nm done k v [] Hv), app_nil_r. cbn [trun fold_left tstep N.eqb Pos.eqb].
  now rewrite rev_involutive.
Qed.

Lemma trun_blank T nm done : trun (T, MAttrs nm done) [32] = (T, MKey nm done []).
Proof. reflexivity. Qed.

Lemma trun_attrs T nm : forall a done, attrs_okp done a ->
  trun (T, MAttrs nm done) (flat_map attr_bytes a) = (T, MAttrs nm (rev a ++ done)).
Proof.
  induction a as [|[k v] a IH]; intros done H; [reflexivity|]. cbn [attrs_okp] in H.
  destruct H as [Hk [Hv [Hd Hr]]]. cbn [flat_map]. rewrite trun_app. unfold attr_bytes at 1. cbn [fst snd].
  change (32 :: k ++ [61; 34] ++ v ++ [34]) with ([32] ++ (k ++ [61; 34] ++ v ++ [34])).
  rewrite trun_app, trun_blank.
  rewrite (trun_attr T nm done k v Hk Hv Hd), (IH _ Hr). cbn [rev]. now rewrite <- app_assoc.
Qed.

(* a start tag, whatever character data is pending *)
Lemma trun_open T acc tag a : tag_ok tag -> attrs_ok a ->
  trun (T, MText acc) (open_bytes tag a) = (TOpen tag a :: flush_text acc T, MText []).
Proof.
  intros [Ht0 Ht] Ha. unfold open_bytes. destruct tag as [|c n]; [congruence|].
  unfold nameb in Ht. cbn [forallb] in Ht. apply andb_true_iff in Ht. destruct Ht as [Hc Hn].
  destruct (name_char_not c Hc) as [H47 [H33 _]].
  cbn [app trun fold_left tstep N.eqb Pos.eqb]. rewrite H47, H33, Hc.
  rewrite fold_trun.
  rewrite trun_app, (trun_name _ n [c] Hn).
  change (rev n ++ [c]) with (rev (c :: n)).
  destruct a as [|[k v] a].
  - cbn [flat_map app trun fold_left tstep]. assert (H : name_char 62 = false) by reflexivity. rewrite H.
    cbn [N.eqb Pos.eqb]. now rewrite rev_involutive.
  - cbn [flat_map]. unfold attr_bytes at 1. cbn [fst snd]. rewrite <- app_assoc. cbn [app trun fold_left tstep].
    assert (H : name_char 32 = false) by reflexivity. rewrite H. cbn [N.eqb Pos.eqb]. rewrite rev_involutive.
    (* the same state as after a blank that follows a value *)
    rewrite fold_trun.
    unfold attrs_ok in Ha. cbn [attrs_okp] in Ha. destruct Ha as [Hk [Hv [Hd Hr]]].
    rewrite trun_app, (trun_attr _ (c :: n) [] k v Hk Hv Hd), trun_app, (trun_attrs _ (c :: n) a _ Hr).
    cbn [trun fold_left tstep N.eqb Pos.eqb]. rewrite rev_app_distr, rev_involutive. reflexivity.
Qed.

(* an end tag *)
Lemma trun_close T acc tag : tag_ok tag ->
  trun (T, MText acc) (close_bytes tag) = (TClose tag :: flush_text acc T, MText []).
Proof.
  intros [Ht0 Ht]. unfold close_bytes. cbn [trun fold_left tstep N.eqb Pos.eqb].
  rewrite fold_trun.
  rewrite trun_app, (trun_cname _ tag [] Ht), app_nil_r. cbn [trun fold_left tstep].
  assert (H : name_char 62 = false) by reflexivity. rewrite H. cbn [N.eqb Pos.eqb].
  destruct (rev tag) as [|x r] eqn:Er; [exfalso; now apply (rev_nonnil tag Ht0)|].
  now rewrite <- Er, rev_involutive.
Qed.

(* ---- blocks ---- *)

Definition Emits (b : bytes) (ts : list token) : Prop :=
  forall T acc, wsb acc -> exists acc', wsb acc' /\ trun (T, MText acc) b = (rev ts ++ T, MText acc').

Lemma Emits_nil : Emits [] [].
Proof. intros T acc H. exists acc. split; [exact H|reflexivity]. Qed.

Lemma Emits_ws b : wsb b -> Emits b [].
Proof.
  intros Hb T acc H. exists (rev b ++ acc). split.
  - apply wsb_app; [unfold wsb; now rewrite forallb_rev|exact H].
  - now rewrite (trun_data T b acc (wsb_no_lt b Hb)).
Qed.

Lemma Emits_app b1 t1 b2 t2 : Emits b1 t1 -> Emits b2 t2 -> Emits (b1 ++ b2) (t1 ++ t2).
Proof.
  intros H1 H2 T acc H. destruct (H1 T acc H) as [a1 [Ha1 E1]]. destruct (H2 (rev t1 ++ T) a1 Ha1) as [a2 [Ha2 E2]].
  exists a2. split; [exact Ha2|]. now rewrite trun_app, E1, E2, rev_app_distr, <- app_assoc.
Qed.

Lemma Emits_open tag a : tag_ok tag -> attrs_ok a -> Emits (open_bytes tag a) [TOpen tag a].
Proof.
  intros Ht Ha T acc H. exists []. split; [reflexivity|]. now rewrite (trun_open T acc tag a Ht Ha), (flush_ws acc T H).
Qed.

Lemma Emits_close tag : tag_ok tag -> Emits (close_bytes tag) [TClose tag].
Proof.
  intros Ht T acc H. exists []. split; [reflexivity|]. now rewrite (trun_close T acc tag Ht), (flush_ws acc T H).
Qed.

(* a text between white space, then an end tag *)
Lemma Emits_text_close w1 s w2 tag : wsb w1 -> wsb w2 -> text_okb s = true -> tag_ok tag ->
  Emits (w1 ++ s ++ w2 ++ close_bytes tag) [TText s; TClose tag].
Proof.
  intros H1 H2 Hs Ht T acc H. exists []. split; [reflexivity|].
  destruct (text_okb_inv s Hs) as [_ [_ [_ [_ [_ [_ [_ [_ Hn]]]]]]]].
  rewrite !app_assoc, trun_app, <- !app_assoc.
  rewrite (trun_data T (w1 ++ s ++ w2) acc) by (apply no_lt_app; [now apply wsb_no_lt|apply no_lt_app; [exact Hn|now apply wsb_no_lt]]).
  rewrite (trun_close T _ tag Ht). unfold flush_text.
  rewrite rev_app_distr, rev_involutive.
  replace (rev acc ++ w1 ++ s ++ w2) with ((rev acc ++ w1) ++ s ++ w2) by (now rewrite <- app_assoc).
  rewrite trim_pad; [|apply wsb_app; [unfold wsb; now rewrite forallb_rev|exact H1]|exact H2|exact Hs].
  destruct s; [discriminate|reflexivity].
Qed.

(* render_duration's line: text, <span>, the arrow (or nothing), </span>, then the end tag of the cell *)
Lemma Emits_span_close w1 s a w2 tag : wsb w1 -> wsb w2 -> text_okb s = true -> no_lt a -> tag_ok tag ->
  Emits (w1 ++ s ++ open_bytes t_span [] ++ a ++ close_bytes t_span ++ w2 ++ close_bytes tag)
        ([TText s; TOpen t_span []] ++ text_toks a ++ [TClose t_span; TClose tag]).
Proof.
  intros H1 H2 Hs Ha Ht T acc H. exists []. split; [reflexivity|].
  destruct (text_okb_inv s Hs) as [_ [_ [_ [_ [_ [_ [_ [_ Hn]]]]]]]].
  assert (Hspan : tag_ok t_span) by (split; [discriminate|reflexivity]).
  replace (w1 ++ s ++ open_bytes t_span [] ++ a ++ close_bytes t_span ++ w2 ++ close_bytes tag)
    with ((w1 ++ s) ++ open_bytes t_span [] ++ a ++ close_bytes t_span ++ w2 ++ close_bytes tag)
    by (now rewrite <- app_assoc).
  rewrite trun_app, (trun_data T (w1 ++ s) acc) by (apply no_lt_app; [now apply wsb_no_lt|exact Hn]).
  rewrite trun_app, (trun_open T _ t_span [] Hspan I).
  rewrite trun_app, (trun_data _ a [] Ha), app_nil_r.
  rewrite trun_app, (trun_close _ (rev a) t_span Hspan).
  rewrite trun_app, (trun_data _ w2 [] (wsb_no_lt w2 H2)), app_nil_r.
  rewrite (trun_close _ (rev w2) tag Ht).
  rewrite (flush_ws (rev w2)) by (unfold wsb; now rewrite forallb_rev).
  rewrite (flush_toks (rev a)), rev_involutive.
  unfold flush_text at 1. rewrite rev_app_distr, rev_involutive.
  replace (rev acc ++ w1 ++ s) with ((rev acc ++ w1) ++ s ++ []) by (now rewrite app_nil_r, <- app_assoc).
  rewrite trim_pad; [|apply wsb_app; [unfold wsb; now rewrite forallb_rev|exact H1]|reflexivity|exact Hs].
  destruct s as [|c s]; [discriminate|].
  rewrite !rev_app_distr. cbn [rev app]. rewrite <- !app_assoc. reflexivity.
Qed.

(* ---- documents ---- *)

Inductive wfdoc : hnode -> Prop :=
| wf_node tag a kids : tag_ok tag -> is_void tag = false -> attrs_ok a -> Forall wfdoc kids -> wfdoc (Node tag a kids)
| wf_leaf tag a s : tag_ok tag -> is_void tag = false -> attrs_ok a -> text_okb s = true -> wfdoc (Leaf tag a s)
| wf_span tag a s x : tag_ok tag -> is_void tag = false -> attrs_ok a -> text_okb s = true -> no_lt x ->
    wfdoc (LeafSpan tag a s x).

(* what a reader sees *)
Definition text_nodes (a : bytes) : list pnode := match trim a with [] => [] | t => [PT t] end.

Fixpoint tree_of (n : hnode) : pnode :=
  match n with
  | Node tag a kids => PE tag a (map tree_of kids)
  | Leaf tag a s => PE tag a [PT s]
  | LeafSpan tag a s x => PE tag a [PT s; PE t_span [] (text_nodes x)]
  end.

Fixpoint ptoks (n : pnode) : list token :=
  match n with
  | PT s => [TText s]
  | PE tag a kids => if is_void tag then [TOpen tag a]
                     else TOpen tag a :: flat_map ptoks kids ++ [TClose tag]
  end.

Lemma hnode_ind' (P : hnode -> Prop)
  (HN : forall tag a kids, Forall P kids -> P (Node tag a kids))
  (HL : forall tag a s, P (Leaf tag a s))
  (HS : forall tag a s x, P (LeafSpan tag a s x)) : forall n, P n.
Proof.
  fix IH 1. intros [tag a kids|tag a s|tag a s x]; [|apply HL|apply HS].
  apply HN. induction kids as [|k kids IHk]; constructor; [apply IH|exact IHk].
Qed.

Lemma text_toks_nodes x : flat_map ptoks (text_nodes x) = text_toks x.
Proof. unfold text_nodes, text_toks. destruct (trim x); reflexivity. Qed.

Lemma Emits_emit n : wfdoc n -> forall d, Emits (emit d n) (ptoks (tree_of n)).
Proof.
  induction n as [tag a kids IH|tag a s|tag a s x] using hnode_ind'; intros Hw d;
    inversion Hw as [? ? ? Ht Hv Ha Hkids|? ? ? Ht Hv Ha Hs|? ? ? ? Ht Hv Ha Hs Hx]; subst.
  - cbn [emit tree_of ptoks]. rewrite Hv.
    assert (Hk : forall d, Emits (flat_map (emit d) kids) (flat_map ptoks (map tree_of kids))).
    { intros d'. clear - IH Hkids. induction kids as [|k kids IHk]; [apply Emits_nil|].
      inversion IH as [|? ? IH1 IH2]; subst. inversion Hkids as [|? ? Hk1 Hk2]; subst. cbn [flat_map map].
      apply Emits_app; [now apply IH1|now apply IHk]. }
    unfold node_enter, node_leave.
    change (TOpen tag a :: flat_map ptoks (map tree_of kids) ++ [TClose tag])
      with (([] ++ [TOpen tag a] ++ []) ++ flat_map ptoks (map tree_of kids) ++ ([] ++ [TClose tag] ++ [])).
    apply Emits_app; [|apply Emits_app; [apply Hk|]].
    + apply Emits_app; [apply Emits_ws, wsb_indent|apply Emits_app; [now apply Emits_open|now apply Emits_ws]].
    + apply Emits_app; [apply Emits_ws, wsb_indent|apply Emits_app; [now apply Emits_close|now apply Emits_ws]].
  - cbn [emit tree_of ptoks flat_map]. rewrite Hv. unfold node_enter, node_leave, text_line.
    replace ((indent d ++ open_bytes tag a ++ [10]) ++ (indent (S d) ++ s ++ [10]) ++ indent d ++ close_bytes tag ++ [10])
      with (indent d ++ open_bytes tag a ++ (([10] ++ indent (S d)) ++ s ++ ([10] ++ indent d) ++ close_bytes tag) ++ [10])
      by (rewrite <- !app_assoc; reflexivity).
    change (TOpen tag a :: ([TText s] ++ []) ++ [TClose tag])
      with ([] ++ [TOpen tag a] ++ [TText s; TClose tag] ++ []).
    apply Emits_app; [apply Emits_ws, wsb_indent|]. apply Emits_app; [now apply Emits_open|].
    apply Emits_app; [|now apply Emits_ws].
    apply Emits_text_close; try assumption.
    + apply wsb_app; [reflexivity|apply wsb_indent].
    + apply wsb_app; [reflexivity|apply wsb_indent].
  - cbn [emit tree_of ptoks flat_map]. rewrite Hv. unfold node_enter, node_leave, text_line.
    assert (Hvs : is_void t_span = false) by reflexivity. rewrite Hvs.
    replace ((indent d ++ open_bytes tag a ++ [10]) ++
             (indent (S d) ++ (s ++ open_bytes t_span [] ++ x ++ close_bytes t_span) ++ [10]) ++
             indent d ++ close_bytes tag ++ [10])
      with (indent d ++ open_bytes tag a ++
            (([10] ++ indent (S d)) ++ s ++ open_bytes t_span [] ++ x ++ close_bytes t_span ++
             ([10] ++ indent d) ++ close_bytes tag) ++ [10])
      by (rewrite <- !app_assoc; reflexivity).
    rewrite text_toks_nodes.
    replace (TOpen tag a :: ([TText s] ++ (TOpen t_span [] :: text_toks x ++ [TClose t_span]) ++ []) ++ [TClose tag])
      with ([] ++ [TOpen tag a] ++ ([TText s; TOpen t_span []] ++ text_toks x ++ [TClose t_span; TClose tag]) ++ [])
      by (cbn [app]; rewrite ?app_nil_r, <- ?app_assoc; reflexivity).
    apply Emits_app; [apply Emits_ws, wsb_indent|]. apply Emits_app; [now apply Emits_open|].
    apply Emits_app; [|now apply Emits_ws].
    apply Emits_span_close; try assumption.
    + apply wsb_app; [reflexivity|apply wsb_indent].
    + apply wsb_app; [reflexivity|apply wsb_indent].
Qed.
