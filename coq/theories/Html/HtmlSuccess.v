(* HtmlSuccess.v - when robsd-regress-html succeeds, and what the links lead to.

   run_html q inp = None (exit 1) exactly when the command line names nothing,
   or some invocation is invalid (view = None), or the output directory of an
   invocation cannot be created because its path - or the path of its diff
   directory - exists already among what the invocations before it wrote
   ([collision], stated on the view).  For arch and directory names without '/'
   that is: two invocations share arch/date.

   The file a run's link names holds the extraction of that run's log, provided
   every creation of that path writes that content (the program never
   overwrites: the first creation of a path decides). *)
From Robsd Require Export Html.HtmlProofs.
From RobsdGen Require Import Gen_Html.
From Coq Require Import Sorting.Permutation.
Local Open Scope N_scope.

(* ---- paths of the output tree ---- *)

Lemma tree_has_in t p : tree_has t p = true <-> In p (map fst t).
Proof.
  unfold tree_has. rewrite existsb_exists. split.
  - intros [x [Hx He]]. apply beq_eq in He. subst p. now apply in_map.
  - intros H. apply in_map_iff in H. destruct H as [x [<- Hx]]. exists x. split; [exact Hx|apply beq_refl].
Qed.

Lemma tree_has_add t e p : tree_has (tree_add t e) p = tree_has t p || beq (fst e) p.
Proof.
  unfold tree_add. destruct (tree_has t (fst e)) eqn:E.
  - destruct (beq_spec (fst e) p) as [<-|_]; [now rewrite E|now rewrite orb_false_r].
  - unfold tree_has. rewrite existsb_app. cbn. now rewrite orb_false_r.
Qed.

Lemma tree_has_fold ops : forall t p,
  tree_has (fold_left tree_add ops t) p = tree_has t p || existsb (fun e => beq (fst e) p) ops.
Proof.
  induction ops as [|e ops IH]; intros t p; cbn [fold_left existsb]; [now rewrite orb_false_r|].
  now rewrite IH, tree_has_add, orb_assoc.
Qed.

Lemma pjoin_assoc a b c : pjoin (pjoin a b) c = pjoin a (pjoin b c).
Proof. unfold pjoin. now rewrite <- app_assoc. Qed.

Lemma beq_prefix_false a x r : beq a (a ++ x :: r) = false.
Proof.
  destruct (beq_spec a (a ++ x :: r)) as [E|_]; [|reflexivity].
  apply (f_equal (@List.length N)) in E. rewrite app_length in E. cbn in E. lia.
Qed.

Lemma beq_pjoin_self a b : beq a (pjoin a b) = false.
Proof. apply beq_prefix_false. Qed.

Lemma beq_pjoin_r d a b : beq (pjoin d a) (pjoin d b) = beq a b.
Proof.
  destruct (beq_spec a b) as [->|Hne]; [apply beq_refl|].
  destruct (beq_spec (pjoin d a) (pjoin d b)) as [E|_]; [|reflexivity].
  unfold pjoin in E. apply app_inv_head in E. injection E as E. contradiction.
Qed.

(* ---- one invocation ---- *)

Definition inv_fits (t : tree) (I : sinv) : bool :=
  negb (tree_has t (sinv_dir I)) && negb (tree_has t (pjoin (sinv_dir I) name_diff)).

Lemma sinv_of_names arch prev e I : sinv_of arch prev e = Some I ->
  si_arch I = arch /\ si_date I = e_name e.
Proof.
  unfold sinv_of. destruct (e_step e) as [c|]; [|discriminate].
  destruct (parse_file c) as [[|f rows]|]; try discriminate.
  destruct (find_by_name _ _); [|discriminate]. destruct (all_some _); [|discriminate].
  intros H. injection H as <-. split; reflexivity.
Qed.

Lemma rows_loop_complete dir time e rows : forall acc t srs,
  all_some (map (srun_of e) (filter is_suite_row rows)) = Some srs ->
  exists res t', rows_loop dir time e rows acc t = Some (res, t').
Proof.
  induction rows as [|r rows IH]; intros acc t srs H; [cbn; eauto|].
  cbn [rows_loop]. cbn [filter] in H. unfold is_suite_row at 1 in H.
  destruct (is_regress_step (str_field r f_name)); cbn [negb].
  - cbn [map all_some] in H. unfold srun_of at 1 in H.
    destruct (lookup_log e (str_field r f_log)) as [| |c]; try discriminate.
    destruct (all_some _) as [srs'|] eqn:E; [|discriminate]. eapply IH. reflexivity.
  - eapply IH. exact H.
Qed.

Lemma names_differ :
  beq name_dmesg name_diff = false /\ beq name_comment name_diff = false.
Proof. split; reflexivity. Qed.

Lemma parse_invocation_complete arch prev e st I :
  sinv_of arch prev e = Some I -> inv_fits (st_tree st) I = true ->
  exists st', parse_invocation arch prev e st = Some (st', si_seconds I).
Proof.
  intros HI Hf. pose proof (sinv_of_names _ _ _ _ HI) as [Ea Ed].
  unfold inv_fits, sinv_dir in Hf. rewrite Ea, Ed in Hf. apply andb_true_iff in Hf as [Hf1 Hf2].
  apply negb_true_iff in Hf1, Hf2.
  unfold sinv_of in HI. unfold parse_invocation.
  destruct (e_step e) as [c|]; [|discriminate].
  destruct (parse_file c) as [[|f rows]|]; try discriminate.
  destruct (find_by_name (f :: rows) name_end) as [last|]; [|discriminate].
  destruct (all_some _) as [srs|] eqn:Ea'; [|discriminate]. injection HI as <-. cbn [si_seconds].
  set (dir := pjoin arch (e_name e)) in *.
  unfold mkdir_x at 1. rewrite mkdir_p_add, tree_has_add, Hf1. cbn [fst orb].
  unfold dir at 1. rewrite beq_pjoin_self.
  set (t2 := tree_add (st_tree st) (arch, None) ++ [(dir, None)]).
  assert (H2 : tree_has t2 (pjoin dir name_diff) = false).
  { unfold t2, tree_has. rewrite existsb_app. fold (tree_has (tree_add (st_tree st) (arch, None)) (pjoin dir name_diff)).
    rewrite tree_has_add, Hf2. cbn [fst existsb orb]. rewrite (beq_pjoin_self dir). unfold dir.
    rewrite pjoin_assoc, beq_pjoin_self. reflexivity. }
  destruct names_differ as [N1 N2].
  assert (H4 : forall t3, tree_has t3 (pjoin dir name_diff) = false ->
             tree_has (match assoc name_comment (all_files e) with
                       | Some c0 => write_log t3 (pjoin dir name_comment) c0 | None => t3 end)
                      (pjoin dir name_diff) = false).
  { intros t3 H3. destruct (assoc name_comment (all_files e)); [|exact H3].
    rewrite write_log_add, tree_has_add, H3. cbn [fst orb]. now rewrite beq_pjoin_r. }
  assert (H3 : tree_has (match assoc name_dmesg (all_files e) with
                         | Some c0 => write_log t2 (pjoin dir name_dmesg) c0 | None => t2 end)
                        (pjoin dir name_diff) = false).
  { destruct (assoc name_dmesg (all_files e)); [|exact H2].
    rewrite write_log_add, tree_has_add, H2. cbn [fst orb]. now rewrite beq_pjoin_r. }
  unfold mkdir_x. rewrite (H4 _ H3).
  fold is_suite_row in Ea'.
  match goal with |- context [rows_loop ?d ?tm e ?rw [] ?t6] =>
    destruct (rows_loop_complete d tm e rw [] t6 srs Ea') as [res [t7 ER]]; rewrite ER end.
  eexists. reflexivity.
Qed.

Lemma parse_invocation_fits arch prev e st st' d I :
  parse_invocation arch prev e st = Some (st', d) -> sinv_of arch prev e = Some I ->
  inv_fits (st_tree st) I = true.
Proof.
  intros H HI. pose proof (sinv_of_names _ _ _ _ HI) as [Ea Ed].
  unfold inv_fits, sinv_dir. rewrite Ea, Ed. clear HI Ea Ed.
  unfold parse_invocation in H.
  destruct (e_step e) as [c|]; [|discriminate].
  destruct (parse_file c) as [[|f rows]|]; try discriminate.
  destruct (find_by_name (f :: rows) name_end) as [last|]; [|discriminate].
  set (dir := pjoin arch (e_name e)) in *.
  unfold mkdir_x at 1 in H. rewrite mkdir_p_add, tree_has_add in H.
  destruct (tree_has (st_tree st) dir) eqn:E1; [discriminate|]. cbn [orb fst] in H.
  destruct (beq arch dir); [discriminate|].
  set (t2 := tree_add (st_tree st) (arch, None) ++ [(dir, None)]) in *.
  match type of H with context [mkdir_x ?t4 ?p] => destruct (mkdir_x t4 p) as [t5|] eqn:E5; [|discriminate] end.
  clear H. unfold mkdir_x in E5.
  match type of E5 with context [tree_has ?t4 ?p] => destruct (tree_has t4 p) eqn:E4; [discriminate|] end.
  clear E5. cbn [negb andb]. apply negb_true_iff.
  assert (Hmono : forall t3 p c0, tree_has (write_log t3 p c0) (pjoin dir name_diff) = false ->
                                  tree_has t3 (pjoin dir name_diff) = false).
  { intros t3 p c0 Hh. rewrite write_log_add, tree_has_add in Hh. now apply orb_false_iff in Hh as [Hh _]. }
  assert (H2 : tree_has t2 (pjoin dir name_diff) = false).
  { destruct (assoc name_comment (all_files e)); [apply Hmono in E4|];
    (destruct (assoc name_dmesg (all_files e)); [apply Hmono in E4|]); exact E4. }
  unfold t2, tree_has in H2. rewrite existsb_app in H2. apply orb_false_iff in H2 as [H2 _].
  fold (tree_has (tree_add (st_tree st) (arch, None)) (pjoin dir name_diff)) in H2.
  rewrite tree_has_add in H2. now apply orb_false_iff in H2 as [H2 _].
Qed.

(* ---- the whole command line ---- *)

(* the invocations of [v] fit below an output directory that contains [t] *)
Fixpoint fits (t : tree) (v : list sinv) : bool :=
  match v with
  | [] => true
  | J :: v' => inv_fits t J && fits (fold_left tree_add (spec_tree_inv J) t) v'
  end.

Lemma fits_app l : forall t r,
  fits t (l ++ r) = fits t l && fits (fold_left tree_add (flat_map spec_tree_inv l) t) r.
Proof.
  induction l as [|I l IH]; intros t r; cbn [app fits flat_map fold_left]; [reflexivity|].
  now rewrite IH, fold_left_app, andb_assoc.
Qed.

Lemma arch_loop_fits arch es : forall prev st st',
  arch_loop arch prev es st = Some st' ->
  exists v, view_arch arch prev es = Some v /\ fits (st_tree st) v = true.
Proof.
  induction es as [|e es IH]; intros prev st st' H.
  - exists []. split; reflexivity.
  - cbn [arch_loop] in H.
    destruct (parse_invocation arch prev e st) as [[st1 d]|] eqn:EP; [|discriminate].
    pose proof (parse_invocation_view _ _ _ _ _ _ EP) as [I [HI [Hd _]]].
    pose proof (parse_invocation_tree _ _ _ _ _ _ EP) as [I' [HI' Ht]].
    assert (I' = I) by congruence. subst I' d.
    pose proof (parse_invocation_fits _ _ _ _ _ _ _ EP HI) as Hf.
    apply IH in H. destruct H as [v [Hv Hfv]].
    exists (I :: v). cbn [view_arch]. rewrite HI, Hv. split; [reflexivity|].
    cbn [fits]. now rewrite Hf, <- Ht.
Qed.

Lemma arch_loop_complete arch es : forall prev st v,
  view_arch arch prev es = Some v -> fits (st_tree st) v = true ->
  exists st', arch_loop arch prev es st = Some st'.
Proof.
  induction es as [|e es IH]; intros prev st v Hv Hf; [cbn; eauto|].
  cbn [view_arch] in Hv. destruct (sinv_of arch prev e) as [I|] eqn:HI; [|discriminate].
  destruct (view_arch arch (Some (si_seconds I)) es) as [v'|] eqn:Hv'; [|discriminate].
  injection Hv as <-. cbn [fits] in Hf. apply andb_true_iff in Hf as [Hf1 Hf2].
  destruct (parse_invocation_complete arch prev e st I HI Hf1) as [st1 EP].
  cbn [arch_loop]. rewrite EP.
  pose proof (parse_invocation_tree _ _ _ _ _ _ EP) as [I' [HI' Ht]].
  assert (I' = I) by congruence. subst I'.
  apply (IH (Some (si_seconds I)) st1 v' Hv'). now rewrite Ht.
Qed.

Lemma parse_all_fits q inp : forall st st',
  parse_all q inp st = Some st' ->
  exists v, view (walk_dirs q) inp = Some v /\ fits (st_tree st) v = true.
Proof.
  induction inp as [|a inp IH]; intros st st' H.
  - exists []. split; reflexivity.
  - cbn [parse_all] in H. destruct (arch_loop _ _ _ _) as [st1|] eqn:EA; [|discriminate].
    pose proof (arch_loop_fits _ _ _ _ _ EA) as [v1 [Hv1 Hf1]].
    pose proof (arch_loop_tree _ _ _ _ _ EA) as [v1' [Hv1' Ht1]].
    assert (v1' = v1) by congruence. subst v1'.
    apply IH in H. destruct H as [v2 [Hv2 Hf2]].
    exists (v1 ++ v2). cbn [view]. rewrite Hv1, Hv2. split; [reflexivity|].
    now rewrite fits_app, Hf1, <- Ht1.
Qed.

Lemma parse_all_complete q inp : forall st v,
  view (walk_dirs q) inp = Some v -> fits (st_tree st) v = true ->
  exists st', parse_all q inp st = Some st'.
Proof.
  induction inp as [|a inp IH]; intros st v Hv Hf; [cbn; eauto|].
  cbn [view] in Hv. destruct (view_arch _ _ _) as [v1|] eqn:Hv1; [|discriminate].
  destruct (view (walk_dirs q) inp) as [v2|] eqn:Hv2; [|discriminate]. injection Hv as <-.
  rewrite fits_app in Hf. apply andb_true_iff in Hf as [Hf1 Hf2].
  destruct (arch_loop_complete _ _ _ _ _ Hv1 Hf1) as [st1 EA].
  cbn [parse_all]. rewrite EA.
  pose proof (arch_loop_tree _ _ _ _ _ EA) as [v1' [Hv1' Ht1]].
  assert (v1' = v1) by congruence. subst v1'.
  apply (IH st1 v2 eq_refl). now rewrite Ht1.
Qed.

(* success, for every qsort whatsoever *)
Lemma run_html_success q inp :
  (exists pg, run_html q inp = Some pg) <->
  inp <> [] /\ exists v, view (walk_dirs q) inp = Some v /\ fits [] v = true.
Proof.
  unfold run_html. split.
  - intros [pg H]. destruct inp as [|a inp]; [discriminate|]. split; [discriminate|].
    destruct (parse_all q (a :: inp) _) as [st|] eqn:EP; [|discriminate].
    exact (parse_all_fits _ _ _ _ EP).
  - intros [Hne [v [Hv Hf]]]. destruct inp as [|a inp]; [congruence|].
    destruct (parse_all_complete q (a :: inp) (mkstate [] [] []) v Hv Hf) as [st EP]. rewrite EP. eauto.
Qed.

(* ---- [fits] without the fold: a collision, stated on the view ---- *)

Definition inv_paths (v : list sinv) : list bytes := map fst (flat_map spec_tree_inv v).

Definition collision (v : list sinv) : Prop :=
  exists v1 I v2, v = v1 ++ I :: v2 /\
    (In (sinv_dir I) (inv_paths v1) \/ In (pjoin (sinv_dir I) name_diff) (inv_paths v1)).

Lemma existsb_path (ops : tree) p : existsb (fun e => beq (fst e) p) ops = true <-> In p (map fst ops).
Proof. exact (tree_has_in ops p). Qed.

Lemma fits_false v : forall t,
  fits t v = false <->
  exists v1 I v2, v = v1 ++ I :: v2 /\
    (In (sinv_dir I) (map fst t ++ inv_paths v1) \/
     In (pjoin (sinv_dir I) name_diff) (map fst t ++ inv_paths v1)).
Proof.
  induction v as [|I v IH]; intros t; cbn [fits].
  - split; [discriminate|]. intros [v1 [J [v2 [E _]]]]. destruct v1; discriminate.
  - rewrite andb_false_iff, IH. unfold inv_fits. rewrite andb_false_iff, !negb_false_iff, !tree_has_in. split.
    + intros [[H|H]|[v1 [J [v2 [E H]]]]].
      * exists [], I, v. split; [reflexivity|]. left. unfold inv_paths. cbn. now rewrite app_nil_r.
      * exists [], I, v. split; [reflexivity|]. right. unfold inv_paths. cbn. now rewrite app_nil_r.
      * exists (I :: v1), J, v2. split; [now rewrite E|].
        assert (Hp : forall p, In p (map fst (fold_left tree_add (spec_tree_inv I) t) ++ inv_paths v1) ->
                               In p (map fst t ++ inv_paths (I :: v1))).
        { intros p Hp. apply in_app_or in Hp as [Hp|Hp].
          - apply tree_has_in in Hp. rewrite tree_has_fold in Hp. apply orb_true_iff in Hp as [Hp|Hp].
            + apply in_or_app. left. now apply tree_has_in.
            + apply in_or_app. right. unfold inv_paths. cbn [flat_map]. rewrite map_app. apply in_or_app. left.
              now apply existsb_path.
          - apply in_or_app. right. unfold inv_paths. cbn [flat_map]. rewrite map_app. apply in_or_app. now right. }
        destruct H as [H|H]; [left|right]; now apply Hp.
    + intros [v1 [J [v2 [E H]]]]. destruct v1 as [|I' v1]; cbn [app] in E; injection E as <- ->.
      * left. unfold inv_paths in H. cbn in H. rewrite !app_nil_r in H. tauto.
      * right. exists v1, J, v2. split; [reflexivity|].
        assert (Hp : forall p, In p (map fst t ++ inv_paths (I :: v1)) ->
                               In p (map fst (fold_left tree_add (spec_tree_inv I) t) ++ inv_paths v1)).
        { intros p Hp. unfold inv_paths in Hp. cbn [flat_map] in Hp. rewrite map_app in Hp.
          apply in_app_or in Hp as [Hp|Hp]; [|apply in_app_or in Hp as [Hp|Hp]].
          - apply in_or_app. left. apply tree_has_in. rewrite tree_has_fold. apply orb_true_iff. left.
            now apply tree_has_in.
          - apply in_or_app. left. apply tree_has_in. rewrite tree_has_fold. apply orb_true_iff. right.
            now apply existsb_path.
          - apply in_or_app. now right. }
        destruct H as [H|H]; [left|right]; now apply Hp.
Qed.

Lemma fits_collision v : fits [] v = false <-> collision v.
Proof. rewrite fits_false. unfold collision. cbn [map app]. reflexivity. Qed.

(* exit 1, exactly *)
Lemma run_html_none q inp :
  run_html q inp = None <->
  inp = [] \/ view (walk_dirs q) inp = None \/
  exists v, view (walk_dirs q) inp = Some v /\ collision v.
Proof.
  split.
  - intros H. destruct inp as [|a inp]; [now left|]. right.
    destruct (view (walk_dirs q) (a :: inp)) as [v|] eqn:Hv; [|now left]. right.
    exists v. split; [reflexivity|]. apply fits_collision.
    destruct (fits [] v) eqn:Hf; [|reflexivity]. exfalso.
    assert (Hs : exists pg, run_html q (a :: inp) = Some pg).
    { apply run_html_success. split; [discriminate|]. eauto. }
    destruct Hs as [pg Hs]. congruence.
  - intros H. destruct (run_html q inp) as [pg|] eqn:E; [|reflexivity]. exfalso.
    assert (Hs : exists pg, run_html q inp = Some pg) by eauto.
    apply run_html_success in Hs. destruct Hs as [Hne [v [Hv Hf]]].
    destruct H as [H|[H|[v' [Hv' Hc]]]]; [contradiction|congruence|].
    assert (v' = v) by congruence. subst v'. apply fits_collision in Hc. congruence.
Qed.

(* ---- a page means pairwise different arch/date directories ---- *)

Lemma spec_tree_inv_dir I : In (sinv_dir I) (map fst (spec_tree_inv I)).
Proof. unfold spec_tree_inv. cbn. right. now left. Qed.

Lemma fits_nodup v : forall t, fits t v = true ->
  NoDup (map sinv_dir v) /\ forall I, In I v -> ~ In (sinv_dir I) (map fst t).
Proof.
  induction v as [|I v IH]; intros t H; cbn [fits map] in *.
  - split; [constructor|intros ? []].
  - apply andb_true_iff in H as [H1 H2]. unfold inv_fits in H1. apply andb_true_iff in H1 as [H1 _].
    apply negb_true_iff in H1. destruct (IH _ H2) as [Hnd Hni].
    assert (Hsub : forall p, In p (map fst t) \/ p = sinv_dir I ->
                             In p (map fst (fold_left tree_add (spec_tree_inv I) t))).
    { intros p Hp. apply tree_has_in. rewrite tree_has_fold. apply orb_true_iff.
      destruct Hp as [Hp| ->]; [left; now apply tree_has_in|right; apply existsb_path, spec_tree_inv_dir]. }
    split.
    + constructor; [|exact Hnd]. intros Hin. apply in_map_iff in Hin. destruct Hin as [J [E HJ]].
      apply (Hni J HJ). apply Hsub. now right.
    + intros J [<-|HJ] Hin.
      * apply tree_has_in in Hin. congruence.
      * apply (Hni J HJ). apply Hsub. now left.
Qed.

Lemma run_html_dirs_nodup q inp pg v :
  run_html q inp = Some pg -> view (walk_dirs q) inp = Some v -> NoDup (map sinv_dir v).
Proof.
  intros H Hv. assert (Hs : exists pg, run_html q inp = Some pg) by eauto.
  apply run_html_success in Hs. destruct Hs as [_ [v' [Hv' Hf]]].
  assert (v' = v) by congruence. subst v'. exact (proj1 (fits_nodup v [] Hf)).
Qed.

Lemma nodup_map_inv {A B} (f : A -> B) l : NoDup (map f l) -> NoDup l.
Proof.
  induction l as [|x l IH]; intros H; [constructor|]. cbn in H. inversion H; subst.
  constructor; [|now apply IH]. intros Hin. apply H2. now apply in_map.
Qed.

(* ---- names without '/': a collision is a repeated arch/date ---- *)

Definition noslash (s : bytes) : Prop := ~ In SLASH s.
Definition plain (I : sinv) : Prop := noslash (si_arch I) /\ noslash (si_date I).

Lemma split_slash a : forall a' b b', noslash a -> noslash a' ->
  a ++ SLASH :: b = a' ++ SLASH :: b' -> a = a' /\ b = b'.
Proof.
  induction a as [|x a IH]; intros [|x' a'] b b' Ha Ha' E; cbn in E.
  - injection E as ->. now split.
  - injection E as <- _. exfalso. apply Ha'. now left.
  - injection E as -> _. exfalso. apply Ha. now left.
  - injection E as -> E. destruct (IH a' b b') as [-> ->]; try assumption; try (now split).
    + intros H. apply Ha. now right.
    + intros H. apply Ha'. now right.
Qed.

(* a path written for invocation J *)
Definition under (J : sinv) (p : bytes) : Prop :=
  p = si_arch J \/ p = sinv_dir J \/ exists x, p = pjoin (sinv_dir J) x.

Lemma spec_tree_inv_under J p : In p (map fst (spec_tree_inv J)) -> under J p.
Proof.
  unfold spec_tree_inv, under. intros H. rewrite !map_app in H. cbn [map fst app] in H.
  destruct H as [<-|[<-|H]]; [now left|right; now left|]. right. right.
  apply in_app_or in H as [H|H]; [|apply in_app_or in H as [H|H]; [|destruct H as [<-|H];
    [|apply in_app_or in H as [H|H]]]].
  - destruct (si_dmesg J); cbn in H; [destruct H as [<-|[]]; eauto|destruct H].
  - destruct (si_comment J); cbn in H; [destruct H as [<-|[]]; eauto|destruct H].
  - eauto.
  - rewrite map_map in H. apply in_map_iff in H. destruct H as [f [<- _]]. cbn [fst].
    rewrite pjoin_assoc. eauto.
  - rewrite map_map in H. apply in_map_iff in H. destruct H as [sr [<- _]]. cbn [fst]. eauto.
Qed.

Lemma under_dir I J : plain I -> plain J -> under J (sinv_dir I) -> sinv_dir I = sinv_dir J.
Proof.
  intros [Ha Hd] [Ha' Hd'] [H|[H|[x H]]]; unfold sinv_dir, pjoin in *.
  - exfalso. apply Ha'. rewrite <- H. apply in_or_app. right. now left.
  - exact H.
  - rewrite <- app_assoc in H. cbn [app] in H.
    apply split_slash in H as [_ H]; try assumption. exfalso. apply Hd. rewrite H.
    apply in_or_app. right. now left.
Qed.

Lemma under_sub I J y : plain I -> plain J -> under J (pjoin (sinv_dir I) y) -> sinv_dir I = sinv_dir J.
Proof.
  intros [Ha Hd] [Ha' Hd'] [H|[H|[x H]]]; unfold sinv_dir, pjoin in *.
  - exfalso. apply Ha'. rewrite <- H, <- app_assoc. apply in_or_app. right. now left.
  - rewrite <- app_assoc in H. cbn [app] in H.
    apply split_slash in H as [_ H]; try assumption. exfalso. apply Hd'. rewrite <- H.
    apply in_or_app. right. now left.
  - rewrite <- !app_assoc in H. cbn [app] in H.
    apply split_slash in H as [-> H]; try assumption.
    apply split_slash in H as [-> _]; try assumption. reflexivity.
Qed.

Lemma collision_plain v : (forall I, In I v -> plain I) -> collision v -> ~ NoDup (map sinv_dir v).
Proof.
  intros Hpl [v1 [I [v2 [-> H]]]] Hnd.
  rewrite map_app in Hnd. cbn [map] in Hnd. apply NoDup_remove_2 in Hnd. apply Hnd.
  apply in_or_app. left.
  assert (HI : plain I) by (apply Hpl, in_or_app; right; now left).
  assert (Hd : exists J, In J v1 /\ sinv_dir I = sinv_dir J).
  { destruct H as [H|H]; unfold inv_paths in H; apply in_map_iff in H; destruct H as [[p c] [Ep Hin]];
      cbn [fst] in Ep; subst p; apply in_flat_map in Hin; destruct Hin as [J [HJ Hin]];
      exists J; (split; [exact HJ|]);
      assert (HJp : plain J) by (apply Hpl, in_or_app; now left);
      apply (in_map fst) in Hin; cbn [fst] in Hin; apply spec_tree_inv_under in Hin.
    - now apply under_dir.
    - now apply (under_sub I J name_diff). }
  destruct Hd as [J [HJ ->]]. now apply in_map.
Qed.

Lemma nodupb_NoDup l : nodupb l = true <-> NoDup l.
Proof.
  induction l as [|x l IH]; cbn; [split; [constructor|reflexivity]|].
  rewrite andb_true_iff, negb_true_iff, IH. split.
  - intros [Hx Hnd]. constructor; [|exact Hnd]. intros Hin. apply existsb_beq_In in Hin. congruence.
  - intros H. inversion H; subst. split; [|assumption].
    destruct (existsb (beq x) l) eqn:E; [|reflexivity]. apply existsb_beq_In in E. contradiction.
Qed.

(* for plain names: a page exactly when the input is valid and no arch/date repeats *)
Lemma fits_plain v : (forall I, In I v -> plain I) -> (fits [] v = true <-> NoDup (map sinv_dir v)).
Proof.
  intros Hpl. split; [intros H; exact (proj1 (fits_nodup v [] H))|].
  intros Hnd. destruct (fits [] v) eqn:E; [reflexivity|]. exfalso.
  apply fits_collision in E. exact (collision_plain v Hpl E Hnd).
Qed.

Lemma page_iff_plain q inp :
  (forall pg v, run_html q inp = Some pg -> view (walk_dirs q) inp = Some v -> NoDup (map sinv_dir v)) /\
  (forall v, view (walk_dirs q) inp = Some v -> (forall I, In I v -> plain I) ->
     ((exists pg, run_html q inp = Some pg) <-> inp <> [] /\ NoDup (map sinv_dir v))).
Proof.
  split; [intros pg v; apply run_html_dirs_nodup|].
  intros v Hv Hpl. rewrite run_html_success. split.
  - intros [Hne [v' [Hv' Hf]]]. assert (v' = v) by congruence. subst v'.
    split; [exact Hne|]. now apply fits_plain.
  - intros [Hne Hnd]. split; [exact Hne|]. exists v. split; [exact Hv|]. now apply fits_plain.
Qed.

(* ---- what a run's link leads to ---- *)

Lemma first_wins_sub ops : forall seen e, In e (first_wins seen ops) -> In e ops.
Proof.
  induction ops as [|[p c] ops IH]; intros seen e H; [destruct H|]. cbn [first_wins] in H.
  destruct (existsb (beq p) seen); [right; now apply (IH seen)|].
  destruct H as [<-|H]; [now left|right; now apply (IH (p :: seen))].
Qed.

Lemma first_wins_seen ops : forall seen p c, In (p, c) (first_wins seen ops) -> existsb (beq p) seen = false.
Proof.
  induction ops as [|[p0 c0] ops IH]; intros seen p c H; [destruct H|]. cbn [first_wins] in H.
  destruct (existsb (beq p0) seen) eqn:E; [now apply (IH seen p c)|].
  destruct H as [H|H]; [injection H as <- <-; exact E|].
  apply IH in H. cbn [existsb] in H. now apply orb_false_iff in H as [_ H].
Qed.

Lemma first_wins_nodup ops : forall seen, NoDup (map fst (first_wins seen ops)).
Proof.
  induction ops as [|[p c] ops IH]; intros seen; cbn [first_wins]; [constructor|].
  destruct (existsb (beq p) seen); [apply IH|]. cbn [map fst]. constructor; [|apply IH].
  intros Hin. apply in_map_iff in Hin. destruct Hin as [[p' c'] [Ep Hin]]. cbn [fst] in Ep. subst p'.
  apply first_wins_seen in Hin. cbn [existsb] in Hin. now rewrite beq_refl in Hin.
Qed.

Lemma tree_lookup_in t : forall p c, NoDup (map fst t) -> In (p, c) t -> tree_lookup t p = Some c.
Proof.
  induction t as [|[p0 c0] t IH]; intros p c Hnd Hin; [destruct Hin|]. cbn [tree_lookup].
  cbn [map fst] in Hnd. inversion Hnd as [|? ? Hni Hnd']; subst.
  destruct Hin as [E|Hin].
  - injection E as -> ->. now rewrite beq_refl.
  - destruct (beq_spec p0 p) as [->|_]; [|now apply IH].
    exfalso. apply Hni. apply (in_map fst) in Hin. exact Hin.
Qed.

Lemma link_target q inp pg : run_html q inp = Some pg ->
  exists v, view (walk_dirs q) inp = Some v /\ NoDup (map fst (p_tree pg)) /\
    forall I sr, In I v -> In sr (si_runs I) ->
      let href := pjoin (pjoin (si_arch I) (si_date I)) (sr_log sr) in
      let copy := spec_extract (spec_status (sr_exit sr) (sr_content sr)) (sr_content sr) in
      (forall c, In (href, c) (flat_map spec_tree_inv v) -> c = Some copy) ->
      tree_lookup (p_tree pg) href = Some (Some copy).
Proof.
  intros H. destruct (page_tree q inp pg H) as [v [Hv Ht]]. exists v. split; [exact Hv|].
  assert (Hnd : NoDup (map fst (p_tree pg))) by (rewrite Ht; apply first_wins_nodup).
  split; [exact Hnd|]. intros I sr HI Hsr href copy Hall.
  destruct (links_exist q inp pg H) as [v' [Hv' Hl]]. assert (v' = v) by congruence. subst v'.
  destruct (Hl I sr HI Hsr) as [c Hc]. fold href in Hc.
  apply tree_lookup_in; [exact Hnd|]. rewrite (Hall c) in Hc; [exact Hc|].
  rewrite Ht in Hc. unfold spec_tree in Hc. now apply first_wins_sub in Hc.
Qed.
