(* HtmlPageProofs.v - reading index.html back gives the matrix the theorems of
   property C14 talk about.

     build_forest        build (tokens of a forest) = that forest          (every forest
                         whose void elements have no children)
     page_tokens         tokenize (page_bytes pg) = <!doctype> :: tokens of page_ptree pg
                         (page_safe pg)
     matrix_of_page      matrix_of [page_ptree pg] = (p_cols pg, map orow_of (p_rows pg))
                         (every page)
     index_roundtrip     parse_index (page_bytes pg) = POk (p_cols pg) (map orow_of (p_rows pg))
                         for page_safe pg: dates, arch names and suite names non-empty,
                         without a less-than sign and without white space at either end;
                         no double quote in a link
     view_page_safe      page_safe holds for the model's page when the arch, directory,
                         suite and log names of the view are such names
     index_unsafe_witness   a suite named a<b>/c: the guard fails and so does the reader. *)
From Robsd Require Export Html.HtmlRow Html.HtmlTokProofs.
From Robsd Require Import Base.DecimalProofs.
From Coq Require Import Sorting.Permutation.
Local Open Scope N_scope.

(* ---- the builder ---- *)

Inductive wfp : pnode -> Prop :=
| wfp_t s : wfp (PT s)
| wfp_void tag a : is_void tag = true -> wfp (PE tag a [])
| wfp_e tag a kids : is_void tag = false -> Forall wfp kids -> wfp (PE tag a kids).

Lemma pnode_ind' (P : pnode -> Prop)
  (HE : forall tag a kids, Forall P kids -> P (PE tag a kids))
  (HT : forall s, P (PT s)) : forall n, P n.
Proof.
  fix IH 1. intros [tag a kids|s]; [|apply HT].
  apply HE. induction kids as [|k kids IHk]; constructor; [apply IH|exact IHk].
Qed.

Definition step_node (n : pnode) (ts : list pnode * list frame) : list pnode * list frame :=
  add_node n (fst ts) (snd ts).

Lemma build_pair r p : (let '(top', st') := p in build r top' st') = build r (fst p) (snd p).
Proof. now destruct p. Qed.

Lemma build_node n : wfp n -> forall r top st,
  build (ptoks n ++ r) top st = build r (fst (add_node n top st)) (snd (add_node n top st)).
Proof.
  induction n as [tag a kids IH|s] using pnode_ind'; intros Hw r top st.
  - inversion Hw as [|? ? Hv|? ? ? Hv Hk]; subst.
    + cbn [ptoks]. rewrite Hv. cbn [app build]. rewrite Hv. apply build_pair.
    + cbn [ptoks]. rewrite Hv. cbn [app build]. rewrite Hv.
      assert (Hkids : forall ks done r', Forall wfp ks -> Forall (fun n => wfp n -> forall r top st,
                        build (ptoks n ++ r) top st = build r (fst (add_node n top st)) (snd (add_node n top st))) ks ->
                build (flat_map ptoks ks ++ r') top ((tag, a, done) :: st) =
                build r' top ((tag, a, rev ks ++ done) :: st)).
      { induction ks as [|k ks IHk]; intros done r' Hwk Hih; [reflexivity|].
        inversion Hwk as [|? ? Hw1 Hw2]; subst. inversion Hih as [|? ? Hi1 Hi2]; subst.
        cbn [flat_map]. rewrite <- app_assoc, (Hi1 Hw1). cbn [add_node fst snd].
        rewrite (IHk _ _ Hw2 Hi2). cbn [rev]. now rewrite <- app_assoc. }
      rewrite <- app_assoc, (Hkids kids [] _ Hk IH), app_nil_r. cbn [app build].
      rewrite beq_refl, Hv. cbn [negb andb]. rewrite rev_involutive. apply build_pair.
  - cbn [ptoks app build]. apply build_pair.
Qed.

Lemma build_forest f : Forall wfp f -> forall top, build (flat_map ptoks f) top [] = Some (rev top ++ f).
Proof.
  induction f as [|n f IH]; intros Hw top.
  - cbn. now rewrite app_nil_r.
  - inversion Hw as [|? ? H1 H2]; subst. cbn [flat_map]. rewrite (build_node n H1). cbn [add_node fst snd].
    rewrite (IH H2). cbn [rev]. now rewrite <- app_assoc.
Qed.

Lemma wfp_tree n : wfdoc n -> wfp (tree_of n).
Proof.
  induction n as [tag a kids IH|tag a s|tag a s x] using hnode_ind'; intros Hw;
    inversion Hw as [? ? ? Ht Hv Ha Hkids|? ? ? Ht Hv Ha Hs|? ? ? ? Ht Hv Ha Hs Hx]; subst; cbn [tree_of].
  - apply wfp_e; [exact Hv|]. clear - IH Hkids. induction kids as [|k kids IHk]; [constructor|].
    inversion IH as [|? ? I1 I2]; subst. inversion Hkids as [|? ? K1 K2]; subst. constructor; [now apply I1|now apply IHk].
  - apply wfp_e; [exact Hv|]. repeat constructor.
  - apply wfp_e; [exact Hv|]. constructor; [constructor|]. constructor; [|constructor].
    apply wfp_e; [reflexivity|]. unfold text_nodes. destruct (HtmlParse.trim x); repeat constructor.
Qed.

(* ---- the document of a page is well formed when its names are safe ---- *)

Definition page_safe (pg : page) : Prop := page_safeb pg = true.

Lemma tag_ok_const t : t <> [] -> forallb name_char t = true -> tag_ok t.
Proof. intros H1 H2. split; assumption. Qed.

Ltac tagok := apply tag_ok_const; [discriminate|reflexivity].

Lemma attrs_ok_nil : attrs_ok [].
Proof. exact I. Qed.

Lemma attrs_ok_class v : attr_ok v -> attrs_ok [(k_class, v)].
Proof. intros H. unfold attrs_ok. cbn [attrs_okp]. repeat split; try assumption; try reflexivity; discriminate. Qed.

Lemma attrs_ok_href v : attr_ok v -> attrs_ok [(k_href, v)].
Proof. intros H. unfold attrs_ok. cbn [attrs_okp]. repeat split; try assumption; try reflexivity; discriminate. Qed.

Lemma attrs_ok_class_href v h : attr_ok v -> attr_ok h -> attrs_ok [(k_class, v); (k_href, h)].
Proof. intros H1 H2. unfold attrs_ok. cbn [attrs_okp]. repeat split; try assumption; try reflexivity; discriminate. Qed.

(* texts made of digits and a few letters *)
Lemma text_okb_ends c mid e : is_ws c = false -> is_ws e = false -> (c =? 60) = false -> (e =? 60) = false ->
  no_lt mid -> text_okb (c :: mid ++ [e]) = true.
Proof.
  intros Hc He Hc' He' Hm. unfold text_okb.
  change (c :: mid ++ [e]) with ((c :: mid) ++ [e]). rewrite rev_app_distr. cbn [rev app].
  rewrite Hc, He. cbn [negb andb forallb]. rewrite Hc'. cbn [negb andb]. unfold no_lt in Hm.
  rewrite forallb_app, Hm. cbn [forallb]. now rewrite He'.
Qed.

Definition plainc (c : N) : bool := negb (is_ws c) && negb (c =? 60).

Lemma numchar_plain c : numchar c = true -> plainc c = true.
Proof.
  unfold numchar, isdigit, plainc, is_ws. rewrite orb_true_iff, andb_true_iff, !N.leb_le, N.eqb_eq. intros H.
  assert (Hr : 45 <= c <= 57) by lia. clear H.
  repeat (rewrite (proj2 (N.eqb_neq c _)) by lia). reflexivity.
Qed.

Lemma render_Z_plain z : forallb plainc (render_Z z) = true.
Proof.
  pose proof (render_Z_chars z) as H. rewrite forallb_forall in *. intros c Hc. apply numchar_plain, H, Hc.
Qed.

Lemma plain_no_lt s : forallb plainc s = true -> no_lt s.
Proof.
  unfold no_lt. rewrite !forallb_forall. intros H c Hc. specialize (H c Hc). unfold plainc in H.
  apply andb_true_iff in H. tauto.
Qed.

Lemma plain_head s c r : forallb plainc s = true -> s = c :: r -> is_ws c = false /\ (c =? 60) = false /\ no_lt r.
Proof.
  intros H ->. cbn [forallb] in H. apply andb_true_iff in H. destruct H as [Hc Hr]. unfold plainc in Hc.
  apply andb_true_iff in Hc. destruct Hc as [H1 H2]. apply negb_true_iff in H1, H2.
  repeat split; try assumption. now apply plain_no_lt.
Qed.

Lemma text_ok_rate z : text_okb (render_Z z ++ [37]) = true.
Proof.
  destruct (render_Z z) as [|c r] eqn:E; [exfalso; now apply (render_Z_nonempty z)|].
  destruct (plain_head _ c r (render_Z_plain z) E) as [H1 [H2 H3]]. cbn [app].
  apply text_okb_ends; try assumption; reflexivity.
Qed.

Lemma text_ok_duration c : text_okb (duration_text c) = true.
Proof.
  unfold duration_text.
  destruct (render_Z (c_hours c)) as [|x r] eqn:E; [exfalso; now apply (render_Z_nonempty (c_hours c))|].
  destruct (plain_head _ x r (render_Z_plain (c_hours c)) E) as [H1 [H2 H3]].
  replace ((x :: r) ++ [104] ++ render_Z (c_minutes c) ++ [109])
    with (x :: (r ++ [104] ++ render_Z (c_minutes c)) ++ [109]) by (cbn [app]; now rewrite <- !app_assoc).
  apply text_okb_ends; try assumption; try reflexivity.
  apply no_lt_app; [exact H3|]. apply no_lt_app; [reflexivity|]. apply plain_no_lt, render_Z_plain.
Qed.

Lemma text_ok_patches n : text_okb (patches_text n) = true.
Proof.
  unfold patches_text.
  change (text_okb (112 :: ([97; 116; 99; 104; 101; 115; 32; 40] ++ render_Z (Z.of_nat n)) ++ [41]) = true).
  apply text_okb_ends; try reflexivity.
  apply no_lt_app; [reflexivity|]. apply plain_no_lt, render_Z_plain.
Qed.

Lemma text_ok_status st : text_okb (status_str st) = true.
Proof. destruct st; reflexivity. Qed.

Lemma attr_ok_status st : attr_ok (status_str st).
Proof. destruct st; reflexivity. Qed.

Lemma no_lt_arrow d : no_lt (arrow d).
Proof. destruct d; reflexivity. Qed.

Lemma wf_hdr_row title cells : text_okb title = true -> Forall wfdoc cells -> wfdoc (hdr_row title cells).
Proof.
  intros Ht Hc. unfold hdr_row. apply wf_node; [tagok|reflexivity|exact attrs_ok_nil|].
  constructor; [|exact Hc]. apply wf_leaf; [tagok|reflexivity|exact attrs_ok_nil|exact Ht].
Qed.

Lemma Forall_map_in {A B} (P : B -> Prop) (f : A -> B) l : (forall x, In x l -> P (f x)) -> Forall P (map f l).
Proof. intros H. apply Forall_forall. intros y Hy. apply in_map_iff in Hy. destruct Hy as [x [<- Hx]]. now apply H. Qed.

Lemma col_safe_inv c : col_safeb c = true ->
  text_okb (c_rate c) = true /\ text_okb (c_date c) = true /\ text_okb (c_arch c) = true /\ attr_ok (c_dmesg c) /\
  (forall h, c_cvs c = Some h -> attr_ok h) /\ (forall n h, c_patches c = Some (n, h) -> attr_ok h).
Proof.
  unfold col_safeb. rewrite !andb_true_iff. intros [[[[[H0 H1] H2] H3] H4] H5]. repeat split; try assumption.
  - intros h E. now rewrite E in H4.
  - intros n h E. now rewrite E in H5.
Qed.

Lemma wf_th_rate c : col_safeb c = true -> wfdoc (th_rate c).
Proof.
  intros H. destruct (col_safe_inv c H) as [Hr _].
  apply wf_leaf; [tagok|reflexivity|now apply attrs_ok_class|exact Hr].
Qed.

Lemma wf_th_date c : col_safeb c = true -> wfdoc (th_date c).
Proof.
  intros H. destruct (col_safe_inv c H) as [_ [Hd _]].
  apply wf_leaf; [tagok|reflexivity|now apply attrs_ok_class|exact Hd].
Qed.

Lemma wf_th_duration c : wfdoc (th_duration c).
Proof.
  apply wf_span; [tagok|reflexivity|now apply attrs_ok_class|apply text_ok_duration|apply no_lt_arrow].
Qed.

Lemma wf_th_changelog c : col_safeb c = true -> wfdoc (th_changelog c).
Proof.
  intros H. destruct (col_safe_inv c H) as [_ [_ [_ [_ [Hc _]]]]]. unfold th_changelog.
  destruct (c_cvs c) as [h|].
  - apply wf_node; [tagok|reflexivity|now apply attrs_ok_class|]. constructor; [|constructor].
    apply wf_leaf; [tagok|reflexivity|apply attrs_ok_href; now apply Hc|reflexivity].
  - apply wf_leaf; [tagok|reflexivity|now apply attrs_ok_class|reflexivity].
Qed.

Lemma wf_th_patches c : col_safeb c = true -> wfdoc (th_patches c).
Proof.
  intros H. destruct (col_safe_inv c H) as [_ [_ [_ [_ [_ Hp]]]]]. unfold th_patches.
  destruct (c_patches c) as [[n h]|].
  - apply wf_node; [tagok|reflexivity|now apply attrs_ok_class|]. constructor; [|constructor].
    apply wf_leaf; [tagok|reflexivity|apply attrs_ok_href; now apply (Hp n)|apply text_ok_patches].
  - apply wf_leaf; [tagok|reflexivity|now apply attrs_ok_class|reflexivity].
Qed.

Lemma wf_th_arch c : col_safeb c = true -> wfdoc (th_arch c).
Proof.
  intros H. destruct (col_safe_inv c H) as [_ [_ [Ha [Hm _]]]].
  apply wf_node; [tagok|reflexivity|now apply attrs_ok_class|]. constructor; [|constructor].
  apply wf_leaf; [tagok|reflexivity|now apply attrs_ok_href|exact Ha].
Qed.

Lemma wf_td_cell c : match c with Some (_, h) => attr_okb h | None => true end = true -> wfdoc (td_cell c).
Proof.
  destruct c as [[st h]|]; intros H; cbn [td_cell].
  - apply wf_node; [tagok|reflexivity|apply attrs_ok_class, attr_ok_status|]. constructor; [|constructor].
    apply wf_leaf; [tagok|reflexivity|now apply attrs_ok_class_href|apply text_ok_status].
  - apply wf_node; [tagok|reflexivity|exact attrs_ok_nil|constructor].
Qed.

Lemma wf_tr_suite r : row_safeb r = true -> wfdoc (tr_suite r).
Proof.
  unfold row_safeb. rewrite !andb_true_iff, forallb_forall. intros [[Hn Hh] Hc]. unfold tr_suite.
  apply wf_node; [tagok|reflexivity|exact attrs_ok_nil|]. constructor.
  - apply wf_node; [tagok|reflexivity|exact attrs_ok_nil|]. constructor; [|constructor].
    apply wf_leaf; [tagok|reflexivity|now apply attrs_ok_class_href|exact Hn].
  - apply Forall_map_in. intros c Hin. apply wf_td_cell, Hc, Hin.
Qed.

Lemma wf_table pg : page_safe pg -> wfdoc (table_of pg).
Proof.
  unfold page_safe, page_safeb. rewrite andb_true_iff, !forallb_forall. intros [Hc Hr].
  unfold table_of. apply wf_node; [tagok|reflexivity|exact attrs_ok_nil|].
  constructor; [|constructor; [|constructor]].
  - unfold thead_of. apply wf_node; [tagok|reflexivity|exact attrs_ok_nil|].
    assert (Hrow : forall title f, text_okb title = true -> (forall c, In c (p_cols pg) -> wfdoc (f c)) ->
                   wfdoc (hdr_row title (map f (p_cols pg)))).
    { intros title f Ht Hf. apply wf_hdr_row; [exact Ht|]. now apply Forall_map_in. }
    constructor; [|constructor; [|constructor; [|constructor; [|constructor; [|constructor; [|constructor]]]]]];
      (apply Hrow; [reflexivity|]); intros c Hin.
    + now apply wf_th_rate, Hc.
    + now apply wf_th_date, Hc.
    + apply wf_th_duration.
    + now apply wf_th_changelog, Hc.
    + now apply wf_th_patches, Hc.
    + now apply wf_th_arch, Hc.
  - apply wf_node; [tagok|reflexivity|exact attrs_ok_nil|]. apply Forall_map_in. intros r Hin. now apply wf_tr_suite, Hr.
Qed.

(* ---- the tokens of the whole file ---- *)

Definition head_state : tstate := Eval vm_compute in trun ([], MText []) head_literal.
Definition css_text : bytes :=
  Eval vm_compute in match fst head_state with _ :: TText s :: _ => s | _ => [] end.
Definition decl_text : bytes :=
  Eval vm_compute in match rev (fst head_state) with TDecl s :: _ => s | _ => [] end.

Definition head_tokens : list token :=
  [TDecl decl_text; TOpen t_html [(k_lang, v_en)]; TOpen t_head []; TOpen t_meta [(k_charset, v_utf8)];
   TOpen t_style []; TText css_text; TClose t_style].

Lemma head_run : trun ([], MText []) head_literal = (rev head_tokens, MText [10]).
Proof. vm_compute. reflexivity. Qed.

Definition page_ptree_with (tbl : pnode) : pnode :=
  PE t_html [(k_lang, v_en)]
    [PE t_head [] [PE t_meta [(k_charset, v_utf8)] []; PE t_style [] [PT css_text]; PE t_title [] [PT x_title]];
     PE t_body [] [PE t_h1 [] [PT x_h1]; tbl]].

Definition page_ptree (pg : page) : pnode := page_ptree_with (tree_of (table_of pg)).

Lemma head_leave_eq : head_leave_literal = close_bytes t_head ++ [10] ++ open_bytes t_body [] ++ [10].
Proof. reflexivity. Qed.

Lemma write_eq : write_literal = close_bytes t_body ++ [10] ++ close_bytes t_html ++ [10].
Proof. reflexivity. Qed.

Lemma page_tokens_shape tbl :
  head_tokens ++ (ptoks (tree_of (Leaf t_title [] x_title)) ++ ([TClose t_head] ++ [] ++ [TOpen t_body []] ++ []) ++
                  ptoks (tree_of (Leaf t_h1 [] x_h1)) ++ ptoks tbl ++ ([TClose t_body] ++ [] ++ [TClose t_html] ++ [])) =
  TDecl decl_text :: ptoks (page_ptree_with tbl).
Proof.
  unfold page_ptree_with, head_tokens. cbn [tree_of ptoks flat_map app].
  assert (H1 : is_void t_html = false) by reflexivity. assert (H2 : is_void t_head = false) by reflexivity.
  assert (H3 : is_void t_meta = true) by reflexivity. assert (H4 : is_void t_style = false) by reflexivity.
  assert (H5 : is_void t_title = false) by reflexivity. assert (H6 : is_void t_body = false) by reflexivity.
  assert (H7 : is_void t_h1 = false) by reflexivity.
  rewrite H1, H2, H3, H4, H5, H6, H7. cbn [app flat_map]. rewrite ?app_nil_r, <- ?app_assoc. cbn [app]. reflexivity.
Qed.

Lemma page_tokens pg : page_safe pg -> tokenize (page_bytes pg) = Some (TDecl decl_text :: ptoks (page_ptree pg)).
Proof.
  intros Hs. unfold tokenize, page_bytes. rewrite trun_app, head_run, head_leave_eq, write_eq.
  assert (Htitle : wfdoc (Leaf t_title [] x_title)) by (apply wf_leaf; [tagok|reflexivity|exact attrs_ok_nil|reflexivity]).
  assert (Hh1 : wfdoc (Leaf t_h1 [] x_h1)) by (apply wf_leaf; [tagok|reflexivity|exact attrs_ok_nil|reflexivity]).
  assert (Hnl : Emits [10] []) by (now apply Emits_ws).
  assert (HE : Emits (emit 1 (Leaf t_title [] x_title) ++ (close_bytes t_head ++ [10] ++ open_bytes t_body [] ++ [10]) ++
                      emit 0 (Leaf t_h1 [] x_h1) ++ emit 0 (table_of pg) ++
                      (close_bytes t_body ++ [10] ++ close_bytes t_html ++ [10]))
                     (ptoks (tree_of (Leaf t_title [] x_title)) ++ ([TClose t_head] ++ [] ++ [TOpen t_body []] ++ []) ++
                      ptoks (tree_of (Leaf t_h1 [] x_h1)) ++ ptoks (tree_of (table_of pg)) ++
                      ([TClose t_body] ++ [] ++ [TClose t_html] ++ []))).
  { apply Emits_app; [now apply Emits_emit|]. apply Emits_app.
    - apply Emits_app; [apply Emits_close; tagok|]. apply Emits_app; [exact Hnl|].
      apply Emits_app; [apply Emits_open; [tagok|exact attrs_ok_nil]|exact Hnl].
    - apply Emits_app; [now apply Emits_emit|]. apply Emits_app; [apply Emits_emit, wf_table, Hs|].
      apply Emits_app; [apply Emits_close; tagok|]. apply Emits_app; [exact Hnl|].
      apply Emits_app; [apply Emits_close; tagok|exact Hnl]. }
  destruct (HE (rev head_tokens) [10] eq_refl) as [acc' [Hw E]]. rewrite E.
  rewrite (flush_ws acc' _ Hw), rev_app_distr, !rev_involutive. unfold page_ptree.
  now rewrite page_tokens_shape.
Qed.

Lemma wfp_page pg : page_safe pg -> wfp (page_ptree pg).
Proof.
  intros Hs. unfold page_ptree, page_ptree_with.
  apply wfp_e; [reflexivity|]. constructor; [|constructor; [|constructor]].
  - apply wfp_e; [reflexivity|]. constructor; [now apply wfp_void|]. constructor; [|constructor; [|constructor]].
    + apply wfp_e; [reflexivity|]. repeat constructor.
    + apply wfp_e; [reflexivity|]. repeat constructor.
  - apply wfp_e; [reflexivity|]. constructor; [|constructor; [|constructor]].
    + apply wfp_e; [reflexivity|]. repeat constructor.
    + apply wfp_tree, wf_table, Hs.
Qed.

Lemma page_forest pg : page_safe pg ->
  match tokenize (page_bytes pg) with Some ts => build_doc ts | None => None end = Some [page_ptree pg].
Proof.
  intros Hs. rewrite (page_tokens pg Hs). cbn [build_doc].
  rewrite <- (app_nil_r (ptoks (page_ptree pg))).
  change (ptoks (page_ptree pg) ++ []) with (flat_map ptoks [page_ptree pg]).
  rewrite (build_forest [page_ptree pg]); [reflexivity|]. constructor; [now apply wfp_page|constructor].
Qed.

(* ---- the matrix of the document ---- *)

Lemma parse_int_render z : parse_int (render_Z z) = Some z.
Proof.
  unfold render_Z. destruct z as [|p|p]; cbn [Z.to_int bytes_of_int].
  - reflexivity.
  - pose proof (DecimalPos.Unsigned.to_uint_nonnil p) as Hn.
    destruct (bytes_of_uint (Pos.to_uint p)) as [|c s] eqn:E; [apply bytes_of_uint_nonnil in Hn; congruence|].
    assert (Hc : (c =? 45) = false).
    { pose proof (digits_head _ c s E) as Hd. unfold isdigit in Hd. apply andb_true_iff in Hd. destruct Hd as [H1 _].
      apply N.leb_le in H1. apply N.eqb_neq. lia. }
    unfold parse_int. rewrite Hc, <- E, uint_of_bytes_of_uint. unfold Z.of_uint.
    now rewrite DecimalPos.Unsigned.of_to.
  - pose proof (DecimalPos.Unsigned.to_uint_nonnil p) as Hn. unfold parse_int. cbn [N.eqb Pos.eqb].
    destruct (bytes_of_uint (Pos.to_uint p)) as [|c s] eqn:E; [apply bytes_of_uint_nonnil in Hn; congruence|].
    rewrite <- E, uint_of_bytes_of_uint. unfold Z.of_uint. now rewrite DecimalPos.Unsigned.of_to.
Qed.

Lemma split_at_app c a b : (forall x, In x a -> (x =? c) = false) -> split_at c (a ++ c :: b) = Some (a, b).
Proof.
  induction a as [|x a IH]; intros H; cbn [app split_at].
  - now rewrite N.eqb_refl.
  - rewrite (H x (or_introl eq_refl)), IH; [reflexivity|]. intros y Hy. apply H. now right.
Qed.

Lemma render_Z_not c z : numchar c = false -> forall x, In x (render_Z z) -> (x =? c) = false.
Proof.
  intros Hc x Hx. pose proof (render_Z_chars z) as H. rewrite forallb_forall in H. specialize (H x Hx).
  destruct (N.eqb_spec x c) as [->|]; [congruence|reflexivity].
Qed.

Lemma parse_duration_text c : parse_duration (duration_text c) = Some (c_hours c, c_minutes c).
Proof.
  unfold parse_duration, duration_text. cbn [app].
  rewrite (split_at_app 104) by (now apply render_Z_not).
  rewrite (split_at_app 109 (render_Z (c_minutes c)) []) by (now apply render_Z_not).
  now rewrite !parse_int_render.
Qed.

Lemma strip_prefix_app p s : strip_prefix p (p ++ s) = Some s.
Proof. induction p as [|x p IH]; [now destruct s|]. cbn. now rewrite N.eqb_refl. Qed.

Lemma parse_patches_render n : parse_patches_text (patches_text n) = Some n.
Proof.
  unfold parse_patches_text, patches_text. rewrite strip_prefix_app.
  rewrite (split_at_app 41 _ []) by (now apply render_Z_not). rewrite parse_int_render.
  destruct (Z.leb_spec 0 (Z.of_nat n)); [|lia]. now rewrite Nat2Z.id.
Qed.

Lemma parse_arrow_nodes d : parse_arrow (text_nodes (arrow d)) = Some d.
Proof. destruct d; reflexivity. Qed.

Lemma all_some_map_f {A B} (g : A -> option B) (f : A -> B) l :
  (forall x, In x l -> g x = Some (f x)) -> all_some (map g l) = Some (map f l).
Proof.
  induction l as [|x l IH]; intros H; [reflexivity|]. cbn [map all_some].
  rewrite (H x (or_introl eq_refl)), IH; [reflexivity|]. intros y Hy. apply H. now right.
Qed.

Lemma p_link_ok h t : p_link (PE t_a [(k_href, h)] [PT t]) = Some (h, t).
Proof. reflexivity. Qed.

Lemma th_kids_ok cls kids : th_kids cls (PE t_th [(k_class, cls)] kids) = Some kids.
Proof. cbn [th_kids]. now rewrite !beq_refl. Qed.

Lemma p_rate_cell c : p_text_cell v_pass (tree_of (th_rate c)) = Some (c_rate c).
Proof. reflexivity. Qed.

Lemma p_date_cell c : p_text_cell v_date (tree_of (th_date c)) = Some (c_date c).
Proof. reflexivity. Qed.

Lemma p_duration_cell_ok c : p_duration_cell (tree_of (th_duration c)) = Some (c_hours c, c_minutes c, c_delta c).
Proof.
  unfold p_duration_cell, th_duration. cbn [tree_of]. rewrite th_kids_ok, beq_refl.
  now rewrite parse_duration_text, parse_arrow_nodes.
Qed.

Lemma p_changelog_cell_ok c : p_changelog_cell (tree_of (th_changelog c)) = Some (c_cvs c).
Proof.
  unfold p_changelog_cell, th_changelog. destruct (c_cvs c) as [h|]; cbn [tree_of map]; rewrite th_kids_ok.
  - now rewrite p_link_ok.
  - reflexivity.
Qed.

Lemma p_patches_cell_ok c : p_patches_cell (tree_of (th_patches c)) = Some (c_patches c).
Proof.
  unfold p_patches_cell, th_patches. destruct (c_patches c) as [[n h]|]; cbn [tree_of map]; rewrite th_kids_ok.
  - now rewrite p_link_ok, parse_patches_render.
  - reflexivity.
Qed.

Lemma p_arch_cell_ok c : p_arch_cell (tree_of (th_arch c)) = Some (c_arch c, c_dmesg c).
Proof. unfold p_arch_cell, th_arch. cbn [tree_of map]. now rewrite th_kids_ok, p_link_ok. Qed.

Lemma p_hdr_row_ok {A} title (cell : pnode -> option A) (th : column -> hnode) (f : column -> A) cols :
  (forall c, cell (tree_of (th c)) = Some (f c)) ->
  p_hdr_row title cell (tree_of (hdr_row title (map th cols))) = Some (map f cols).
Proof.
  intros H. unfold p_hdr_row, hdr_row. cbn [tree_of map]. rewrite !beq_refl. cbn [andb].
  rewrite !map_map. apply all_some_map_f. intros c _. apply H.
Qed.

Lemma zip_columns_ok cols :
  zip_columns (map c_rate cols) (map c_date cols) (map (fun c => (c_hours c, c_minutes c, c_delta c)) cols)
              (map c_cvs cols) (map c_patches cols) (map (fun c => (c_arch c, c_dmesg c)) cols) = Some cols.
Proof. induction cols as [|c cols IH]; [reflexivity|]. cbn [map zip_columns]. rewrite IH. now destruct c. Qed.

Lemma p_thead_ok cols : p_thead (tree_of (thead_of cols)) = Some cols.
Proof.
  unfold p_thead, thead_of. cbn [tree_of map]. rewrite beq_refl.
  rewrite (p_hdr_row_ok x_pass_rate (p_text_cell v_pass) th_rate c_rate cols p_rate_cell).
  rewrite (p_hdr_row_ok x_date (p_text_cell v_date) th_date c_date cols p_date_cell).
  rewrite (p_hdr_row_ok x_duration p_duration_cell th_duration _ cols p_duration_cell_ok).
  rewrite (p_hdr_row_ok x_changelog p_changelog_cell th_changelog c_cvs cols p_changelog_cell_ok).
  rewrite (p_hdr_row_ok x_patches p_patches_cell th_patches c_patches cols p_patches_cell_ok).
  rewrite (p_hdr_row_ok x_architecture p_arch_cell th_arch _ cols p_arch_cell_ok).
  apply zip_columns_ok.
Qed.

Lemma p_cell_ok c : p_cell (tree_of (td_cell c)) = Some (ocell_of c).
Proof.
  destruct c as [[st h]|]; cbn [td_cell tree_of map p_cell ocell_of]; rewrite !beq_refl; reflexivity.
Qed.

Lemma orow_of_cells r : orow_of r = mkorow (fst r) (suite_href (fst r)) (map ocell_of (rowres_cells (snd r))).
Proof. reflexivity. Qed.

Lemma p_row_ok r : p_row (tree_of (tr_suite r)) = Some (orow_of r).
Proof.
  unfold p_row, tr_suite. cbn [tree_of map]. rewrite !beq_refl. cbn [andb].
  rewrite !map_map, (all_some_map_f _ ocell_of) by (intros c _; apply p_cell_ok). now rewrite orow_of_cells.
Qed.

Lemma p_table_ok pg : p_table (tree_of (table_of pg)) = Some (p_cols pg, map orow_of (p_rows pg)).
Proof.
  unfold p_table, table_of. cbn [tree_of map]. rewrite !beq_refl. cbn [andb].
  change (tree_of (thead_of (p_cols pg))) with (tree_of (thead_of (p_cols pg))).
  rewrite p_thead_ok, !map_map, (all_some_map_f _ orow_of) by (intros r _; apply p_row_ok). reflexivity.
Qed.

Lemma matrix_of_page pg : matrix_of [page_ptree pg] = Some (p_cols pg, map orow_of (p_rows pg)).
Proof.
  change (matrix_of [page_ptree pg]) with (p_table (tree_of (table_of pg))). apply p_table_ok.
Qed.

(* ---- reading the model's file back ---- *)

Theorem index_roundtrip pg : page_safe pg ->
  parse_index (page_bytes pg) = POk (p_cols pg) (map orow_of (p_rows pg)).
Proof.
  intros Hs. unfold parse_index. pose proof (page_forest pg Hs) as H.
  destruct (tokenize (page_bytes pg)) as [ts|]; [|discriminate]. rewrite H, matrix_of_page. reflexivity.
Qed.

(* ... hence the observation the oracle is given for the model's files is obs_of *)
Corollary obs_of_files_model p : (forall pg, p = Some pg -> page_safe pg) ->
  obs_of_files (match p with Some _ => 0 | None => 1 end) (index_bytes p)
               (match p with Some pg => p_tree pg | None => [] end) = Some (obs_of p).
Proof.
  intros H. destruct p as [pg|]; cbn [index_bytes obs_of_files obs_of]; [|reflexivity].
  now rewrite (index_roundtrip pg (H pg eq_refl)).
Qed.
