(* Properties_C10.v - the step schedule is complete, ordered and agrees with what can be executed.

   Model: Conf/SchedDefs.v on top of the configuration model of C08
   ([raw_steps]: config_default_get_steps / config_robsd_regress_get_steps with
   is_parallel / config_canvas_get_steps; [get_steps]: config_get_steps;
   [list_cmd]: steps_list of robsd-step.c; [resolve]: find_step /
   resolve_step_command of step-exec.c).  The step tables, the argv template and
   the placeholder position are regenerated from conf*.c on every run
   (Gen_Conf); the documented step lists are Conf/DocSpec.v [doc_steps]
   (robsd.8, robsd-cross.8, robsd-ports.8, robsd-regress.8).  The translator also
   compares the text of config_robsd_regress_get_steps, is_parallel and the
   listing loop of steps_list with the form transcribed here.

   Statements about "the configured tests / steps" are made about the
   configuration the accepted text defines (C08: [text_conforms] and the value
   of ${regress}, of regress-<test>-parallel, of parallel, the canvas step list). *)
From Robsd Require Import Conf.ConfSpec Conf.ConfTrack Conf.SchedDefs Conf.SchedSpec Conf.ConfTie Conf.SchedProofs Conf.SchedTrack.
From RobsdGen Require Import Gen_Conf.
From Coq Require Import String.
Local Open Scope N_scope.

(* ------------------------------------------------------------------ numbering *)
(* the lines of a listing carry the consecutive numbers i, i+1, ... *)
Theorem C10_numbering : forall i steps,
  list_lines i steps = flat_map (fun js => list_line (fst js) (snd js)) (combine (seq i (List.length steps)) steps).
Proof. exact list_lines_numbering. Qed.
Print Assumptions C10_numbering.

(* without -o the listing starts at 1 *)
Theorem C10_numbering_from_one : forall E T text c steps c1,
  config_parse E T text = Accepted c -> get_steps E T (after_parse T c) false = (c1, Some steps) ->
  list_cmd E T text None = match steps with [] => L_offset_too_large | _ => L_ok (list_lines 1 steps) end.
Proof. exact list_cmd_full. Qed.
Print Assumptions C10_numbering_from_one.

(* ------------------------------------------------------------------ offsets *)
(* -o k, 1 <= k <= N: exactly the steps from the k-th on, numbered from k; beyond N: "offset too large" *)
Theorem C10_offset_suffix : forall E T text c steps c1 (k : nat) kb,
  config_parse E T text = Accepted c -> get_steps E T (after_parse T c) false = (c1, Some steps) ->
  strtonum 1 int_max kb = NumOk (Z.of_nat k) -> (1 <= k)%nat ->
  list_cmd E T text (Some kb) =
    if (List.length steps <? k)%nat then L_offset_too_large else L_ok (list_lines k (skipn (k - 1) steps)).
Proof. exact list_cmd_offset. Qed.
Print Assumptions C10_offset_suffix.

(* and that text is what remains of the full listing after its first k-1 lines *)
Theorem C10_offset_is_suffix_of_full : forall k steps,
  list_lines 1 steps = list_lines 1 (firstn k steps) ++ list_lines (S (List.length (firstn k steps))) (skipn k steps).
Proof. exact list_lines_suffix. Qed.
Print Assumptions C10_offset_is_suffix_of_full.

(* ------------------------------------------------------------------ fixed steps *)
(* the static step tables are the documented lists (robsd lists env a second time after reboot) *)
Theorem C10_step_tables_match_docs :
  (forall m, m <> CANVAS -> dedup [] (step_names (t_steps (tables_of m))) = doc_steps m)
  /\ [snd (t_canvas_end (tables_of CANVAS))] = doc_steps CANVAS.
Proof. exact (conj steps_match_docs canvas_end_matches_docs). Qed.
Print Assumptions C10_step_tables_match_docs.

(* interpolating the commands changes neither names nor flags nor the order *)
Theorem C10_listing_is_schedule : forall E T c tr c1 l,
  get_steps E T c tr = (c1, Some l) ->
  names l = names (snd (raw_steps E T (set_trace c tr))) /\ map ss_par l = map ss_par (snd (raw_steps E T (set_trace c tr))).
Proof. exact get_steps_names. Qed.
Print Assumptions C10_listing_is_schedule.

(* robsd, robsd-cross, robsd-ports: the documented steps in documented order, nothing else, end last, none parallel *)
Theorem C10_fixed_steps : forall E m c,
  m = ROBSD \/ m = ROBSD_CROSS \/ m = ROBSD_PORTS ->
  let ns := names (snd (raw_steps E (tables_of m) c)) in
  subseq (doc_steps m) ns /\ Forall (fun n => In n (doc_steps m)) ns /\ last ns [] = [101; 110; 100].
Proof. exact fixed_steps_static. Qed.
Print Assumptions C10_fixed_steps.

(* robsd-regress: documented steps in order around the configured tests, end last *)
Theorem C10_fixed_steps_regress : forall E c,
  subseq (doc_steps ROBSD_REGRESS) (names (snd (raw_steps E TRg c)))
  /\ last (names (snd (raw_steps E TRg c))) [] = [101; 110; 100].
Proof. exact fixed_steps_regress. Qed.
Print Assumptions C10_fixed_steps_regress.

(* ------------------------------------------------------------------ configured entries *)
(* regress: after mount, the tests that run in parallel in configuration order
   and flagged, then the others in configuration order, then umount ...; each
   test exactly as often as ${regress} has it (a list splits into the two
   filters); with parallel no none is parallel and the order is the configured one *)
Theorem C10_regress_multiset_order : forall E c,
  let l := match find_var (c_vars c) str_regress with Some (VList l) => l | _ => [] end in
  names (snd (raw_steps E TRg c)) =
    map fst (rows_before (t_steps TRg)) ++ filter (par_of c) l ++ filter (fun n => negb (par_of c n)) l
    ++ map fst (rows_after (t_steps TRg))
  /\ map ss_par (snd (raw_steps E TRg c)) =
    map (fun _ => false) (rows_before (t_steps TRg)) ++ map (fun _ => true) (filter (par_of c) l)
    ++ map (fun _ => false) (filter (fun n => negb (par_of c n)) l) ++ map (fun _ => false) (rows_after (t_steps TRg))
  /\ ((global_parallel c =? 0)%Z = true -> filter (par_of c) l = [] /\ filter (fun n => negb (par_of c n)) l = l).
Proof. exact regress_two_passes. Qed.
Print Assumptions C10_regress_multiset_order.

(* the static part before the tests ends with mount, as documented *)
Theorem C10_regress_placeholder :
  doc_steps ROBSD_REGRESS = map fst (rows_before (t_steps TRg)) ++ map fst (rows_after (t_steps TRg))
  /\ last (map fst (rows_before (t_steps TRg))) [] = doc_regress_after
  /\ last (map fst (rows_after (t_steps TRg))) [] = [101; 110; 100].
Proof. exact regress_doc_split. Qed.
Print Assumptions C10_regress_placeholder.

(* "parallel?" is decided from the configuration alone and does not change it *)
Theorem C10_is_parallel : forall E c n, is_parallel E TRg c n = (c, par_of c n).
Proof. exact is_parallel_regress. Qed.
Print Assumptions C10_is_parallel.

(* canvas: the configured steps in configuration order with their flags, then end *)
Theorem C10_canvas_order : forall E c,
  snd (raw_steps E (tables_of CANVAS) (after_parse (tables_of CANVAS) c)) =
  map (fun s => mk_sstep (cs_name s) (cs_command s) (cs_parallel s)) (c_steps c)
  ++ [mk_sstep [101; 110; 100] (script_argv (tables_of CANVAS) (fst (t_canvas_end (tables_of CANVAS))) [101; 110; 100]) false].
Proof. exact raw_canvas. Qed.
Print Assumptions C10_canvas_order.

(* ------------------------------------------------------------------ in terms of the accepted text *)
(* [es] are the entries the accepted text spells (C08_accept_iff_conforms: text_conforms = the text lexes
   into their spelling and [run_entries] defines the configuration).  Then
     - the tests listed are the paths of the regress entries, each as often as written,
     - those without a no-parallel option (on any entry of that path) come first, flagged parallel, in the
       order written; the others follow in the order written,
     - with `parallel no` none is parallel and the order is the one written. *)
Theorem C10_regress_schedule_of_entries : forall E es c,
  run_entries E TRg (cfg_init TRg) es = Some c ->
  let l := flat_map regress_path_of es in
  names (snd (raw_steps E TRg (after_parse TRg c))) =
    map fst (rows_before (t_steps TRg)) ++ filter (entries_par E es) l
    ++ filter (fun n => negb (entries_par E es n)) l ++ map fst (rows_after (t_steps TRg))
  /\ map ss_par (snd (raw_steps E TRg (after_parse TRg c))) =
    map (fun _ => false) (rows_before (t_steps TRg)) ++ map (fun _ => true) (filter (entries_par E es) l)
    ++ map (fun _ => false) (filter (fun n => negb (entries_par E es n)) l) ++ map (fun _ => false) (rows_after (t_steps TRg)).
Proof. exact regress_schedule_of_entries. Qed.
Print Assumptions C10_regress_schedule_of_entries.

(* canvas: the step entries in the order written, with the last command given and the parallel option, then end *)
Theorem C10_canvas_schedule_of_entries : forall E es c,
  run_entries E (tables_of CANVAS) (cfg_init (tables_of CANVAS)) es = Some c ->
  snd (raw_steps E (tables_of CANVAS) (after_parse (tables_of CANVAS) c)) =
  map (fun s => mk_sstep (cs_name s) (cs_command s) (cs_parallel s)) (flat_map (step_of_entry (tables_of CANVAS)) es)
  ++ [mk_sstep [101; 110; 100] (script_argv (tables_of CANVAS) (fst (t_canvas_end (tables_of CANVAS))) [101; 110; 100]) false].
Proof. exact canvas_schedule_of_entries. Qed.
Print Assumptions C10_canvas_schedule_of_entries.

(* ------------------------------------------------------------------ resolvable *)
(* every listed name is found by the step runner, in the same schedule *)
Theorem C10_listed_resolvable : forall E T text c c1 steps s,
  config_parse E T text = Accepted c -> get_steps E T (after_parse T c) false = (c1, Some steps) ->
  In s steps -> nonul (ss_name s) ->
  exists s', resolve E T text false (ss_name s) = Some (ss_cmd s') /\ ss_name s' = ss_name s /\ In s' steps.
Proof. exact listed_resolvable. Qed.
Print Assumptions C10_listed_resolvable.

(* and the command of every step made from a script (all fixed steps, all regress tests, canvas' end) starts with sh *)
Theorem C10_listed_command_nonempty_partial : forall E m c script name c1 l,
  interp_args E (tables_of m) c (script_argv (tables_of m) script name) = (c1, Some l) -> exists l', l = sh_lit :: l'.
Proof. exact script_cmd_nonempty_gen. Qed.
Print Assumptions C10_listed_command_nonempty_partial.

(* full statement: the command of EVERY listed step is non-empty.  Refuted for canvas: a configured command
   whose arguments all interpolate to nothing (empty results are dropped by config_get_steps) is accepted,
   listed and resolved to an empty argv, which robsd-exec hands to execvp *)
Theorem C10_listed_command_nonempty_refuted :
  list_cmd sched_wit_env (tables_of CANVAS) sched_wit_canvas_text None = L_ok (bs "1 s
2 end
")
  /\ resolve sched_wit_env (tables_of CANVAS) sched_wit_canvas_text false (bs "s") = Some [].
Proof. exact canvas_empty_command. Qed.
Print Assumptions C10_listed_command_nonempty_refuted.

(* the canvas theorems above model "append end to the configured steps".  The source as shipped did
   that through a by-value copy of the vector pointer and lost the whole list whenever the append made the
   vector grow (16 configured steps: double free; 32: nothing listed); /repo 8c850c1 reserves the room through
   the real vector first.  The translator tells which body the source has; the model is faithful only for the
   repaired one, so this pin must hold for the canvas theorems to speak about the code. *)
Theorem C10_canvas_end_appended_in_place : canvas_end_reserved = true.
Proof. exact eq_refl. Qed.
Print Assumptions C10_canvas_end_appended_in_place.

(* ------------------------------------------------------------------ non-vacuity *)
Example C10_nonvacuous :
  list_cmd sched_wit_env TRg sched_wit_text None =
  L_ok (bs "1 env
2 pkg-add
3 cvs
4 patch
5 obj
6 mount
7 b parallel
8 d parallel
9 a
10 c
11 umount
12 revert
13 pkg-del
14 dmesg
15 end
")
  /\ list_cmd sched_wit_env TRg sched_wit_text (Some (bs "14")) = L_ok (bs "14 dmesg
15 end
")
  /\ list_cmd sched_wit_env TRg sched_wit_text (Some (bs "16")) = L_offset_too_large
  /\ resolve sched_wit_env TRg sched_wit_text false (bs "b")
     = Some [bs "sh"; bs "-eu"; bs "/x/robsd-regress-exec.sh"; bs "b"].
Proof. exact sched_nonvacuous. Qed.
