(* Properties_C10.v - the step schedule is complete, ordered and agrees with what can be executed.

   Model: Conf/SchedDefs.v on top of the configuration model of C08
   ([raw_steps]: config_default_get_steps / config_robsd_regress_get_steps with
   is_parallel / config_canvas_get_steps; [get_steps]: config_get_steps;
   [list_cmd]: steps_list of robsd-step.c; [resolve]: find_step /
   resolve_step_command of step-exec.c).  The step tables, the argv template and
   the placeholder position are regenerated from conf*.c on every run
   (Gen_Conf); the documented step lists are Conf/DocSpec.v [doc_steps]
   (robsd.8, robsd-cross.8, robsd-ports.8, robsd-regress.8).  The translator also
   compares the text of config_robsd_regress_get_steps, is_parallel and the
   listing loop of steps_list with the form transcribed here.

   Statements about "the configured tests / steps" are made about the
   configuration the accepted text defines (C08: [text_conforms] and the value
   of ${regress}, of regress-<test>-parallel, of parallel, the canvas step list). *)
From Robsd Require Import Conf.ConfSpec Conf.ConfTrack Conf.SchedDefs Conf.SchedSpec Conf.ConfTie Conf.SchedProofs Conf.SchedTrack
  Conf.SchedPure Conf.SchedNames Conf.SchedShadow Conf.SchedOracle Conf.SchedStdout Conf.SchedCanvasEnd.
From Robsd Require Import Exec.ArgvSpec Exec.ArgvRun Exec.SchedBridge Exec.SchedListed.
From RobsdGen Require Import Gen_Conf.
From Coq Require Import String.
Local Open Scope N_scope.

(* ------------------------------------------------------------------ numbering *)
(* robsd-step -L on an accepted configuration that has a schedule prints its steps numbered 1, 2, ... N with
   N >= 1, the last one being end.  (The unfolding lemma list_lines_numbering and the case split on an empty
   list of the earlier C10_numbering / C10_numbering_from_one are lemmas of SchedProofs.v now.) *)
Theorem C10_listing_numbered_from_one : forall E m text c steps c1,
  config_parse E (tables_of m) text = Accepted c ->
  get_steps E (tables_of m) (after_parse (tables_of m) c) false = (c1, Some steps) ->
  list_cmd E (tables_of m) text None = L_ok (list_lines 1 steps)
  /\ list_lines 1 steps = flat_map (fun js => list_line (fst js) (snd js)) (combine (seq 1 (List.length steps)) steps)
  /\ steps <> [] /\ last (names steps) [] = str_end.
Proof. exact list_cmd_full_nonempty. Qed.
Print Assumptions C10_listing_numbered_from_one.

(* ... of the STEP LIST.  Read on the LINES of the output - the property's observation point - "numbered
   consecutively from 1" is REFUTED by a test path that holds a newline (accepted by the parser): the listing
   shows the lines "7 x" and "7 y parallel", two lines with one number, the second one carrying a flag the test
   does not have.  Known finding listing-name-with-white-space; under names without white space the lines and the
   step list determine each other (harness: parse_listing). *)
Theorem C10_listing_lines_refuted :
  list_cmd sched_wit_env TRg newline_text None =
  L_ok (bs "1 env
2 pkg-add
3 cvs
4 patch
5 obj
6 mount
7 x
7 y parallel
8 umount
9 revert
10 pkg-del
11 dmesg
12 end
").
Proof. exact listing_newline. Qed.
Print Assumptions C10_listing_lines_refuted.

(* when does an accepted configuration have a schedule: exactly when every command of it renders in the
   environment of the parsed configuration (robsd-regress: if; the only-if is refuted by the rdomain counter,
   see C10_one_runner_rdomain_refuted) *)
Theorem C10_listing_exists_iff : forall E m text c,
  config_parse E (tables_of m) text = Accepted c -> m <> ROBSD_REGRESS ->
  let c' := after_parse (tables_of m) c in
  ((exists steps, snd (get_steps E (tables_of m) c' false) = Some steps) <->
   schedule_ok (benv E m c' false) (bsteps E m c' false)).
Proof. exact listing_exists_iff. Qed.
Print Assumptions C10_listing_exists_iff.

Theorem C10_listing_exists_partial : forall E m text c,
  config_parse E (tables_of m) text = Accepted c ->
  let c' := after_parse (tables_of m) c in
  schedule_ok (benv E m c' false) (bsteps E m c' false) ->
  exists steps, snd (get_steps E (tables_of m) c' false) = Some steps.
Proof. exact listing_exists_partial. Qed.
Print Assumptions C10_listing_exists_partial.

(* ------------------------------------------------------------------ offsets *)
(* -o k as it is given on the command line (k in decimal), 1 <= k <= N: exactly the steps from the k-th on,
   numbered from k; N < k <= INT_MAX - N + 1 included - : "offset too large", nothing listed *)
Theorem C10_offset_all : forall E T text c steps c1 (k : nat),
  config_parse E T text = Accepted c -> get_steps E T (after_parse T c) false = (c1, Some steps) ->
  (1 <= k)%nat -> (Z.of_nat k <= int_max)%Z ->
  list_cmd E T text (Some (render_Z (Z.of_nat k))) =
    if (List.length steps <? k)%nat then L_offset_too_large else L_ok (list_lines k (skipn (k - 1) steps)).
Proof. exact list_cmd_offset_decimal. Qed.
Print Assumptions C10_offset_all.

(* 0, negative numbers and numbers beyond INT_MAX are refused before the configuration is read *)
Theorem C10_offset_out_of_range : forall E T text (z : Z),
  (z < 1 \/ int_max < z)%Z ->
  list_cmd E T text (Some (render_Z z)) = L_offset_invalid (if (z <? 1)%Z then NumTooSmall else NumTooLarge).
Proof. exact list_cmd_offset_out_of_range. Qed.
Print Assumptions C10_offset_out_of_range.

(* the same on what robsd-step -L writes to STDOUT ([stdout_of]: failures print nothing), for EVERY offset
   1 .. INT_MAX: exactly the suffix starting at step k - for k = N + 1 (and beyond) the empty one.  "offset too
   large" goes to stderr with status 1; the property's observation point is stdout. *)
Theorem C10_offset_stdout_suffix : forall E T text c steps c1 (k : nat),
  config_parse E T text = Accepted c -> get_steps E T (after_parse T c) false = (c1, Some steps) ->
  (1 <= k)%nat -> (Z.of_nat k <= int_max)%Z ->
  stdout_of (list_cmd E T text (Some (render_Z (Z.of_nat k)))) = list_lines k (skipn (k - 1) steps).
Proof. exact offset_stdout_suffix. Qed.
Print Assumptions C10_offset_stdout_suffix.

Theorem C10_offset_past_end : forall E T text c steps c1,
  config_parse E T text = Accepted c -> get_steps E T (after_parse T c) false = (c1, Some steps) ->
  (Z.of_nat (S (List.length steps)) <= int_max)%Z ->
  list_cmd E T text (Some (render_Z (Z.of_nat (S (List.length steps))))) = L_offset_too_large /\
  stdout_of (list_cmd E T text (Some (render_Z (Z.of_nat (S (List.length steps)))))) = [] /\
  list_lines (S (List.length steps)) (skipn (S (List.length steps) - 1) steps) = [].
Proof. exact offset_past_end_stdout. Qed.
Print Assumptions C10_offset_past_end.

(* and that text is what remains of the full listing after its first k-1 lines *)
Theorem C10_offset_is_suffix_of_full : forall k steps,
  list_lines 1 steps = list_lines 1 (firstn k steps) ++ list_lines (S (List.length (firstn k steps))) (skipn k steps).
Proof. exact list_lines_suffix. Qed.
Print Assumptions C10_offset_is_suffix_of_full.

(* ------------------------------------------------------------------ fixed steps *)
(* the static step tables are the documented lists (robsd lists env a second time after reboot) *)
Theorem C10_step_tables_match_docs :
  (forall m, m <> CANVAS -> dedup [] (step_names (t_steps (tables_of m))) = doc_steps m)
  /\ [snd (t_canvas_end (tables_of CANVAS))] = doc_steps CANVAS.
Proof. exact (conj steps_match_docs canvas_end_matches_docs). Qed.
Print Assumptions C10_step_tables_match_docs.

(* interpolating the commands changes neither names nor flags nor the order *)
Theorem C10_listing_is_schedule : forall E T c tr c1 l,
  get_steps E T c tr = (c1, Some l) ->
  names l = names (snd (raw_steps E T (set_trace c tr))) /\ map ss_par l = map ss_par (snd (raw_steps E T (set_trace c tr))).
Proof. exact get_steps_names. Qed.
Print Assumptions C10_listing_is_schedule.

(* robsd, robsd-cross, robsd-ports: the listing of an accepted configuration is the documented list in
   documented order (robsd lists env a second time after reboot), nothing else, none parallel *)
Theorem C10_fixed_steps : forall E m text c steps c1,
  m = ROBSD \/ m = ROBSD_CROSS \/ m = ROBSD_PORTS ->
  config_parse E (tables_of m) text = Accepted c ->
  get_steps E (tables_of m) (after_parse (tables_of m) c) false = (c1, Some steps) ->
  names steps = step_names (t_steps (tables_of m))
  /\ Forall (fun s => ss_par s = false) steps
  /\ subseq (doc_steps m) (names steps) /\ Forall (fun n => In n (doc_steps m)) (names steps)
  /\ dedup [] (names steps) = doc_steps m.
Proof. exact listed_fixed_steps. Qed.
Print Assumptions C10_fixed_steps.

(* robsd-regress: documented steps in order around the configured tests, end last - for whatever the
   configuration holds *)
Theorem C10_fixed_steps_regress : forall E c,
  subseq (doc_steps ROBSD_REGRESS) (names (snd (raw_steps E TRg c)))
  /\ last (names (snd (raw_steps E TRg c))) [] = [101; 110; 100].
Proof. exact fixed_steps_regress. Qed.
Print Assumptions C10_fixed_steps_regress.

(* ------------------------------------------------------------------ configured entries *)
(* regress: after mount, the tests that run in parallel in configuration order
   and flagged, then the others in configuration order, then umount ...; each
   test exactly as often as ${regress} has it (a list splits into the two
   filters); with parallel no none is parallel and the order is the configured one *)
Theorem C10_regress_multiset_order : forall E c,
  let l := match find_var (c_vars c) str_regress with Some (VList l) => l | _ => [] end in
  names (snd (raw_steps E TRg c)) =
    map fst (rows_before (t_steps TRg)) ++ filter (par_of c) l ++ filter (fun n => negb (par_of c n)) l
    ++ map fst (rows_after (t_steps TRg))
  /\ map ss_par (snd (raw_steps E TRg c)) =
    map (fun _ => false) (rows_before (t_steps TRg)) ++ map (fun _ => true) (filter (par_of c) l)
    ++ map (fun _ => false) (filter (fun n => negb (par_of c n)) l) ++ map (fun _ => false) (rows_after (t_steps TRg))
  /\ ((global_parallel c =? 0)%Z = true -> filter (par_of c) l = [] /\ filter (fun n => negb (par_of c n)) l = l).
Proof. exact regress_two_passes. Qed.
Print Assumptions C10_regress_multiset_order.

(* the static part before the tests ends with mount, as documented *)
Theorem C10_regress_placeholder :
  doc_steps ROBSD_REGRESS = map fst (rows_before (t_steps TRg)) ++ map fst (rows_after (t_steps TRg))
  /\ last (map fst (rows_before (t_steps TRg))) [] = doc_regress_after
  /\ last (map fst (rows_after (t_steps TRg))) [] = [101; 110; 100].
Proof. exact regress_doc_split. Qed.
Print Assumptions C10_regress_placeholder.

(* "parallel?" is decided from the configuration alone and does not change it *)
Theorem C10_is_parallel : forall E c n, is_parallel E TRg c n = (c, par_of c n).
Proof. exact is_parallel_regress. Qed.
Print Assumptions C10_is_parallel.

(* ------------------------------------------------------------------ in terms of the accepted text *)
(* [es] are the entries the accepted text spells (C08_accept_iff_conforms: text_conforms = the text lexes
   into their spelling and [run_entries] defines the configuration).  Then
     - the tests listed are the paths of the regress entries, each as often as written,
     - those without a no-parallel option (on any entry of that path) come first, flagged parallel, in the
       order written; the others follow in the order written,
     - with `parallel no` none is parallel and the order is the one written. *)
Theorem C10_regress_schedule_of_entries : forall E es c,
  run_entries E TRg (cfg_init TRg) es = Some c ->
  let l := flat_map regress_path_of es in
  names (snd (raw_steps E TRg (after_parse TRg c))) =
    map fst (rows_before (t_steps TRg)) ++ filter (entries_par E es) l
    ++ filter (fun n => negb (entries_par E es n)) l ++ map fst (rows_after (t_steps TRg))
  /\ map ss_par (snd (raw_steps E TRg (after_parse TRg c))) =
    map (fun _ => false) (rows_before (t_steps TRg)) ++ map (fun _ => true) (filter (entries_par E es) l)
    ++ map (fun _ => false) (filter (fun n => negb (entries_par E es n)) l) ++ map (fun _ => false) (rows_after (t_steps TRg)).
Proof. exact regress_schedule_of_entries. Qed.
Print Assumptions C10_regress_schedule_of_entries.

(* canvas: the step entries in the order written, with the last command given and the parallel option, then end *)
Theorem C10_canvas_schedule_of_entries : forall E es c,
  run_entries E (tables_of CANVAS) (cfg_init (tables_of CANVAS)) es = Some c ->
  snd (raw_steps E (tables_of CANVAS) (after_parse (tables_of CANVAS) c)) =
  map (fun s => mk_sstep (cs_name s) (cs_command s) (cs_parallel s)) (flat_map (step_of_entry (tables_of CANVAS)) es)
  ++ [mk_sstep [101; 110; 100] (script_argv (tables_of CANVAS) (fst (t_canvas_end (tables_of CANVAS))) [101; 110; 100]) false].
Proof. exact canvas_schedule_of_entries. Qed.
Print Assumptions C10_canvas_schedule_of_entries.

(* ------------------------------------------------------------------ resolvable *)
(* every listed name is found by the step runner.  No hypothesis on the name is left (names of a parsed
   configuration hold no NUL: SchedNames.listed_names_nonul).  What the runner finds is the FIRST step of that
   name - position j <= i - and its command is what gets executed. *)
Theorem C10_listed_resolvable : forall E m text c c1 steps i s,
  config_parse E (tables_of m) text = Accepted c ->
  get_steps E (tables_of m) (after_parse (tables_of m) c) false = (c1, Some steps) ->
  nth_error steps i = Some s ->
  exists j s', (j <= i)%nat /\ nth_error steps j = Some s' /\ ss_name s' = ss_name s /\
    (forall k x, (k < j)%nat -> nth_error steps k = Some x -> ss_name x <> ss_name s) /\
    SchedDefs.resolve E (tables_of m) text false (ss_name s) = Some (ss_cmd s').
Proof. exact listed_resolves. Qed.
Print Assumptions C10_listed_resolvable.

(* FULL statement of "the schedule agrees with what can be executed": every listed POSITION is executed when
   the runner is given its name.  It holds when the names are pairwise different ... *)
Theorem C10_listed_resolves_to_itself_partial : forall E m text c c1 steps i s,
  config_parse E (tables_of m) text = Accepted c ->
  get_steps E (tables_of m) (after_parse (tables_of m) c) false = (c1, Some steps) ->
  NoDup (names steps) -> nth_error steps i = Some s ->
  SchedDefs.resolve E (tables_of m) text false (ss_name s) = Some (ss_cmd s).
Proof. exact listed_resolves_to_itself_nodup. Qed.
Print Assumptions C10_listed_resolves_to_itself_partial.

(* ... and exactly then: a step whose name already occurred earlier is reached by no argument of the runner *)
Theorem C10_shadowed_step_unreachable : forall E m text c c1 steps i j s s',
  config_parse E (tables_of m) text = Accepted c ->
  get_steps E (tables_of m) (after_parse (tables_of m) c) false = (c1, Some steps) ->
  (j < i)%nat -> nth_error steps i = Some s -> nth_error steps j = Some s' -> ss_name s' = ss_name s ->
  (forall k, (k < i)%nat -> nth_error steps k <> Some s) ->
  forall n, SchedDefs.find_step steps n <> Some s.
Proof. exact shadowed_step_unreachable. Qed.
Print Assumptions C10_shadowed_step_unreachable.

(* REFUTED in general (replayed on robsd-step -L / robsd-exec, findings/C10_name_collisions.md): the
   configuration is accepted, both steps are listed, the runner executes the earlier one for either.
   regress "umount": step 9 (the fixed step that unmounts) can never be executed, the test runs instead *)
Theorem C10_listed_resolves_to_itself_refuted :
  list_cmd sched_wit_env TRg shadow_regress_text None =
  L_ok (bs "1 env
2 pkg-add
3 cvs
4 patch
5 obj
6 mount
7 umount parallel
8 bin/ls parallel
9 umount
10 revert
11 pkg-del
12 dmesg
13 end
")
  /\ SchedDefs.resolve sched_wit_env TRg shadow_regress_text false (bs "umount")
     = Some [bs "sh"; bs "-eu"; bs "/x/robsd-regress-exec.sh"; bs "umount"]
  /\ exists c1 steps s9, get_steps sched_wit_env TRg (after_parse TRg (cfg_of (config_parse sched_wit_env TRg shadow_regress_text))) false = (c1, Some steps)
       /\ nth_error steps 8 = Some s9 /\ ss_name s9 = bs "umount"
       /\ ss_cmd s9 = [bs "sh"; bs "-eu"; bs "/x/robsd-regress-umount.sh"; bs "umount"]
       /\ forall n, SchedDefs.find_step steps n <> Some s9.
Proof. exact shadow_regress_umount. Qed.
Print Assumptions C10_listed_resolves_to_itself_refuted.

(* canvas: a name used twice, and a configured step called end *)
Theorem C10_listed_resolves_to_itself_refuted_canvas :
  list_cmd sched_wit_env (tables_of CANVAS) shadow_canvas_text None = L_ok (bs "1 a
2 a
3 end
4 end
")
  /\ SchedDefs.resolve sched_wit_env (tables_of CANVAS) shadow_canvas_text false (bs "a") = Some [bs "echo"; bs "first"]
  /\ SchedDefs.resolve sched_wit_env (tables_of CANVAS) shadow_canvas_text false (bs "end") = Some [bs "echo"; bs "mine"].
Proof. exact shadow_canvas. Qed.
Print Assumptions C10_listed_resolves_to_itself_refuted_canvas.

(* the line format of the listing does not determine the schedule when a name holds a blank: a test
   "a parallel" that does not run in parallel and a test "a" that does print the same bytes; what the
   orchestrator reads back from the line (name a / flag parallel) is not a step of the first configuration *)
Theorem C10_listing_format_refuted :
  list_cmd sched_wit_env TRg ambiguous_text_1 None = list_cmd sched_wit_env TRg ambiguous_text_2 None
  /\ (exists out, list_cmd sched_wit_env TRg ambiguous_text_1 None = L_ok out)
  /\ SchedDefs.resolve sched_wit_env TRg ambiguous_text_1 false (bs "a") = None
  /\ SchedDefs.resolve sched_wit_env TRg ambiguous_text_2 false (bs "a parallel") = None.
Proof. exact listing_ambiguous. Qed.
Print Assumptions C10_listing_format_refuted.

(* ------------------------------------------------------------------ one runner *)
(* C06 models robsd-exec on an abstract configuration view, C10 on the configuration text.  They are the same
   runner: the schedule of C06 is the schedule of C10 ... *)
Theorem C10_mode_schedule_is_raw_steps : forall E m c,
  sched_pairs (mode_schedule (emode_of m) (regress_cfg c) (canvas_cfg c))
  = sstep_pairs (snd (raw_steps E (tables_of m) (after_parse (tables_of m) c))).
Proof. exact mode_schedule_raw. Qed.
Print Assumptions C10_mode_schedule_is_raw_steps.

(* ... and resolving a name against the configuration text is C06's find_step / config_get_steps code
   ([resolve_env] = the body of ArgvDefs.resolve) on the environment and schedule of the parsed configuration.
   Lookups made while the schedule is computed change the configuration (computed defaults are cached, the
   rdomain counter moves); SchedPure.v proves that only the rdomain counter can be observed.  Guard for
   robsd-regress: the schedule renders without ${rdomain}. *)
Theorem C10_one_runner : forall E m text c tr name argv,
  config_parse E (tables_of m) text = Accepted c ->
  let c' := after_parse (tables_of m) c in
  (schedule_ok (benv E m c' tr) (bsteps E m c' tr) \/ m <> ROBSD_REGRESS) ->
  (SchedDefs.resolve E (tables_of m) text tr name = Some argv <-> resolve_env true (benv E m c' tr) (bsteps E m c' tr) name = RArgv argv).
Proof. exact bridge_resolve. Qed.
Print Assumptions C10_one_runner.

(* robsd, robsd-cross, robsd-ports, canvas: literally ArgvDefs.resolve on the configuration view [view_of]
   (Coq-defined; the harness compares the view it builds by hand with the parsed configuration on every case) *)
Theorem C10_one_runner_view : forall E m text c tr name argv xs,
  m <> ROBSD_REGRESS -> config_parse E (tables_of m) text = Accepted c ->
  let c' := after_parse (tables_of m) c in
  benv E m c' tr TRACE <> None ->
  (SchedDefs.resolve E (tables_of m) text tr name = Some argv <-> ArgvDefs.resolve true (view_of E m c' tr xs) tr name = RArgv argv).
Proof. exact bridge_view. Qed.
Print Assumptions C10_one_runner_view.

(* every listed name is resolvable by the step runner of C06 *)
Theorem C10_listed_resolvable_one_runner : forall E m text c c1 steps i s,
  config_parse E (tables_of m) text = Accepted c ->
  get_steps E (tables_of m) (after_parse (tables_of m) c) false = (c1, Some steps) ->
  nth_error steps i = Some s ->
  let c' := after_parse (tables_of m) c in
  (schedule_ok (benv E m c' false) (bsteps E m c' false) \/ m <> ROBSD_REGRESS) ->
  exists j s', (j <= i)%nat /\ nth_error steps j = Some s' /\ ss_name s' = ss_name s /\
    (forall k x, (k < j)%nat -> nth_error steps k = Some x -> ss_name x <> ss_name s) /\
    resolve_env true (benv E m c' false) (bsteps E m c' false) (ss_name s) = RArgv (ss_cmd s').
Proof. exact listed_resolves_one_runner. Qed.
Print Assumptions C10_listed_resolvable_one_runner.

(* outside the guard: two tests named x${rdomain} / y${rdomain} are listed and resolve, each with its own
   number; no state-free lookup function reproduces that *)
Theorem C10_one_runner_rdomain_refuted :
  SchedDefs.resolve sched_wit_env TRg rd_wit_text false (bs "y${rdomain}")
    = Some [bs "sh"; bs "-eu"; bs "/x/robsd-regress-exec.sh"; bs "y12"]
  /\ SchedDefs.resolve sched_wit_env TRg rd_wit_text false (bs "x${rdomain}")
    = Some [bs "sh"; bs "-eu"; bs "/x/robsd-regress-exec.sh"; bs "x11"]
  /\ exists c, config_parse sched_wit_env TRg rd_wit_text = Accepted c
     /\ resolve_env true (benv sched_wit_env ROBSD_REGRESS c false) (bsteps sched_wit_env ROBSD_REGRESS c false) (bs "y${rdomain}")
        = RNone [DInterp (EUnknown (bs "rdomain")); DNotFound].
Proof. exact bridge_rdomain_refuted. Qed.
Print Assumptions C10_one_runner_rdomain_refuted.

(* and the command of every step made from a script (all fixed steps, all regress tests, canvas' end) starts with sh *)
Theorem C10_listed_command_nonempty_partial : forall E m c script name c1 l,
  SchedDefs.interp_args E (tables_of m) c (script_argv (tables_of m) script name) = (c1, Some l) -> exists l', l = sh_lit :: l'.
Proof. exact script_cmd_nonempty_gen. Qed.
Print Assumptions C10_listed_command_nonempty_partial.

(* full statement: the command of EVERY listed step is non-empty.  Refuted for canvas: a configured command
   whose arguments all interpolate to nothing (empty results are dropped by config_get_steps) is accepted,
   listed and resolved to an empty argv, which robsd-exec hands to execvp *)
Theorem C10_listed_command_nonempty_refuted :
  list_cmd sched_wit_env (tables_of CANVAS) sched_wit_canvas_text None = L_ok (bs "1 s
2 end
")
  /\ SchedDefs.resolve sched_wit_env (tables_of CANVAS) sched_wit_canvas_text false (bs "s") = Some [].
Proof. exact canvas_empty_command. Qed.
Print Assumptions C10_listed_command_nonempty_refuted.

(* ... and what the runner does with such a step since /repo 8e76449: it refuses it - "empty step command", status
   [empty_exit] = 1, nothing forked - for every kernel function, signal and handshake case (C06's step_exec_run on
   the view of the parsed configuration, which for these modes IS the runner on the text: C10_one_runner_view).
   The NAME is resolvable, the command is diagnosed as unusable; no crash is left.  Stops compiling if the test
   is removed from step_exec. *)
Theorem C10_listed_empty_command_refused : forall E m text c tr name xs kern g hs,
  m <> ROBSD_REGRESS -> config_parse E (tables_of m) text = Accepted c ->
  let c' := after_parse (tables_of m) c in
  benv E m c' tr TRACE <> None ->
  SchedDefs.resolve E (tables_of m) text tr name = Some [] ->
  step_exec_run empty_command_checked true (view_of E m c' tr xs) tr name kern g hs
    = Exited (mkrun None empty_exit [DEmptyCmd]).
Proof. exact (fun E m text c tr name xs kern g hs => listed_empty_command_refused E m text c tr name xs kern g hs eq_refl). Qed.
Print Assumptions C10_listed_empty_command_refused.

(* the canvas theorems above model "append end to the configured steps" ([after_parse]).  The source as shipped
   did that through a by-value copy of the vector pointer and LOST the whole list whenever the append made the
   vector grow - libks doubles the capacity from 16, so with exactly 16, 32, 64, ... configured steps (double
   free with 16, nothing listed with 32); /repo 8c850c1 reserves the room through the real vector first.  The
   translator tells which body the source has ([canvas_end_reserved]); Conf/SchedCanvasEnd.v carries the switch
   INTO the model: [list_cmd_with reserved] is robsd-step -L with the loss taken into account (the driver runs
   it: command listv), and for the source in force it is [list_cmd] - so the canvas theorems speak about the code.
   This stops compiling when the reservation is removed. *)
Theorem C10_canvas_end_appended_in_place :
  forall E T text offset, list_cmd_with canvas_end_reserved E T text offset = LV (list_cmd E T text offset).
Proof. exact (list_cmd_in_force eq_refl). Qed.
Print Assumptions C10_canvas_end_appended_in_place.

(* HISTORICAL PIN: without the reservation the list is lost exactly when the number of configured steps is a growth
   point of the vector; 16 and 32 steps are lost, 15 are listed, and with the reservation 17 / 33 lines are printed *)
Theorem C10_canvas_end_unreserved_refuted :
  (forall c, end_append_loses false (tables_of CANVAS) c = grows_at (List.length (c_steps c))) /\
  map grows_at [1; 15; 16; 17; 31; 32; 33; 63; 64; 65; 128]%nat
    = [false; false; true; false; false; true; false; false; true; false; true] /\
  list_cmd_with false canvas_wit_env (tables_of CANVAS) (canvas_text 16) None = LV_lost /\
  list_cmd_with false canvas_wit_env (tables_of CANVAS) (canvas_text 32) None = LV_lost /\
  lines_listed (list_cmd_with true canvas_wit_env (tables_of CANVAS) (canvas_text 16) None) = Some 17%nat /\
  lines_listed (list_cmd_with true canvas_wit_env (tables_of CANVAS) (canvas_text 32) None) = Some 33%nat /\
  lines_listed (list_cmd_with false canvas_wit_env (tables_of CANVAS) (canvas_text 15) None) = Some 16%nat.
Proof. exact (conj end_append_unreserved (conj growth_points canvas_end_unreserved_refuted)). Qed.
Print Assumptions C10_canvas_end_unreserved_refuted.

(* ------------------------------------------------------------------ the oracles of the harness *)
(* SchedSpec.spec_full_ok / spec_offset_ok are applied by the harness to what robsd-step -L printed.  They
   accept every listing of the MODEL: [lines_of i steps] are the (number, name, flag) triples of the bytes
   list_cmd yields ([list_lines_render]); [regress_cfgd]/[regress_gp]/[canvas_cfgd] are what the harness tells
   the oracle about the entries it wrote (every regress entry with "its test has no no-parallel option", the
   global switch; every canvas step with its parallel option), in configuration order. *)
Theorem C10_listing_bytes : forall i steps, list_lines i steps = flat_map render_line (lines_of i steps).
Proof. exact list_lines_render. Qed.
Print Assumptions C10_listing_bytes.

Theorem C10_oracle_offset_accepts_model : forall (k : nat) steps, (1 <= k)%nat ->
  spec_offset_ok k (lines_of 1 steps) (lines_of k (skipn (k - 1) steps)) = true.
Proof. exact spec_offset_accepts_model. Qed.
Print Assumptions C10_oracle_offset_accepts_model.

Theorem C10_oracle_accepts_model_fixed : forall E m text c c1 steps gp cfgd,
  m = ROBSD \/ m = ROBSD_CROSS \/ m = ROBSD_PORTS ->
  config_parse E (tables_of m) text = Accepted c ->
  get_steps E (tables_of m) (after_parse (tables_of m) c) false = (c1, Some steps) ->
  spec_full_ok m gp cfgd (lines_of 1 steps) = true.
Proof. exact spec_full_accepts_static. Qed.
Print Assumptions C10_oracle_accepts_model_fixed.

Theorem C10_oracle_accepts_model_regress : forall E c c1 steps es,
  run_entries E TRg (cfg_init TRg) es = Some c ->
  get_steps E TRg (after_parse TRg c) false = (c1, Some steps) ->
  spec_full_ok ROBSD_REGRESS (regress_gp E es) (regress_cfgd es) (lines_of 1 steps) = true.
Proof. exact spec_full_accepts_regress. Qed.
Print Assumptions C10_oracle_accepts_model_regress.

Theorem C10_oracle_accepts_model_canvas : forall E c c1 steps es gp,
  run_entries E (tables_of CANVAS) (cfg_init (tables_of CANVAS)) es = Some c ->
  get_steps E (tables_of CANVAS) (after_parse (tables_of CANVAS) c) false = (c1, Some steps) ->
  spec_full_ok CANVAS gp (canvas_cfgd es) (lines_of 1 steps) = true.
Proof. exact spec_full_accepts_canvas. Qed.
Print Assumptions C10_oracle_accepts_model_canvas.

(* ------------------------------------------------------------------ non-vacuity *)
Example C10_nonvacuous :
  list_cmd sched_wit_env TRg sched_wit_text None =
  L_ok (bs "1 env
2 pkg-add
3 cvs
4 patch
5 obj
6 mount
7 b parallel
8 d parallel
9 a
10 c
11 umount
12 revert
13 pkg-del
14 dmesg
15 end
")
  /\ list_cmd sched_wit_env TRg sched_wit_text (Some (bs "14")) = L_ok (bs "14 dmesg
15 end
")
  /\ list_cmd sched_wit_env TRg sched_wit_text (Some (bs "16")) = L_offset_too_large
  /\ SchedDefs.resolve sched_wit_env TRg sched_wit_text false (bs "b")
     = Some [bs "sh"; bs "-eu"; bs "/x/robsd-regress-exec.sh"; bs "b"].
Proof. exact sched_nonvacuous. Qed.
