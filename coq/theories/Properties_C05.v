(* Properties_C05.v - a failed step is never hidden in the report.
   Only theorem statements, each closed by [exact] and followed by Print
   Assumptions.  Quantifiers: every mode, every list of rows (no bound on the
   number of rows or on the integers in them), every configuration view, every
   file system view (all byte contents of every log, NUL and CR included, every
   file absent or unreadable).

   [report_struct_rows] / [render] are the model of report.c (ReportDefs.v, tied
   to the binary by the byte-exact correspondence check on robsd-report's
   standard output); [spec_status], [spec_shown], [spec_body], [spec_error] the
   specification (ReportSpec.v).  [report_struct] is the same function on the
   rows of C01's step file model ([C05_on_step_file_rows]).

   Full statement of the property's body clause (kept here because the shipped
   code refutes it, D14):
       forall m cfg fs r, step_log m cfg fs r = spec_body m cfg fs r
   It holds exactly when the excerpt is copied byte by byte
   ([C05_body], hypotheses on the generated flags) and is refuted for the
   shipped "%.*s" / "%s" ([C05_body_refuted], [C05_canvas_body_refuted]);
   [C05_body_partial] is the statement under the exact guard (no NUL byte in
   the part of the log that is shown). *)
From Robsd Require Import Report.ReportSpec Report.ReportProofs.
Local Open Scope N_scope.

(* the model on C01's rows is the model on their report view *)
Theorem C05_on_step_file_rows : forall m cfg (rows : list row) fs,
  report_struct m cfg rows fs = report_struct_rows m cfg (map view rows) fs.
Proof. exact (fun m cfg rows fs => eq_refl). Qed.
Print Assumptions C05_on_step_file_rows.

(* Status (Subject: and Status: print the same string, [render_subject]/[render_raw]):
   it is the specified one; it says ok exactly when no non-skipped row has a
   non-zero exit; otherwise it gives the number of such rows (regress, canvas)
   or names the one such row (sequential modes).
   Hypotheses, explicit: regress/canvas - skipped rows carry exit 0 (the
   failure counter looks at every row); sequential modes - [reachable_seq]: every
   non-skipped row other than the last non-skipped one has exit 0 (only the
   last non-skipped row is inspected).  That the orchestrator only produces
   such files is proved with the orchestrator model (C03/C04/C11), not here. *)
Theorem C05_status_ok_iff : forall m rows,
  (counting m = true -> skipped_exit0 rows) ->
  (counting m = false -> reachable_seq rows) ->
  report_status m rows = spec_status m rows /\
  (report_status m rows = str_ok <-> (forall r, In r rows -> r_skip r <> 1%Z -> r_exit r = 0%Z)) /\
  (forall f fs, failures rows = f :: fs ->
     if counting m then report_status m rows = count_text (List.length (f :: fs))
     else fs = [] /\ report_status m rows = str_failed_in ++ r_name f).
Proof. exact status_ok_iff. Qed.
Print Assumptions C05_status_ok_iff.

(* outside the hypotheses the statement fails; documented witnesses, not findings:
   a failure followed by a passing non-skipped row reads "ok" in a sequential mode *)
Theorem C05_status_refuted_outside_reachable :
  exists m rows, counting m = false /\ ~ reachable_seq rows /\
                 failures rows <> [] /\ report_status m rows = str_ok.
Proof. exact status_refuted_outside_reachable. Qed.
Print Assumptions C05_status_refuted_outside_reachable.

(* a skipped row with a non-zero exit is counted in regress/canvas mode *)
Theorem C05_status_refuted_skipped_nonzero :
  exists m rows, counting m = true /\ ~ skipped_exit0 rows /\
                 failures rows = [] /\ report_status m rows <> str_ok.
Proof. exact status_refuted_skipped_nonzero. Qed.
Print Assumptions C05_status_refuted_skipped_nonzero.

(* Sections: name, exit (as printed by "%d" of (int)exit) and log name of the
   sections are those of the listed rows, in row order; every non-skipped row
   with a non-zero exit is listed, a skipped row never is, a listed row with
   exit 0 is one of the rows shown although they passed. *)
Theorem C05_every_failure_has_section : forall m cfg rows fs rep,
  report_struct_rows m cfg rows fs = ROk rep ->
  map (fun s => (s_name s, (s_exit s, s_log s))) (rp_sections rep) =
    map (fun r => (r_name r, (cast_int (r_exit r), r_log r))) (filter (spec_shown m cfg fs) rows) /\
  (forall r, In r rows -> r_skip r <> 1%Z -> r_exit r <> 0%Z -> spec_shown m cfg fs r = true) /\
  (forall r, r_skip r = 1%Z -> spec_shown m cfg fs r = false) /\
  (forall r, spec_shown m cfg fs r = true -> r_exit r = 0%Z -> listed_anyway m cfg fs r = true).
Proof. exact every_failure_has_section. Qed.
Print Assumptions C05_every_failure_has_section.

(* each section is made of its row: duration line and body too *)
Theorem C05_sections_exact : forall m cfg rows fs rep,
  report_struct_rows m cfg rows fs = ROk rep ->
  rp_sections rep = map (fun r => section_of r (body_or_nil m cfg fs r)) (filter (spec_shown m cfg fs) rows) /\
  (forall r, In r (filter (spec_shown m cfg fs) rows) -> step_log m cfg fs r = ROk (body_or_nil m cfg fs r)).
Proof. exact sections_exact. Qed.
Print Assumptions C05_sections_exact.

(* no report at all (exit 1, nothing printed) exactly when the lock file is
   missing, the comment cannot be read, a passing regress suite that is not
   quiet has no log name, or the log (cvs log in ports mode, packages.diff) of
   a listed row cannot be read *)
Theorem C05_report_error_iff : forall m cfg rows fs,
  report_struct_rows m cfg rows fs = RErr <-> spec_error m cfg fs rows = true.
Proof. exact report_error_iff. Qed.
Print Assumptions C05_report_error_iff.

(* the excerpt function is "the lines from the n-th last non-empty line on" *)
Theorem C05_last_lines : forall c n, last_lines c n = spec_tail n c.
Proof. exact last_lines_spec. Qed.
Print Assumptions C05_last_lines.

(* Body under the exact guard: the shown part of the log holds no NUL byte (or
   the bytes are copied) *)
Theorem C05_body_partial : forall m cfg fs r,
  body_guard excerpt_copies_bytes canvas_copies_bytes m fs r ->
  step_log m cfg fs r = spec_body m cfg fs r.
Proof. exact body_partial. Qed.
Print Assumptions C05_body_partial.

(* Body, full statement, for the repaired report.c (findings/D14_report_nul.diff):
   the translator sets both flags when it finds buffer_puts in place of "%.*s"/"%s" *)
Theorem C05_body : forall m cfg fs r,
  excerpt_copies_bytes = true -> canvas_copies_bytes = true ->
  step_log m cfg fs r = spec_body m cfg fs r.
Proof. exact body_if_copied. Qed.
Print Assumptions C05_body.

(* the source as it is now copies the bytes (fix 91740ae): the body clause holds in
   full; this stops compiling if either print goes back to a %s conversion *)
Theorem C05_body_current : forall m cfg fs r, step_log m cfg fs r = spec_body m cfg fs r.
Proof. exact (fun m cfg fs r => body_if_copied m cfg fs r eq_refl eq_refl). Qed.
Print Assumptions C05_body_current.

(* D14: as shipped, a NUL byte in the last lines cuts the excerpt - of
   "l1\nl2<NUL>mid\nlast\n" only "l1\nl2" is printed *)
Theorem C05_body_refuted :
  excerpt_copies_bytes = false ->
  exists m cfg fs r, spec_shown m cfg fs r = true /\
    step_log m cfg fs r <> spec_body m cfg fs r /\
    step_log m cfg fs r = ROk [10; 108; 49; 10; 108; 50] /\
    spec_body m cfg fs r = ROk (10 :: d14_log).
Proof. exact body_refuted. Qed.
Print Assumptions C05_body_refuted.

Theorem C05_canvas_body_refuted :
  canvas_copies_bytes = false ->
  exists cfg fs r, step_log Canvas cfg fs r <> spec_body Canvas cfg fs r.
Proof. exact canvas_body_refuted. Qed.
Print Assumptions C05_canvas_body_refuted.

(* no NUL and no CR byte in the rendered report, whatever went into it; the
   final printf("%s") therefore prints all of it *)
Theorem C05_sanitize_total : forall host rep,
  ~ In 0 (render host rep) /\ ~ In 13 (render host rep) /\ cstr (render host rep) = render host rep.
Proof. exact render_sane. Qed.
Print Assumptions C05_sanitize_total.

(* the oracles applied to the implementation's output accept the model's own output *)
Theorem C05_model_passes_oracles : forall x rows rep,
  rows_of x = Some rows ->
  report_struct_rows (x_mode x) (cfg_of x) rows (files_of x) = ROk rep ->
  spec_ok_sections x (map (fun s => (s_name s, (s_exit s, s_log s))) (rp_sections rep)) = true /\
  (status_hyps (x_mode x) rows = true -> beq (rp_status rep) (spec_status (x_mode x) rows) = true) /\
  spec_ok_sane (render (x_host x) rep) = true.
Proof. exact model_passes_oracles. Qed.
Print Assumptions C05_model_passes_oracles.

(* non-vacuity: a robsd build that failed in its second step after a skipped
   one; the log has eleven lines and the excerpt starts at the second *)
Example C05_example :
  let log := [49; 10; 50; 10; 51; 10; 52; 10; 53; 10; 54; 10; 55; 10; 56; 10; 57; 10; 65; 10; 66; 10] in
  let rows := [mksrow [101; 110; 118] 0 3 0 [101] 1 0; mksrow [99] 0 0 0 [] 2 1;
               mksrow [107] 2 7 0 [107] 3 0] in
  let fs := mkfiles (fun l => Some log) (fun _ => None) FAbsent None None None None (fun _ _ => None) in
  reachable_seq rows /\
  match report_struct_rows Robsd d14_cfg rows fs with
  | ROk rep => rp_status rep = str_failed_in ++ [107] /\
               map s_name (rp_sections rep) = [[107]] /\
               map s_body (rp_sections rep) = [10 :: skipn 2 log]
  | RErr => False
  end.
Proof.
  split; [apply reachable_seqb_iff; reflexivity|]. vm_compute. repeat split; reflexivity.
Qed.
