(* Properties_C05.v - a failed step is never hidden in the report.
   Only theorem statements, each closed by [exact] and followed by Print
   Assumptions.  Quantifiers: every mode, every list of rows (no bound on the
   number of rows or on the integers in them), every configuration view, every
   file system view (all byte contents of every log, NUL and CR included, every
   file absent or unreadable).

   [report_struct_rows] / [render] are the model of report.c (ReportDefs.v, tied
   to the binary by the byte-exact correspondence check on robsd-report's
   standard output); [spec_status], [spec_shown], [spec_body], [spec_error] the
   specification (ReportSpec.v).  [report_struct] is the same function on the
   rows of C01's step file model ([C05_on_step_file_rows]).

   The body clause of the property,
       forall m cfg fs r, step_log m cfg fs r = spec_body m cfg fs r,
   holds in full for the source as it is now ([C05_body_current]: both excerpt prints copy the bytes).  It was
   refuted by the shipped "%.*s" / "%s" (D14, repaired in /repo 91740ae); the witnesses of that time
   ([C05_body_refuted], [C05_canvas_body_refuted]) and the conditional forms ([C05_body], [C05_body_partial])
   are kept as Remarks: historical pins, vacuous or redundant in the current tree, not results.

   What "never hidden" does NOT cover is stated as theorems too: when a log that has to be read cannot be read
   there is no report at all ([C05_report_main_silent], [C05_never_hidden_refuted], [C05_never_hidden_or_silent]). *)
From Robsd Require Import Report.ReportSpec Report.ReportProofs Report.ReportNeverHidden Report.TailSpec Report.DurationProofs.
From Robsd Require Orch.ResumeDefs Orch.ResumeExec Orch.WrittenInv Orch.ReportBridge.
Local Open Scope N_scope.

(* Remarks are not results of this property: definitional facts and pins of earlier versions of the source,
   kept so that the history of the model stays checked.  Only Theorems are counted. *)

(* definitional: the model on C01's rows is the model on their report view *)
Remark C05_on_step_file_rows : forall m cfg (rows : list row) fs,
  report_struct m cfg rows fs = report_struct_rows m cfg (map view rows) fs.
Proof. exact (fun m cfg rows fs => eq_refl). Qed.
Print Assumptions C05_on_step_file_rows.

(* Status (Subject: and Status: print the same string, [render_subject]/[render_raw]):
   it is the specified one; it says ok exactly when no non-skipped row has a
   non-zero exit; otherwise it gives the number of such rows (regress, canvas)
   or names the one such row (sequential modes).
   Hypotheses, explicit: regress/canvas - skipped rows carry exit 0 (the
   failure counter looks at every row); sequential modes - [reachable_seq]: every
   non-skipped row other than the last non-skipped one has exit 0 (only the
   last non-skipped row is inspected).  That the orchestrator only produces
   such files is proved with the orchestrator model (C03/C04/C11), not here. *)
Theorem C05_status_ok_iff : forall m rows,
  (counting m = true -> skipped_exit0 rows) ->
  (counting m = false -> reachable_seq rows) ->
  report_status m rows = spec_status m rows /\
  (report_status m rows = str_ok <-> (forall r, In r rows -> r_skip r <> 1%Z -> r_exit r = 0%Z)) /\
  (forall f fs, failures rows = f :: fs ->
     if counting m then report_status m rows = count_text (List.length (f :: fs))
     else fs = [] /\ report_status m rows = str_failed_in ++ r_name f).
Proof. exact status_ok_iff. Qed.
Print Assumptions C05_status_ok_iff.

(* outside the hypotheses the statement fails; documented witnesses, not findings:
   a failure followed by a passing non-skipped row reads "ok" in a sequential mode *)
Theorem C05_status_refuted_outside_reachable :
  exists m rows, counting m = false /\ ~ reachable_seq rows /\
                 failures rows <> [] /\ report_status m rows = str_ok.
Proof. exact status_refuted_outside_reachable. Qed.
Print Assumptions C05_status_refuted_outside_reachable.

(* a skipped row with a non-zero exit is counted in regress/canvas mode *)
Theorem C05_status_refuted_skipped_nonzero :
  exists m rows, counting m = true /\ ~ skipped_exit0 rows /\
                 failures rows = [] /\ report_status m rows <> str_ok.
Proof. exact status_refuted_skipped_nonzero. Qed.
Print Assumptions C05_status_refuted_skipped_nonzero.

(* The two hypotheses discharged for the step files the orchestrator produces, on the rows of ONE step
   file seen through both views ([orch_view]: step, name, exit, skip; [view]: what the report reads):
   - modes that count failures (regress, canvas): [written] = any history of writers - the skip records of
     the entry scripts (exit code read from the scripts by the translator), the sequential loop and the
     loop with parallel steps under every schedule, killed at any point and resumed any number of times;
   - sequential modes: [reachv] = any crash/resume history of the sequential loop, exit codes free at
     every attempt (Properties_C03.v). *)
Theorem C05_written_skip_records_exit0 : forall f,
  WrittenInv.written f -> forall r, In r f -> ResumeDefs.r_skip r = 1%Z -> ResumeDefs.r_exit r = 0%Z.
Proof. exact WrittenInv.written_skip0. Qed.
Print Assumptions C05_written_skip_records_exit0.

Theorem C05_status_orchestrated : forall m (rows : list row),
  (counting m = true -> WrittenInv.written (map ReportBridge.orch_view rows)) ->
  (counting m = false -> exists k, ResumeExec.wf_skel k /\ ResumeExec.reachv k (map ReportBridge.orch_view rows)) ->
  let rr := map view rows in
  report_status m rr = spec_status m rr /\
  (report_status m rr = str_ok <-> (forall r, In r rr -> r_skip r <> 1%Z -> r_exit r = 0%Z)) /\
  (forall f fs, failures rr = f :: fs ->
     if counting m then report_status m rr = count_text (List.length (f :: fs))
     else fs = [] /\ report_status m rr = str_failed_in ++ r_name f).
Proof. exact ReportBridge.status_orchestrated. Qed.
Print Assumptions C05_status_orchestrated.

(* that string is what the Subject: and the Status: line print *)
Theorem C05_status_is_printed : forall m cfg host content fs out rows,
  report_main m cfg host (Some content) fs = (0, out) -> parse_file content = Some rows ->
  exists rep post,
    rp_status rep = report_status m (map view rows) /\
    out = spec_sanitize (s_subject ++ subject_text host rep ++ [10; 10] ++
                         s_stats ++ [10] ++ s_status ++ rp_status rep ++ [10]) ++ post /\
    exists pre, subject_text host rep = pre ++ rp_status rep.
Proof. exact status_is_printed. Qed.
Print Assumptions C05_status_is_printed.

(* Sections: name, exit (as printed by "%d" of (int)exit) and log name of the
   sections are those of the listed rows, in row order; every non-skipped row
   with a non-zero exit is listed, a skipped row never is, a listed row with
   exit 0 is one of the rows shown although they passed. *)
Theorem C05_every_failure_has_section : forall m cfg rows fs rep,
  report_struct_rows m cfg rows fs = ROk rep ->
  map (fun s => (s_name s, (s_exit s, s_log s))) (rp_sections rep) =
    map (fun r => (r_name r, (cast_int (r_exit r), r_log r))) (filter (spec_shown m cfg fs) rows) /\
  (forall r, In r rows -> r_skip r <> 1%Z -> r_exit r <> 0%Z -> spec_shown m cfg fs r = true) /\
  (forall r, r_skip r = 1%Z -> spec_shown m cfg fs r = false) /\
  (forall r, spec_shown m cfg fs r = true -> r_exit r = 0%Z -> listed_anyway m cfg fs r = true).
Proof. exact every_failure_has_section. Qed.
Print Assumptions C05_every_failure_has_section.

(* each section is made of its row: duration line and body too *)
Theorem C05_sections_exact : forall m cfg rows fs rep,
  report_struct_rows m cfg rows fs = ROk rep ->
  rp_sections rep = map (fun r => section_of r (body_or_nil m cfg fs r)) (filter (spec_shown m cfg fs) rows) /\
  (forall r, In r (filter (spec_shown m cfg fs) rows) -> step_log m cfg fs r = ROk (body_or_nil m cfg fs r)).
Proof. exact sections_exact. Qed.
Print Assumptions C05_sections_exact.

(* the Exit: line prints the exit code itself whenever it fits an int (always, for wait statuses: -1, 1..255) *)
Theorem C05_exit_printed_as_is : forall z, (-2147483648 <= z < 2147483648)%Z -> cast_int z = z.
Proof. exact cast_int_small. Qed.
Print Assumptions C05_exit_printed_as_is.

(* never hidden, positively: in a report that is produced every failing row has its section at its place
   among the listed rows, with the specified body; its sanitized text - name, exit, duration, log name, body -
   is part of what robsd-report prints *)
Theorem C05_failure_has_section : forall m cfg a r b fs rep,
  report_struct_rows m cfg (a ++ r :: b) fs = ROk rep -> failing r = true ->
  exists bd,
    spec_body m cfg fs r = ROk bd /\
    rp_sections rep =
      map (fun x => section_of x (body_or_nil m cfg fs x)) (filter (spec_shown m cfg fs) a) ++
      section_of r bd ::
      map (fun x => section_of x (body_or_nil m cfg fs x)) (filter (spec_shown m cfg fs) b).
Proof. exact failure_has_section. Qed.
Print Assumptions C05_failure_has_section.

Theorem C05_failed_step_is_printed : forall m cfg host content fs out rows a r b,
  report_main m cfg host (Some content) fs = (0, out) ->
  parse_file content = Some rows -> map view rows = a ++ r :: b -> failing r = true ->
  exists bd pre post,
    spec_body m cfg fs r = ROk bd /\
    out = pre ++ spec_sanitize (render_section (section_of r bd)) ++ post /\
    render_section (section_of r bd) =
      [10; 62; 32] ++ r_name r ++ [10] ++ s_exit_ ++ render_Z (cast_int (r_exit r)) ++ [10] ++
      s_duration_ ++ step_duration r ++ [10] ++ s_log_ ++ r_log r ++ [10] ++ bd.
Proof. exact failed_step_is_printed. Qed.
Print Assumptions C05_failed_step_is_printed.

(* no report at all (exit 1, nothing printed) exactly when the lock file is
   missing, the comment cannot be read, a passing regress suite that is not
   quiet has no log name, or the log (cvs log in ports mode, packages.diff) of
   a listed row cannot be read *)
Theorem C05_report_error_iff : forall m cfg rows fs,
  report_struct_rows m cfg rows fs = RErr <-> spec_error m cfg fs rows = true.
Proof. exact report_error_iff. Qed.
Print Assumptions C05_report_error_iff.

(* THE CAVEAT of "never hidden".  Full statement (refuted):
       forall m cfg fs rows r, In r rows -> failing r = true -> exists rep, report_struct_rows m cfg rows fs = ROk rep
   When [spec_error] holds robsd-report exits 1 and prints nothing at all, whatever failed: no Subject:, no
   status, no section.  Witnesses: (i) the log of the failing step itself is unreadable; (ii) the failing
   step's log is fine but a PASSING step that is always listed (dpb in robsd-ports mode, packages.diff missing)
   cannot be rendered.  These are outside the property's quantifier as far as the orchestrator's own files go
   (tee creates the log of every step that ran); the case that did occur in practice - cvs logs that were
   never written, D18 - is repaired ([C05_ports_cvs_logs_missing_holds_now]).
   [C05_never_hidden_or_silent] is the statement under the exact guard. *)
Theorem C05_report_main_silent : forall m cfg host content rows fs,
  parse_file content = Some rows -> spec_error m cfg fs (map view rows) = true ->
  report_main m cfg host (Some content) fs = (1, []).
Proof. exact report_main_silent. Qed.
Print Assumptions C05_report_main_silent.

Theorem C05_never_hidden_refuted :
  (In silent_row [silent_row] /\ failing silent_row = true /\
   c_running d14_cfg = true /\ f_comment silent_files = FAbsent /\
   report_struct_rows Robsd d14_cfg [silent_row] silent_files = RErr) /\
  (failing silent_row = true /\ failing silent_dpb = false /\
   f_log readable_files (r_log silent_row) = Some [111; 10] /\
   report_struct_rows Ports d14_cfg [silent_dpb; silent_row] readable_files = RErr /\
   (exists rep, report_struct_rows Ports d14_cfg [silent_row] readable_files = ROk rep)).
Proof. exact (conj never_hidden_refuted_own_log never_hidden_refuted_other_row). Qed.
Print Assumptions C05_never_hidden_refuted.

(* D18 as the source is now (/repo da850b3; the translator reads the test in report_cvs_log): a robsd-ports
   invocation whose cvs logs were never written gets its report - cvs section without change logs, then the
   failing step.  Pin: stops compiling if the test goes back to "only an empty file is passed over". *)
Theorem C05_ports_cvs_logs_missing_holds_now :
  cvs_missing_skipped = true /\
  exists rep, report_struct_rows Ports d14_cfg [silent_cvs; silent_row] readable_files = ROk rep /\
    rp_status rep = str_failed_in ++ r_name silent_row /\
    map s_name (rp_sections rep) = [name_cvs; r_name silent_row] /\
    map s_body (rp_sections rep) = [[10]; [10; 111; 10]].
Proof. exact ports_cvs_logs_missing_holds_now. Qed.
Print Assumptions C05_ports_cvs_logs_missing_holds_now.

(* HISTORICAL PIN, not a result: before da850b3 the first cvs log that did not exist ended the loop with an error *)
Remark C05_cvs_missing_refuted :
  cvs_missing_skipped = false ->
  exists m fs, snd (cvs_log m fs) = true /\ snd (spec_cvs m fs) = false.
Proof. exact cvs_missing_refuted. Qed.
Print Assumptions C05_cvs_missing_refuted.

Theorem C05_never_hidden_or_silent : forall m cfg rows fs,
  (spec_error m cfg fs rows = true /\ report_struct_rows m cfg rows fs = RErr) \/
  (spec_error m cfg fs rows = false /\
   exists rep, report_struct_rows m cfg rows fs = ROk rep /\
     forall a r b, rows = a ++ r :: b -> failing r = true ->
       exists bd sa sb, spec_body m cfg fs r = ROk bd /\ rp_sections rep = sa ++ section_of r bd :: sb /\
                        List.length sa = List.length (filter (spec_shown m cfg fs) a)).
Proof. exact never_hidden_or_silent. Qed.
Print Assumptions C05_never_hidden_or_silent.

(* the excerpt function is "the lines from the n-th last non-empty line on" *)
Theorem C05_last_lines : forall c n, last_lines c n = spec_tail n c.
Proof. exact last_lines_spec. Qed.
Print Assumptions C05_last_lines.

(* ... and what that means, without reference to either algorithm: the excerpt is a SUFFIX of the log that
   starts at the beginning of a line and holds min(10, number of non-empty lines of the log) non-empty lines;
   when something is cut off it holds exactly ten and starts with a non-empty line (so it is the shortest
   such suffix); a log with fewer than ten non-empty lines is shown whole *)
Theorem C05_excerpt_meaning : forall c,
  exists p, c = p ++ last_lines c tail_lines /\
    (p = [] \/ exists p', p = p' ++ [10]) /\
    nonempty_lines (last_lines c tail_lines) = Nat.min 10 (nonempty_lines c) /\
    (p <> [] -> nonempty_lines (last_lines c tail_lines) = 10%nat /\
                exists x t, last_lines c tail_lines = x :: t /\ x <> 10).
Proof. exact last_lines_meaning. Qed.
Print Assumptions C05_excerpt_meaning.

Theorem C05_short_log_shown_whole : forall c,
  (nonempty_lines c < 10)%nat -> last_lines c tail_lines = c.
Proof. exact short_log_shown_whole. Qed.
Print Assumptions C05_short_log_shown_whole.

(* Body under the exact guard: the shown part of the log holds no NUL byte (or
   the bytes are copied) *)
Remark C05_body_partial : forall m cfg fs r,
  body_guard excerpt_copies_bytes canvas_copies_bytes m fs r ->
  step_log m cfg fs r = spec_body m cfg fs r.
Proof. exact body_partial. Qed.
Print Assumptions C05_body_partial.

(* HISTORICAL PIN (premises are the generated flags, both [true] in the current tree: this is C05_body_current) *)
Remark C05_body : forall m cfg fs r,
  excerpt_copies_bytes = true -> canvas_copies_bytes = true ->
  step_log m cfg fs r = spec_body m cfg fs r.
Proof. exact body_if_copied. Qed.
Print Assumptions C05_body.

(* the source as it is now copies the bytes (fix 91740ae): the body clause holds in
   full; this stops compiling if either print goes back to a %s conversion *)
Theorem C05_body_current : forall m cfg fs r, step_log m cfg fs r = spec_body m cfg fs r.
Proof. exact (fun m cfg fs r => body_if_copied m cfg fs r eq_refl eq_refl). Qed.
Print Assumptions C05_body_current.

(* HISTORICAL PINS, not results: D14 was repaired in /repo (91740ae); the hypotheses below are generated
   switches that are [true] now, so both statements are vacuously true in the current tree.  They become
   meaningful again (and C05_body_current stops compiling) if a print goes back to a %s conversion.
   D14: as shipped, a NUL byte in the last lines cut the excerpt - of "l1\nl2<NUL>mid\nlast\n" only
   "l1\nl2" was printed *)
Remark C05_body_refuted :
  excerpt_copies_bytes = false ->
  exists m cfg fs r, spec_shown m cfg fs r = true /\
    step_log m cfg fs r <> spec_body m cfg fs r /\
    step_log m cfg fs r = ROk [10; 108; 49; 10; 108; 50] /\
    spec_body m cfg fs r = ROk (10 :: d14_log).
Proof. exact body_refuted. Qed.
Print Assumptions C05_body_refuted.

Remark C05_canvas_body_refuted :
  canvas_copies_bytes = false ->
  exists cfg fs r, step_log Canvas cfg fs r <> spec_body Canvas cfg fs r.
Proof. exact canvas_body_refuted. Qed.
Print Assumptions C05_canvas_body_refuted.

(* no NUL and no CR byte in the rendered report, whatever went into it; the
   final printf("%s") therefore prints all of it *)
Theorem C05_sanitize_total : forall host rep,
  ~ In 0 (render host rep) /\ ~ In 13 (render host rep) /\ cstr (render host rep) = render host rep.
Proof. exact render_sane. Qed.
Print Assumptions C05_sanitize_total.

(* what is printed instead: NUL as the four characters \x00, CR as \r, every other byte as it is *)
Theorem C05_sanitize_is_spec : forall s, sanitize s = spec_sanitize s.
Proof. exact sanitize_spec. Qed.
Print Assumptions C05_sanitize_is_spec.

(* every oracle the harness applies to the implementation's output accepts the model: exit status, no NUL/CR,
   section keys, the body of every section, subject and status (the status oracle judges the files that meet
   the hypotheses of C05_status_ok_iff - which C05_status_orchestrated shows are the files that occur) *)
Theorem C05_model_passes_oracles : forall x,
  spec_ok_exit x (fst (run_fixture x)) = true /\
  spec_ok_sane (snd (run_fixture x)) = true /\
  forall rows rep, rows_of x = Some rows ->
    report_struct_rows (x_mode x) (cfg_of x) rows (files_of x) = ROk rep ->
    run_fixture x = (0, render (x_host x) rep) /\
    spec_ok_sections x (map (fun s => (s_name s, (s_exit s, s_log s))) (rp_sections rep)) = true /\
    (forall k s, nth_error (rp_sections rep) k = Some s -> spec_ok_body x k (sanitize (s_body s)) = true) /\
    (status_hyps (x_mode x) rows = true -> spec_ok_status x (subject_text (x_host x) rep) (rp_status rep) = true).
Proof. exact model_passes_all_oracles. Qed.
Print Assumptions C05_model_passes_oracles.

(* non-vacuity: a robsd build that failed in its second step after a skipped
   one; the log has eleven lines and the excerpt starts at the second *)
Example C05_example :
  let log := [49; 10; 50; 10; 51; 10; 52; 10; 53; 10; 54; 10; 55; 10; 56; 10; 57; 10; 65; 10; 66; 10] in
  let rows := [mksrow [101; 110; 118] 0 3 0 [101] 1 0; mksrow [99] 0 0 0 [] 2 1;
               mksrow [107] 2 7 0 [107] 3 0] in
  let fs := mkfiles (fun l => Some log) (fun _ => None) FAbsent None None None None (fun _ _ => None) in
  reachable_seq rows /\
  match report_struct_rows Robsd d14_cfg rows fs with
  | ROk rep => rp_status rep = str_failed_in ++ [107] /\
               map s_name (rp_sections rep) = [[107]] /\
               map s_body (rp_sections rep) = [10 :: skipn 2 log]
  | RErr => False
  end.
Proof.
  split; [apply reachable_seqb_iff; reflexivity|]. vm_compute. repeat split; reflexivity.
Qed.
