(* Properties_C05.v - a failed step is never hidden in the report.
   Only theorem statements, each closed by [exact] and followed by Print
   Assumptions.  Quantifiers: every mode, every list of rows (no bound on the
   number of rows or on the integers in them), every configuration view, every
   file system view (all byte contents of every log, NUL and CR included, every
   file absent, or there but unreadable).

   [report_struct_rows] / [render] / [report_main] are the model of report.c AS THE WORKING TREE HAS IT
   (ReportDefs.v: the [_with] functions at [cur_sw], the forms the translator found; tied to the binary by the
   byte-exact correspondence check on robsd-report's standard output); [spec_status], [spec_shown], [spec_body],
   [spec_error] the specification (ReportSpec.v), which reads the property: every non-skipped row with a non-zero
   exit - exit -1 included - has its section; a log that does not exist is an empty log; the cvs step shows the cvs
   logs collected in its mode (robsd, robsd-ports, robsd-regress).  The area files prove everything for [fixed_sw]
   (every repair in place); each theorem below is stated for the working tree and closed by [exact <lemma about
   fixed_sw>], which type-checks exactly when the generated switches compute to [fixed_sw]
   ([C05_source_has_every_repair]).  So reverting any of 91740ae (D14), da850b3 (D18), the D24 repair or the D25
   repair breaks these theorems here, in this file, and nothing in the area files; the witnesses for the earlier
   forms of the source ([C05_missing_log_refuted], [C05_regress_cvs_refuted], [C05_body_refuted], ...) are
   unconditional theorems about [sw_before_*] and stay true.

   [cvs_guard m fs] (m = Ports, or no cvs log of the mode is there-but-unreadable) and [inside] name what is outside
   the property's quantifier: files that are there and cannot be read, a lock file that is missing, a passing dpb
   step without packages.diff, a regress row without log name - each argued in ReportSpec.v. *)
From Robsd Require Import Report.ReportSpec Report.ReportProofs Report.ReportNeverHidden Report.TailSpec Report.DurationProofs
                          Report.ReportBytes.
From Robsd Require Orch.ResumeDefs Orch.ResumeExec Orch.WrittenInv Orch.ReportBridge.
Local Open Scope N_scope.

(* Remarks are not results of this property: definitional facts and pins of earlier versions of the source,
   kept so that the history of the model stays checked.  Only Theorems are counted. *)

(* definitional: the model on C01's rows is the model on their report view *)
Remark C05_on_step_file_rows : forall m cfg (rows : list row) fs,
  report_struct m cfg rows fs = report_struct_rows m cfg (map view rows) fs.
Proof. exact (fun m cfg rows fs => eq_refl). Qed.
Print Assumptions C05_on_step_file_rows.

(* THE PIN: the forms of report.c the translator found in the working tree (whole-body comparison of
   report_step_log, canvas_report_step_log, regress_report_step_log; the test in report_cvs_log; its table) are the
   repaired ones.  Stops compiling - with every theorem below that is about the working tree - when one is reverted. *)
Theorem C05_source_has_every_repair : cur_sw = fixed_sw.
Proof. exact eq_refl. Qed.
Print Assumptions C05_source_has_every_repair.

(* Status (Subject: and Status: print the same string, [render_subject]/[render_raw]):
   it is the specified one; it says ok exactly when no non-skipped row has a
   non-zero exit; otherwise it gives the number of such rows (regress, canvas)
   or names the one such row (sequential modes).
   Hypotheses, explicit: regress/canvas - skipped rows carry exit 0 (the
   failure counter looks at every row); sequential modes - [reachable_seq]: every
   non-skipped row other than the last non-skipped one has exit 0 (only the
   last non-skipped row is inspected).  That the orchestrator only produces
   such files is proved with the orchestrator model (C03/C04/C11), not here. *)
Theorem C05_status_ok_iff : forall m rows,
  (counting m = true -> skipped_exit0 rows) ->
  (counting m = false -> reachable_seq rows) ->
  report_status m rows = spec_status m rows /\
  (report_status m rows = str_ok <-> (forall r, In r rows -> r_skip r <> 1%Z -> r_exit r = 0%Z)) /\
  (forall f fs, failures rows = f :: fs ->
     if counting m then report_status m rows = count_text (List.length (f :: fs))
     else fs = [] /\ report_status m rows = str_failed_in ++ r_name f).
Proof. exact status_ok_iff. Qed.
Print Assumptions C05_status_ok_iff.

(* outside the hypotheses the statement fails; documented witnesses, not findings:
   a failure followed by a passing non-skipped row reads "ok" in a sequential mode *)
Theorem C05_status_refuted_outside_reachable :
  exists m rows, counting m = false /\ ~ reachable_seq rows /\
                 failures rows <> [] /\ report_status m rows = str_ok.
Proof. exact status_refuted_outside_reachable. Qed.
Print Assumptions C05_status_refuted_outside_reachable.

(* a skipped row with a non-zero exit is counted in regress/canvas mode *)
Theorem C05_status_refuted_skipped_nonzero :
  exists m rows, counting m = true /\ ~ skipped_exit0 rows /\
                 failures rows = [] /\ report_status m rows <> str_ok.
Proof. exact status_refuted_skipped_nonzero. Qed.
Print Assumptions C05_status_refuted_skipped_nonzero.

(* The two hypotheses discharged for the step files the orchestrator produces, on the rows of ONE step
   file seen through both views ([orch_view]: step, name, exit, skip; [view]: what the report reads):
   - modes that count failures (regress, canvas): [written] = any history of writers - the skip records of
     the entry scripts (exit code read from the scripts by the translator), the sequential loop and the
     loop with parallel steps under every schedule, killed at any point and resumed any number of times;
   - sequential modes: [reachv] = any crash/resume history of the sequential loop, exit codes free at
     every attempt (Properties_C03.v). *)
Theorem C05_written_skip_records_exit0 : forall f,
  WrittenInv.written f -> forall r, In r f -> ResumeDefs.r_skip r = 1%Z -> ResumeDefs.r_exit r = 0%Z.
Proof. exact WrittenInv.written_skip0. Qed.
Print Assumptions C05_written_skip_records_exit0.

Theorem C05_status_orchestrated : forall m (rows : list row),
  (counting m = true -> WrittenInv.written (map ReportBridge.orch_view rows)) ->
  (counting m = false -> exists k, ResumeExec.wf_skel k /\ ResumeExec.reachv k (map ReportBridge.orch_view rows)) ->
  let rr := map view rows in
  report_status m rr = spec_status m rr /\
  (report_status m rr = str_ok <-> (forall r, In r rr -> r_skip r <> 1%Z -> r_exit r = 0%Z)) /\
  (forall f fs, failures rr = f :: fs ->
     if counting m then report_status m rr = count_text (List.length (f :: fs))
     else fs = [] /\ report_status m rr = str_failed_in ++ r_name f).
Proof. exact ReportBridge.status_orchestrated. Qed.
Print Assumptions C05_status_orchestrated.

(* that string is what the Subject: and the Status: line print *)
Theorem C05_status_is_printed : forall m cfg host content fs out rows,
  report_main m cfg host (Some content) fs = (0, out) -> parse_file content = Some rows ->
  exists rep post,
    rp_status rep = report_status m (map view rows) /\
    out = spec_sanitize (s_subject ++ subject_text host rep ++ [10; 10] ++
                         s_stats ++ [10] ++ s_status ++ rp_status rep ++ [10]) ++ post /\
    exists pre, subject_text host rep = pre ++ rp_status rep.
Proof. exact (status_is_printed cur_sw). Qed.
Print Assumptions C05_status_is_printed.

(* Sections: name, exit (as printed by "%d" of (int)exit) and log name of the
   sections are those of the listed rows, in row order; every non-skipped row
   with a non-zero exit is listed, a skipped row never is, a listed row with
   exit 0 is one of the rows shown although they passed. *)
Theorem C05_every_failure_has_section : forall m cfg rows fs rep,
  cvs_guard m fs ->
  report_struct_rows m cfg rows fs = ROk rep ->
  map (fun s => (s_name s, (s_exit s, s_log s))) (rp_sections rep) =
    map (fun r => (r_name r, (cast_int (r_exit r), r_log r))) (filter (spec_shown m cfg fs) rows) /\
  (forall r, In r rows -> r_skip r <> 1%Z -> r_exit r <> 0%Z -> spec_shown m cfg fs r = true) /\
  (forall r, r_skip r = 1%Z -> spec_shown m cfg fs r = false) /\
  (forall r, spec_shown m cfg fs r = true -> r_exit r = 0%Z -> listed_anyway m cfg fs r = true).
Proof. exact every_failure_has_section. Qed.
Print Assumptions C05_every_failure_has_section.

(* each section is made of its row: duration line and body too *)
Theorem C05_sections_exact : forall m cfg rows fs rep,
  cvs_guard m fs ->
  report_struct_rows m cfg rows fs = ROk rep ->
  rp_sections rep = map (fun r => section_of r (body_or_nil m cfg fs r)) (filter (spec_shown m cfg fs) rows) /\
  (forall r, In r (filter (spec_shown m cfg fs) rows) -> step_log m cfg fs r = ROk (body_or_nil m cfg fs r)).
Proof. exact sections_exact. Qed.
Print Assumptions C05_sections_exact.

(* the Exit: line prints the exit code itself whenever it fits an int (always, for wait statuses: -1, 1..255) *)
Theorem C05_exit_printed_as_is : forall z, (-2147483648 <= z < 2147483648)%Z -> cast_int z = z.
Proof. exact cast_int_small. Qed.
Print Assumptions C05_exit_printed_as_is.

(* never hidden, positively: in a report that is produced every failing row has its section at its place
   among the listed rows, with the specified body; its sanitized text - name, exit, duration, log name, body -
   is part of what robsd-report prints *)
Theorem C05_failure_has_section : forall m cfg a r b fs rep,
  cvs_guard m fs ->
  report_struct_rows m cfg (a ++ r :: b) fs = ROk rep -> failing r = true ->
  exists bd,
    spec_body m cfg fs r = ROk bd /\
    rp_sections rep =
      map (fun x => section_of x (body_or_nil m cfg fs x)) (filter (spec_shown m cfg fs) a) ++
      section_of r bd ::
      map (fun x => section_of x (body_or_nil m cfg fs x)) (filter (spec_shown m cfg fs) b).
Proof. exact failure_has_section. Qed.
Print Assumptions C05_failure_has_section.

Theorem C05_failed_step_is_printed : forall m cfg host content fs out rows a r b,
  cvs_guard m fs ->
  report_main m cfg host (Some content) fs = (0, out) ->
  parse_file content = Some rows -> map view rows = a ++ r :: b -> failing r = true ->
  exists bd pre post,
    spec_body m cfg fs r = ROk bd /\
    out = pre ++ spec_sanitize (render_section (section_of r bd)) ++ post /\
    render_section (section_of r bd) =
      [10; 62; 32] ++ r_name r ++ [10] ++ s_exit_ ++ render_Z (cast_int (r_exit r)) ++ [10] ++
      s_duration_ ++ step_duration r ++ [10] ++ s_log_ ++ r_log r ++ [10] ++ bd.
Proof. exact failed_step_is_printed. Qed.
Print Assumptions C05_failed_step_is_printed.

(* NEVER HIDDEN.  Inside the property's quantifier ([inside]: the lock file of the running invocation is there, no
   file a row needs is there-but-unreadable, a passing dpb step has its packages.diff, regress rows carry log names;
   [cvs_guard]: no cvs log is there-but-unreadable) a report IS produced - whichever logs exist or do not exist,
   in-flight rows (exit -1) whose log tee never created included - and every failing row has its section, at its
   place among the listed rows, with the specified body *)
Theorem C05_never_hidden : forall m cfg fs rows,
  inside m cfg fs rows -> cvs_guard m fs ->
  exists rep, report_struct_rows m cfg rows fs = ROk rep /\
    forall a r b, rows = a ++ r :: b -> failing r = true ->
      exists bd sa sb, spec_body m cfg fs r = ROk bd /\ rp_sections rep = sa ++ section_of r bd :: sb /\
                       List.length sa = List.length (filter (spec_shown m cfg fs) a).
Proof. exact never_hidden. Qed.
Print Assumptions C05_never_hidden.

(* a file system without unreadable files meets the cvs guard *)
Theorem C05_readable_meets_guard : forall m fs, (forall n, f_tmp fs n <> FUnreadable) -> cvs_guard m fs.
Proof. exact cvs_readable_guard. Qed.
Print Assumptions C05_readable_meets_guard.

(* the specified body of a row whose log does not exist: the empty excerpt (one newline after the Log: line), in
   every mode that shows the log (the cvs step shows the cvs logs) *)
Theorem C05_absent_log_is_empty_excerpt : forall m cfg fs r x l,
  r_log r = x :: l -> f_log fs (r_log r) = FAbsent -> beq (r_name r) name_cvs = false ->
  (m = Ports -> beq (r_name r) name_dpb && (r_exit r =? 0)%Z = false) ->
  spec_body m cfg fs r = ROk [10] /\ step_log m cfg fs r = ROk [10].
Proof. exact absent_log_is_empty_excerpt. Qed.
Print Assumptions C05_absent_log_is_empty_excerpt.

(* no report at all (exit 1, nothing printed) exactly under [spec_error] ... *)
Theorem C05_report_error_iff : forall m cfg rows fs,
  cvs_guard m fs ->
  (report_struct_rows m cfg rows fs = RErr <-> spec_error m cfg fs rows = true).
Proof. exact report_error_iff. Qed.
Print Assumptions C05_report_error_iff.

(* ... and [spec_error] holds only OUTSIDE the property's quantifier: the lock file is missing, the comment is
   there but unreadable, or a non-skipped row names a file that is there but unreadable / is a passing dpb row
   without packages.diff / is a regress row without a log name.  A log that does not exist is not among them. *)
Theorem C05_error_only_outside : forall m cfg fs rows,
  spec_error m cfg fs rows = true ->
  c_running cfg = false \/ f_comment fs = FUnreadable \/
  exists r, In r rows /\ nonskipped r = true /\
    (names_unreadable m fs r = true \/ dpb_without_diff m fs r = true \/ regress_without_log_name m r = true).
Proof. exact error_only_outside. Qed.
Print Assumptions C05_error_only_outside.

Theorem C05_report_main_silent : forall m cfg host content rows fs,
  cvs_guard m fs ->
  parse_file content = Some rows -> spec_error m cfg fs (map view rows) = true ->
  report_main m cfg host (Some content) fs = (1, []).
Proof. exact report_main_silent. Qed.
Print Assumptions C05_report_main_silent.

(* witnesses of the two kinds of "outside": (i) the failing step's own log is a directory; (ii) a PASSING dpb step
   without packages.diff takes the report of the failing step after it down *)
Theorem C05_outside_witnesses :
  (In silent_row [silent_row] /\ failing silent_row = true /\
   c_running d14_cfg = true /\ f_comment unreadable_files = FAbsent /\
   names_unreadable Robsd unreadable_files silent_row = true /\
   report_struct_rows Robsd d14_cfg [silent_row] unreadable_files = RErr) /\
  (failing silent_row = true /\ failing silent_dpb = false /\
   f_log readable_files (r_log silent_row) = FData [111; 10] /\
   dpb_without_diff Ports readable_files silent_dpb = true /\
   report_struct_rows Ports d14_cfg [silent_dpb; silent_row] readable_files = RErr /\
   (exists rep, report_struct_rows Ports d14_cfg [silent_row] readable_files = ROk rep)).
Proof. exact (conj never_hidden_refuted_own_log never_hidden_refuted_other_row). Qed.
Print Assumptions C05_outside_witnesses.

(* D24 (findings/D24_report_missing_step_log.md).  step_exec_job writes the in-flight record WITH the log name
   before tee creates the log.  An invocation killed in between leaves a row (exit -1) whose log does not exist.
   report.c as shipped ([sw_before_d24]): robsd-report prints nothing at all for such a directory, in every mode -
   the step that really failed before it (exit 3, log present) goes unreported too - although nothing of
   [spec_error] holds and the specified body of the row is the empty excerpt.  Full statement refuted by it:
       forall m cfg fs rows, inside m cfg fs rows -> cvs_guard m fs -> exists rep, report_struct_rows_with sw_before_d24 ... = ROk rep *)
Theorem C05_missing_log_refuted :
  failing d24_failed = true /\ failing d24_inflight = true /\
  f_log d24_files (r_log d24_inflight) = FAbsent /\
  forall m, spec_error m d14_cfg d24_files d24_rows = false /\
            cvs_guard m d24_files /\
            report_struct_rows_with sw_before_d24 m d14_cfg d24_rows d24_files = RErr /\
            spec_body m d14_cfg d24_files d24_inflight = ROk [10] /\
            step_log_with sw_before_d24 m d14_cfg d24_files d24_inflight = RErr.
Proof. exact missing_log_refuted. Qed.
Print Assumptions C05_missing_log_refuted.

(* ... and the working tree: both sections, the in-flight one with the empty excerpt, status "2 failures" (canvas) *)
Theorem C05_missing_log_holds_now :
  (exists rep, report_struct_rows Canvas d14_cfg d24_rows d24_files = ROk rep /\
     rp_status rep = count_text 2 /\
     map (fun s => (s_name s, s_exit s, s_body s)) (rp_sections rep) =
       [(r_name d24_failed, 3%Z, [10; 111; 10]); (r_name d24_inflight, (-1)%Z, [10])]) /\
  (forall m, exists rep, report_struct_rows m d14_cfg d24_rows d24_files = ROk rep /\
     map s_name (rp_sections rep) = [r_name d24_failed; r_name d24_inflight]).
Proof. exact missing_log_holds_when_fixed. Qed.
Print Assumptions C05_missing_log_holds_now.

(* D25 (findings/D25_report_regress_cvs.md).  robsd-regress has a cvs step and robsd-cvs.sh collects cvs-src-up.log /
   cvs-src-ci.log for it; the table of report_cvs_log had no ROBSD_REGRESS rows ([sw_before_d25]), so the section
   of a failed cvs step held one empty line - neither the cvs logs the property promises nor the tail of its log *)
Theorem C05_regress_cvs_refuted :
  failing d25_cvs = true /\
  step_log_with sw_before_d25 Regress d14_cfg d25_files d25_cvs = ROk [10] /\
  spec_body Regress d14_cfg d25_files d25_cvs = ROk [10; 80; 32; 97; 10; 10; 99; 49; 10] /\
  step_log_with fixed_sw Regress d14_cfg d25_files d25_cvs = spec_body Regress d14_cfg d25_files d25_cvs.
Proof. exact regress_cvs_refuted. Qed.
Print Assumptions C05_regress_cvs_refuted.

Theorem C05_regress_cvs_partial : forall m cfg fs r,
  m <> Regress -> step_log_with sw_before_d25 m cfg fs r = step_log_with fixed_sw m cfg fs r.
Proof. exact before_d25_same_outside_regress. Qed.
Print Assumptions C05_regress_cvs_partial.

(* D18 (/repo da850b3): a robsd-ports invocation whose cvs logs were never written gets its report - cvs section
   without change logs, then the failing step; before, no report *)
Theorem C05_ports_cvs_logs_missing_holds_now :
  exists rep, report_struct_rows Ports d14_cfg [silent_cvs; silent_row] readable_files = ROk rep /\
    rp_status rep = str_failed_in ++ r_name silent_row /\
    map s_name (rp_sections rep) = [name_cvs; r_name silent_row] /\
    map s_body (rp_sections rep) = [[10]; [10; 111; 10]].
Proof. exact ports_cvs_logs_missing_holds_when_fixed. Qed.
Print Assumptions C05_ports_cvs_logs_missing_holds_now.

Theorem C05_ports_cvs_logs_missing_refuted :
  report_struct_rows_with sw_before_d18 Ports d14_cfg [silent_cvs; silent_row] readable_files = RErr /\
  spec_error Ports d14_cfg readable_files [silent_cvs; silent_row] = false.
Proof. exact ports_cvs_logs_missing_refuted. Qed.
Print Assumptions C05_ports_cvs_logs_missing_refuted.

(* the dichotomy: no report exactly under [spec_error], else every failing row has its section *)
Theorem C05_never_hidden_or_silent : forall m cfg rows fs,
  cvs_guard m fs ->
  (spec_error m cfg fs rows = true /\ report_struct_rows m cfg rows fs = RErr) \/
  (spec_error m cfg fs rows = false /\
   exists rep, report_struct_rows m cfg rows fs = ROk rep /\
     forall a r b, rows = a ++ r :: b -> failing r = true ->
       exists bd sa sb, spec_body m cfg fs r = ROk bd /\ rp_sections rep = sa ++ section_of r bd :: sb /\
                        List.length sa = List.length (filter (spec_shown m cfg fs) a)).
Proof. exact never_hidden_or_silent. Qed.
Print Assumptions C05_never_hidden_or_silent.

(* the one place where an unreadable file does not end the report (so outside [cvs_guard] the statements above are
   not made): outside robsd-ports report_cvs_log's result is tested with "< 0" although STEP_LOG_ERROR is 3 *)
Theorem C05_unreadable_cvs_log_not_an_error :
  exists fs r, cvs_unreadable fs (spec_cvs_names Robsd) = true /\ failing r = true /\
    spec_body Robsd d14_cfg fs r = RErr /\ step_log Robsd d14_cfg fs r = ROk [10].
Proof. exact unreadable_cvs_log_not_an_error. Qed.
Print Assumptions C05_unreadable_cvs_log_not_an_error.

(* the excerpt function is "the lines from the n-th last non-empty line on" *)
Theorem C05_last_lines : forall c n, last_lines c n = spec_tail n c.
Proof. exact last_lines_spec. Qed.
Print Assumptions C05_last_lines.

(* ... and what that means, without reference to either algorithm: the excerpt is a SUFFIX of the log that
   starts at the beginning of a line and holds min(10, number of non-empty lines of the log) non-empty lines;
   when something is cut off it holds exactly ten and starts with a non-empty line (so it is the shortest
   such suffix); a log with fewer than ten non-empty lines is shown whole *)
Theorem C05_excerpt_meaning : forall c,
  exists p, c = p ++ last_lines c tail_lines /\
    (p = [] \/ exists p', p = p' ++ [10]) /\
    nonempty_lines (last_lines c tail_lines) = Nat.min 10 (nonempty_lines c) /\
    (p <> [] -> nonempty_lines (last_lines c tail_lines) = 10%nat /\
                exists x t, last_lines c tail_lines = x :: t /\ x <> 10).
Proof. exact last_lines_meaning. Qed.
Print Assumptions C05_excerpt_meaning.

Theorem C05_short_log_shown_whole : forall c,
  (nonempty_lines c < 10)%nat -> last_lines c tail_lines = c.
Proof. exact short_log_shown_whole. Qed.
Print Assumptions C05_short_log_shown_whole.

(* THE BODY CLAUSE for the working tree: what follows the Log: line is the specified text - the last lines of the
   log (empty excerpt for a log that does not exist), the cvs logs of the mode for the cvs step, packages.diff,
   the regress blocks, the whole canvas log *)
Theorem C05_body_current : forall m cfg fs r, cvs_guard m fs -> step_log m cfg fs r = spec_body m cfg fs r.
Proof. exact step_log_fixed. Qed.
Print Assumptions C05_body_current.

(* D14 under its exact guard, for either form of the two prints: the shown part of the log holds no NUL byte (or
   the bytes are copied) *)
Remark C05_body_partial : forall ce cc m cfg fs r,
  body_guard ce cc m fs r -> cvs_guard m fs ->
  step_log_with (sw_copies ce cc) m cfg fs r = spec_body m cfg fs r.
Proof. exact body_partial. Qed.
Print Assumptions C05_body_partial.

(* D14 as shipped ("%.*s" / "%s", repaired in /repo 91740ae): a NUL byte in the last lines cut the excerpt - of
   "l1\nl2<NUL>mid\nlast\n" only "l1\nl2" was printed *)
Theorem C05_body_refuted :
  exists m cfg fs r, spec_shown m cfg fs r = true /\
    step_log_with sw_before_d14 m cfg fs r = ROk [10; 108; 49; 10; 108; 50] /\
    spec_body m cfg fs r = ROk (10 :: d14_log).
Proof. exact body_refuted. Qed.
Print Assumptions C05_body_refuted.

Theorem C05_canvas_body_refuted :
  exists cfg fs r, step_log_with sw_before_d14 Canvas cfg fs r <> spec_body Canvas cfg fs r.
Proof. exact canvas_body_refuted. Qed.
Print Assumptions C05_canvas_body_refuted.

(* no NUL and no CR byte in the rendered report, whatever went into it; the
   final printf("%s") therefore prints all of it *)
Theorem C05_sanitize_total : forall host rep,
  ~ In 0 (render host rep) /\ ~ In 13 (render host rep) /\ cstr (render host rep) = render host rep.
Proof. exact render_sane. Qed.
Print Assumptions C05_sanitize_total.

(* what is printed instead: NUL as the four characters \x00, CR as \r, every other byte as it is *)
Theorem C05_sanitize_is_spec : forall s, sanitize s = spec_sanitize s.
Proof. exact sanitize_spec. Qed.
Print Assumptions C05_sanitize_is_spec.

(* every oracle the harness applies to the implementation's output accepts the model: exit status, no NUL/CR,
   section keys, the body of every section, subject and status (the status oracle judges the files that meet
   the hypotheses of C05_status_ok_iff - which C05_status_orchestrated shows are the files that occur) *)
Theorem C05_model_passes_oracles : forall x,
  cvs_guard (x_mode x) (files_of x) ->
  spec_ok_exit x (fst (run_fixture x)) = true /\
  spec_ok_sane (snd (run_fixture x)) = true /\
  forall rows rep, rows_of x = Some rows ->
    report_struct_rows (x_mode x) (cfg_of x) rows (files_of x) = ROk rep ->
    run_fixture x = (0, render (x_host x) rep) /\
    spec_ok_sections x (map (fun s => (s_name s, (s_exit s, s_log s))) (rp_sections rep)) = true /\
    (forall k s, nth_error (rp_sections rep) k = Some s -> spec_ok_body x k (sanitize (s_body s)) = true) /\
    (status_hyps (x_mode x) rows = true -> spec_ok_status x (subject_text (x_host x) rep) (rp_status rep) = true).
Proof. exact model_passes_all_oracles. Qed.
Print Assumptions C05_model_passes_oracles.

(* THE ORACLE ON BYTES.  The verdict of the harness on the implementation is [spec_ok_bytes]: exit status and standard
   output compared byte for byte with the rendering of the report the specification describes ([spec_report]: status
   by [spec_status] where the status hypotheses hold, the listed rows in order with name, exit, log name and
   [spec_body]; exit 1 and no output under [spec_error]) - no parser in between.  It accepts the model's output for
   every fixture.  (The oracles on fields above only name the clause when this one fails.) *)
Theorem C05_bytes_oracle_accepts_model : forall x,
  cvs_guard (x_mode x) (files_of x) ->
  spec_ok_bytes x (fst (run_fixture x)) (snd (run_fixture x)) = true.
Proof. exact model_passes_bytes_oracle. Qed.
Print Assumptions C05_bytes_oracle_accepts_model.

(* non-vacuity: a robsd build that failed in its second step after a skipped
   one; the log has eleven lines and the excerpt starts at the second *)
Example C05_example :
  let log := [49; 10; 50; 10; 51; 10; 52; 10; 53; 10; 54; 10; 55; 10; 56; 10; 57; 10; 65; 10; 66; 10] in
  let rows := [mksrow [101; 110; 118] 0 3 0 [101] 1 0; mksrow [99] 0 0 0 [] 2 1;
               mksrow [107] 2 7 0 [107] 3 0] in
  let fs := mkfiles (fun l => FData log) (fun _ => FAbsent) FAbsent None None None None (fun _ _ => None) in
  reachable_seq rows /\
  match report_struct_rows Robsd d14_cfg rows fs with
  | ROk rep => rp_status rep = str_failed_in ++ [107] /\
               map s_name (rp_sections rep) = [[107]] /\
               map s_body (rp_sections rep) = [10 :: skipn 2 log]
  | RErr => False
  end.
Proof.
  split; [apply reachable_seqb_iff; reflexivity|]. vm_compute. repeat split; reflexivity.
Qed.
