(* Properties_C08.v - configuration is accepted and valued exactly as the grammar documents.

   Model: Conf/ConfDefs.v (lexer, token cursor, the value parsers, the canvas
   step and regress productions, lookup with computed defaults and the rdomain
   counter, interpolation threaded through the configuration, robsd-config).
   Tables: regenerated from conf.c, conf-*.c, conf-token.h, mode.h on every run
   (coq/gen/Gen_Conf.v, [tables_of]); documented tables: Conf/DocSpec.v, written
   by hand from the five *.conf.5 pages and robsd-config.8 ([doc_tables]).
   Specification: Conf/ConfSpec.v ([text_conforms]: the text lexes without a
   complaint into the spelling of a list of entries - keywords of the table
   only, correctly typed values, non-repeatable variables met while still
   undefined, users and directories existing, required variables defined at
   the end).  The general theorems hold for EVERY table and EVERY environment;
   they are instantiated with the regenerated tables (what the code does) and
   with the documented ones (the oracle applied to what robsd-config did).

   Parts of the property that do NOT hold, or did not hold, of the code; each keeps
   its full statement here, a witness (_refuted) and the part that does hold
   (_partial):
     DOC  in NO mode are the C tables what the manual pages say: Conf/DocExceptions.v lists the differences (undocumented
          variables incl. D7 = canvas robsddir, documented variables without a row, directories that are not checked,
          regress-env repeatable, a default spelled through an undocumented variable, two initialisers), proved to be exactly
          the difference                                       C08_accept_iff_documented_refuted / _partial, C08_doc_exceptions_exact,
                                                              C08_exception_*, C08_canvas_accepts_undocumented_robsddir
   HISTORICAL PINS - repaired in /repo (c0e596d, 78f946e, 35cfab1); the theorems named _refuted below are conditioned on a
   translator switch that is now true, hence vacuous of the present source and kept only so that a return of the
   defect is recognised; they are not results:
     D6  rdomain hands out 11 twice after the wrap            C08_rdomain_cycle_refuted, C08_rdomain_cycle (dichotomy)
     D16 a rejection caused by a failing substitution in a directory value or in a
         test's env option prints no file name                C08_reject_has_diagnostic_refuted
     D18 an accepted configuration whose robsddir depends on ${builddir} made every reference to ${builddir}
         recurse without bound (stack exhaustion)              C08_accepted_no_abort_refuted / _partial
                                                              (findings/D18_builddir_reentry.md); now C08_accepted_no_abort_holds_now *)
From Robsd Require Import Conf.ConfDefs Conf.ConfSpec Conf.DocSpec Conf.DocExceptions Conf.ConfDocWitness Conf.ConfTie Conf.ConfSound Conf.ConfComplete
  Conf.ConfDiag Conf.ConfReject Conf.ConfRdomain Conf.ConfValue Conf.ConfInst Conf.ConfPrim Conf.ConfTrack Conf.ConfProofs
  Conf.ConfRows Conf.ConfDocIff Conf.ConfAbort Conf.ConfAbortInst Conf.ConfValueAll Conf.ConfLexLaws Conf.ConfPins Conf.ConfValueMore.
From RobsdGen Require Import Gen_Conf.
From Coq Require Import String.
Local Open Scope N_scope.

(* ------------------------------------------------------------------ acceptance *)
(* token level, any table, any environment, both directions, with the dictionary defined *)
Theorem C08_accept_iff_conforms_tokens : forall E T toks eof c,
  parse_tokens E T toks eof [] = Accepted c <-> conforms_to E T toks c.
Proof. exact parse_tokens_iff. Qed.
Print Assumptions C08_accept_iff_conforms_tokens.

(* text level, all five modes, the tables the code has now *)
Theorem C08_accept_iff_conforms : forall E m text c,
  config_parse E (tables_of m) text = Accepted c <-> text_conforms E (tables_of m) text c.
Proof. exact accept_iff_conforms_gen. Qed.
Print Assumptions C08_accept_iff_conforms.

(* the oracle: the reader run on the documented tables decides conformance to the documented grammar *)
Theorem C08_oracle_reflects_documented_grammar : forall E m text,
  spec_accepts E m text = true <-> exists c, text_conforms E (doc_tables m) text c.
Proof. exact accept_iff_conforms_doc. Qed.
Print Assumptions C08_oracle_reflects_documented_grammar.

(* THE HEADLINE CLAUSE, full statement [accept_iff_documented_statement m]: the implementation accepts a text exactly when
   the text conforms to the DOCUMENTED grammar ([doc_tables m]: the rows of Conf/DocSpec.v, transcribed line by line from the
   manual pages, nothing fitted).  REFUTED IN EVERY MODE: each mode has a configuration the code accepts and the documented
   grammar does not (robsd, robsd-cross: a directory spelled with the undocumented ${trace}; robsd-ports: a chroot that
   does not exist; robsd-regress: regress-env given twice; canvas: robsddir, D7). *)
Theorem C08_accept_iff_documented_refuted : forall m, ~ accept_iff_documented_statement m.
Proof. exact accept_iff_documented_refuted. Qed.
Print Assumptions C08_accept_iff_documented_refuted.

(* What holds, exactly, in all five modes: the implementation accepts a text iff it conforms to the documented grammar WITH
   THE EXCEPTIONS of Conf/DocExceptions.v applied, and then both define the same dictionary.  The table of
   [doc_tables_as_built m] is the documented rows with [doc_exceptions m] applied (second conjunct); the regenerated table has
   the same rows in another order; no name can match two rows ([uniq_match], computed; patterns included), so "first matching
   row" does not see the order (Conf/ConfRows.v, Conf/ConfDocIff.v).  The two behaviour switches (rdomain body, diagnostics
   path) are the source's on both sides: acceptance does not depend on them, their clauses are C08_rdomain_cycle_holds_now and
   C08_reject_names_file_holds_now. *)
Theorem C08_accept_iff_documented_partial : forall E m text c,
  (config_parse E (tables_of m) text = Accepted c <-> text_conforms E (doc_tables_as_built m) text c)
  /\ t_grammar (doc_tables_as_built m) = canon (fold_left apply_exception (map snd (doc_exceptions m)) (doc_rows m)).
Proof. exact (fun E m text c => conj (accept_iff_as_built E m text c) (as_built_is_canon m)). Qed.
Print Assumptions C08_accept_iff_documented_partial.

(* THE LIST OF EXCEPTIONS IS EXACTLY THE DIFFERENCE between the documented rows and the regenerated C tables: computed from
   the two tables (names only in one, rows of one name that differ) it is the hand-typed, annotated list of
   Conf/DocExceptions.v; every entry is proper (an added name is undocumented, a dropped or replaced name is documented and
   the replacement differs).  An edit of a C table, of DocSpec or of the list stops this proof. *)
Theorem C08_doc_exceptions_exact : forall m,
  xcanon (table_diff (doc_table m) (canon (t_grammar (tables_of m)))) = xcanon (map snd (doc_exceptions m))
  /\ forallb (proper (doc_rows m)) (map snd (doc_exceptions m)) = true
  /\ canon (t_grammar (tables_of m)) <> doc_table m.
Proof. exact (fun m => conj (exceptions_are_the_difference m) (conj (exceptions_proper m) (tables_match_docs_refuted m))). Qed.
Print Assumptions C08_doc_exceptions_exact.

(* one witness per class: a configuration (and template) on which the reader on the regenerated tables and the reader on the
   purely documented tables differ - each replayed on the real robsd-config (findings/C08_doc_vs_code.md) *)
Theorem C08_exception_undocumented_variable :
  code_cmd ROBSD robsd_min [] ("${build-user}" ++ nl) = (0%N, bs ("build" ++ nl))
  /\ fst (doc_cmd ROBSD robsd_min [] ("${build-user}" ++ nl)) = 1%N
  /\ code_accepts ROBSD (robsd_min ++ "bsd-srcdir ""${trace}/r""" ++ nl) = true
  /\ doc_accepts ROBSD (robsd_min ++ "bsd-srcdir ""${trace}/r""" ++ nl) = false.
Proof. exact wit_undocumented_variable. Qed.
Print Assumptions C08_exception_undocumented_variable.

Theorem C08_exception_documented_without_row :
  fst (code_cmd ROBSD_REGRESS regress_min [] ("${regress-obj}" ++ nl)) = 1%N
  /\ doc_cmd ROBSD_REGRESS regress_min [] ("${regress-obj}" ++ nl) = (0%N, bs nl)
  /\ fst (code_cmd ROBSD_REGRESS regress_min [] ("${regress-a-quiet}" ++ nl)) = 1%N
  /\ doc_cmd ROBSD_REGRESS regress_min [] ("${regress-a-quiet} ${regress-a-root}" ++ nl) = (0%N, bs ("0 0" ++ nl))
  /\ fst (code_cmd ROBSD_CROSS cross_min [] ("${target}" ++ nl)) = 1%N
  /\ doc_cmd ROBSD_CROSS cross_min [] ("${target}" ++ nl) = (0%N, bs nl)
  /\ code_cmd ROBSD_REGRESS ("robsddir ""/r""" ++ nl ++ "regress ""a"" quiet obj { ""o"" }" ++ nl) [] ("${regress-a-quiet} ${regress-obj}" ++ nl)
     = doc_cmd ROBSD_REGRESS ("robsddir ""/r""" ++ nl ++ "regress ""a"" quiet obj { ""o"" }" ++ nl) [] ("${regress-a-quiet} ${regress-obj}" ++ nl).
Proof. exact wit_documented_without_row. Qed.
Print Assumptions C08_exception_documented_without_row.

Theorem C08_exception_directory_not_checked :
  code_accepts ROBSD_PORTS (ports_min "/nonexistent") = true /\ doc_accepts ROBSD_PORTS (ports_min "/nonexistent") = false
  /\ code_accepts ROBSD_PORTS (ports_min "/r") = true /\ doc_accepts ROBSD_PORTS (ports_min "/r") = true
  /\ code_accepts ROBSD_PORTS (ports_min "/r" ++ "ports-dir ""/nonexistent""" ++ nl) = true
  /\ doc_accepts ROBSD_PORTS (ports_min "/r" ++ "ports-dir ""/nonexistent""" ++ nl) = false.
Proof. exact wit_directory_not_checked. Qed.
Print Assumptions C08_exception_directory_not_checked.

Theorem C08_exception_repeatable_undocumented :
  code_accepts ROBSD_REGRESS (regress_min ++ "regress-env { ""A=1"" }" ++ nl ++ "regress-env { ""B=2"" }" ++ nl) = true
  /\ doc_accepts ROBSD_REGRESS (regress_min ++ "regress-env { ""A=1"" }" ++ nl ++ "regress-env { ""B=2"" }" ++ nl) = false
  /\ code_cmd ROBSD_REGRESS (regress_min ++ "regress-env { ""A=1"" }" ++ nl ++ "regress-env { ""B=2"" }" ++ nl) [] ("${regress-env}" ++ nl)
     = (0%N, bs ("A=1 B=2" ++ nl)).
Proof. exact wit_repeatable_undocumented. Qed.
Print Assumptions C08_exception_repeatable_undocumented.

Theorem C08_exception_default_text :
  code_cmd ROBSD_REGRESS regress_min [] ("${regress-user}" ++ nl) = doc_cmd ROBSD_REGRESS regress_min [] ("${regress-user}" ++ nl)
  /\ code_cmd ROBSD_REGRESS regress_min ["build-user=x"%string] ("${regress-user}" ++ nl) = (0%N, bs ("x" ++ nl))
  /\ doc_cmd ROBSD_REGRESS regress_min ["build-user=x"%string] ("${regress-user}" ++ nl) = (0%N, bs ("build" ++ nl)).
Proof. exact wit_default_text. Qed.
Print Assumptions C08_exception_default_text.

(* the exceptions of class XC_representation ("Defaults to no" is { NULL } in C) change nothing a lookup can see; the token
   exception (the word s) changes a diagnostic, not acceptance *)
Theorem C08_exception_representation_harmless : forall m,
  forallb (fun cx => match cx with
                     | (XC_representation, X_replace g) =>
                         existsb (fun d => beq (gr_kw d) (gr_kw g) && same_default_b d g) (doc_rows m)
                     | (XC_representation, _) => false
                     | _ => true
                     end) (doc_exceptions m) = true
  /\ (forall E d g, same_default_b d g = true -> default_value E d = default_value E g).
Proof. exact (fun m => conj (representation_exceptions_harmless m) (fun E d g => same_default_value_b E d g)). Qed.
Print Assumptions C08_exception_representation_harmless.

(* canvas.conf.5:24-27 writes  step "name" [options]: by the page a step without command conforms; config_parse_canvas_step
   rejects it *)
Theorem C08_step_without_command_refuted :
  doc_step_shape false false = true /\ code_step_shape false false = false
  /\ (exists c, config_parse wit_env (tables_of CANVAS) (bs (canvas_min "step ""a""")) = Rejected c
                /\ c_diags c = [mk_diag P_conf 3 M_step_command_missing])
  /\ code_accepts CANVAS (canvas_min "step ""a"" command { ""true"" }") = true
  /\ code_accepts CANVAS (canvas_min "step ""a"" parallel") = false.
Proof. exact wit_step_without_command. Qed.
Print Assumptions C08_step_without_command_refuted.

(* documented AND accepted: a second bsd-diff / x11-diff / ports-diff whose pattern matches nothing defines nothing, so it is
   never "given twice" (robsd.conf.5:69-71 "silently ignored if glob does not yield any matches") *)
Theorem C08_glob_without_match_is_ignored : forall E T c g e s,
  gr_fn g = PF_glob -> en_val e = E_str s -> e_glob E s = GL_nomatch -> apply_entry E T c g e = Some c.
Proof. exact glob_without_match_is_ignored. Qed.
Print Assumptions C08_glob_without_match_is_ignored.

(* VALUE-ORACLE REFLECTION: on an accepted configuration the whole command - exit status, standard output, every diagnostic,
   trap flag - on the regenerated tables IS the command on the documented tables with the exceptions applied, for every -v
   list and every template.  (The oracle the harness applies to the implementation is the command on the PURELY documented
   tables, [spec_config]; where the two differ is therefore exactly where an exception is touched.) *)
Theorem C08_value_oracle_reflection : forall E m text c vars stdin,
  config_parse E (tables_of m) text = Accepted c ->
  robsd_config E (tables_of m) text vars stdin = robsd_config E (doc_tables_as_built m) text vars stdin.
Proof. exact robsd_config_as_built. Qed.
Print Assumptions C08_value_oracle_reflection.

(* the order of the rows of a table never matters once no name matches two rows *)
Theorem C08_row_order_irrelevant : forall G G' n kw,
  (forall g, In g G <-> In g G') -> uniq_match G = true ->
  grammar_for_interp G n = grammar_for_interp G' n /\ grammar_for_keyword G kw = grammar_for_keyword G' kw.
Proof. exact (fun G G' n kw Hs Hu => conj (gfi_same_rows G G' n Hs Hu) (gfk_same_rows G G' kw Hs Hu)). Qed.
Print Assumptions C08_row_order_irrelevant.

(* ------------------------------------------------------------------ tables = documentation + exceptions *)
(* keywords, types, parsers, REQ/REP/PAT/EARLY, defaults of every row, up to the order of the rows, all five modes *)
Theorem C08_tables_match_docs_with_exceptions : forall m,
  canon (t_grammar (tables_of m)) = as_built_table m.
Proof. exact tables_match_as_built. Qed.
Print Assumptions C08_tables_match_docs_with_exceptions.

(* D7 in particular *)
Theorem C08_tables_match_docs_canvas_refuted :
  grammar_for_keyword (t_grammar (tables_of CANVAS)) kw_robsddir <> None /\
  grammar_for_keyword (doc_table CANVAS) kw_robsddir = None /\
  canon (t_grammar (tables_of CANVAS)) <> doc_table CANVAS.
Proof. exact tables_match_docs_canvas_refuted. Qed.
Print Assumptions C08_tables_match_docs_canvas_refuted.

Theorem C08_canvas_accepts_undocumented_robsddir :
  (exists c, config_parse wit_env (tables_of CANVAS) wit_canvas_text = Accepted c
             /\ find_var (c_vars c) kw_robsddir = Some (VStr [47; 100])
             /\ find_var (c_vars c) kw_canvas_dir = Some (VStr [47; 114]))
  /\ ~ (exists c, text_conforms wit_env (doc_tables CANVAS) wit_canvas_text c).
Proof. exact canvas_accepts_undocumented_robsddir. Qed.
Print Assumptions C08_canvas_accepts_undocumented_robsddir.

(* the words of the syntax, the rdomain range, yes/no *)
Theorem C08_constants_match_docs :
  filter (fun r => match tr_key r with [] => false | _ => true end) token_table = tokens_as_built
  /\ (forall m, t_rdomain_min (tables_of m) = doc_rdomain_first /\ (t_rdomain_max (tables_of m) - 1)%Z = doc_rdomain_last)
  /\ (forall m, word_token (tables_of m) 0 [121; 101; 115] = mk_token T_BOOLEAN 0 [] doc_yes
                /\ word_token (tables_of m) 0 [110; 111] = mk_token T_BOOLEAN 0 [] doc_no).
Proof. exact (conj tokens_match_docs (conj rdomain_range_matches_docs yes_no_tokens)). Qed.
Print Assumptions C08_constants_match_docs.

(* PINS of the parsing functions (text / structure, not semantics): harness/t_conf.py refuses any other body of
   config_parse_keyword (no_repeat computed before the parser runs; append on CONFIG_APPEND; then "already defined") and of
   config_validate; the CONFIG_* codes every value parser returns are regenerated ([parser_returns]) and are, as sets, the
   outcomes the model's parsers were written with ([parser_outcomes], hand-typed from Conf/ConfDefs.v) *)
Theorem C08_parser_return_codes_pinned :
  forallb (fun x => same_kinds (flat_map code_kind (snd x)) (parser_outcomes (fst x))) parser_returns = true
  /\ map fst parser_returns = [PF_boolean; PF_integer; PF_string; PF_list; PF_glob; PF_user; PF_directory; PF_canvas_directory;
                               PF_canvas_step; PF_regress; PF_regress_env; PF_regress_timeout].
Proof. exact parser_returns_pinned. Qed.
Print Assumptions C08_parser_return_codes_pinned.

(* ------------------------------------------------------------------ rejection *)
(* full statement: [reject_names_file_statement] - every rejection leaves a
   diagnostic naming the file.  HISTORICAL PIN (D16, repaired in /repo 78f946e): the hypothesis
   [t_interp_path .. = false] is false of the present source, so this says nothing about it; the
   statement that holds now is C08_reject_names_file_holds_now below. *)
Theorem C08_reject_has_diagnostic_refuted :
  t_interp_path (tables_of ROBSD) = false ->
  (exists c, config_parse wit_env (tables_of ROBSD) wit_reject_text = Rejected c
             /\ c_diags c = [mk_diag P_none 3 (M_interp (EUnknown [110; 111; 112; 101]))]
             /\ ~ (exists d, In d (c_diags c) /\ names_file d))
  /\ ~ reject_names_file_statement.
Proof. exact (fun H => conj (reject_names_file_refuted H) (reject_names_file_statement_false H)). Qed.
Print Assumptions C08_reject_has_diagnostic_refuted.

(* every rejection exits 1 with nothing on stdout and leaves a diagnostic: one
   naming the configuration file, or - the exact exception - the "invalid
   substitution" message of interpolate.c, which carries the path only if the
   caller passed one ([ipath]: it does not in the source as it is) *)
Theorem C08_reject_has_diagnostic_partial : forall E m text c,
  config_parse E (tables_of m) text = Rejected c ->
  (forall vars stdin, r_exit (robsd_config E (tables_of m) text vars stdin) = 1
                      /\ r_stdout (robsd_config E (tables_of m) text vars stdin) = [])
  /\ exists d, In d (c_diags c) /\ (names_file d \/ interp_diag (tables_of m) d).
Proof. exact reject_has_diagnostic_partial. Qed.
Print Assumptions C08_reject_has_diagnostic_partial.

Theorem C08_reject_has_diagnostic_if_fixed : forall E T text c,
  wf_tokens T = true -> t_interp_path T = true -> config_parse E T text = Rejected c ->
  exists d, In d (c_diags c) /\ d_path d = P_conf.
Proof. exact reject_names_file_if_fixed. Qed.
Print Assumptions C08_reject_has_diagnostic_if_fixed.

(* the lexer's fuel is never exhausted *)
Theorem C08_lexer_total : forall T text, lex T text <> LexFuel.
Proof. exact lex_fuel. Qed.
Print Assumptions C08_lexer_total.

(* what the lexer hands to the grammar, stated without its loops ([text_conforms] starts from the lexer's tokens):
   an integer literal is its decimal value when that fits an int and "integer too big" exactly otherwise; a
   comment runs to the end of the line (or a NUL) and leaves nothing; a string is the bytes up to the next
   double quote, unterminated when the input or a NUL comes first *)
Theorem C08_lexer_laws :
  (forall ds, all_digits ds ->
     ((digits_val ds 0 <= i32_max)%Z -> lex_int ds 0 false = (digits_val ds 0, false))
     /\ ((i32_max < digits_val ds 0)%Z -> snd (lex_int ds 0 false) = true))
  /\ (forall body rest lno, Forall (fun c => c <> 10 /\ c <> 0) body ->
        skip_comment lno (body ++ 10 :: rest) = ((lno + 1)%Z, rest)
        /\ skip_comment lno (body ++ 0 :: rest) = (lno, rest) /\ skip_comment lno body = (lno, []))
  /\ (forall body rest lno acc, Forall (fun c => c <> 34 /\ c <> 0) body ->
        scan_string lno (body ++ 34 :: rest) acc
        = Some (rev acc ++ body, (lno + Z.of_nat (List.length (filter (N.eqb 10) body)))%Z, rest)
        /\ scan_string lno body acc = None /\ scan_string lno (body ++ 0 :: rest) acc = None).
Proof.
  exact (conj lex_int_literal
          (conj (fun body rest lno H => skip_comment_spec body rest lno H)
                (fun body rest lno acc H => scan_string_spec body rest lno acc H))).
Qed.
Print Assumptions C08_lexer_laws.

(* ------------------------------------------------------------------ values *)
Theorem C08_value_exact : forall E T,
  (forall early c n v, find_var (c_vars c) n = Some v -> v <> VInvalid ->
                       early = false \/ is_early (t_grammar T) n = true ->
                       lookup1 E T early c n = (c, Some (render v)))
  /\ (forall c n g v, find_var (c_vars c) n = None -> grammar_for_interp (t_grammar T) n = Some g ->
                      gr_req g = false -> (forall f, gr_default g <> D_fun f) -> default_value E g = Some v ->
                      lookup1 E T false c n = (c, Some (render v)))
  /\ (forall c n, find_var (c_vars c) n = None ->
                  (grammar_for_interp (t_grammar T) n = None \/
                   exists g, grammar_for_interp (t_grammar T) n = Some g /\ gr_req g = true) ->
                  lookup1 E T false c n = (c, None))
  /\ (forall c g e c1 v, plain (gr_fn g) = true -> apply_entry E T c g e = Some c1 ->
                         own_value E (gr_fn g) (en_val e) = Some v ->
                         (forall c0 ov, apply_value E T c (gr_fn g) (en_val e) = Some (c0, ov) -> find_var (c_vars c0) (en_kw e) = None) ->
                         find_var (c_vars c1) (en_kw e) = Some v)
  /\ (forall c n v m w, find_var (c_vars c) m = Some w -> find_var (c_vars (cfg_append c n v)) m = Some w)
  /\ (forall l, render (VList l) = join_spec l)
  /\ (render (VInt doc_yes) = [49] /\ render (VInt doc_no) = [48])
  /\ (forall c n u c1 v, apply_value E T c PF_regress_timeout (E_timeout n u) = Some (c1, Some v) ->
                         exists k, doc_unit_seconds u = Some k /\ v = VInt (k * n)%Z).
Proof. exact value_exact. Qed.
Print Assumptions C08_value_exact.

(* for an accepted configuration (entries [es], dictionary [c]): a plain keyword interpolates to the value of
   its first defining entry (later entries cannot change it), whatever other entries - regress productions
   with their options, canvas steps, directories whose substitution defines computed defaults - come before,
   between or after *)
Theorem C08_value_of_accepted : forall E T kw es c,
  plain_free T kw = true -> run_entries E T (cfg_init T) es = Some c ->
  find_var (c_vars c) kw = kw_value E T kw es
  /\ (forall v, kw_value E T kw es = Some v -> v <> VInvalid -> lookup1 E T false c kw = (c, Some (render v))).
Proof. exact value_of_accepted_plain. Qed.
Print Assumptions C08_value_of_accepted.

Theorem C08_value_of_accepted_covers : forall m,
  forallb (fun g => negb (has_fn g && plain (gr_fn g)) || plain_free (tables_of m) (gr_kw g) || prefixb regress_prefix (gr_kw g) || beq (gr_kw g) kw_robsddir)
          (t_grammar (tables_of m)) = true.
Proof. exact plain_keywords_covered. Qed.
Print Assumptions C08_value_of_accepted_covers.

(* an entry writes only the names of [value_targets]; every other name that is not answered by a computed
   default keeps the value it had (per-test options only on their test) *)
Theorem C08_entry_writes_only_its_names : forall E T n0, ~ fun_name T n0 -> forall c g e c1,
  beq (en_kw e) n0 = false -> not_among n0 (value_targets (gr_fn g) (en_val e)) ->
  apply_entry E T c g e = Some c1 -> find_var (c_vars c1) n0 = find_var (c_vars c) n0.
Proof. exact untouched_apply_entry. Qed.
Print Assumptions C08_entry_writes_only_its_names.

(* the same for EVERY settable plain keyword: the demand "no production writes the name" is made of the rows of
   the mode's own table, which admits regress-user, regress-timeout (time-out converted to seconds by
   [kw_value]/[own_value]) and robsddir *)
Theorem C08_value_of_accepted_all : forall E T kw, plain_free_in T kw = true -> forall es c,
  run_entries E T (cfg_init T) es = Some c ->
  find_var (c_vars c) kw = kw_value E T kw es
  /\ (forall v, kw_value E T kw es = Some v -> v <> VInvalid -> lookup1 E T false c kw = (c, Some (render v))).
Proof. exact plain_value_accepted. Qed.
Print Assumptions C08_value_of_accepted_all.

(* ... which leaves out exactly one keyword of one mode: robsddir in canvas, which canvas-dir defines too (D7) *)
Theorem C08_value_of_accepted_all_covers : forall m,
  forallb (fun g => negb (has_fn g && plain (gr_fn g)) || plain_free_in (tables_of m) (gr_kw g)
                    || (mode_eqb m CANVAS && beq (gr_kw g) kw_robsddir))
          (t_grammar (tables_of m)) = true.
Proof. exact plain_keywords_all_covered. Qed.
Print Assumptions C08_value_of_accepted_all_covers.

(* PER-TEST OPTIONS APPLY ONLY TO THEIR TEST, end to end: through a whole accepted configuration the variable
   regress-<q>-<env|parallel|quiet|root> is changed by no entry other than  regress "q" ...  - whatever options
   other tests carry and whatever else is configured.  (targets: its documented default "regress" is
   materialised by the first reference, so a reference - not another test's option - can define it.) *)
Theorem C08_per_test_options_only_their_test : forall E q t es c c1,
  In t [sfx_env; sfx_parallel; sfx_quiet; sfx_root] ->
  Forall (fun e => forall opts, en_val e <> E_regress q opts) es ->
  run_entries E (tables_of ROBSD_REGRESS) c es = Some c1 ->
  find_var (c_vars c1) (regress_name q t) = find_var (c_vars c) (regress_name q t).
Proof.
  exact (fun E q t es c c1 Ht Hq Hr =>
    per_test_options_frame E (tables_of ROBSD_REGRESS) q t
      (match Ht with
       | or_introl e => or_introl e
       | or_intror (or_introl e) => or_intror (or_introl e)
       | or_intror (or_intror (or_introl e)) => or_intror (or_intror (or_introl e))
       | or_intror (or_intror (or_intror (or_introl e))) => or_intror (or_intror (or_intror (or_introl e)))
       | or_intror (or_intror (or_intror (or_intror f))) => match f with end
       end)
      (proj1 (option_not_fun q t Ht)) (proj2 (option_not_fun q t Ht)) es c c1 Hq Hr).
Qed.
Print Assumptions C08_per_test_options_only_their_test.

(* ... and positively: after an accepted configuration regress-<q>-quiet = 1, regress-<q>-root = 1,
   regress-<q>-parallel = 0 EXACTLY when some entry  regress "q"  carries quiet / root / no-parallel; otherwise the
   variable is undefined (so ${regress-q-parallel} falls back to the global switch, ${regress-q-quiet} has no value) *)
Theorem C08_flag_option_value : forall E q o sfx z es c,
  flag_sfx o = Some (sfx, z) ->
  run_entries E (tables_of ROBSD_REGRESS) (cfg_init (tables_of ROBSD_REGRESS)) es = Some c ->
  find_var (c_vars c) (regress_name q sfx)
  = if existsb (has_flag (tables_of ROBSD_REGRESS) q o) es then Some (VInt z) else None.
Proof. exact flag_option_value. Qed.
Print Assumptions C08_flag_option_value.

(* the names of the per-test variables determine the test and the option *)
Theorem C08_option_names_injective : forall p q s t,
  In s option_sfx -> In t option_sfx -> regress_name p s = regress_name q t -> p = q /\ s = t.
Proof. exact option_names_injective. Qed.
Print Assumptions C08_option_names_injective.

(* "INTERPOLATES TO EXACTLY its configured value" at the level of the template: the lookup hands the rendered
   value back to interpolate(), which expands it again, so the clause holds exactly for the values that contain no
   '$' (a value with a reference in it is expanded further - that is the documented way of composing variables):
   then ${kw} yields the rendering byte for byte and leaves the configuration unchanged *)
Theorem C08_value_template_exact : forall E T c kw v,
  (3 <= t_depth_limit T)%nat -> kw <> [] -> Forall (fun ch => ch <> RBRACE /\ ch <> 0) kw ->
  find_var (c_vars c) kw = Some v -> v <> VInvalid -> nodollar (render v) ->
  cfg_interp E T c (ref_of kw) = (c, IOk (cstr (render v))).
Proof. exact interp_var_plain. Qed.
Print Assumptions C08_value_template_exact.

(* THE NON-PLAIN SETTABLE KEYWORDS.  ${regress} - "All configured regression tests" (robsd-config.8:78, its EXAMPLES): after an
   accepted robsd-regress configuration the variable holds the paths of all regress entries in the order written and a
   reference yields them joined by single spaces, whatever options the tests carry and whatever else is configured *)
Theorem C08_regress_value : forall E es c,
  run_entries E (tables_of ROBSD_REGRESS) (cfg_init (tables_of ROBSD_REGRESS)) es = Some c -> regress_paths es <> [] ->
  find_var (c_vars c) str_regress = Some (VList (regress_paths es))
  /\ lookup1 E (tables_of ROBSD_REGRESS) false c str_regress = (c, Some (join_spec (regress_paths es))).
Proof. exact regress_value. Qed.
Print Assumptions C08_regress_value.

(* ${regress-env}: the items of all regress-env entries in the order written *)
Theorem C08_regress_env_value : forall E es c,
  run_entries E (tables_of ROBSD_REGRESS) (cfg_init (tables_of ROBSD_REGRESS)) es = Some c ->
  list_content c kw_regress_env = regress_env_items es
  /\ (regress_env_items es <> [] -> find_var (c_vars c) kw_regress_env = Some (VList (regress_env_items es))).
Proof. exact regress_env_value. Qed.
Print Assumptions C08_regress_env_value.

(* ${canvas-dir}: the string of the canvas-dir entry as written *)
Theorem C08_canvas_dir_value : forall E es c s,
  run_entries E (tables_of CANVAS) (cfg_init (tables_of CANVAS)) es = Some c -> canvas_dir_of es = Some s ->
  find_var (c_vars c) kw_canvas_dir = Some (VStr s) /\ lookup1 E (tables_of CANVAS) false c kw_canvas_dir = (c, Some s).
Proof. exact canvas_dir_value. Qed.
Print Assumptions C08_canvas_dir_value.

(* RDOMAIN THROUGH THE INTERPOLATION: a text with n references ${rdomain} - expanded while the file is read (the env option of
   a test) or as a template - yields the values of n successive calls of config_default_rdomain, each followed by the blank
   of the text, and leaves the counter n steps further; both kinds of expansion use the ONE counter: a references while
   reading, then b in a template, print the values 0..a-1 and a..a+b-1 of the cycle of C08_rdomain_cycle_holds_now *)
Theorem C08_rdomain_through_template : forall E n c,
  (3 <= t_depth_limit (tables_of ROBSD_REGRESS))%nat -> find_var (c_vars c) kw_rdomain = None ->
  cfg_interp E (tables_of ROBSD_REGRESS) c (rd_tmpl n)
  = (rd_after (tables_of ROBSD_REGRESS) n c,
     IOk (flat_map (fun k => render_Z (rd_val (tables_of ROBSD_REGRESS) k c) ++ [SP]) (seq 0 n)))
  /\ cfg_interp_early E (tables_of ROBSD_REGRESS) c (rd_tmpl n)
     = (rd_after (tables_of ROBSD_REGRESS) n c,
        IOk (flat_map (fun k => render_Z (rd_val (tables_of ROBSD_REGRESS) k c) ++ [SP]) (seq 0 n))).
Proof.
  exact (fun E n c Hd Hn =>
    eq_ind _ (fun o => cfg_interp E (tables_of ROBSD_REGRESS) c (rd_tmpl n) = (rd_after (tables_of ROBSD_REGRESS) n c, IOk o)
                       /\ cfg_interp_early E (tables_of ROBSD_REGRESS) c (rd_tmpl n) = (rd_after (tables_of ROBSD_REGRESS) n c, IOk o))
           (rdomain_template E n c Hd Hn) _ (rd_outs_values (tables_of ROBSD_REGRESS) n c)).
Qed.
Print Assumptions C08_rdomain_through_template.

Theorem C08_rdomain_one_counter : forall E a b c,
  (3 <= t_depth_limit (tables_of ROBSD_REGRESS))%nat -> find_var (c_vars c) kw_rdomain = None ->
  let '(c1, r1) := cfg_interp_early E (tables_of ROBSD_REGRESS) c (rd_tmpl a) in
  let '(c2, r2) := cfg_interp E (tables_of ROBSD_REGRESS) c1 (rd_tmpl b) in
  c2 = rd_after (tables_of ROBSD_REGRESS) (a + b) c
  /\ r1 = IOk (flat_map (fun k => render_Z (rd_val (tables_of ROBSD_REGRESS) k c) ++ [SP]) (seq 0 a))
  /\ r2 = IOk (flat_map (fun k => render_Z (rd_val (tables_of ROBSD_REGRESS) (a + k) c) ++ [SP]) (seq 0 b)).
Proof. exact rdomain_one_counter. Qed.
Print Assumptions C08_rdomain_one_counter.

(* successive rdomain references are pairwise DISTINCT over every window of 245 = |11..255| references, not only
   consecutive ones (body of config_default_rdomain as the translator finds it now) *)
Theorem C08_rdomain_window_distinct : forall i j, (i < j)%nat -> (j < i + 245)%nat ->
  rd_val TR i (cfg_init TR) <> rd_val TR j (cfg_init TR).
Proof. exact (fun i j => rdomain_window_distinct i j eq_refl). Qed.
Print Assumptions C08_rdomain_window_distinct.

(* ------------------------------------------------------------------ no trap on an accepted configuration *)
(* an accepted configuration carries no C-level trap (assert, __builtin_trap, unbounded recursion), every variable
   config_find_or_create_list may be asked for holds a list, and no later -v definition or template makes
   robsd-config trap either: all ten places where the model flags a trap are dead for every input (Conf/ConfAbort.v) *)
Theorem C08_accepted_no_abort_holds_now : forall E m text c,
  config_parse E (tables_of m) text = Accepted c ->
  c_abort c = false /\ lists_ok (c_vars c)
  /\ (forall vars stdin, r_abort (robsd_config E (tables_of m) text vars stdin) = false).
Proof.
  exact (fun E m text c H =>
    let G := match m return t_builddir_guard (tables_of m) = true with
             | ROBSD => eq_refl | ROBSD_CROSS => eq_refl | ROBSD_PORTS => eq_refl | ROBSD_REGRESS => eq_refl | CANVAS => eq_refl end in
    let BD := guarded_not_reentered E (tables_of m) (trap_free_gen m) G in
    conj (proj1 (accepted_no_abort_partial E m text c BD H))
      (conj (proj2 (accepted_no_abort_partial E m text c BD H))
         (fun vars stdin => config_no_abort_partial E m text vars stdin BD))).
Qed.
Print Assumptions C08_accepted_no_abort_holds_now.

(* HISTORICAL PIN (D18, repaired in /repo 35cfab1): nine of the ten places were never reachable; the tenth -
   ${builddir} needed while ${builddir} is being computed - was live with the shipped body of
   config_default_build_dir ([t_builddir_guard .. = false], which the source no longer satisfies): *)
Theorem C08_accepted_no_abort_refuted :
  t_builddir_guard (tables_of ROBSD) = false ->
  (exists c, config_parse wit_env_all (tables_of ROBSD) wit_reentry_text = Accepted c /\ c_abort c = false)
  /\ r_abort (robsd_config wit_env_all (tables_of ROBSD) wit_reentry_text [] wit_reentry_stdin) = true.
Proof. exact (fun Hf => conj (proj1 (builddir_reentry_witness Hf)) (proj1 (proj2 (proj2 (builddir_reentry_witness Hf))))). Qed.
Print Assumptions C08_accepted_no_abort_refuted.

(* HISTORICAL (true of both bodies): exact guard for the shipped one - no computation of ${builddir} asks for
   ${builddir} again.  Then an accepted dictionary carries no trap and every list variable holds a list *)
Theorem C08_accepted_no_abort_partial : forall E m text c,
  builddir_not_reentered E (tables_of m) -> config_parse E (tables_of m) text = Accepted c ->
  c_abort c = false /\ lists_ok (c_vars c).
Proof. exact accepted_no_abort_partial. Qed.
Print Assumptions C08_accepted_no_abort_partial.

(* the documented defaults, computed by the lookup on the regenerated tables *)
Theorem C08_documented_defaults :
  default_of ROBSD "stat-interval" = Some [49; 48] /\ default_of ROBSD "keep" = Some [48]
  /\ default_of ROBSD "keep-attic" = Some [49] /\ default_of ROBSD "kernel" = Some [71; 69; 78; 69; 82; 73; 67; 46; 77; 80]
  /\ default_of ROBSD "reboot" = Some [48] /\ default_of ROBSD "bsd-objdir" = Some [47; 117; 115; 114; 47; 111; 98; 106]
  /\ default_of ROBSD "bsd-srcdir" = Some [47; 117; 115; 114; 47; 115; 114; 99]
  /\ default_of ROBSD "x11-objdir" = Some [47; 117; 115; 114; 47; 120; 111; 98; 106]
  /\ default_of ROBSD "x11-srcdir" = Some [47; 117; 115; 114; 47; 120; 101; 110; 111; 99; 97; 114; 97]
  /\ default_of ROBSD "hook" = Some []
  /\ default_of ROBSD_PORTS "ports-dir" = Some [47; 117; 115; 114; 47; 112; 111; 114; 116; 115]
  /\ default_of ROBSD_REGRESS "parallel" = Some [49] /\ default_of ROBSD_REGRESS "rdonly" = Some [48]
  /\ default_of ROBSD_REGRESS "sudo" = Some [100; 111; 97; 115; 32; 45; 110]
  /\ default_of ROBSD_REGRESS "regress-timeout" = Some [48]
  /\ default_of ROBSD_REGRESS "regress-user" = Some [36; 123; 98; 117; 105; 108; 100; 45; 117; 115; 101; 114; 125]
  /\ default_of ROBSD_REGRESS "regress-x-targets" = Some [114; 101; 103; 114; 101; 115; 115]
  /\ default_of ROBSD_REGRESS "regress-x-quiet" = None /\ default_of ROBSD "robsddir" = None.
Proof. exact documented_defaults. Qed.
Print Assumptions C08_documented_defaults.

(* ------------------------------------------------------------------ rdomain *)
(* full statement: [rdomain_cycle_statement] - the k-th reference yields
   11 + k mod 245 and consecutive references differ.  HISTORICAL PIN (D6, repaired in /repo
   c0e596d): conditioned on the shipped body [t_rdomain_fixed TR = false], which the source no
   longer has; the statement that holds now is C08_rdomain_cycle_holds_now below. *)
Theorem C08_rdomain_cycle_refuted :
  t_rdomain_fixed TR = false ->
  (rd_val TR 244 (cfg_init TR) = 255%Z /\ rd_val TR 245 (cfg_init TR) = 11%Z /\ rd_val TR 246 (cfg_init TR) = 11%Z
   /\ rd_val TR 247 (cfg_init TR) = 12%Z).
Proof. exact rdomain_repeats_after_wrap. Qed.
Print Assumptions C08_rdomain_cycle_refuted.

(* exact guard: at most 245 earlier references *)
Theorem C08_rdomain_cycle_partial : forall k,
  (Z.of_nat k <= doc_rdomain_last - doc_rdomain_first + 1)%Z ->
  rd_val TR k (cfg_init TR) = (doc_rdomain_first + Z.of_nat k mod (doc_rdomain_last - doc_rdomain_first + 1))%Z.
Proof. exact rdomain_partial. Qed.
Print Assumptions C08_rdomain_cycle_partial.

(* HISTORICAL PIN: the statement is false for the shipped body and a theorem for the repaired
   one (findings/D6_rdomain.diff); the translator tells which one the source has (now: the repaired one) *)
Theorem C08_rdomain_cycle : 
  (t_rdomain_fixed TR = false /\ ~ rdomain_cycle_statement) \/ (t_rdomain_fixed TR = true /\ rdomain_cycle_statement).
Proof. exact rdomain_cycle_dichotomy. Qed.
Print Assumptions C08_rdomain_cycle.

(* for any table with the repaired body: every reference, for ever *)
Theorem C08_rdomain_cycle_if_fixed : forall T c k,
  (t_rdomain_min T < t_rdomain_max T)%Z -> t_rdomain_fixed T = true -> c_rdomain c = t_rdomain_min T ->
  rd_val T k c = rd_spec T k
  /\ ((1 < t_rdomain_max T - t_rdomain_min T)%Z -> rd_val T k c <> rd_val T (S k) c).
Proof. exact (fun T c k H Hf Hc => conj (fixed_cycle T H c k Hf Hc) (fixed_consecutive_distinct T H c k Hf Hc)). Qed.
Print Assumptions C08_rdomain_cycle_if_fixed.

(* ${rdomain} is that counter *)
Theorem C08_rdomain_lookup : forall E early c,
  find_var (c_vars c) kw_rdomain = None ->
  lookup1 E TR early c kw_rdomain = (fst (rdomain_next TR c), Some (render_Z (snd (rdomain_next TR c)))).
Proof. exact lookup_rdomain. Qed.
Print Assumptions C08_rdomain_lookup.

(* ------------------------------------------------------------------ the source as it is now *)
(* /repo c0e596d and 78f946e repaired D6 and D16; with the bodies the translator finds in the
   source now the two full statements are theorems.  Should either defect return, the
   translator flips its switch, these two proofs (by [eq_refl] on the switch) no longer
   check, and the check searches the implementation for the failing input. *)
Theorem C08_rdomain_cycle_holds_now : rdomain_cycle_statement.
Proof. exact (fun k => rdomain_if_fixed k eq_refl). Qed.
Print Assumptions C08_rdomain_cycle_holds_now.

Theorem C08_reject_names_file_holds_now : forall E m text c,
  config_parse E (tables_of m) text = Rejected c ->
  (forall vars stdin, r_exit (robsd_config E (tables_of m) text vars stdin) = 1
                      /\ r_stdout (robsd_config E (tables_of m) text vars stdin) = [])
  /\ exists d, In d (c_diags c) /\ d_path d = P_conf.
Proof.
  exact (fun E m text c H =>
    conj (proj1 (reject_has_diagnostic_partial E m text c H))
         (reject_names_file_if_fixed E (tables_of m) text c (wf_tokens_gen m)
            (match m return t_interp_path (tables_of m) = true with
             | ROBSD => eq_refl | ROBSD_CROSS => eq_refl | ROBSD_PORTS => eq_refl | ROBSD_REGRESS => eq_refl | CANVAS => eq_refl end) H)).
Qed.
Print Assumptions C08_reject_names_file_holds_now.

(* ------------------------------------------------------------------ non-vacuity *)
Example C08_nonvacuous :
  (exists c, text_conforms wit_env (tables_of ROBSD_REGRESS) wit_regress_text c)
  /\ wit_regress_out = bs "bin/csh bin/ls 1 G=1 A=11 B=2 0 one two 7200 0 a b c 12
".
Proof. exact nonvacuous. Qed.
