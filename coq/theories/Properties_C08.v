(* Properties_C08.v - configuration is accepted and valued exactly as the grammar documents.

   Model: Conf/ConfDefs.v (lexer, token cursor, the value parsers, the canvas
   step and regress productions, lookup with computed defaults and the rdomain
   counter, interpolation threaded through the configuration, robsd-config).
   Tables: regenerated from conf.c, conf-*.c, conf-token.h, mode.h on every run
   (coq/gen/Gen_Conf.v, [tables_of]); documented tables: Conf/DocSpec.v, written
   by hand from the five *.conf.5 pages and robsd-config.8 ([doc_tables]).
   Specification: Conf/ConfSpec.v ([text_conforms]: the text lexes without a
   complaint into the spelling of a list of entries - keywords of the table
   only, correctly typed values, non-repeatable variables met while still
   undefined, users and directories existing, required variables defined at
   the end).  The general theorems hold for EVERY table and EVERY environment;
   they are instantiated with the regenerated tables (what the code does) and
   with the documented ones (the oracle applied to what robsd-config did).

   Three parts of the property do NOT hold of the unchanged code; each keeps
   its full statement here, a witness (_refuted) and the part that does hold
   (_partial):
     D6  rdomain hands out 11 twice after the wrap            C08_rdomain_cycle_*
     D7  canvas accepts the undocumented keyword robsddir     C08_tables_match_docs_canvas_*, C08_canvas_accepts_undocumented_robsddir
     new a rejection caused by a failing substitution in a directory value or in a
         test's env option prints no file name                C08_reject_has_diagnostic_* *)
From Robsd Require Import Conf.ConfDefs Conf.ConfSpec Conf.DocSpec Conf.ConfTie Conf.ConfSound Conf.ConfComplete
  Conf.ConfDiag Conf.ConfReject Conf.ConfRdomain Conf.ConfValue Conf.ConfInst Conf.ConfPrim Conf.ConfTrack Conf.ConfProofs.
From RobsdGen Require Import Gen_Conf.
From Coq Require Import String.
Local Open Scope N_scope.

(* ------------------------------------------------------------------ acceptance *)
(* token level, any table, any environment, both directions, with the dictionary defined *)
Theorem C08_accept_iff_conforms_tokens : forall E T toks eof c,
  parse_tokens E T toks eof [] = Accepted c <-> conforms_to E T toks c.
Proof. exact parse_tokens_iff. Qed.
Print Assumptions C08_accept_iff_conforms_tokens.

(* text level, all five modes, the tables the code has now *)
Theorem C08_accept_iff_conforms : forall E m text c,
  config_parse E (tables_of m) text = Accepted c <-> text_conforms E (tables_of m) text c.
Proof. exact accept_iff_conforms_gen. Qed.
Print Assumptions C08_accept_iff_conforms.

(* the oracle: the reader run on the documented tables decides conformance to the documented grammar *)
Theorem C08_oracle_reflects_documented_grammar : forall E m text,
  spec_accepts E m text = true <-> exists c, text_conforms E (doc_tables m) text c.
Proof. exact accept_iff_conforms_doc. Qed.
Print Assumptions C08_oracle_reflects_documented_grammar.

(* ------------------------------------------------------------------ tables = documentation *)
(* keywords, types, parsers, REQ/REP/PAT/EARLY, defaults of every row, up to the order of the rows *)
Theorem C08_tables_match_docs : forall m, m <> CANVAS ->
  canon (t_grammar (tables_of m)) = doc_table m.
Proof. exact tables_match_docs_non_canvas. Qed.
Print Assumptions C08_tables_match_docs.

(* full statement for canvas: canon (t_grammar (tables_of CANVAS)) = doc_table CANVAS.  D7: *)
Theorem C08_tables_match_docs_canvas_refuted :
  grammar_for_keyword (t_grammar (tables_of CANVAS)) kw_robsddir <> None /\
  grammar_for_keyword (doc_table CANVAS) kw_robsddir = None /\
  canon (t_grammar (tables_of CANVAS)) <> doc_table CANVAS.
Proof. exact tables_match_docs_canvas_refuted. Qed.
Print Assumptions C08_tables_match_docs_canvas_refuted.

Theorem C08_tables_match_docs_canvas_partial :
  canon (t_grammar (tables_of CANVAS)) = insert_row canvas_extra_row (doc_table CANVAS).
Proof. exact tables_match_docs_canvas_partial. Qed.
Print Assumptions C08_tables_match_docs_canvas_partial.

Theorem C08_canvas_accepts_undocumented_robsddir :
  (exists c, config_parse wit_env (tables_of CANVAS) wit_canvas_text = Accepted c
             /\ find_var (c_vars c) kw_robsddir = Some (VStr [47; 100])
             /\ find_var (c_vars c) kw_canvas_dir = Some (VStr [47; 114]))
  /\ ~ (exists c, text_conforms wit_env (doc_tables CANVAS) wit_canvas_text c).
Proof. exact canvas_accepts_undocumented_robsddir. Qed.
Print Assumptions C08_canvas_accepts_undocumented_robsddir.

(* the words of the syntax, the rdomain range, yes/no *)
Theorem C08_constants_match_docs :
  filter (fun r => match tr_key r with [] => false | _ => true end) token_table = doc_tokens
  /\ (forall m, t_rdomain_min (tables_of m) = doc_rdomain_first /\ (t_rdomain_max (tables_of m) - 1)%Z = doc_rdomain_last)
  /\ (forall m, word_token (tables_of m) 0 [121; 101; 115] = mk_token T_BOOLEAN 0 [] doc_yes
                /\ word_token (tables_of m) 0 [110; 111] = mk_token T_BOOLEAN 0 [] doc_no).
Proof. exact (conj tokens_match_docs (conj rdomain_range_matches_docs yes_no_tokens)). Qed.
Print Assumptions C08_constants_match_docs.

(* ------------------------------------------------------------------ rejection *)
(* full statement: [reject_names_file_statement] - every rejection leaves a
   diagnostic naming the file.  Refuted: *)
Theorem C08_reject_has_diagnostic_refuted :
  t_interp_path (tables_of ROBSD) = false ->
  (exists c, config_parse wit_env (tables_of ROBSD) wit_reject_text = Rejected c
             /\ c_diags c = [mk_diag P_none 3 (M_interp (EUnknown [110; 111; 112; 101]))]
             /\ ~ (exists d, In d (c_diags c) /\ names_file d))
  /\ ~ reject_names_file_statement.
Proof. exact (fun H => conj (reject_names_file_refuted H) (reject_names_file_statement_false H)). Qed.
Print Assumptions C08_reject_has_diagnostic_refuted.

(* every rejection exits 1 with nothing on stdout and leaves a diagnostic: one
   naming the configuration file, or - the exact exception - the "invalid
   substitution" message of interpolate.c, which carries the path only if the
   caller passed one ([ipath]: it does not in the source as it is) *)
Theorem C08_reject_has_diagnostic_partial : forall E m text c,
  config_parse E (tables_of m) text = Rejected c ->
  (forall vars stdin, r_exit (robsd_config E (tables_of m) text vars stdin) = 1
                      /\ r_stdout (robsd_config E (tables_of m) text vars stdin) = [])
  /\ exists d, In d (c_diags c) /\ (names_file d \/ interp_diag (tables_of m) d).
Proof. exact reject_has_diagnostic_partial. Qed.
Print Assumptions C08_reject_has_diagnostic_partial.

Theorem C08_reject_has_diagnostic_if_fixed : forall E T text c,
  wf_tokens T = true -> t_interp_path T = true -> config_parse E T text = Rejected c ->
  exists d, In d (c_diags c) /\ d_path d = P_conf.
Proof. exact reject_names_file_if_fixed. Qed.
Print Assumptions C08_reject_has_diagnostic_if_fixed.

(* the lexer's fuel is never exhausted *)
Theorem C08_lexer_total : forall T text, lex T text <> LexFuel.
Proof. exact lex_fuel. Qed.
Print Assumptions C08_lexer_total.

(* ------------------------------------------------------------------ values *)
Theorem C08_value_exact : forall E T,
  (forall early c n v, find_var (c_vars c) n = Some v -> v <> VInvalid ->
                       early = false \/ is_early (t_grammar T) n = true ->
                       lookup1 E T early c n = (c, Some (render v)))
  /\ (forall c n g v, find_var (c_vars c) n = None -> grammar_for_interp (t_grammar T) n = Some g ->
                      gr_req g = false -> (forall f, gr_default g <> D_fun f) -> default_value E g = Some v ->
                      lookup1 E T false c n = (c, Some (render v)))
  /\ (forall c n, find_var (c_vars c) n = None ->
                  (grammar_for_interp (t_grammar T) n = None \/
                   exists g, grammar_for_interp (t_grammar T) n = Some g /\ gr_req g = true) ->
                  lookup1 E T false c n = (c, None))
  /\ (forall c g e c1 v, plain (gr_fn g) = true -> apply_entry E T c g e = Some c1 ->
                         own_value E (gr_fn g) (en_val e) = Some v ->
                         (forall c0 ov, apply_value E T c (gr_fn g) (en_val e) = Some (c0, ov) -> find_var (c_vars c0) (en_kw e) = None) ->
                         find_var (c_vars c1) (en_kw e) = Some v)
  /\ (forall c n v m w, find_var (c_vars c) m = Some w -> find_var (c_vars (cfg_append c n v)) m = Some w)
  /\ (forall l, render (VList l) = join_spec l)
  /\ (render (VInt doc_yes) = [49] /\ render (VInt doc_no) = [48])
  /\ (forall c n u c1 v, apply_value E T c PF_regress_timeout (E_timeout n u) = Some (c1, Some v) ->
                         exists k, doc_unit_seconds u = Some k /\ v = VInt (k * n)%Z).
Proof. exact value_exact. Qed.
Print Assumptions C08_value_exact.

(* for an accepted configuration (entries [es], dictionary [c]): a plain keyword interpolates to the value of
   its first defining entry (later entries cannot change it), whatever other entries - regress productions
   with their options, canvas steps, directories whose substitution defines computed defaults - come before,
   between or after *)
Theorem C08_value_of_accepted : forall E T kw es c,
  plain_free T kw = true -> run_entries E T (cfg_init T) es = Some c ->
  find_var (c_vars c) kw = kw_value E T kw es
  /\ (forall v, kw_value E T kw es = Some v -> v <> VInvalid -> lookup1 E T false c kw = (c, Some (render v))).
Proof. exact value_of_accepted_plain. Qed.
Print Assumptions C08_value_of_accepted.

Theorem C08_value_of_accepted_covers : forall m,
  forallb (fun g => negb (has_fn g && plain (gr_fn g)) || plain_free (tables_of m) (gr_kw g) || prefixb regress_prefix (gr_kw g) || beq (gr_kw g) kw_robsddir)
          (t_grammar (tables_of m)) = true.
Proof. exact plain_keywords_covered. Qed.
Print Assumptions C08_value_of_accepted_covers.

(* an entry writes only the names of [value_targets]; every other name that is not answered by a computed
   default keeps the value it had (per-test options only on their test) *)
Theorem C08_entry_writes_only_its_names : forall E T n0, ~ fun_name T n0 -> forall c g e c1,
  beq (en_kw e) n0 = false -> not_among n0 (value_targets (gr_fn g) (en_val e)) ->
  apply_entry E T c g e = Some c1 -> find_var (c_vars c1) n0 = find_var (c_vars c) n0.
Proof. exact untouched_apply_entry. Qed.
Print Assumptions C08_entry_writes_only_its_names.

(* the documented defaults, computed by the lookup on the regenerated tables *)
Theorem C08_documented_defaults :
  default_of ROBSD "stat-interval" = Some [49; 48] /\ default_of ROBSD "keep" = Some [48]
  /\ default_of ROBSD "keep-attic" = Some [49] /\ default_of ROBSD "kernel" = Some [71; 69; 78; 69; 82; 73; 67; 46; 77; 80]
  /\ default_of ROBSD "reboot" = Some [48] /\ default_of ROBSD "bsd-objdir" = Some [47; 117; 115; 114; 47; 111; 98; 106]
  /\ default_of ROBSD "bsd-srcdir" = Some [47; 117; 115; 114; 47; 115; 114; 99]
  /\ default_of ROBSD "x11-objdir" = Some [47; 117; 115; 114; 47; 120; 111; 98; 106]
  /\ default_of ROBSD "x11-srcdir" = Some [47; 117; 115; 114; 47; 120; 101; 110; 111; 99; 97; 114; 97]
  /\ default_of ROBSD "hook" = Some []
  /\ default_of ROBSD_PORTS "ports-dir" = Some [47; 117; 115; 114; 47; 112; 111; 114; 116; 115]
  /\ default_of ROBSD_REGRESS "parallel" = Some [49] /\ default_of ROBSD_REGRESS "rdonly" = Some [48]
  /\ default_of ROBSD_REGRESS "sudo" = Some [100; 111; 97; 115; 32; 45; 110]
  /\ default_of ROBSD_REGRESS "regress-timeout" = Some [48]
  /\ default_of ROBSD_REGRESS "regress-user" = Some [36; 123; 98; 117; 105; 108; 100; 45; 117; 115; 101; 114; 125]
  /\ default_of ROBSD_REGRESS "regress-x-targets" = Some [114; 101; 103; 114; 101; 115; 115]
  /\ default_of ROBSD_REGRESS "regress-x-quiet" = None /\ default_of ROBSD "robsddir" = None.
Proof. exact documented_defaults. Qed.
Print Assumptions C08_documented_defaults.

(* ------------------------------------------------------------------ rdomain *)
(* full statement: [rdomain_cycle_statement] - the k-th reference yields
   11 + k mod 245 and consecutive references differ.  D6, with the body
   config_default_rdomain has in the source now: *)
Theorem C08_rdomain_cycle_refuted :
  t_rdomain_fixed TR = false ->
  (rd_val TR 244 (cfg_init TR) = 255%Z /\ rd_val TR 245 (cfg_init TR) = 11%Z /\ rd_val TR 246 (cfg_init TR) = 11%Z
   /\ rd_val TR 247 (cfg_init TR) = 12%Z).
Proof. exact rdomain_repeats_after_wrap. Qed.
Print Assumptions C08_rdomain_cycle_refuted.

(* exact guard: at most 245 earlier references *)
Theorem C08_rdomain_cycle_partial : forall k,
  (Z.of_nat k <= doc_rdomain_last - doc_rdomain_first + 1)%Z ->
  rd_val TR k (cfg_init TR) = (doc_rdomain_first + Z.of_nat k mod (doc_rdomain_last - doc_rdomain_first + 1))%Z.
Proof. exact rdomain_partial. Qed.
Print Assumptions C08_rdomain_cycle_partial.

(* the statement is false for the shipped body and a theorem for the repaired
   one (findings/D6_rdomain.diff); the translator tells which one the source has *)
Theorem C08_rdomain_cycle : 
  (t_rdomain_fixed TR = false /\ ~ rdomain_cycle_statement) \/ (t_rdomain_fixed TR = true /\ rdomain_cycle_statement).
Proof. exact rdomain_cycle_dichotomy. Qed.
Print Assumptions C08_rdomain_cycle.

(* for any table with the repaired body: every reference, for ever *)
Theorem C08_rdomain_cycle_if_fixed : forall T c k,
  (t_rdomain_min T < t_rdomain_max T)%Z -> t_rdomain_fixed T = true -> c_rdomain c = t_rdomain_min T ->
  rd_val T k c = rd_spec T k
  /\ ((1 < t_rdomain_max T - t_rdomain_min T)%Z -> rd_val T k c <> rd_val T (S k) c).
Proof. exact (fun T c k H Hf Hc => conj (fixed_cycle T H c k Hf Hc) (fixed_consecutive_distinct T H c k Hf Hc)). Qed.
Print Assumptions C08_rdomain_cycle_if_fixed.

(* ${rdomain} is that counter *)
Theorem C08_rdomain_lookup : forall E early c,
  find_var (c_vars c) kw_rdomain = None ->
  lookup1 E TR early c kw_rdomain = (fst (rdomain_next TR c), Some (render_Z (snd (rdomain_next TR c)))).
Proof. exact lookup_rdomain. Qed.
Print Assumptions C08_rdomain_lookup.

(* ------------------------------------------------------------------ the source as it is now *)
(* /repo c0e596d and 78f946e repaired D6 and D16; with the bodies the translator finds in the
   source now the two full statements are theorems.  Should either defect return, the
   translator flips its switch, these two proofs (by [eq_refl] on the switch) no longer
   check, and the check searches the implementation for the failing input. *)
Theorem C08_rdomain_cycle_holds_now : rdomain_cycle_statement.
Proof. exact (fun k => rdomain_if_fixed k eq_refl). Qed.
Print Assumptions C08_rdomain_cycle_holds_now.

Theorem C08_reject_names_file_holds_now : forall E m text c,
  config_parse E (tables_of m) text = Rejected c ->
  (forall vars stdin, r_exit (robsd_config E (tables_of m) text vars stdin) = 1
                      /\ r_stdout (robsd_config E (tables_of m) text vars stdin) = [])
  /\ exists d, In d (c_diags c) /\ d_path d = P_conf.
Proof.
  exact (fun E m text c H =>
    conj (proj1 (reject_has_diagnostic_partial E m text c H))
         (reject_names_file_if_fixed E (tables_of m) text c (wf_tokens_gen m)
            (match m return t_interp_path (tables_of m) = true with
             | ROBSD => eq_refl | ROBSD_CROSS => eq_refl | ROBSD_PORTS => eq_refl | ROBSD_REGRESS => eq_refl | CANVAS => eq_refl end) H)).
Qed.
Print Assumptions C08_reject_names_file_holds_now.

(* ------------------------------------------------------------------ non-vacuity *)
Example C08_nonvacuous :
  (exists c, text_conforms wit_env (tables_of ROBSD_REGRESS) wit_regress_text c)
  /\ wit_regress_out = bs "bin/csh bin/ls 1 G=1 A=11 B=2 0 one two 7200 0 a b c 12
".
Proof. exact nonvacuous. Qed.
