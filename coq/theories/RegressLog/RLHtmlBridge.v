(* RLHtmlBridge.v - the status decision of RLCallDefs.html_status (C13, the
   callers of the extractor) IS the one the C14 model uses (Html/HtmlDefs.v
   classify), for every non-negative recorded exit status; hence the C13
   statements about the HTML caller are statements about the C14 model.
   Kept apart from the files Properties_C13.v needs: it depends on the Html area. *)
From Robsd Require Import RegressLog.RLSpec RegressLog.RLCallDefs RegressLog.RLCallers.
From Robsd Require Html.HtmlDefs.
From RobsdGen Require Gen_Html Gen_RegressLog.
Local Open Scope N_scope.

Definition to_hstatus (s : HtmlDefs.status) : hstatus :=
  match s with
  | HtmlDefs.PASS => HPASS | HtmlDefs.FAIL => HFAIL | HtmlDefs.XFAIL => HXFAIL
  | HtmlDefs.XPASS => HXPASS | HtmlDefs.SKIP => HSKIP | HtmlDefs.NOTERM => HNOTERM
  end.

Lemma timeouts_agree : Z.of_N Gen_RegressLog.ex_timeout = Gen_Html.ex_timeout.
Proof. reflexivity. Qed.

Lemma of_N_eqb a b : (Z.of_N a =? Z.of_N b)%Z = (a =? b).
Proof.
  destruct (N.eqb_spec a b) as [->|H]; [apply Z.eqb_refl|].
  apply Z.eqb_neq. intros E. apply N2Z.inj in E. contradiction.
Qed.

Theorem html_status_is_classify exit log :
  to_hstatus (HtmlDefs.classify (Z.of_N exit) log) = html_status Gen_RegressLog.ex_timeout exit log.
Proof.
  unfold HtmlDefs.classify, html_status. rewrite <- timeouts_agree, of_N_eqb.
  change 0%Z with (Z.of_N 0). rewrite of_N_eqb.
  destruct (exit =? Gen_RegressLog.ex_timeout); [reflexivity|].
  destruct (negb (exit =? 0)).
  - change HtmlDefs.fl_xpassed with fl_P. destruct (Nat.ltb 0 (peek fl_P log)); reflexivity.
  - change HtmlDefs.fl_xfailed with fl_X. change HtmlDefs.fl_skipped with fl_S.
    destruct (Nat.ltb 0 (peek fl_X log)); [reflexivity|].
    destruct (Nat.ltb 0 (peek fl_S log)); reflexivity.
Qed.

Lemma failure_agrees s : hfailure (to_hstatus s) = HtmlDefs.status_failure s.
Proof. destruct s; reflexivity. Qed.

(* the two C13 statements, on the C14 model *)
Corollary classify_exit0_never_failure log :
  HtmlDefs.status_failure (HtmlDefs.classify 0%Z log) = false.
Proof.
  rewrite <- failure_agrees. change 0%Z with (Z.of_N 0). rewrite html_status_is_classify.
  apply html_exit0_never_failure. discriminate.
Qed.

Corollary classify_after_step_exec rc log :
  failing_line log ->
  HtmlDefs.status_failure (HtmlDefs.classify (Z.of_N (step_exec_exit true rc (Some log))) log) = true.
Proof.
  intros H. rewrite <- failure_agrees, html_status_is_classify. now apply hence_html_composed.
Qed.
