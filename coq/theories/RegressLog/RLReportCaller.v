(* RLReportCaller.v - the "Hence" clause of C13 for the FOURTH caller of the
   extractor, report.c (regress_report_skip_step: regress_log_peek with
   SKIPPED | XFAILED; regress_report_step_log: regress_log_parse with
   FAILED | XPASSED [| SKIPPED | XFAILED]; number_of_failures_report_status:
   failures counted from the exit field alone).

   The caller is already modelled by the report area (Report/ReportDefs.v:
   regress_skip_step, regress_step_log, steps_loop, count_status; C05) on top of
   this area's [peek] / [parse].  Nothing is duplicated here: this file imports
   Report.ReportDefs (definitions only) READ-ONLY and states, about THAT model,

     report_exit0_decision         a regress suite recorded with exit 0 gets a section iff its log has a
                                   SKIPPED / DISABLED / EXPECTED_FAIL line after the leading trace block;
     report_exit0_failed_omitted   NEGATIVE: recorded exit 0 + a log with a FAILED line and no such line =
                                   no section and not counted as a failure - the report is silent about it
                                   (the same negative as for regress-html, C13_html_exit0_never_failure);
     report_after_step_exec        POSITIVE, composed: with the exit status step_exec computes from the same
                                   log, a log with a failing line is counted and gets a section that holds
                                   the extracted blocks.

   The flag sets are read from report.c by harness/t_regresslog.py
   (the report_ constants of Gen_RegressLog): [report_flags_std] is the statement that they are
   the ones of the Report model, closed by computation in Properties_C13. *)
From Robsd Require Import RegressLog.RLSpec RegressLog.RLProofs RegressLog.RLExit RegressLog.RLCallDefs
  RegressLog.RLCallers RegressLog.RLTie.
From Robsd Require Import Report.ReportDefs.
From RobsdGen Require Import Gen_RegressLog Gen_Report.
Local Open Scope N_scope.

(* ---- the flag sets against report.c ------------------------------------------------------- *)

Definition flags_of_gflags (l : list gflag) : flags :=
  let has f := existsb (gflag_eqb f) l in
  mkflags (has GF_FAILED) (has GF_SKIPPED) (has GF_XFAILED) (has GF_XPASSED) false.

Definition report_flags_std : Prop :=
  fl_peek = flags_of_gflags report_peek_flags /\
  fl_log true = flags_of_gflags report_log_flags /\
  fl_log false = flags_of_gflags (report_log_flags ++ report_log_flags_unless_quiet).

(* ---- what report_steps does with one row ---------------------------------------------------- *)

Definition row_decision (m : mode) (cfg : cfgview) (fs : files) (r : srow) : skipres :=
  if row_skipped (r_skip r) then SkOmit
  else if omit_candidate (r_exit r) then skip_step m cfg fs r else SkShow.

(* the report area states its loop for every set of source switches [w] and every Duration text [dur]
   (ReportDefs.steps_loop_gen; [steps_loop] = the present switches and step_duration): the lemmas here hold for all *)
Lemma steps_loop_gen_omit w dur m cfg fs r rs :
  row_decision m cfg fs r = SkOmit -> steps_loop_gen w dur m cfg fs (r :: rs) = steps_loop_gen w dur m cfg fs rs.
Proof.
  unfold row_decision. cbn [steps_loop_gen]. destruct (row_skipped (r_skip r)); [reflexivity|].
  now intros ->.
Qed.

Lemma steps_loop_omit m cfg fs r rs :
  row_decision m cfg fs r = SkOmit -> steps_loop m cfg fs (r :: rs) = steps_loop m cfg fs rs.
Proof. exact (steps_loop_gen_omit _ _ m cfg fs r rs). Qed.

Lemma steps_loop_show m cfg fs r rs :
  row_decision m cfg fs r = SkShow ->
  steps_loop m cfg fs (r :: rs) =
    match step_log m cfg fs r with
    | RErr => RErr
    | ROk body =>
        match steps_loop m cfg fs rs with
        | RErr => RErr
        | ROk ss => ROk (mksec (r_name r) (cast_int (r_exit r)) (step_duration r) (r_log r) body :: ss)
        end
    end.
Proof.
  unfold row_decision, steps_loop, steps_loop_with, step_log. cbn [steps_loop_gen].
  destruct (row_skipped (r_skip r)); [discriminate|].
  now intros ->.
Qed.

(* a line of one of the outcomes the report peeks for *)
Definition skipped_or_xfailed_line (log : bytes) : Prop :=
  exists l, In l (drop_trace (clines log)) /\ keyword_selected fl_peek l.

Lemma peek_fl_peek log :
  Nat.ltb 0 (peek fl_peek log) = true <-> skipped_or_xfailed_line log.
Proof.
  rewrite peek_pos, existsb_exists. unfold skipped_or_xfailed_line.
  split; intros [l [Hin H]]; exists l; split; auto; now apply selected_keyword_iff.
Qed.

(* the decision for a regress suite recorded as passed: exact *)
Theorem report_exit0_decision cfg fs r log :
  r_exit r = 0%Z -> row_skipped (r_skip r) = false ->
  is_regress_step cfg (r_name r) = true -> is_regress_quiet cfg (r_name r) = false ->
  r_log r <> [] -> f_log fs (r_log r) = FData log ->
  (row_decision Regress cfg fs r = SkShow <-> skipped_or_xfailed_line log) /\
  (row_decision Regress cfg fs r = SkOmit <-> ~ skipped_or_xfailed_line log).
Proof.
  intros He Hs Hr Hq Hl Hf. unfold row_decision. rewrite Hs, He.
  change (omit_candidate 0%Z) with true. cbn [skip_step]. unfold regress_skip_step.
  rewrite Hr, Hq. cbn [negb orb]. destruct (r_log r) as [|c l] eqn:El; [congruence|].
  rewrite Hf. rewrite <- peek_fl_peek. destruct (Nat.ltb 0 (peek fl_peek log)).
  - split; split; auto; try discriminate. intros H. now elim H.
  - split; split; auto; discriminate.
Qed.

(* number_of_failures_report_status looks at the exit field only *)
Lemma count_status_exit0 r rows : r_exit r = 0%Z -> count_status (r :: rows) = count_status rows.
Proof. intros He. unfold count_status. cbn [filter]. now rewrite He. Qed.

(* NEGATIVE.  Whatever failing lines the log holds: recorded exit 0 and no
   SKIPPED / XFAILED line = the row leaves no trace in the report - no section,
   not counted.  (A suite that is not in the regress list, or is quiet, is
   omitted without the log being looked at.) *)
Theorem report_exit0_omitted cfg fs r rs log :
  r_exit r = 0%Z -> r_log r <> [] -> f_log fs (r_log r) = FData log ->
  ~ skipped_or_xfailed_line log ->
  steps_loop Regress cfg fs (r :: rs) = steps_loop Regress cfg fs rs /\
  (forall rows, count_status (r :: rows) = count_status rows).
Proof.
  intros He Hl Hf Hn. split; [|intros rows; now apply count_status_exit0].
  apply steps_loop_omit. unfold row_decision. destruct (row_skipped (r_skip r)); [reflexivity|].
  rewrite He. change (omit_candidate 0%Z) with true. cbn [skip_step]. unfold regress_skip_step.
  destruct (negb (is_regress_step cfg (r_name r)) || is_regress_quiet cfg (r_name r)); [reflexivity|].
  destruct (r_log r) as [|c l] eqn:El; [congruence|]. rewrite Hf.
  destruct (Nat.ltb 0 (peek fl_peek log)) eqn:E; [|reflexivity].
  apply peek_fl_peek in E. contradiction.
Qed.

(* ... and such logs with a failing line exist: "FAILED" *)
Theorem report_exit0_failed_omitted :
  exists log, failing_line log /\
    forall cfg fs r rs, r_exit r = 0%Z -> r_log r <> [] -> f_log fs (r_log r) = FData log ->
      steps_loop Regress cfg fs (r :: rs) = steps_loop Regress cfg fs rs /\
      (forall rows, count_status (r :: rows) = count_status rows).
Proof.
  exists (kw_FAILED ++ [10]). split.
  - exists kw_FAILED. split; [vm_compute; auto|]. left. exists [], []. reflexivity.
  - intros cfg fs r rs He Hl Hf. apply (report_exit0_omitted cfg fs r rs _ He Hl Hf).
    intros H. apply peek_fl_peek in H. vm_compute in H. discriminate.
Qed.

(* POSITIVE, composed with step_exec.  [fl_log q] always selects FAILED and
   UNEXPECTED_PASS, quiet or not *)
Lemma fl_log_has_FP q l : selected fl_FP l = true -> selected (fl_log q) l = true.
Proof.
  unfold selected, fl_FP, fl_log. cbn [fFAILED fSKIPPED fXFAILED fXPASSED andb orb].
  rewrite orb_false_r. intros H. apply orb_true_iff in H. destruct H as [H|H]; rewrite H.
  - now rewrite orb_true_r.
  - now rewrite !orb_true_r.
Qed.

Lemma failing_blocks q log : failing_line log -> file_blocks (fl_log q) log <> [].
Proof.
  intros H. apply failing_line_iff in H. destruct H as [l [Hin Hs]].
  apply has_match_iff. exists l. split; [exact Hin|now apply fl_log_has_FP].
Qed.

Theorem report_after_step_exec cfg fs r rs rc log :
  failing_line log ->
  r_exit r = Z.of_N (step_exec_exit true rc (Some log)) ->
  row_skipped (r_skip r) = false -> r_log r <> [] -> f_log fs (r_log r) = FData log ->
  let bl := file_blocks (fl_log (is_regress_quiet cfg (r_name r))) log in
  bl <> [] /\
  steps_loop Regress cfg fs (r :: rs) =
    match steps_loop Regress cfg fs rs with
    | RErr => RErr
    | ROk ss => ROk (mksec (r_name r) 1 (step_duration r) (r_log r) (10 :: render_from false 0 bl) :: ss)
    end /\
  (forall rows, let n := length (filter (fun x => negb (r_exit x =? 0)%Z) rows) in
     count_status (r :: rows) =
       render_Z (Z.of_nat (S n)) ++ str_failure ++ (if Nat.ltb 1 (S n) then [115] else [])).
Proof.
  intros Hfail He Hs Hl Hf bl.
  assert (He1 : r_exit r = 1%Z).
  { rewrite He. now rewrite (proj1 (proj2 (step_exec_exit_spec true rc log)) eq_refl Hfail). }
  assert (Hne : bl <> []) by (now apply failing_blocks).
  split; [exact Hne|]. split.
  - rewrite steps_loop_show.
    + unfold step_log, step_log_with. cbn [regress_step_log]. unfold regress_step_log.
      destruct (r_log r) as [|c l] eqn:El; [congruence|]. rewrite Hf.
      rewrite parse_spec. fold bl. cbn [app fl_log fNEWLINE].
      destruct bl as [|b bl']; [congruence|]. cbn [length Nat.ltb Nat.leb].
      rewrite He1. reflexivity.
    + unfold row_decision. rewrite Hs, He1. reflexivity.
  - intros rows n. unfold count_status. cbn [filter]. rewrite He1. reflexivity.
Qed.
