(* RLTrim.v - regress_log_trim (the third library entry point, used by
   robsd-regress-html for logs without anything to extract): the log without its
   leading block of shell-trace lines and without its trailing block of
   shell-trace lines, every remaining line followed by a newline.  Trace lines in
   the middle stay. *)
From Robsd Require Import RegressLog.RLSpec RegressLog.RLProofs.
Local Open Scope N_scope.

(* the lines without the longest suffix of trace lines *)
Fixpoint strip_trailing (ls : list bytes) : list bytes :=
  match ls with
  | [] => []
  | l :: ls' => match strip_trailing ls' with
                | [] => if isxtrace l then [] else [l]
                | r => l :: r
                end
  end.

Definition trim_spec (file : bytes) : bytes :=
  unlines (strip_trailing (drop_trace (clines file))).

(* what strip_trailing is, independently of its recursion *)
Lemma strip_trailing_spec ls :
  exists t, ls = strip_trailing ls ++ t /\ Forall (fun l => isxtrace l = true) t /\
            (forall d l, strip_trailing ls = d ++ [l] -> isxtrace l = false).
Proof.
  induction ls as [|l ls [t [H1 [H2 H3]]]]; cbn [strip_trailing].
  - exists []. repeat split; [constructor|]. intros d l H. destruct d; discriminate H.
  - destruct (strip_trailing ls) as [|r rs] eqn:E.
    + destruct (isxtrace l) eqn:Hx.
      * exists (l :: t). cbn [app] in *. subst t. repeat split; [now constructor|].
        intros d l0 H. destruct d; discriminate H.
      * exists t. cbn [app] in *. subst t. repeat split; [exact H2|].
        intros d l0 H. destruct d as [|x d]; [injection H as ->; exact Hx|].
        injection H as _ H. destruct d; discriminate H.
    + exists t. split; [cbn [app]; f_equal; exact H1|]. split; [exact H2|].
      intros d l0 H. destruct d as [|x d]; [discriminate H|].
      injection H as _ H. exact (H3 d l0 H).
Qed.

Lemma strip_trailing_unique ls keep t :
  ls = keep ++ t -> Forall (fun l => isxtrace l = true) t ->
  (forall d l, keep = d ++ [l] -> isxtrace l = false) -> keep = strip_trailing ls.
Proof.
  intros -> Ht Hk. induction keep as [|k keep IH]; cbn [app].
  - induction Ht as [|x t Hx _ IHt]; [reflexivity|]. cbn [strip_trailing]. now rewrite <- IHt, Hx.
  - cbn [strip_trailing]. rewrite <- IH.
    + destruct keep as [|k2 keep]; [|reflexivity].
      now rewrite (Hk [] k eq_refl).
    + intros d l H. apply (Hk (k :: d) l). now rewrite H.
Qed.

(* ---- the loop -------------------------------------------------------------------------- *)

Lemma trim_loop_lead ls : trim_loop true 0 [] ls = trim_loop false 0 [] (drop_trace ls).
Proof.
  induction ls as [|l ls IH]; [reflexivity|].
  cbn [trim_loop drop_trace andb]. destruct (isxtrace l) eqn:Hx; [exact IH|].
  cbn [trim_loop andb]. now rewrite Hx.
Qed.

Lemma firstn_app_le {A} n (a b : list A) : (n <= length a)%nat -> firstn n (a ++ b) = firstn n a.
Proof.
  intros H. rewrite firstn_app. replace (n - length a)%nat with 0%nat by lia.
  cbn [firstn]. now rewrite app_nil_r.
Qed.

Lemma trim_loop_gen ls : forall xend bf,
  bf <> [] -> (xend <= length bf)%nat ->
  trim_loop false xend bf ls =
    cstr (match strip_trailing ls with
          | [] => if Nat.eqb xend 0 then bf else firstn xend bf
          | r => bf ++ unlines r
          end).
Proof.
  induction ls as [|l ls IH]; intros xend bf Hbf Hle; [reflexivity|].
  cbn [trim_loop andb strip_trailing].
  set (xend1 := if isxtrace l then if Nat.eqb xend 0 then length bf else xend else 0%nat).
  assert (Hbf' : bf ++ l ++ [10] <> []) by (destruct bf; [congruence|discriminate]).
  assert (Hle' : (xend1 <= length (bf ++ l ++ [10%N]))%nat).
  { rewrite app_length. unfold xend1. destruct (isxtrace l); [|lia].
    destruct (Nat.eqb xend 0); lia. }
  rewrite (IH xend1 _ Hbf' Hle').
  destruct (strip_trailing ls) as [|r rs].
  - unfold xend1. destruct (isxtrace l) eqn:Hx.
    + destruct (Nat.eqb_spec xend 0) as [->|Hne].
      * assert (Hl : Nat.eqb (length bf) 0 = false).
        { destruct bf; [congruence|reflexivity]. }
        rewrite Hl. rewrite firstn_app_le by lia. now rewrite firstn_all.
      * destruct (Nat.eqb_spec xend 0) as [|_]; [contradiction|].
        now rewrite firstn_app_le by exact Hle.
    + cbn [Nat.eqb unlines]. reflexivity.
  - cbn [unlines]. rewrite <- !app_assoc. reflexivity.
Qed.

Lemma strip_trailing_nonul ls : Forall nonul ls -> Forall nonul (strip_trailing ls).
Proof.
  intros H. destruct (strip_trailing_spec ls) as [t [E _]]. rewrite E in H.
  apply Forall_app in H. tauto.
Qed.

Lemma drop_trace_head ls :
  match drop_trace ls with l :: _ => isxtrace l = false | [] => True end.
Proof.
  induction ls as [|l ls IH]; [exact I|]. cbn [drop_trace].
  destruct (isxtrace l) eqn:Hx; [exact IH|exact Hx].
Qed.

(* regress_log_trim = the specification, for every file content *)
Theorem trim_refines_spec file : trim file = trim_spec file.
Proof.
  unfold trim, trim_spec. rewrite trim_loop_lead.
  assert (Hz : nonul (unlines (strip_trailing (drop_trace (clines file))))).
  { apply nonul_unlines, strip_trailing_nonul.
    eapply sublist_Forall; [apply drop_trace_sublist|apply clines_nonul]. }
  pose proof (drop_trace_head (clines file)) as Hh.
  destruct (drop_trace (clines file)) as [|l L]; [reflexivity|].
  cbn [trim_loop andb]. rewrite Hh. cbn [Nat.eqb app].
  rewrite trim_loop_gen by (try (destruct l; discriminate); apply Nat.le_0_l).
  cbn [strip_trailing] in *. rewrite Hh in *.
  destruct (strip_trailing L) as [|r rs].
  - cbn [Nat.eqb]. apply cstr_id. exact Hz.
  - rewrite <- (cstr_id _ Hz). cbn [unlines]. now rewrite <- !app_assoc.
Qed.

(* consequences: only log lines, in order; nothing after the leading block is
   lost except trailing trace lines *)
Lemma strip_trailing_sublist ls : sublist (strip_trailing ls) ls.
Proof.
  destruct (strip_trailing_spec ls) as [t [E _]]. rewrite E at 2.
  rewrite <- (app_nil_r (strip_trailing ls)) at 1.
  apply sublist_app; [apply sublist_refl|apply sublist_nil_l].
Qed.

Theorem trim_lines file :
  getlines (trim file) = strip_trailing (drop_trace (clines file)) /\
  sublist (getlines (trim file)) (clines file).
Proof.
  rewrite trim_refines_spec. unfold trim_spec.
  assert (Hs : sublist (strip_trailing (drop_trace (clines file))) (clines file)).
  { eapply sublist_trans; [apply strip_trailing_sublist|apply drop_trace_sublist]. }
  rewrite getlines_unlines; [split; [reflexivity|exact Hs]|].
  eapply sublist_Forall; [exact Hs|apply clines_nonl].
Qed.

(* the oracle applied to what regress_log_trim of the implementation wrote
   (added): exactly the specified bytes; it accepts the model and nothing else *)
Definition spec_ok_trim (file out : bytes) : bool := beq out (trim_spec file).

Theorem oracle_trim_exact file out : spec_ok_trim file out = true <-> out = trim file.
Proof. unfold spec_ok_trim. rewrite beq_eq, trim_refines_spec. tauto. Qed.
