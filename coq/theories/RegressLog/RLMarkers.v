(* RLMarkers.v - what a shell-trace line, the leading trace block, a test marker
   and a sub-directory marker ARE, stated on the bytes of the line and
   independently of the scanning functions of RLDefs.v
   (isxtrace / drop_trace / marker_scan / ismarker_regress / ismarker_subdir).

   regress-log.c documents ismarker_regress as  /^==== .* ====$/ .  The code
   differs from that in two directions, both stated below:
     - it stops scanning at the FIRST '=' that follows a space, so a name that
       contains " =" is not a marker although the regex matches
       ("==== a =b ====");
     - the space after the opening "====" counts as that preceding space, so
       "==== ====" is a marker although the regex (two spaces) does not match. *)
From Robsd Require Import RegressLog.RLSpec.
Local Open Scope N_scope.

(* " =" : the pair that ends the scan *)
Definition sp_eq : bytes := [32; 61].

(* ---- shell-trace lines and the leading block ---------------------------------- *)

Lemma isxtrace_spec l : isxtrace l = true <-> exists t, l = 43 :: t.
Proof.
  destruct l as [|c t]; simpl.
  - split; [discriminate|intros [t H]; discriminate].
  - rewrite N.eqb_eq. split.
    + intros ->. eauto.
    + intros [t' H]. injection H as -> _. reflexivity.
Qed.

Definition untraced_head (ls : list bytes) : Prop :=
  match ls with l :: _ => isxtrace l = false | [] => True end.

(* the leading trace block is the longest prefix of '+' lines; what remains
   starts with a line that is not a trace line (or is empty) *)
Lemma drop_trace_spec ls :
  exists tr, ls = tr ++ drop_trace ls /\
             Forall (fun l => isxtrace l = true) tr /\ untraced_head (drop_trace ls).
Proof.
  induction ls as [|l ls IH]; simpl.
  - exists []. repeat split; constructor.
  - destruct (isxtrace l) eqn:Hx.
    + destruct IH as [tr [H1 [H2 H3]]]. exists (l :: tr). repeat split.
      * simpl. now rewrite <- H1.
      * constructor; assumption.
      * exact H3.
    + exists []. repeat split; [constructor|exact Hx].
Qed.

Lemma drop_trace_unique ls tr rest :
  ls = tr ++ rest -> Forall (fun l => isxtrace l = true) tr -> untraced_head rest ->
  rest = drop_trace ls.
Proof.
  intros -> Htr Hrest. induction Htr as [|l tr Hl _ IH]; cbn [app drop_trace].
  - destruct rest as [|r rest]; [reflexivity|]. cbn [untraced_head] in Hrest.
    cbn [drop_trace]. now rewrite Hrest.
  - now rewrite Hl.
Qed.

(* a trace line further down is an ordinary line: only the LEADING block is dropped *)
Lemma drop_trace_idem ls : drop_trace (drop_trace ls) = drop_trace ls.
Proof.
  induction ls as [|l ls IH]; [reflexivity|]. simpl.
  destruct (isxtrace l) eqn:Hx; [exact IH|]. simpl. now rewrite Hx.
Qed.

(* ---- sub-directory marker --------------------------------------------------------- *)

Lemma ismarker_subdir_spec l : ismarker_subdir l = true <-> exists t, l = mk_subdir ++ t.
Proof. apply prefixb_spec. Qed.

(* ---- test marker ------------------------------------------------------------------- *)

Lemma sp_eq_head prev c t :
  infixb sp_eq (prev :: c :: t) = ((prev =? 32) && (c =? 61)) || infixb sp_eq (c :: t).
Proof.
  cbn [infixb sp_eq prefixb]. rewrite andb_true_r.
  now rewrite (N.eqb_sym 32 prev), (N.eqb_sym 61 c).
Qed.

(* the scan stops at the first '=' whose predecessor is a space *)
Lemma marker_scan_hit prev x b :
  infixb sp_eq (prev :: x ++ [32]) = false ->
  marker_scan prev (x ++ 32 :: 61 :: b) = 61 :: b.
Proof.
  revert prev; induction x as [|c x IH]; intros prev H.
  - cbn [app marker_scan]. cbn [app] in H. rewrite sp_eq_head in H.
    apply orb_false_iff in H. destruct H as [H _].
    change (32 =? 61) with false in *. rewrite andb_false_r.
    now rewrite !N.eqb_refl.
  - cbn [app marker_scan]. cbn [app] in H. rewrite sp_eq_head in H.
    apply orb_false_iff in H. destruct H as [H1 H2]. rewrite H1. apply IH. exact H2.
Qed.

Lemma marker_scan_inv prev s c r :
  marker_scan prev s = c :: r ->
  c = 61 /\ ((prev = 32 /\ s = c :: r) \/
             exists x, s = x ++ 32 :: 61 :: r /\ infixb sp_eq (prev :: x ++ [32]) = false).
Proof.
  revert prev; induction s as [|d s IH]; intros prev H; [discriminate|].
  cbn [marker_scan] in H.
  destruct ((prev =? 32) && (d =? 61)) eqn:Hhit.
  - injection H as -> ->. apply andb_true_iff in Hhit. destruct Hhit as [Hp Hc].
    apply N.eqb_eq in Hp, Hc. split; [exact Hc|]. left. split; [exact Hp|reflexivity].
  - destruct (IH d H) as [Hc [[Hd Hs]|[x [Hs Hx]]]]; split; try exact Hc; right.
    + exists []. subst. split; [reflexivity|]. cbn [app]. rewrite sp_eq_head, Hhit.
      reflexivity.
    + exists (d :: x). subst s. split; [reflexivity|]. cbn [app]. rewrite sp_eq_head, Hhit.
      exact Hx.
Qed.

(* THE marker specification: "==== ====", or "==== x ====" where no '=' inside
   " x " directly follows a space *)
Theorem ismarker_regress_spec l :
  ismarker_regress l = true <->
  l = mk_regress ++ 32 :: mk_regress \/
  exists x, l = mk_regress ++ 32 :: x ++ 32 :: mk_regress /\
            infixb sp_eq (32 :: x ++ [32]) = false.
Proof.
  split.
  - unfold ismarker_regress. intros H.
    destruct (prefixb mk_regress l) eqn:Hp; [|discriminate].
    apply prefixb_spec in Hp. destruct Hp as [t ->].
    change (skipn 4 (mk_regress ++ t)) with t in H.
    destruct t as [|c rest]; [discriminate|].
    destruct (N.eqb_spec c 32) as [->|Hc]; [|discriminate].
    destruct (prefixb mk_regress (marker_scan 32 rest)) eqn:Hp2; [|discriminate].
    apply prefixb_spec in Hp2. destruct Hp2 as [t2 Ht2]. rewrite Ht2 in H.
    change (skipn 4 (mk_regress ++ t2)) with t2 in H.
    destruct t2 as [|? ?]; [|discriminate]. rewrite app_nil_r in Ht2.
    change mk_regress with (61 :: [61; 61; 61]) in Ht2 at 1.
    destruct (marker_scan_inv _ _ _ _ Ht2) as [_ [[_ Hs]|[x [Hs Hx]]]].
    + left. now rewrite Hs.
    + right. exists x. split; [now rewrite Hs|exact Hx].
  - intros [->|[x [-> Hx]]]; [reflexivity|].
    unfold ismarker_regress.
    assert (Hp : prefixb mk_regress (mk_regress ++ 32 :: x ++ 32 :: mk_regress) = true).
    { apply prefixb_spec. eauto. }
    rewrite Hp. change (skipn 4 (mk_regress ++ 32 :: x ++ 32 :: mk_regress))
      with (32 :: x ++ 32 :: mk_regress).
    cbv beta iota. rewrite N.eqb_refl.
    change (x ++ 32 :: mk_regress) with (x ++ 32 :: 61 :: [61; 61; 61]).
    rewrite marker_scan_hit by exact Hx. reflexivity.
Qed.

Lemma no_eq_no_sp_eq s : ~ In 61 s -> infixb sp_eq s = false.
Proof.
  intros H. destruct (infixb sp_eq s) eqn:E; [|reflexivity].
  apply infixb_spec in E. destruct E as [a [b ->]]. elim H.
  apply in_or_app. right. simpl. auto.
Qed.

(* the documented shape is a marker whenever the name holds no '=' at all ... *)
Lemma marker_plain_name x :
  ~ In 61 x -> ismarker_regress (mk_regress ++ 32 :: x ++ 32 :: mk_regress) = true.
Proof.
  intros H. apply ismarker_regress_spec. right. exists x. split; [reflexivity|].
  apply no_eq_no_sp_eq. intros [Hc|Hin]; [discriminate|].
  apply in_app_or in Hin. destruct Hin as [Hin|[Hc|[]]]; [contradiction|discriminate].
Qed.

(* ... every marker other than "==== ====" has the documented shape ... *)
Lemma marker_has_documented_shape l :
  ismarker_regress l = true -> l <> mk_regress ++ 32 :: mk_regress ->
  exists x, l = mk_regress ++ 32 :: x ++ 32 :: mk_regress.
Proof.
  intros H Hne. apply ismarker_regress_spec in H. destruct H as [H|[x [H _]]]; [contradiction|eauto].
Qed.

(* ... but the documented shape /^==== .* ====$/ is neither sufficient nor necessary *)
Lemma marker_regex_not_sufficient :
  exists x, ismarker_regress (mk_regress ++ 32 :: x ++ 32 :: mk_regress) = false.
Proof. exists [97; 32; 61; 98]. reflexivity. Qed.      (* "==== a =b ====" *)

Lemma marker_regex_not_necessary :
  ismarker_regress (mk_regress ++ 32 :: mk_regress) = true /\
  ~ exists x, mk_regress ++ 32 :: mk_regress = mk_regress ++ 32 :: x ++ 32 :: mk_regress.
Proof.
  split; [reflexivity|]. intros [x H].
  apply (f_equal (@length N)) in H. rewrite !app_length in H. simpl in H.
  rewrite app_length in H. simpl in H. lia.
Qed.

(* ---- what the model does with CR, NUL and long lines -------------------------------- *)

(* CR is an ordinary byte.  A test marker must END in "====": a CRLF log has no
   test markers at all (sub-directory markers and keywords are unaffected, they
   are prefix / substring tests) *)
Lemma marker_then_byte_is_no_marker l c : c <> 61 -> ismarker_regress (l ++ [c]) = false.
Proof.
  intros Hc. destruct (ismarker_regress (l ++ [c])) eqn:E; [|reflexivity].
  apply ismarker_regress_spec in E.
  assert (Hl : forall a, last (a ++ [c]) 0 = c) by (intros; apply last_last).
  destruct E as [E|[x [E _]]]; apply (f_equal (fun s => last s 0)) in E; rewrite Hl in E.
  - vm_compute in E. congruence.
  - change (mk_regress ++ 32 :: x ++ 32 :: mk_regress)
      with ((mk_regress ++ 32 :: x) ++ (32 :: [61; 61; 61]) ++ [61]) in E at 1.
    rewrite !app_assoc, last_last in E. congruence.
Qed.

Lemma crlf_marker_lost l : ismarker_regress (l ++ [13]) = false.
Proof. apply marker_then_byte_is_no_marker. discriminate. Qed.

Lemma crlf_subdir_kept l : ismarker_subdir l = true -> ismarker_subdir (l ++ [13]) = true.
Proof.
  rewrite !ismarker_subdir_spec. intros [t ->]. exists (t ++ [13]). now rewrite app_assoc.
Qed.

Lemma crlf_keyword_kept k l : infixb k l = true -> infixb k (l ++ [13]) = true.
Proof.
  rewrite !infixb_spec. intros [a [b ->]]. exists a, (b ++ [13]). now rewrite <- !app_assoc.
Qed.

(* a line is cut at its first NUL byte: what follows up to the newline is
   invisible to every test and is not printed.  [a] and [b] are arbitrary (no
   bound on their length). *)
Lemma getlines_line a rest : nonl a -> getlines (a ++ 10 :: rest) = a :: getlines rest.
Proof.
  induction 1 as [|c a Hc _ IH]; simpl; [reflexivity|].
  destruct (N.eqb_spec c 10); [contradiction|]. now rewrite IH.
Qed.

Lemma cstr_cut a b : nonul a -> cstr (a ++ 0 :: b) = a.
Proof.
  induction 1 as [|c a Hc _ IH]; simpl; [reflexivity|].
  destruct (N.eqb_spec c 0); [contradiction|]. now rewrite IH.
Qed.

Lemma clines_nul_cut a b rest :
  nonl a -> nonul a -> nonl b ->
  clines (a ++ 0 :: b ++ 10 :: rest) = a :: clines rest.
Proof.
  intros Ha Hz Hb. unfold clines.
  replace (a ++ 0 :: b ++ 10 :: rest) with ((a ++ 0 :: b) ++ 10 :: rest)
    by now rewrite <- app_assoc.
  rewrite getlines_line.
  - cbn [map]. now rewrite cstr_cut.
  - apply Forall_app. split; [exact Ha|]. constructor; [discriminate|exact Hb].
Qed.

Lemma clines_line a rest : nonl a -> nonul a -> clines (a ++ 10 :: rest) = a :: clines rest.
Proof.
  intros Ha Hz. unfold clines. rewrite getlines_line by exact Ha. cbn [map].
  now rewrite cstr_id.
Qed.
