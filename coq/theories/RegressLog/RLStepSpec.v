(* RLStepSpec.v - the "Hence" clause for util.sh step_exec as an executable
   oracle (definitions in RLOracles.v) that does not go through the model of the extractor or of step_exec:
   [failing_lineb] decides "some line after the leading trace block contains
   FAILED or UNEXPECTED_PASS" by substring search on the lines, and
   [spec_ok_step] says what the property demands of the status step_exec
   returns:
     - regress mode and a failing line: not 0;
     - otherwise the runner's status, unchanged.
   In particular: returned <> 0 iff rc <> 0 or (regress mode and a failing line).
   Proved: the decision is the Prop [failing_line] of RLCallers.v, and the oracle
   accepts the model's step_exec_exit for every input. *)
From Robsd Require Import RegressLog.RLSpec RegressLog.RLProofs RegressLog.RLCallDefs RegressLog.RLCallers
  RegressLog.RLOracles.
Local Open Scope N_scope.

Lemma failing_lineb_spec log : failing_lineb log = true <-> failing_line log.
Proof.
  unfold failing_lineb, failing_line. rewrite existsb_exists.
  split; intros [l [Hin H]]; exists l; split; auto.
  - apply orb_true_iff in H. now rewrite !infixb_spec in H.
  - apply orb_true_iff. now rewrite !infixb_spec.
Qed.

(* what acceptance means *)
Theorem spec_ok_step_meaning regress rc log e :
  spec_ok_step regress rc log e = true ->
  (e <> 0 <-> rc <> 0 \/ (regress = true /\ failing_line log)).
Proof.
  unfold spec_ok_step. destruct (failing_lineb log) eqn:F.
  - apply failing_lineb_spec in F. destruct regress; cbn [andb].
    + intros H. apply negb_true_iff, N.eqb_neq in H. split; [intros _; right; auto|intros _; exact H].
    + intros H. apply N.eqb_eq in H. subst e.
      split; [intros H; now left|intros [H|[H _]]; [exact H|discriminate]].
  - assert (Hn : ~ failing_line log) by (intros H; apply failing_lineb_spec in H; congruence).
    rewrite andb_false_r. intros H. apply N.eqb_eq in H. subst e.
    split; [intros H; now left|intros [H|[_ H]]; [exact H|contradiction]].
Qed.

(* the oracle accepts the model *)
Theorem spec_ok_step_accepts_model regress rc log :
  spec_ok_step regress rc log (step_exec_exit regress rc (Some log)) = true.
Proof.
  unfold spec_ok_step. destruct (step_exec_exit_spec regress rc log) as [_ [H1 [H2 H3]]].
  destruct (failing_lineb log) eqn:F.
  - apply failing_lineb_spec in F. destruct regress; cbn [andb].
    + now rewrite (H1 eq_refl F).
    + rewrite (H2 eq_refl). apply N.eqb_refl.
  - rewrite andb_false_r. rewrite H3; [apply N.eqb_refl|].
    intros H. apply failing_lineb_spec in H. congruence.
Qed.
