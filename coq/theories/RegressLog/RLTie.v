(* RLTie.v - the hand-written model of RLDefs.v / RLCallDefs.v against the tables
   that harness/t_regresslog.py reads from the source on every check
   (coq/gen/Gen_RegressLog.v).  Each lemma says: the model function IS the
   generic reading of the generated table.  A changed keyword, marker string,
   scan character, option letter, exit code, caller option or status chain
   makes one of these proofs fail. *)
From Robsd Require Import RegressLog.RLSpec RegressLog.RLProofs RegressLog.RLCallDefs
  RegressLog.RLCallers.
From RobsdGen Require Import Gen_RegressLog.
Local Open Scope N_scope.

(* ---- generic readings ------------------------------------------------------------- *)

Definition any_needle (ns : list bytes) (l : bytes) : bool := existsb (fun k => infixb k l) ns.

Definition gpred_fun (p : gpred) : bytes -> bool :=
  match p with
  | GP_isskipped => any_needle needles_isskipped
  | GP_isfailed => any_needle needles_isfailed
  | GP_isxfailed => any_needle needles_isxfailed
  | GP_isxpassed => any_needle needles_isxpassed
  end.

Definition gflag_on (f : gflag) (fl : flags) : bool :=
  match f with
  | GF_FAILED => fFAILED fl | GF_SKIPPED => fSKIPPED fl
  | GF_XFAILED => fXFAILED fl | GF_XPASSED => fXPASSED fl
  end.

Definition gflag_eqb (a b : gflag) : bool :=
  match a, b with
  | GF_FAILED, GF_FAILED | GF_SKIPPED, GF_SKIPPED
  | GF_XFAILED, GF_XFAILED | GF_XPASSED, GF_XPASSED => true
  | _, _ => false
  end.

Definition flag_only (f : gflag) : flags :=
  mkflags (gflag_eqb f GF_FAILED) (gflag_eqb f GF_SKIPPED) (gflag_eqb f GF_XFAILED)
          (gflag_eqb f GF_XPASSED) false.

Definition gen_selected (fl : flags) (l : bytes) : bool :=
  existsb (fun fp => gflag_on (fst fp) fl && gpred_fun (snd fp) l) selection.

Definition gen_isxtrace (l : bytes) : bool :=
  match l with c :: _ => c =? xtrace_char | [] => false end.

Fixpoint gen_marker_scan (prev : byte) (s : bytes) : bytes :=
  match s with
  | [] => []
  | c :: s' => if (prev =? marker_scan_prev) && (c =? marker_scan_cur) then s
               else gen_marker_scan c s'
  end.

Definition gen_ismarker_regress (l : bytes) : bool :=
  let k := length marker_regress_needle in
  if prefixb marker_regress_needle l then
    match skipn k l with
    | c :: rest =>
        if c =? marker_regress_sep then
          let r := gen_marker_scan c rest in
          if prefixb marker_regress_needle r then
            match skipn k r with [] => true | _ => false end
          else false
        else false
    | [] => false
    end
  else false.

(* getopt: which flags an option string sets; REGRESS_LOG_NEWLINE has no letter *)
Definition gen_flags_of_opts (s : bytes) : flags :=
  let has f := existsb (fun o => existsb (fun p => (fst p =? o) && gflag_eqb (snd p) f) opt_flags) s in
  mkflags (has GF_FAILED) (has GF_SKIPPED) (has GF_XFAILED) (has GF_XPASSED) false.

Definition gen_doprint (s : bytes) : bool := negb (existsb (N.eqb opt_noprint) s).

Definition hname (s : hstatus) : bytes :=
  match s with
  | HPASS => [80; 65; 83; 83] | HFAIL => [70; 65; 73; 76] | HXFAIL => [88; 70; 65; 73; 76]
  | HXPASS => [88; 80; 65; 83; 83] | HSKIP => [83; 75; 73; 80] | HNOTERM => [78; 79; 84; 69; 82; 77]
  end.

Fixpoint gen_zero_chain (log : bytes) (c : list (gflag * bytes)) : bytes :=
  match c with
  | [] => html_zero_default
  | (f, s) :: c' => if Nat.ltb 0 (peek (flag_only f) log) then s else gen_zero_chain log c'
  end.

Definition gen_html_status (exit : N) (log : bytes) : bytes :=
  if exit =? ex_timeout then html_timeout_status
  else if negb (exit =? 0) then
    let '(f, hit, miss) := html_nonzero in
    if Nat.ltb 0 (peek (flag_only f) log) then hit else miss
  else gen_zero_chain log html_zero_chain.

(* ---- pins --------------------------------------------------------------------------- *)

Lemma tie_predicates l :
  isskipped l = gpred_fun GP_isskipped l /\ isfailed l = gpred_fun GP_isfailed l /\
  isxfailed l = gpred_fun GP_isxfailed l /\ isxpassed l = gpred_fun GP_isxpassed l.
Proof.
  unfold isskipped, isfailed, isxfailed, isxpassed.
  cbn [gpred_fun any_needle existsb needles_isskipped needles_isfailed needles_isxfailed
       needles_isxpassed]. rewrite !orb_false_r. repeat split; reflexivity.
Qed.

(* insensitive to the order of the disjuncts in the source, sensitive to a missing one *)
Lemma tie_selected fl l : selected fl l = gen_selected fl l.
Proof.
  unfold gen_selected. cbn [selection existsb fst snd gflag_on].
  destruct (tie_predicates l) as [H1 [H2 [H3 H4]]]. rewrite <- H1, <- H2, <- H3, <- H4.
  unfold selected.
  destruct (fSKIPPED fl), (fFAILED fl), (fXFAILED fl), (fXPASSED fl),
    (isskipped l), (isfailed l), (isxfailed l), (isxpassed l); reflexivity.
Qed.

Lemma tie_isxtrace l : isxtrace l = gen_isxtrace l.
Proof. reflexivity. Qed.

Lemma tie_marker_scan prev s : marker_scan prev s = gen_marker_scan prev s.
Proof. revert prev; induction s as [|c s IH]; intros prev; [reflexivity|]. cbn. now rewrite IH. Qed.

Lemma tie_ismarker_regress l : ismarker_regress l = gen_ismarker_regress l.
Proof.
  unfold ismarker_regress, gen_ismarker_regress.
  change marker_regress_needle with mk_regress. change (length mk_regress) with 4%nat.
  destruct (prefixb mk_regress l); [|reflexivity].
  destruct (skipn 4 l) as [|c rest]; [reflexivity|].
  change marker_regress_sep with 32.
  destruct (N.eqb_spec c 32) as [->|_]; [|reflexivity].
  now rewrite tie_marker_scan.
Qed.

Lemma tie_ismarker_subdir l : ismarker_subdir l = prefixb marker_subdir_needle l.
Proof. reflexivity. Qed.

Lemma tie_flag_bits : flag_bits = [1; 2; 4; 8; 16; 32].
Proof. reflexivity. Qed.

(* the option letters of the manual, and nothing sets NEWLINE *)
Lemma tie_options :
  gen_flags_of_opts [70] = mkflags true false false false false /\
  gen_flags_of_opts [83] = mkflags false true false false false /\
  gen_flags_of_opts [88] = mkflags false false true false false /\
  gen_flags_of_opts [80] = mkflags false false false true false /\
  gen_doprint [110] = false /\ gen_doprint [70; 80; 83; 88] = true /\
  forall s, fNEWLINE (gen_flags_of_opts s) = false.
Proof. repeat split; reflexivity. Qed.

Lemma tie_exit_codes fl dp files :
  fst (main fl dp files) =
    let '(n, _, error) := main_loop fl files 0 [] false in
    if error then exit_error else if Nat.eqb n 0 then exit_none else exit_found.
Proof. unfold main. destruct (main_loop fl files 0 [] false) as [[n bf] e]. reflexivity. Qed.

Lemma tie_exit_values : exit_error = 2 /\ exit_none = 1 /\ exit_found = 0 /\ exit_usage = 1.
Proof. repeat split; reflexivity. Qed.

(* callers *)
Lemma tie_regress_failed :
  gen_flags_of_opts regress_failed_opts = fl_FP /\ gen_doprint regress_failed_opts = false.
Proof. split; reflexivity. Qed.

Lemma tie_step_exec regress rc seen :
  step_exec_exit regress rc seen = if regress && regress_failed seen then step_exec_override else rc.
Proof. reflexivity. Qed.

Lemma tie_step_exec_mode : step_exec_mode =
  [114; 111; 98; 115; 100; 45; 114; 101; 103; 114; 101; 115; 115].   (* robsd-regress *)
Proof. reflexivity. Qed.

Lemma tie_html_status exit log :
  hname (html_status ex_timeout exit log) = gen_html_status exit log.
Proof.
  unfold html_status, gen_html_status.
  destruct (exit =? ex_timeout); [reflexivity|].
  destruct (negb (exit =? 0)).
  - cbn [html_nonzero]. change (flag_only GF_XPASSED) with fl_P.
    destruct (Nat.ltb 0 (peek fl_P log)); reflexivity.
  - cbn [html_zero_chain gen_zero_chain].
    change (flag_only GF_XFAILED) with fl_X. change (flag_only GF_SKIPPED) with fl_S.
    destruct (Nat.ltb 0 (peek fl_X log)); [reflexivity|].
    destruct (Nat.ltb 0 (peek fl_S log)); reflexivity.
Qed.

Lemma tie_html_failure s : hfailure s = existsb (beq (hname s)) failure_statuses.
Proof. destruct s; reflexivity. Qed.

Lemma tie_timeout_nonzero : ex_timeout <> 0.
Proof. discriminate. Qed.

(* ---- the clause for the source as it is ---------------------------------------------- *)

(* step_exec, by where the translator finds the check: after the pipeline the clause
   holds for every schedule of tee; inside it (the source up to /repo 604d158) it
   holds only when the whole log had reached the file and is refuted by a prefix *)
Theorem hence_step_exec_shipped :
  (step_exec_checks_inside_pipeline = false ->
     forall rc log seen, failing_line log ->
       step_exec_run step_exec_checks_inside_pipeline true rc log seen = 1) /\
  (step_exec_checks_inside_pipeline = true ->
     (forall rc log, failing_line log ->
        step_exec_run step_exec_checks_inside_pipeline true rc log log = 1) /\
     exists log seen, prefix_of seen log /\ failing_line log /\
        step_exec_run step_exec_checks_inside_pipeline true 0 log seen = 0).
Proof.
  split; intros ->.
  - apply hence_step_exec.
  - split; [intros rc log; now apply hence_step_exec_partial|apply hence_step_exec_refuted].
Qed.

(* the full statement of the clause for the orchestrator: whatever part of the
   log tee had written when the runner exited *)
Definition hence_step_exec_statement : Prop :=
  forall rc log seen, failing_line log ->
    step_exec_run step_exec_checks_inside_pipeline true rc log seen = 1.

Lemma hence_step_exec_if_fixed :
  step_exec_checks_inside_pipeline = false -> hence_step_exec_statement.
Proof. intros H. exact (proj1 hence_step_exec_shipped H). Qed.

Lemma hence_step_exec_statement_false :
  step_exec_checks_inside_pipeline = true -> ~ hence_step_exec_statement.
Proof.
  intros H Hs. destruct (proj2 (proj2 hence_step_exec_shipped H)) as [log [seen [_ [Hf H0]]]].
  rewrite (Hs 0 log seen Hf) in H0. discriminate.
Qed.

Theorem html_exit0_never_failure_shipped log :
  hfailure (html_status ex_timeout 0 log) = false.
Proof. apply html_exit0_never_failure, tie_timeout_nonzero. Qed.

(* the command line of robsd-regress-log satisfies the hypothesis of the C13 theorems *)
Theorem cmdline_never_newline opts : fNEWLINE (gen_flags_of_opts opts) = false.
Proof. reflexivity. Qed.
