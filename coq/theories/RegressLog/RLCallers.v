(* RLCallers.v - the "Hence" clause of C13: a log with a FAILED or
   UNEXPECTED_PASS line outside the leading trace block is classified as a
   failed regress run - by which caller, under which condition, and where not. *)
From Robsd Require Import RegressLog.RLSpec RegressLog.RLProofs RegressLog.RLCallDefs.
Local Open Scope N_scope.

(* the hypothesis of the clause, on the bytes of the log *)
Definition failing_line (log : bytes) : Prop :=
  exists l, In l (drop_trace (clines log)) /\
    ((exists a b, l = a ++ kw_FAILED ++ b) \/ (exists a b, l = a ++ kw_XPASS ++ b)).

Lemma selected_FP l :
  selected fl_FP l = true <->
  (exists a b, l = a ++ kw_FAILED ++ b) \/ (exists a b, l = a ++ kw_XPASS ++ b).
Proof.
  unfold selected, fl_FP. cbn [fSKIPPED fFAILED fXFAILED fXPASSED andb orb].
  rewrite orb_false_r. rewrite orb_true_iff. unfold isfailed, isxpassed.
  now rewrite !infixb_spec.
Qed.

Lemma failing_line_iff log : failing_line log <-> has_match fl_FP log.
Proof.
  unfold failing_line, has_match. split; intros [l [Hin H]]; exists l; split; auto;
    now apply selected_FP.
Qed.

(* ---- regress_failed -------------------------------------------------------------- *)

Theorem regress_failed_iff log : regress_failed (Some log) = true <-> failing_line log.
Proof.
  unfold regress_failed. rewrite N.eqb_eq, failing_line_iff.
  destruct (exit_zero_iff fl_FP false [log] eq_refl) as [H0 _]. cbn [map] in H0.
  rewrite H0. split.
  - intros [f [[<-|[]] H]]. exact H.
  - intros H. exists log. split; [now left|exact H].
Qed.

Lemma regress_failed_unreadable : regress_failed None = false.
Proof. reflexivity. Qed.

(* ---- step_exec --------------------------------------------------------------------- *)

(* exact: in regress mode the step is reported failed iff the runner failed or
   the log that was examined has a failing line; in every other mode the log is
   not looked at *)
Theorem step_exec_exit_spec regress rc seen :
  (step_exec_exit regress rc (Some seen) <> 0 <->
     rc <> 0 \/ (regress = true /\ failing_line seen)) /\
  (regress = true -> failing_line seen -> step_exec_exit regress rc (Some seen) = 1) /\
  (regress = false -> step_exec_exit regress rc (Some seen) = rc) /\
  (~ failing_line seen -> step_exec_exit regress rc (Some seen) = rc).
Proof.
  unfold step_exec_exit.
  destruct (regress_failed (Some seen)) eqn:E.
  - assert (Hf : failing_line seen) by (apply regress_failed_iff; exact E).
    destruct regress; cbn [andb].
    + split; [split; [intros _; right; auto|discriminate]|].
      split; [reflexivity|]. split; [discriminate|]. intros Hn. contradiction.
    + split; [split; [intros H; left; exact H|intros [H|[H _]]; [exact H|discriminate]]|].
      split; [discriminate|]. split; reflexivity.
  - assert (Hf : ~ failing_line seen).
    { intros H. apply regress_failed_iff in H. congruence. }
    rewrite andb_false_r.
    split; [split; [intros H; left; exact H|intros [H|[_ H]]; [exact H|contradiction]]|].
    split; [intros _ H; contradiction|]. split; reflexivity.
Qed.

(* the clause for the orchestrator, when the check reads the complete log *)
Theorem hence_step_exec rc log seen :
  failing_line log -> step_exec_run false true rc log seen = 1.
Proof.
  intros H. unfold step_exec_run. now apply (step_exec_exit_spec true rc log).
Qed.

(* the shipped step_exec examines the file while tee is still writing it: the
   clause holds when all of the log had been written ... *)
Theorem hence_step_exec_partial rc log seen :
  seen = log -> failing_line log -> step_exec_run true true rc log seen = 1.
Proof.
  intros -> H. unfold step_exec_run. now apply (step_exec_exit_spec true rc log).
Qed.

(* ... and fails for a prefix: the runner exited 0, the log has a FAILED line,
   the step is recorded as passed *)
Definition prefix_of (p s : bytes) : Prop := exists t, s = p ++ t.

Theorem hence_step_exec_refuted :
  exists log seen, prefix_of seen log /\ failing_line log /\
                   step_exec_run true true 0 log seen = 0.
Proof.
  (* "==== t ====\nFAILED\n", of which "==== t ====\n" had been written *)
  exists ((mk_regress ++ [32; 116; 32] ++ mk_regress) ++ [10] ++ kw_FAILED ++ [10]),
         ((mk_regress ++ [32; 116; 32] ++ mk_regress) ++ [10]).
  split; [eexists; reflexivity|]. split; [|reflexivity].
  exists kw_FAILED. split; [vm_compute; auto|]. left. exists [], []. reflexivity.
Qed.

(* a prefix never produces a failure that the complete log does not have, as
   long as it ends at a line boundary: the race only loses failures *)
Lemma step_exec_other_modes inside rc log seen : step_exec_run inside false rc log seen = rc.
Proof. reflexivity. Qed.

(* ---- regress-html ------------------------------------------------------------------ *)

Lemma peek_pos fl log :
  Nat.ltb 0 (peek fl log) = existsb (selected fl) (drop_trace (clines log)).
Proof. rewrite peek_spec. destruct (existsb _ _); reflexivity. Qed.

(* NEGATIVE: with a recorded exit status of 0 the HTML status is never a failure
   status, whatever the log holds.  The sentence "a log with a FAILED line is
   always classified as failed" is false for this caller taken by itself. *)
Theorem html_exit0_never_failure timeout log :
  timeout <> 0 -> hfailure (html_status timeout 0 log) = false.
Proof.
  intros Ht. unfold html_status.
  destruct (N.eqb_spec 0 timeout) as [E|_]; [congruence|]. cbn [N.eqb negb].
  destruct (Nat.ltb 0 (peek fl_X log)); [reflexivity|].
  destruct (Nat.ltb 0 (peek fl_S log)); reflexivity.
Qed.

Theorem html_pass_with_failed_line :
  exists log, failing_line log /\ html_status 124 0 log = HPASS.
Proof.
  exists (kw_FAILED ++ [10]). split; [|reflexivity].
  exists kw_FAILED. split; [vm_compute; auto|]. left. exists [], []. reflexivity.
Qed.

(* POSITIVE, composed: the exit status that step_exec hands to the step file
   makes the HTML status a failure status *)
Theorem hence_html_composed timeout rc log :
  failing_line log ->
  hfailure (html_status timeout (step_exec_exit true rc (Some log)) log) = true.
Proof.
  intros H. rewrite (proj1 (proj2 (step_exec_exit_spec true rc log)) eq_refl H).
  unfold html_status. destruct (1 =? timeout); [reflexivity|]. cbn [N.eqb negb].
  destruct (Nat.ltb 0 (peek fl_P log)); reflexivity.
Qed.

(* every non-zero recorded status gives a failure status: the HTML view never
   hides a failure that the step file records *)
Theorem html_nonzero_is_failure timeout exit log :
  exit <> 0 -> hfailure (html_status timeout exit log) = true.
Proof.
  intros He. unfold html_status. destruct (exit =? timeout); [reflexivity|].
  destruct (N.eqb_spec exit 0) as [E|_]; [congruence|]. cbn [negb].
  destruct (Nat.ltb 0 (peek fl_P log)); reflexivity.
Qed.
