(* RLMore.v - third pass: the statements a reader had to compose by hand.

     main_output_lines   ONE theorem about what robsd-regress-log prints for any
                         list of readable files: read back line by line it is
                         blocks of log lines with one empty line between
                         consecutive blocks; without the empty lines it is a
                         subsequence of the lines of the files (file order, line
                         order, nothing invented, nothing duplicated); the selected
                         lines in it are exactly the selected lines after the
                         leading trace block of each file, with multiplicity, in
                         order.
     oracle_peek_exact   the exact peek oracle accepts the model and nothing else. *)
From Robsd Require Import RegressLog.RLSpec RegressLog.RLProofs RegressLog.RLLines RegressLog.RLOracles.
Local Open Scope N_scope.

Definition nonempty_line (l : bytes) : bool := negb (beq l []).

Lemma sublist_filter {A} (p : A -> bool) (l : list A) : sublist (filter p l) l.
Proof.
  induction l as [|x l IH]; [constructor|]. cbn [filter].
  destruct (p x); [now apply sub_take|now apply sub_skip].
Qed.

Lemma filter_with_separators (p : bytes -> bool) (bl : list (list bytes)) :
  p [] = false -> filter p (with_separators bl) = filter p (concat bl).
Proof.
  intros Hp. induction bl as [|b bl IH]; [reflexivity|].
  destruct bl as [|b' bl].
  - cbn [with_separators concat]. now rewrite app_nil_r.
  - change (with_separators (b :: b' :: bl)) with (b ++ [] :: with_separators (b' :: bl)).
    change (concat (b :: b' :: bl)) with (b ++ concat (b' :: bl)).
    rewrite !filter_app. cbn [filter]. rewrite Hp. now rewrite IH.
Qed.

Lemma selected_empty fl : selected fl [] = false.
Proof. destruct fl as [a b c d e]. destruct a, b, c, d; reflexivity. Qed.

Lemma Forall2_map_l {A B C} (R : B -> C -> Prop) (f : A -> B) l m :
  Forall2 (fun a c => R (f a) c) l m -> Forall2 R (map f l) m.
Proof. induction 1; constructor; assumption. Qed.

Theorem main_output_lines fl fs :
  fNEWLINE fl = false ->
  let out := snd (main fl true (map Some fs)) in
  (exists bl, getlines out = with_separators bl /\ sublist (concat bl) (concat (map clines fs))) /\
  sublist (filter nonempty_line (getlines out)) (concat (map clines fs)) /\
  filter (selected fl) (getlines out) =
    concat (map (fun f => filter (selected fl) (drop_trace (clines f))) fs).
Proof.
  intros Hnl out. subst out.
  destruct (main_lines fl fs Hnl) as [bls [HB [HL _]]].
  apply (Forall2_map_l (Blocks (selected fl)) (fun f => drop_trace (clines f))) in HB.
  destruct (lines_sound_complete _ _ _ HB) as [Hsub [Hsel _]].
  assert (Hall : sublist (concat (concat bls)) (concat (map clines fs))).
  { eapply sublist_trans; [exact Hsub|apply drop_trace_files_sublist]. }
  rewrite HL. split; [|split].
  - exists (concat bls). split; [reflexivity|exact Hall].
  - rewrite filter_with_separators by reflexivity.
    eapply sublist_trans; [apply sublist_filter|exact Hall].
  - rewrite filter_with_separators by apply selected_empty.
    rewrite Hsel. now rewrite map_map.
Qed.

Theorem oracle_peek_exact fl f k : spec_ok_peek_exact fl f k = true <-> k = peek fl f.
Proof. unfold spec_ok_peek_exact. rewrite peek_spec. apply Nat.eqb_eq. Qed.

(* hence the model's answer is accepted, and the exact oracle implies the old one *)
Corollary oracle_peek_exact_accepts fl f : spec_ok_peek_exact fl f (peek fl f) = true.
Proof. now apply oracle_peek_exact. Qed.

Corollary oracle_peek_exact_stronger fl f k :
  spec_ok_peek_exact fl f k = true -> spec_ok_peek fl f k = true.
Proof.
  intros H. apply oracle_peek_exact in H. subst k. unfold spec_ok_peek. rewrite peek_spec.
  destruct (existsb (selected fl) (drop_trace (clines f))); reflexivity.
Qed.

(* the old oracle was not exact: it accepts 2 where the model answers 1 *)
Lemma oracle_peek_was_not_exact :
  exists fl f, spec_ok_peek fl f 2 = true /\ peek fl f = 1%nat.
Proof.
  exists (mkflags true false false false false), [70; 65; 73; 76; 69; 68].   (* "FAILED" *)
  split; reflexivity.
Qed.
