(* RLOracles.v - executable oracles added in the third pass.  Definitions only
   (extracted by coq/extract/ExtractRL.v); the proofs that they accept the model
   and nothing else are in RLMore.v. *)
From Robsd Require Import RegressLog.RLSpec.
Local Open Scope N_scope.

(* exact form of RLSpec.spec_ok_peek: regress_log_peek stops at the first hit, so its result is
   1 when a selected line exists after the leading trace block and 0 otherwise -
   not any positive number.  RLMore.oracle_peek_exact: accepts the model's
   answer and nothing else. *)
Definition spec_ok_peek_exact (fl : flags) (file : bytes) (k : nat) : bool :=
  Nat.eqb k (if existsb (selected fl) (drop_trace (clines file)) then 1%nat else 0%nat).

(* the "Hence" clause for util.sh step_exec, decided without the model of the
   extractor or of step_exec: [failing_lineb] = some line after the leading trace
   block contains FAILED or UNEXPECTED_PASS (substring search on the lines);
   [spec_ok_step]: in regress mode with such a line the returned status is not 0,
   otherwise it is the runner's status.  Proofs in RLStepSpec.v. *)
Definition failing_lineb (log : bytes) : bool :=
  existsb (fun l => infixb kw_FAILED l || infixb kw_XPASS l) (drop_trace (clines log)).

Definition spec_ok_step (regress : bool) (rc : N) (log : bytes) (returned : N) : bool :=
  if regress && failing_lineb log then negb (returned =? 0) else returned =? rc.
