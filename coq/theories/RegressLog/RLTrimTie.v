(* RLTrimTie.v - regress_log_trim against its source text.

   harness/t_regresslog.py matches the WHOLE body of regress_log_trim and turns
   the places where the variants it knows differ into constants (the trim_ constants
   of Gen_RegressLog): the initial xbeg / xend, whether the leading trace lines are passed
   over, whether a trace line sets xend only while it is 0 (`if (xend == 0)`) or
   every time, whether every other line resets it, the byte appended after a
   line, whether the final copy ("%.*s") stops at xend.  Any other body makes the
   translator raise.

   [trim_loop_with c] is the loop read with such constants, [gen_trim] the loop
   read with the constants of the present source.  [trim_with_std]: read with the
   constants the model was written for, it IS RLDefs.trim - so every theorem
   about [trim] (C13_trim) is a theorem about [gen_trim] as long as the generated
   constants are the standard ones ([tie_trim_if]; Properties_C13.C13_tie_trim
   closes the premise by computation, and is the only thing that fails for a
   variant).  [trim_variants_differ]: each boolean matters - the other value
   gives a different function, with a two- to four-line witness. *)
From Robsd Require Import RegressLog.RLSpec.
From RobsdGen Require Import Gen_RegressLog.
Local Open Scope N_scope.

Record trim_cfg := mktrim {
  tc_xbeg : nat;          (* size_t xbeg = 1 *)
  tc_xend : nat;          (* size_t xend = 0 *)
  tc_skip_lead : bool;    (* if (xbeg != 0 && isxtrace(line)) continue; xbeg = 0; *)
  tc_set_once : bool;     (* if (xend == 0) xend = buffer_get_len(bf);   false: without the guard *)
  tc_reset : bool;        (* else { xend = 0; } *)
  tc_line_end : N;        (* buffer_putc(bf, '\n') *)
  tc_cut : bool;          (* "%.*s" with xend ? xend : buffer_get_len(bf)   false: always the whole buffer *)
}.

Fixpoint trim_loop_with (c : trim_cfg) (xbeg : bool) (xend : nat) (bf : bytes) (ls : list bytes) : bytes :=
  match ls with
  | [] => cstr (if tc_cut c && negb (Nat.eqb xend 0) then firstn xend bf else bf)
  | l :: ls' =>
      if tc_skip_lead c && xbeg && isxtrace l then trim_loop_with c true xend bf ls'
      else
        let xend1 := if isxtrace l
                     then (if tc_set_once c then (if Nat.eqb xend 0 then List.length bf else xend)
                           else List.length bf)
                     else (if tc_reset c then 0%nat else xend) in
        trim_loop_with c false xend1 (bf ++ l ++ [tc_line_end c]) ls'
  end.

Definition trim_with (c : trim_cfg) (file : bytes) : bytes :=
  trim_loop_with c (negb (Nat.eqb (tc_xbeg c) 0)) (tc_xend c) [] (clines file).

(* the constants the model of RLDefs.v was written for *)
Definition std_trim_cfg : trim_cfg := mktrim 1 0 true true true 10 true.

(* the constants read from regress-log.c on this run *)
Definition gen_trim_cfg : trim_cfg :=
  mktrim trim_xbeg_init trim_xend_init trim_skip_lead trim_xend_set_once trim_xend_reset
         trim_line_end trim_cut_at_xend.

Definition gen_trim : bytes -> bytes := trim_with gen_trim_cfg.

Lemma trim_loop_with_std ls : forall xbeg xend bf,
  trim_loop_with std_trim_cfg xbeg xend bf ls = trim_loop xbeg xend bf ls.
Proof.
  induction ls as [|l ls IH]; intros xbeg xend bf.
  - cbn [trim_loop_with trim_loop std_trim_cfg tc_cut andb].
    destruct (Nat.eqb xend 0); reflexivity.
  - cbn [trim_loop_with trim_loop std_trim_cfg tc_skip_lead tc_set_once tc_reset tc_line_end andb].
    destruct (xbeg && isxtrace l); apply IH.
Qed.

Theorem trim_with_std file : trim_with std_trim_cfg file = trim file.
Proof. unfold trim_with, trim. apply trim_loop_with_std. Qed.

(* the tie: with the standard constants generated, the model is the source's loop *)
Theorem tie_trim_if : gen_trim_cfg = std_trim_cfg -> forall file, trim file = gen_trim file.
Proof. intros H file. unfold gen_trim. rewrite H. symmetry. apply trim_with_std. Qed.

(* no constant is decorative: flipping any one boolean changes the function *)
Definition w_two_trailing : bytes := [97; 10; 43; 120; 10; 43; 121; 10].          (* "a\n+x\n+y\n" *)
Definition w_lead : bytes := [43; 116; 10; 97; 10].                                 (* "+t\na\n" *)
Definition w_middle : bytes := [97; 10; 43; 120; 10; 98; 10].                       (* "a\n+x\nb\n" *)
Definition w_trailing : bytes := [97; 10; 43; 120; 10].                             (* "a\n+x\n" *)

Theorem trim_variants_differ :
  (* `if (xend == 0)` dropped: a trailing run of two trace lines keeps its first line *)
  trim_with (mktrim 1 0 true false true 10 true) w_two_trailing <> trim w_two_trailing /\
  (* the leading skip dropped *)
  trim_with (mktrim 1 0 false true true 10 true) w_lead <> trim w_lead /\
  trim_with (mktrim 0 0 true true true 10 true) w_lead <> trim w_lead /\
  (* the reset dropped: everything from the first trace line in the middle is lost *)
  trim_with (mktrim 1 0 true true false 10 true) w_middle <> trim w_middle /\
  (* the cut dropped *)
  trim_with (mktrim 1 0 true true true 10 false) w_trailing <> trim w_trailing.
Proof. repeat split; vm_compute; discriminate. Qed.
