(* RLSpec.v - specification of the regress log extractor, written as a
   comprehension over the log's lines, not as a loop:
     - drop the leading shell-trace block;
     - cut the remaining lines after every selected line (a trailing remainder
       without a selected line is dropped);
     - from every piece keep the lines from its last test marker on;
     - print the pieces separated by one empty line.
   Plus the boolean oracle applied to what the implementation printed. *)
From Robsd Require Export RegressLog.RLDefs.
Local Open Scope N_scope.

Fixpoint drop_trace (ls : list bytes) : list bytes :=
  match ls with
  | l :: ls' => if isxtrace l then drop_trace ls' else ls
  | [] => []
  end.

Fixpoint chunks (sel : bytes -> bool) (cur : list bytes) (ls : list bytes)
  : list (list bytes) :=
  match ls with
  | [] => []
  | l :: ls' => if sel l then (cur ++ [l]) :: chunks sel [] ls'
                else chunks sel (cur ++ [l]) ls'
  end.

Fixpoint from_last_marker (c : list bytes) : list bytes :=
  match c with
  | [] => []
  | l :: c' => if existsb ismarker c' then from_last_marker c' else l :: c'
  end.

Definition blocks_of_lines (fl : flags) (ls : list bytes) : list (list bytes) :=
  map from_last_marker (chunks (selected fl) [] (drop_trace ls)).

Definition file_blocks (fl : flags) (file : bytes) : list (list bytes) :=
  blocks_of_lines fl (clines file).

(* blocks numbered from n; block 0 has no separator unless NEWLINE is set *)
Fixpoint render_from (nl : bool) (n : nat) (bl : list (list bytes)) : bytes :=
  match bl with
  | [] => []
  | b :: bl' => (if Nat.eqb n 0 && negb nl then [] else [10]) ++ unlines b
                ++ render_from nl (S n) bl'
  end.

Fixpoint join_nl (parts : list bytes) : bytes :=
  match parts with
  | [] => []
  | [p] => p
  | p :: ps => p ++ 10 :: join_nl ps
  end.

Fixpoint all_some {A} (l : list (option A)) : option (list A) :=
  match l with
  | [] => Some []
  | None :: _ => None
  | Some x :: l' => match all_some l' with Some r => Some (x :: r) | None => None end
  end.

Definition nonempty {A} (l : list A) : bool := match l with [] => false | _ => true end.

(* the command: exit status and standard output *)
Definition spec_main (fl : flags) (doprint : bool) (files : list (option bytes))
  : N * bytes :=
  match all_some files with
  | None => (2, [])
  | Some fs =>
      let per_file := filter nonempty (map (file_blocks fl) fs) in
      match per_file with
      | [] => (1, [])
      | _ => (0, if doprint then join_nl (map (render_from false 0) per_file) else [])
      end
  end.

Definition spec_ok_main (fl : flags) (doprint : bool) (files : list (option bytes))
    (exit : N) (out : bytes) : bool :=
  let '(e, o) := spec_main fl doprint files in (e =? exit) && beq o out.

Definition spec_ok_peek (fl : flags) (file : bytes) (k : nat) : bool :=
  Bool.eqb (Nat.ltb 0 k) (existsb (selected fl) (drop_trace (clines file))).
