(* RLOrchBridge.v - from step_exec's return value (RLCallDefs.step_exec_exit) to
   the exit field the orchestrator records in the step file.

   What the orchestrator models have.  Orch/ResumeDefs.v [orch] (the sequential
   loop of robsd()) takes each configured step as (id, name, e) and
   Orch/OrchDefs.v [job_step] (step_exec_job under any schedule) takes a section
   variable [exit_of : Z -> Z]: in both, the status a step's command gives is a
   FREE PARAMETER per step, and what is recorded is that parameter
   (upsert (mkrow i name e 0)) - util.sh step_exec_job:
       step_exec -l "${_builddir}/${_log}" -s "${_name}" || _exit="$?"
       step_write ... -e "${_exit}" ...
       robsd_hook -v "step-exit=${_exit}" ...
   (these lines are pinned as text by harness/t_shell.py and, for this bridge, by
   harness/t_regresslog.py).

   So the bridge is an INSTANTIATION, and this file says exactly that: put
   [regress_exit_of] - step_exec's return value for a runner status rc_of i and a
   complete log log_of i, in regress mode - in the place of the free parameter;
   then the row the models record for step i carries
       step_exec_exit true (rc_of i) (Some (log_of i))
   and, through RLCallers.v, recorded exit <> 0 iff the runner failed or the log
   has a failing line after its leading trace block; a failing line gives
   exactly 1; and the HTML status computed from that recorded value and the same
   log is a failure status.  Only the definitions files of the Orch area are
   imported (OrchDefs exports ResumeDefs), READ-ONLY. *)
From Robsd Require Import RegressLog.RLSpec RegressLog.RLProofs RegressLog.RLCallDefs RegressLog.RLCallers.
From Robsd Require Import Orch.OrchDefs.
Local Open Scope Z_scope.

Section Bridge.
  Variable rc_of : Z -> N.          (* the status robsd-exec gives for step i *)
  Variable log_of : Z -> bytes.     (* the complete log of step i, as tee leaves it *)
  Variable name_of : Z -> bytes.

  (* what step_exec returns for step i in mode robsd-regress *)
  Definition regress_exit_of (i : Z) : Z :=
    Z.of_N (step_exec_exit true (rc_of i) (Some (log_of i))).

  (* the "Hence" clause on that value *)
  Lemma regress_exit_of_spec i :
    (regress_exit_of i <> 0 <-> rc_of i <> 0%N \/ failing_line (log_of i)) /\
    (failing_line (log_of i) -> regress_exit_of i = 1) /\
    (~ failing_line (log_of i) -> regress_exit_of i = Z.of_N (rc_of i)).
  Proof.
    unfold regress_exit_of.
    destruct (step_exec_exit_spec true (rc_of i) (log_of i)) as [H1 [H2 [_ H4]]].
    split; [|split].
    - split.
      + intros H. assert (Hn : step_exec_exit true (rc_of i) (Some (log_of i)) <> 0%N).
        { intros E. rewrite E in H. now apply H. }
        apply H1 in Hn. destruct Hn as [Hn|[_ Hn]]; auto.
      + intros H. assert (Hn : step_exec_exit true (rc_of i) (Some (log_of i)) <> 0%N).
        { apply H1. destruct H as [H|H]; auto. }
        intros E. apply Hn. now apply N2Z.inj.
    - intros H. now rewrite (H2 eq_refl H).
    - intros H. now rewrite (H4 H).
  Qed.

  (* upsert puts the row into the file *)
  Lemma upsert_In r f : In r (upsert r f).
  Proof.
    induction f as [|x f IH]; [now left|]. cbn [upsert].
    destruct (r_id r =? r_id x); [now left|]. destruct (r_id r <? r_id x); [now left|now right].
  Qed.

  (* ---- step_exec_job under any schedule (OrchDefs.job_step) ------------------------------- *)

  (* the second record of step_exec_job: whenever job i finishes, the step file
     gets the row (i, name, regress_exit_of i, skip 0) and the hook is handed the
     same status *)
  Theorem job_records_step_exec_exit s i :
    phase_of (running s) i = Some JRunning ->
    exists s', job_step regress_exit_of name_of s i = Some s' /\
      sfile_ s' = upsert (mkrow i (name_of i) (regress_exit_of i) 0) (sfile_ s) /\
      In (mkrow i (name_of i) (regress_exit_of i) 0) (sfile_ s') /\
      evlog s' = evlog s ++ [EFinish i (regress_exit_of i); EHook (name_of i) (regress_exit_of i)].
  Proof.
    intros Hp. unfold job_step. rewrite Hp. eexists. split; [reflexivity|].
    cbn [sfile_ evlog]. split; [reflexivity|]. split; [apply upsert_In|reflexivity].
  Qed.

  (* and nothing else of job_step writes a status other than the in-flight -1 *)
  Theorem job_step_rows s i s' :
    job_step regress_exit_of name_of s i = Some s' ->
    sfile_ s' = upsert (mkrow i (name_of i) (-1) 0) (sfile_ s) \/
    sfile_ s' = upsert (mkrow i (name_of i) (regress_exit_of i) 0) (sfile_ s).
  Proof.
    unfold job_step. destruct (phase_of (running s) i) as [[|]|]; [| |discriminate];
      intros H; injection H as <-; cbn [sfile_]; auto.
  Qed.

  (* ---- the sequential loop (ResumeDefs.orch) ------------------------------------------------ *)

  (* a configured regress step: its status is step_exec's *)
  Definition regress_cstep (i : Z) : cstep := (i, name_of i, regress_exit_of i).

  Theorem orch_records_step_exec_exit i rest f :
    skipped f (name_of i) = false -> beq (name_of i) END = false ->
    exists f1 tail,
      f1 = upsert (mkrow i (name_of i) (-1) 0) f /\
      orch (regress_cstep i :: rest) f =
        (f1, []) :: (upsert (mkrow i (name_of i) (regress_exit_of i) 0) f1, [i]) :: tail /\
      (* the loop goes on to the next step iff that status is 0 *)
      (regress_exit_of i <> 0 -> tail = []).
  Proof.
    intros Hs He. unfold regress_cstep. cbn [orch]. rewrite Hs, He.
    eexists. eexists. split; [reflexivity|]. split; [reflexivity|].
    intros Hn. destruct (Z.eqb_spec (regress_exit_of i) 0); [contradiction|reflexivity].
  Qed.

  (* ---- through to the HTML status ------------------------------------------------------------ *)

  (* regress-html reads the exit field back (a non-negative number here) and
     decides from it and from the same log *)
  Theorem recorded_exit_html timeout i :
    failing_line (log_of i) ->
    hfailure (html_status timeout (Z.to_N (regress_exit_of i)) (log_of i)) = true.
  Proof.
    intros H. unfold regress_exit_of. rewrite N2Z.id. now apply hence_html_composed.
  Qed.

  Theorem recorded_exit_html_iff timeout i :
    timeout <> 0%N ->
    (hfailure (html_status timeout (Z.to_N (regress_exit_of i)) (log_of i)) = true <->
     rc_of i <> 0%N \/ failing_line (log_of i)).
  Proof.
    intros Ht. unfold regress_exit_of. rewrite N2Z.id.
    destruct (step_exec_exit_spec true (rc_of i) (log_of i)) as [H1 _].
    split.
    - intros H. destruct (N.eq_dec (step_exec_exit true (rc_of i) (Some (log_of i))) 0) as [E|E].
      + rewrite E, html_exit0_never_failure in H by exact Ht. discriminate.
      + apply H1 in E. destruct E as [E|[_ E]]; auto.
    - intros H. apply html_nonzero_is_failure. apply H1. destruct H; auto.
  Qed.
End Bridge.
