(* RLLines.v - line-level soundness and completeness of the extractor for ANY
   list of files, against a specification that is a RELATION on lines
   ([Blocks]) and not the functions of RLSpec.v:

     the lines after the leading trace block are cut into
        skipped ++ kept ++ [l]   skipped ++ kept ++ [l]  ...  rest
     where l is a selected line, nothing else in the piece is selected, the
     block kept ++ [l] holds no marker except possibly as its first line, and
     lines are skipped only in front of a block that starts with a marker;
     [rest] holds no selected line.

   [Blocks] has exactly one solution ([blocks_iff]) and the command prints the
   blocks of all files, in order, with one empty line between consecutive
   blocks ([main_lines]).  The occurrence-exact corollaries - the printed lines
   are a subsequence of the log lines, the selected lines printed are exactly
   the selected lines after the trace blocks with their multiplicity and order -
   follow from the relation alone. *)
From Robsd Require Import RegressLog.RLSpec RegressLog.RLProofs.
Local Open Scope N_scope.

Inductive Blocks (sel : bytes -> bool) : list bytes -> list (list bytes) -> Prop :=
| Blocks_end rest : existsb sel rest = false -> Blocks sel rest []
| Blocks_cons skipped kept l rest bl :
    existsb sel (skipped ++ kept) = false -> sel l = true ->
    (skipped <> [] -> exists m t, kept ++ [l] = m :: t /\ ismarker m = true) ->
    existsb ismarker (tl (kept ++ [l])) = false ->
    Blocks sel rest bl ->
    Blocks sel (skipped ++ kept ++ l :: rest) ((kept ++ [l]) :: bl).

(* ---- the relation determines the blocks ------------------------------------------ *)

Lemma chunks_first sel cur pre l rest :
  existsb sel pre = false -> sel l = true ->
  chunks sel cur (pre ++ l :: rest) = (cur ++ pre ++ [l]) :: chunks sel [] rest.
Proof.
  revert cur; induction pre as [|p pre IH]; intros cur Hp Hl.
  - cbn [app chunks]. now rewrite Hl.
  - cbn [existsb] in Hp. apply orb_false_iff in Hp. destruct Hp as [Hp1 Hp2].
    cbn [app chunks]. rewrite Hp1, IH by assumption. now rewrite <- app_assoc.
Qed.

Lemma from_last_marker_keep b : existsb ismarker (tl b) = false -> from_last_marker b = b.
Proof. destruct b as [|m t]; [reflexivity|]. cbn [tl from_last_marker]. now intros ->. Qed.

Lemma from_last_marker_skip sk m t :
  ismarker m = true -> existsb ismarker t = false -> from_last_marker (sk ++ m :: t) = m :: t.
Proof.
  intros Hm Ht. induction sk as [|s sk IH].
  - cbn [app from_last_marker]. now rewrite Ht.
  - cbn [app from_last_marker]. rewrite existsb_app. cbn [existsb]. rewrite Hm, orb_true_r.
    exact IH.
Qed.

Lemma blocks_sound sel L bl : Blocks sel L bl -> bl = map from_last_marker (chunks sel [] L).
Proof.
  induction 1 as [rest Hr|skipped kept l rest bl Hpre Hl Hsk Hnm _ IH].
  - apply (chunks_nil_iff sel []) in Hr. now rewrite Hr.
  - replace (skipped ++ kept ++ l :: rest) with ((skipped ++ kept) ++ l :: rest)
      by now rewrite <- app_assoc.
    rewrite chunks_first by assumption. cbn [app map]. f_equal; [|exact IH].
    rewrite <- app_assoc. destruct skipped as [|s sk].
    + cbn [app]. symmetry. now apply from_last_marker_keep.
    + destruct Hsk as [m [t [E Hm]]]; [discriminate|]. rewrite E in *. cbn [tl] in Hnm.
      symmetry. now apply from_last_marker_skip.
Qed.

(* the first selected line of a list *)
Lemma first_selected (sel : bytes -> bool) L :
  existsb sel L = false \/
  exists pre l rest, L = pre ++ l :: rest /\ existsb sel pre = false /\ sel l = true.
Proof.
  induction L as [|x L IH]; [now left|]. cbn [existsb].
  destruct (sel x) eqn:Hx.
  - right. exists [], x, L. repeat split; auto.
  - destruct IH as [H|[pre [l [rest [-> [Hp Hl]]]]]]; [now left|].
    right. exists (x :: pre), l, rest. repeat split; auto. cbn [existsb]. now rewrite Hx.
Qed.

(* a chunk split at its last marker *)
Lemma chunk_split pre l :
  exists skipped kept, pre = skipped ++ kept /\
    from_last_marker (pre ++ [l]) = kept ++ [l] /\
    (skipped <> [] -> exists m t, kept ++ [l] = m :: t /\ ismarker m = true) /\
    existsb ismarker (tl (kept ++ [l])) = false.
Proof.
  destruct (from_last_marker_suffix (pre ++ [l])) as [sk [H1 [H2 H3]]].
  assert (Hk : exists kept, from_last_marker (pre ++ [l]) = kept ++ [l]).
  { rewrite from_last_marker_snoc. destruct (ismarker l); [exists []; reflexivity|eauto]. }
  destruct Hk as [kept Hk]. rewrite Hk in *. exists sk, kept.
  rewrite app_assoc in H1. apply app_inj_tail in H1. destruct H1 as [H1 _].
  repeat split; auto.
Qed.

Lemma blocks_complete sel L : Blocks sel L (map from_last_marker (chunks sel [] L)).
Proof.
  remember (length L) as k eqn:Hk. revert L Hk.
  induction k as [k IHk] using lt_wf_ind. intros L Hk.
  destruct (first_selected sel L) as [H|[pre [l [rest [-> [Hp Hl]]]]]].
  - rewrite (proj2 (chunks_nil_iff sel [] L) H). now constructor.
  - rewrite chunks_first by assumption. cbn [app map].
    destruct (chunk_split pre l) as [sk [kept [Hpre [Hf [Hsk Hnm]]]]].
    rewrite Hf. subst pre. rewrite <- app_assoc. apply Blocks_cons; auto.
    apply (IHk (length rest)); [|reflexivity].
    subst k. rewrite !app_length. simpl. lia.
Qed.

Theorem blocks_iff sel L bl : Blocks sel L bl <-> bl = map from_last_marker (chunks sel [] L).
Proof. split; [apply blocks_sound|intros ->; apply blocks_complete]. Qed.

Corollary file_blocks_iff fl f bl :
  Blocks (selected fl) (drop_trace (clines f)) bl <-> bl = file_blocks fl f.
Proof. apply blocks_iff. Qed.

(* ---- consequences of the relation alone ---------------------------------------------- *)

(* soundness: the blocks, concatenated, are a subsequence of the lines: every
   printed occurrence is a distinct occurrence of the log, in the log's order *)
Lemma Blocks_sublist sel L bl : Blocks sel L bl -> sublist (concat bl) L.
Proof.
  induction 1 as [rest _|skipped kept l rest bl _ _ _ _ _ IH]; [apply sublist_nil_l|].
  cbn [concat].
  replace (skipped ++ kept ++ l :: rest) with (skipped ++ (kept ++ [l]) ++ rest)
    by now rewrite <- app_assoc.
  replace ((kept ++ [l]) ++ concat bl) with ([] ++ (kept ++ [l]) ++ concat bl) by reflexivity.
  apply sublist_app; [apply sublist_nil_l|]. apply sublist_app; [apply sublist_refl|exact IH].
Qed.

Lemma filter_none {A} (p : A -> bool) l : existsb p l = false -> filter p l = [].
Proof.
  induction l as [|x l IH]; [reflexivity|]. cbn [existsb filter]. intros H.
  apply orb_false_iff in H. destruct H as [H1 H2]. rewrite H1. now apply IH.
Qed.

(* completeness: one block per selected occurrence - the last lines of the
   blocks are exactly the selected lines, with multiplicity, in order ... *)
Lemma Blocks_last sel L bl : Blocks sel L bl -> map (fun b => last b []) bl = filter sel L.
Proof.
  induction 1 as [rest Hr|skipped kept l rest bl Hpre Hl _ _ _ IH].
  - now rewrite filter_none.
  - cbn [map]. rewrite last_last, IH.
    replace (skipped ++ kept ++ l :: rest) with ((skipped ++ kept) ++ l :: rest)
      by now rewrite <- app_assoc.
    rewrite filter_app, (filter_none sel (skipped ++ kept) Hpre). cbn [filter app]. now rewrite Hl.
Qed.

(* ... and no other line of a block is selected: what is printed holds every
   selected line exactly once *)
Lemma Blocks_selected sel L bl : Blocks sel L bl -> filter sel (concat bl) = filter sel L.
Proof.
  induction 1 as [rest Hr|skipped kept l rest bl Hpre Hl _ _ _ IH].
  - cbn [concat filter]. now rewrite (filter_none sel rest Hr).
  - cbn [concat]. rewrite !filter_app, IH.
    rewrite existsb_app in Hpre. apply orb_false_iff in Hpre. destruct Hpre as [Hs Hk].
    rewrite (filter_none sel skipped Hs), (filter_none sel kept Hk).
    cbn [filter app]. now rewrite Hl.
Qed.

(* the shape of each block, read off the relation *)
Lemma Blocks_shape sel L bl b :
  Blocks sel L bl -> In b bl ->
  exists kept l, b = kept ++ [l] /\ sel l = true /\ existsb sel kept = false /\
                 existsb ismarker (tl b) = false.
Proof.
  induction 1 as [rest _|skipped kept l rest bl Hpre Hl _ Hnm _ IH]; intros Hin; [destruct Hin|].
  destruct Hin as [<-|Hin]; [|auto].
  exists kept, l. rewrite existsb_app in Hpre. apply orb_false_iff in Hpre. tauto.
Qed.

(* what was left out in front of a block lies before that block's marker *)
Lemma Blocks_nil_iff sel L bl : Blocks sel L bl -> (bl = [] <-> existsb sel L = false).
Proof.
  intros H. apply blocks_sound in H. subst bl. rewrite <- (chunks_nil_iff sel []).
  destruct (chunks sel [] L); simpl; split; congruence.
Qed.

(* ---- the command, any list of files ------------------------------------------------------ *)

Lemma with_separators_app (a b : list (list bytes)) :
  a <> [] -> b <> [] ->
  with_separators (a ++ b) = with_separators a ++ [] :: with_separators b.
Proof.
  intros Ha Hb. induction a as [|x a IH]; [congruence|].
  destruct a as [|y a].
  - destruct b as [|b1 b]; [congruence|]. reflexivity.
  - change (with_separators ((x :: y :: a) ++ b)) with (x ++ [] :: with_separators ((y :: a) ++ b)).
    rewrite IH by discriminate.
    change (with_separators (x :: y :: a)) with (x ++ [] :: with_separators (y :: a)).
    now rewrite <- app_assoc.
Qed.

Lemma concat_filter_nonempty {A} (ll : list (list (list A))) :
  concat (filter nonempty ll) = concat ll.
Proof.
  induction ll as [|l ll IH]; [reflexivity|]. cbn [filter concat].
  destruct l; cbn [nonempty]; [exact IH|]. cbn [concat]. now rewrite IH.
Qed.

Lemma join_render (pf : list (list (list bytes))) :
  Forall (fun p => p <> []) pf ->
  join_nl (map (render_from false 0) pf) = unlines (with_separators (concat pf)).
Proof.
  induction 1 as [|p pf Hp Hpf IH]; [reflexivity|].
  destruct pf as [|q pf].
  - cbn [map join_nl concat]. rewrite app_nil_r.
    destruct p as [|b bl]; [congruence|]. apply render_zero.
  - change (join_nl (map (render_from false 0) (p :: q :: pf)))
      with (render_from false 0 p ++ 10 :: join_nl (map (render_from false 0) (q :: pf))).
    rewrite IH. change (concat (p :: q :: pf)) with (p ++ concat (q :: pf)).
    rewrite (with_separators_app p (concat (q :: pf))).
    + rewrite unlines_app. cbn [unlines app].
      destruct p as [|b bl]; [congruence|]. now rewrite render_zero.
    + exact Hp.
    + inversion Hpf as [|? ? Hq _]; subst. cbn [concat]. destruct q; [congruence|discriminate].
Qed.

Definition all_blocks (fl : flags) (fs : list bytes) : list (list bytes) :=
  concat (map (file_blocks fl) fs).

Lemma all_some_map_Some {A} (l : list A) : all_some (map Some l) = Some l.
Proof. induction l as [|x l IH]; [reflexivity|]. simpl. now rewrite IH. Qed.

Lemma main_output fl fs :
  fNEWLINE fl = false ->
  snd (main fl true (map Some fs)) = unlines (with_separators (all_blocks fl fs)).
Proof.
  intros Hnl. rewrite main_refines_spec by exact Hnl. unfold spec_main, all_blocks.
  rewrite all_some_map_Some.
  rewrite <- (concat_filter_nonempty (map (file_blocks fl) fs)).
  assert (HF : Forall (fun p : list (list bytes) => p <> [])
                 (filter nonempty (map (file_blocks fl) fs))).
  { apply Forall_forall. intros p Hin. apply filter_In in Hin. destruct Hin as [_ Hne].
    destruct p; [discriminate|discriminate]. }
  pose proof (join_render _ HF) as HJ.
  destruct (filter nonempty (map (file_blocks fl) fs)) as [|p ps]; [reflexivity|].
  cbn [snd]. exact HJ.
Qed.

Lemma all_blocks_lines_nonl fl fs : Forall nonl (concat (all_blocks fl fs)).
Proof.
  unfold all_blocks. induction fs as [|f fs IH]; [constructor|].
  cbn [map concat]. rewrite concat_app. apply Forall_app. split; [|exact IH].
  eapply sublist_Forall; [apply blocks_sublist|apply clines_nonl].
Qed.

Lemma main_exit_blocks fl dp fs :
  fNEWLINE fl = false ->
  (fst (main fl dp (map Some fs)) = 0 <-> all_blocks fl fs <> []) /\
  (fst (main fl dp (map Some fs)) = 1 <-> all_blocks fl fs = []).
Proof.
  intros Hnl. rewrite exit_status by exact Hnl. rewrite all_some_map_Some.
  assert (H : existsb (fun f => nonempty (file_blocks fl f)) fs = false <-> all_blocks fl fs = []).
  { unfold all_blocks. induction fs as [|f fs IH]; [split; reflexivity|].
    cbn [existsb map concat]. destruct (file_blocks fl f) as [|b bl]; cbn [nonempty orb app].
    - exact IH.
    - split; discriminate. }
  destruct (existsb _ fs).
  - assert (Hne : all_blocks fl fs <> []) by (intros E; apply H in E; discriminate).
    repeat split; auto; try discriminate. intros E. contradiction.
  - assert (He : all_blocks fl fs = []) by (now apply H).
    repeat split; auto; try discriminate. intros E. contradiction.
Qed.

(* The statement for any list of readable files.  [bls] are the blocks of each
   file as the RELATION gives them; the command prints their lines, file after
   file, block after block, one empty line between consecutive blocks, and its
   exit status says whether there is a block at all. *)
Theorem main_lines fl fs :
  fNEWLINE fl = false ->
  exists bls : list (list (list bytes)),
    Forall2 (fun f bl => Blocks (selected fl) (drop_trace (clines f)) bl) fs bls /\
    getlines (snd (main fl true (map Some fs))) = with_separators (concat bls) /\
    snd (main fl true (map Some fs)) = unlines (with_separators (concat bls)) /\
    (forall dp, fst (main fl dp (map Some fs)) = 0 <-> concat bls <> []) /\
    (forall dp, fst (main fl dp (map Some fs)) = 1 <-> concat bls = []).
Proof.
  intros Hnl. exists (map (file_blocks fl) fs).
  split; [|split; [|split; [|split]]].
  - induction fs as [|f fs IH]; constructor; [apply file_blocks_iff; reflexivity|exact IH].
  - rewrite main_output by exact Hnl. apply getlines_unlines.
    apply with_separators_nonl. apply all_blocks_lines_nonl.
  - apply main_output. exact Hnl.
  - intros dp. apply (main_exit_blocks fl dp fs Hnl).
  - intros dp. apply (main_exit_blocks fl dp fs Hnl).
Qed.

(* and what follows for ANY blocks satisfying the relation: soundness (a
   subsequence of all log lines: order kept, no line duplicated or invented) and
   completeness (the selected lines after the trace blocks are printed, each
   exactly once, each as the last line of its own block) *)
Theorem lines_sound_complete (sel : bytes -> bool) (Ls : list (list bytes)) bls :
  Forall2 (Blocks sel) Ls bls ->
  sublist (concat (concat bls)) (concat Ls) /\
  filter sel (concat (concat bls)) = concat (map (filter sel) Ls) /\
  map (fun b => last b []) (concat bls) = concat (map (filter sel) Ls).
Proof.
  induction 1 as [|L bl Ls bls HB _ IH]; [repeat split; constructor|].
  destruct IH as [I1 [I2 I3]]. cbn [concat map]. rewrite concat_app, filter_app, map_app.
  split; [|split].
  - apply sublist_app; [now apply (Blocks_sublist sel)|exact I1].
  - now rewrite I2, (Blocks_selected _ _ _ HB).
  - now rewrite I3, (Blocks_last _ _ _ HB).
Qed.

Lemma drop_trace_files_sublist (fs : list bytes) :
  sublist (concat (map (fun f => drop_trace (clines f)) fs)) (concat (map clines fs)).
Proof.
  induction fs as [|f fs IH]; [constructor|]. cbn [map concat].
  apply sublist_app; [apply drop_trace_sublist|exact IH].
Qed.
