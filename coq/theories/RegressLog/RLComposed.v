(* RLComposed.v - the "Hence" clause from the runner to the two views, in one
   statement: the step file row that the orchestrator model writes when a
   regress step finishes (OrchDefs.job_step, instantiated by RLOrchBridge.v)
   carries step_exec's return value; that value is non-zero iff the runner
   failed or the log has a failing line after its leading trace block;
   regress-html computes a failure status from that row and that log iff the
   same condition holds; and robsd-report, given a row with that exit field and
   that log, counts it as a failure and prints a section with the extracted
   blocks.  Orch is imported without Import (its srow / r_exit / mode would
   shadow the report's). *)
From Robsd Require Import RegressLog.RLSpec RegressLog.RLProofs RegressLog.RLCallDefs RegressLog.RLCallers
  RegressLog.RLOrchBridge RegressLog.RLReportCaller.
From Robsd Require Import Report.ReportDefs.
From Robsd Require Orch.OrchDefs.
Local Open Scope N_scope.

Theorem hence_recorded (rc_of : Z -> N) (log_of name_of : Z -> bytes) (s : OrchDefs.ostate) (i : Z) :
  OrchDefs.phase_of (OrchDefs.running s) i = Some OrchDefs.JRunning ->
  exists s' e,
    OrchDefs.job_step (regress_exit_of rc_of log_of) name_of s i = Some s' /\
    In (ResumeDefs.mkrow i (name_of i) e 0) (OrchDefs.sfile_ s') /\
    e = Z.of_N (step_exec_exit true (rc_of i) (Some (log_of i))) /\
    (e <> 0%Z <-> rc_of i <> 0 \/ failing_line (log_of i)) /\
    (forall timeout, timeout <> 0 ->
       (hfailure (html_status timeout (Z.to_N e) (log_of i)) = true <->
        rc_of i <> 0 \/ failing_line (log_of i))) /\
    (failing_line (log_of i) ->
     forall cfg fs r rs,
       r_exit r = e -> row_skipped (r_skip r) = false -> r_log r <> [] ->
       f_log fs (r_log r) = FData (log_of i) ->
       let bl := file_blocks (fl_log (is_regress_quiet cfg (r_name r))) (log_of i) in
       bl <> [] /\
       steps_loop Regress cfg fs (r :: rs) =
         match steps_loop Regress cfg fs rs with
         | RErr => RErr
         | ROk ss => ROk (mksec (r_name r) 1 (step_duration r) (r_log r) (10 :: render_from false 0 bl) :: ss)
         end /\
       (forall rows, let n := length (filter (fun x => negb (r_exit x =? 0)%Z) rows) in
          count_status (r :: rows) =
            render_Z (Z.of_nat (S n)) ++ str_failure ++ (if Nat.ltb 1 (S n) then [115] else []))).
Proof.
  intros Hp.
  destruct (job_records_step_exec_exit rc_of log_of name_of s i Hp) as [s' [H1 [_ [H3 _]]]].
  exists s', (regress_exit_of rc_of log_of i).
  split; [exact H1|]. split; [exact H3|]. split; [reflexivity|].
  split; [apply (proj1 (regress_exit_of_spec rc_of log_of i))|].
  split; [intros timeout Ht; now apply recorded_exit_html_iff|].
  intros Hf cfg fs r rs He Hs Hl Hlog.
  exact (report_after_step_exec cfg fs r rs (rc_of i) (log_of i) Hf He Hs Hl Hlog).
Qed.
