(* RLExit.v - the exit-status clause of C13 with every notion spelled out on the
   bytes of the log (no model function in the right-hand side), and the proof
   that the executable oracles of RLSpec.v accept every run of the model. *)
From Robsd Require Import RegressLog.RLSpec RegressLog.RLProofs RegressLog.RLMarkers.
Local Open Scope N_scope.

Definition contains (k l : bytes) : Prop := exists a b, l = a ++ k ++ b.
Definition trace_line (l : bytes) : Prop := exists t, l = 43 :: t.

(* [rest] is what remains of the lines [ls] after the leading block of trace lines *)
Definition after_trace (ls rest : list bytes) : Prop :=
  exists tr, ls = tr ++ rest /\ Forall trace_line tr /\
             match rest with r :: _ => ~ trace_line r | [] => True end.

(* the line holds a keyword of a selected outcome *)
Definition keyword_selected (fl : flags) (l : bytes) : Prop :=
  (fSKIPPED fl = true /\ (contains kw_SKIPPED l \/ contains kw_DISABLED l)) \/
  (fFAILED fl = true /\ contains kw_FAILED l) \/
  (fXFAILED fl = true /\ contains kw_XFAIL l) \/
  (fXPASSED fl = true /\ contains kw_XPASS l).

Lemma selected_keyword_iff fl l : selected fl l = true <-> keyword_selected fl l.
Proof.
  unfold selected, keyword_selected, contains.
  destruct (keywords_spec l) as [HF [HP [HX HS]]].
  rewrite !orb_true_iff, !andb_true_iff, HF, HP, HX, HS. tauto.
Qed.

Lemma after_trace_iff ls rest : after_trace ls rest <-> rest = drop_trace ls.
Proof.
  split.
  - intros [tr [H1 [H2 H3]]]. apply (drop_trace_unique ls tr rest H1).
    + eapply Forall_impl; [|exact H2]. intros l. apply isxtrace_spec.
    + destruct rest as [|r rest]; [exact I|]. cbn [untraced_head].
      destruct (isxtrace r) eqn:E; [|reflexivity]. apply isxtrace_spec in E. contradiction.
  - intros ->. destruct (drop_trace_spec ls) as [tr [H1 [H2 H3]]]. exists tr.
    split; [exact H1|]. split.
    + eapply Forall_impl; [|exact H2]. intros l. apply isxtrace_spec.
    + destruct (drop_trace ls) as [|r rest]; [exact I|]. cbn [untraced_head] in H3.
      intros Ht. apply isxtrace_spec in Ht. congruence.
Qed.

Definition some_line_matches (fl : flags) (fs : list bytes) : Prop :=
  exists f rest l, In f fs /\ after_trace (clines f) rest /\ In l rest /\ keyword_selected fl l.

(* exit 0 iff some line after the leading trace block of some file contains a
   keyword of a selected outcome; 1 iff none does *)
Theorem exit_spelled_out fl dp fs :
  fNEWLINE fl = false ->
  (fst (main fl dp (map Some fs)) = 0 <-> some_line_matches fl fs) /\
  (fst (main fl dp (map Some fs)) = 1 <-> ~ some_line_matches fl fs).
Proof.
  intros Hnl. destruct (exit_zero_iff fl dp fs Hnl) as [H0 H1].
  assert (E : (exists f, In f fs /\ has_match fl f) <-> some_line_matches fl fs).
  { unfold has_match, some_line_matches. split.
    - intros [f [Hin [l [Hl Hs]]]]. exists f, (drop_trace (clines f)), l.
      repeat split; auto; [now apply after_trace_iff|now apply selected_keyword_iff].
    - intros [f [rest [l [Hin [Ha [Hl Hk]]]]]]. apply after_trace_iff in Ha. subst rest.
      exists f. split; [exact Hin|]. exists l. split; [exact Hl|now apply selected_keyword_iff]. }
  rewrite H0, H1, E. tauto.
Qed.

(* ---- the oracles accept the model -------------------------------------------------------- *)

Theorem oracle_accepts_main fl dp files :
  fNEWLINE fl = false ->
  spec_ok_main fl dp files (fst (main fl dp files)) (snd (main fl dp files)) = true.
Proof.
  intros Hnl. unfold spec_ok_main. rewrite <- main_refines_spec by exact Hnl.
  destruct (main fl dp files) as [e o]. cbn [fst snd]. now rewrite N.eqb_refl, beq_refl.
Qed.

Theorem oracle_accepts_peek fl f : spec_ok_peek fl f (peek fl f) = true.
Proof.
  unfold spec_ok_peek. rewrite peek_spec.
  destruct (existsb (selected fl) (drop_trace (clines f))); reflexivity.
Qed.

(* and it accepts nothing else: the oracle is exact *)
Theorem oracle_main_exact fl dp files e o :
  fNEWLINE fl = false ->
  (spec_ok_main fl dp files e o = true <-> main fl dp files = (e, o)).
Proof.
  intros Hnl. unfold spec_ok_main. rewrite main_refines_spec by exact Hnl.
  destruct (spec_main fl dp files) as [e' o'].
  rewrite andb_true_iff, N.eqb_eq, beq_eq. split; [intros [-> ->]; reflexivity|].
  intros H. injection H as -> ->. auto.
Qed.
