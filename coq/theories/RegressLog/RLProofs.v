(* RLProofs.v - the model of regress-log.c refines RLSpec. *)
From Robsd Require Import RegressLog.RLSpec.
Local Open Scope N_scope.

Lemma unlines_app a b : unlines (a ++ b) = unlines a ++ unlines b.
Proof. induction a as [|x a IH]; simpl; [reflexivity|]. now rewrite IH, <- app_assoc. Qed.

Lemma unlines_snoc a l : unlines (a ++ [l]) = unlines a ++ l ++ [10].
Proof. rewrite unlines_app. reflexivity. Qed.

Lemma from_last_marker_snoc c l :
  from_last_marker (c ++ [l]) = if ismarker l then [l] else from_last_marker c ++ [l].
Proof.
  induction c as [|x c IH]; simpl.
  - destruct (ismarker l); reflexivity.
  - rewrite existsb_app. simpl. rewrite orb_false_r.
    destruct (ismarker l) eqn:Hm.
    + rewrite orb_true_r. exact IH.
    + rewrite orb_false_r. destruct (existsb ismarker c); [exact IH|reflexivity].
Qed.

Lemma parse_loop_drop_trace fl pk s o n ls :
  parse_loop fl pk true s o n ls = parse_loop fl pk false s o n (drop_trace ls).
Proof.
  induction ls as [|l ls IH]; [reflexivity|].
  cbn [parse_loop drop_trace].
  destruct (isxtrace l) eqn:Hx; cbn [andb].
  - exact IH.
  - cbn [parse_loop]. cbn [andb]. reflexivity.
Qed.

(* main invariant: scratch holds the pending chunk from its last marker on *)
Lemma parse_loop_spec fl cur out n ls :
  parse_loop fl false false (unlines (from_last_marker cur)) out n ls =
  ((n + length (chunks (selected fl) cur ls))%nat,
   out ++ render_from (fNEWLINE fl) n (map from_last_marker (chunks (selected fl) cur ls))).
Proof.
  revert cur out n; induction ls as [|l ls IH]; intros cur out n.
  - cbn. now rewrite Nat.add_0_r, app_nil_r.
  - cbn [parse_loop chunks andb].
    assert (Hs : (if ismarker l then [] else unlines (from_last_marker cur)) ++ l ++ [10]
                 = unlines (from_last_marker (cur ++ [l]))).
    { rewrite from_last_marker_snoc. destruct (ismarker l); [reflexivity|].
      now rewrite unlines_snoc. }
    rewrite Hs. destruct (selected fl l).
    + change (@nil N) with (unlines (from_last_marker [])) at 1.
      rewrite IH. cbn [map length render_from].
      f_equal; [lia|]. destruct (Nat.eqb n 0 && negb (fNEWLINE fl)); rewrite <- ?app_assoc; reflexivity.
    + apply IH.
Qed.

Lemma parse_spec fl file out :
  parse fl file out =
  (length (file_blocks fl file), out ++ render_from (fNEWLINE fl) 0 (file_blocks fl file)).
Proof.
  unfold parse, file_blocks, blocks_of_lines. rewrite parse_loop_drop_trace.
  change (@nil N) with (unlines (from_last_marker [])) at 1.
  rewrite parse_loop_spec. now rewrite map_length.
Qed.

(* peek: stops at the first selected line *)
Lemma peek_loop_spec fl s o n ls :
  fst (parse_loop fl true false s o n ls) =
  if existsb (selected fl) ls then S n else n.
Proof.
  revert s; induction ls as [|l ls IH]; intros s; [reflexivity|].
  cbn [parse_loop existsb andb]. destruct (selected fl l); [reflexivity|]. apply IH.
Qed.

Lemma peek_spec fl file :
  peek fl file = if existsb (selected fl) (drop_trace (clines file)) then 1%nat else 0%nat.
Proof. unfold peek. rewrite parse_loop_drop_trace. apply peek_loop_spec. Qed.

Lemma chunks_nil_iff sel cur ls : chunks sel cur ls = [] <-> existsb sel ls = false.
Proof.
  revert cur; induction ls as [|l ls IH]; intros cur; simpl; [tauto|].
  destruct (sel l); simpl; [split; discriminate|apply IH].
Qed.

Lemma file_blocks_nil_iff fl file :
  file_blocks fl file = [] <-> existsb (selected fl) (drop_trace (clines file)) = false.
Proof.
  unfold file_blocks, blocks_of_lines. rewrite <- chunks_nil_iff with (cur := []).
  destruct (chunks _ _ _); simpl; split; congruence.
Qed.

(* ---- soundness: only log lines, in order -------------------------------- *)

Inductive sublist {A} : list A -> list A -> Prop :=
| sub_nil : sublist [] []
| sub_skip x l1 l2 : sublist l1 l2 -> sublist l1 (x :: l2)
| sub_take x l1 l2 : sublist l1 l2 -> sublist (x :: l1) (x :: l2).

Lemma sublist_refl {A} (l : list A) : sublist l l.
Proof. induction l; constructor; assumption. Qed.

Lemma sublist_nil_l {A} (l : list A) : sublist [] l.
Proof. induction l; constructor; assumption. Qed.

Lemma sublist_app {A} (a b c d : list A) : sublist a b -> sublist c d -> sublist (a ++ c) (b ++ d).
Proof.
  induction 1; simpl; intros Hcd; [exact Hcd|apply sub_skip; auto|apply sub_take; auto].
Qed.

Lemma sublist_trans {A} (a b c : list A) : sublist a b -> sublist b c -> sublist a c.
Proof.
  intros Hab Hbc; revert a Hab; induction Hbc; intros a Hab.
  - exact Hab.
  - apply sub_skip; auto.
  - inversion Hab; subst; [apply sub_skip|apply sub_take]; auto.
Qed.

Lemma from_last_marker_sublist c : sublist (from_last_marker c) c.
Proof.
  induction c as [|l c IH]; simpl; [constructor|].
  destruct (existsb ismarker c); [now apply sub_skip|apply sublist_refl].
Qed.

Lemma chunks_sublist sel cur ls : sublist (concat (chunks sel cur ls)) (cur ++ ls).
Proof.
  revert cur; induction ls as [|l ls IH]; intros cur; simpl.
  - apply sublist_nil_l.
  - destruct (sel l); simpl.
    + replace (cur ++ l :: ls) with ((cur ++ [l]) ++ ls) by now rewrite <- app_assoc.
      apply sublist_app; [apply sublist_refl|apply (IH [])].
    + replace (cur ++ l :: ls) with ((cur ++ [l]) ++ ls) by now rewrite <- app_assoc.
      apply IH.
Qed.

Lemma concat_map_sublist {A} (f : list A -> list A) (ll : list (list A)) :
  (forall l, sublist (f l) l) -> sublist (concat (map f ll)) (concat ll).
Proof. intros Hf; induction ll; simpl; [constructor|]. apply sublist_app; auto. Qed.

Lemma drop_trace_sublist ls : sublist (drop_trace ls) ls.
Proof.
  induction ls as [|l ls IH]; simpl; [constructor|].
  destruct (isxtrace l); [now apply sub_skip|apply sublist_refl].
Qed.

Lemma blocks_sublist fl ls : sublist (concat (blocks_of_lines fl ls)) ls.
Proof.
  unfold blocks_of_lines.
  eapply sublist_trans; [apply concat_map_sublist, from_last_marker_sublist|].
  eapply sublist_trans; [apply (chunks_sublist _ [])|]. apply drop_trace_sublist.
Qed.

(* ---- completeness: every selected line after the trace block ends a block,
        and the block reaches back to the last marker or the previous block ---- *)

(* the chunks partition the lines up to the last selected one *)
Lemma chunks_partition sel cur ls :
  existsb sel cur = false ->
  exists rest, cur ++ ls = concat (chunks sel cur ls) ++ rest /\ existsb sel rest = false.
Proof.
  revert cur; induction ls as [|l ls IH]; intros cur Hc.
  - simpl. exists cur. now rewrite app_nil_r.
  - simpl. destruct (sel l) eqn:Hl.
    + destruct (IH [] eq_refl) as [rest [H1 H2]]. exists rest. split; [|exact H2].
      simpl. simpl in H1. rewrite <- app_assoc, <- H1. now rewrite <- app_assoc.
    + destruct (IH (cur ++ [l])) as [rest [H1 H2]].
      { rewrite existsb_app. simpl. now rewrite Hc, Hl. }
      exists rest. split; [|exact H2]. rewrite <- H1. now rewrite <- app_assoc.
Qed.

(* every chunk is: unselected lines followed by exactly one selected line *)
Lemma chunks_shape sel cur ls c :
  existsb sel cur = false -> In c (chunks sel cur ls) ->
  exists pre l, c = pre ++ [l] /\ existsb sel pre = false /\ sel l = true.
Proof.
  revert cur; induction ls as [|l ls IH]; intros cur Hc Hin; [destruct Hin|].
  simpl in Hin. destruct (sel l) eqn:Hl.
  - destruct Hin as [<-|Hin]; [exists cur, l; auto|]. eapply (IH []); eauto.
  - eapply (IH (cur ++ [l])); eauto. rewrite existsb_app. simpl. now rewrite Hc, Hl.
Qed.

(* from_last_marker keeps a suffix, which starts at a marker unless it is the whole chunk,
   and contains no other marker *)
Lemma from_last_marker_suffix c :
  exists pre, c = pre ++ from_last_marker c /\
    (pre <> [] -> exists m t, from_last_marker c = m :: t /\ ismarker m = true) /\
    existsb ismarker (tl (from_last_marker c)) = false.
Proof.
  induction c as [|l c IH]; simpl.
  - exists []. repeat split; auto. intros H; now elim H.
  - destruct (existsb ismarker c) eqn:Hm.
    + destruct IH as [pre [H1 [H2 H3]]]. exists (l :: pre). split; [simpl; now rewrite <- H1|].
      split; [|exact H3]. intros _.
      destruct pre as [|p pre]; [|apply H2; discriminate].
      simpl in H1. destruct (from_last_marker c) as [|m t] eqn:E.
      * rewrite H1 in Hm. discriminate.
      * exists m, t. split; [reflexivity|]. rewrite H1 in Hm. simpl in Hm, H3.
        rewrite H3, orb_false_r in Hm. exact Hm.
    + exists []. repeat split; auto. intros H; now elim H.
Qed.

Lemma from_last_marker_last c l : from_last_marker (c ++ [l]) <> [] /\
  last (from_last_marker (c ++ [l])) l = l.
Proof.
  rewrite from_last_marker_snoc. destruct (ismarker l); simpl; [split; [discriminate|reflexivity]|].
  split; [destruct (from_last_marker c); discriminate|apply last_last].
Qed.

(* ---- the command ------------------------------------------------------- *)

Lemma nonul_app a b : nonul a -> nonul b -> nonul (a ++ b).
Proof. intros; apply Forall_app; split; assumption. Qed.

Lemma sublist_Forall {A} (P : A -> Prop) (a b : list A) : sublist a b -> Forall P b -> Forall P a.
Proof.
  induction 1; intros Hb; [constructor| |]; inversion Hb; subst; auto.
Qed.

Lemma nonul_unlines ls : Forall nonul ls -> nonul (unlines ls).
Proof.
  induction 1 as [|l ls Hl _ IH]; simpl; [constructor|].
  apply nonul_app; [exact Hl|]. constructor; [discriminate|exact IH].
Qed.

Lemma nonul_render nl n bl : Forall nonul (concat bl) -> nonul (render_from nl n bl).
Proof.
  revert n; induction bl as [|b bl IH]; intros n H; simpl; [constructor|].
  simpl in H. apply Forall_app in H. destruct H as [Hb Hbl].
  apply nonul_app; [destruct (_ && _); repeat constructor; discriminate|].
  apply nonul_app; [apply nonul_unlines; exact Hb|apply IH; exact Hbl].
Qed.

Lemma nonul_file_render fl file n : nonul (render_from (fNEWLINE fl) n (file_blocks fl file)).
Proof.
  apply nonul_render. eapply sublist_Forall; [apply blocks_sublist|apply clines_nonul].
Qed.

Lemma join_nl_snoc d r :
  join_nl (d ++ [r]) = match d with [] => r | _ => join_nl d ++ 10 :: r end.
Proof.
  induction d as [|x d IH]; [reflexivity|].
  destruct d as [|y d]; [reflexivity|].
  change (join_nl ((x :: y :: d) ++ [r])) with (x ++ 10 :: join_nl ((y :: d) ++ [r])).
  rewrite IH. change (join_nl (x :: y :: d)) with (x ++ 10 :: join_nl (y :: d)).
  now rewrite <- app_assoc.
Qed.

Lemma nonul_join_nl parts : Forall nonul parts -> nonul (join_nl parts).
Proof.
  induction 1 as [|p ps Hp _ IH]; [constructor|].
  destruct ps as [|q ps]; [exact Hp|].
  change (join_nl (p :: q :: ps)) with (p ++ 10 :: join_nl (q :: ps)).
  apply nonul_app; [exact Hp|constructor; [discriminate|exact IH]].
Qed.

Lemma removelast_snoc {A} (l : list A) x : removelast (l ++ [x]) = l.
Proof. apply removelast_last. Qed.

Definition renders (fl : flags) (fs : list bytes) : list bytes :=
  map (render_from false 0) (filter nonempty (map (file_blocks fl) fs)).

Lemma main_loop_readable fl fs done error :
  fNEWLINE fl = false ->
  main_loop fl (map Some fs) (length done) (join_nl done) error =
  (length (done ++ renders fl fs), join_nl (done ++ renders fl fs), error).
Proof.
  intros Hnl. revert done; induction fs as [|f fs IH]; intros done.
  - unfold renders. simpl. now rewrite app_nil_r.
  - cbn [map main_loop]. rewrite parse_spec, Hnl.
    unfold renders. cbn [map filter].
    destruct (file_blocks fl f) as [|b bl] eqn:Hb.
    + cbn [length render_from nonempty]. rewrite app_nil_r.
      destruct (0 <? length done)%nat; [rewrite removelast_snoc|]; apply IH.
    + cbn [length nonempty].
      set (r := render_from false 0 (b :: bl)).
      replace (if (0 <? length done)%nat then join_nl done ++ [10] else join_nl done) with
        (match done with [] => [] | _ => join_nl done ++ [10] end).
      2:{ destruct done; reflexivity. }
      specialize (IH (done ++ [r])).
      rewrite app_length in IH. simpl in IH. rewrite Nat.add_1_r in IH.
      rewrite join_nl_snoc in IH.
      replace (match done with [] => [] | _ :: _ => join_nl done ++ [10] end ++ r)
        with (match done with [] => r | _ :: _ => join_nl done ++ 10 :: r end).
      2:{ destruct done; [reflexivity|now rewrite <- app_assoc]. }
      rewrite IH. unfold renders. cbn [map]. rewrite <- !app_assoc. reflexivity.
Qed.

Lemma main_loop_error fl files n bf :
  let '(_, _, e) := main_loop fl files n bf true in e = true.
Proof.
  revert n bf; induction files as [|f fs IH]; intros n bf; [reflexivity|].
  cbn [main_loop]. destruct f as [c|]; [|apply IH].
  destruct (parse fl c _) as [k bf2]. destruct k; apply IH.
Qed.

Lemma main_loop_unreadable fl files n bf e :
  all_some files = None ->
  let '(_, _, e') := main_loop fl files n bf e in e' = true.
Proof.
  revert n bf e; induction files as [|f fs IH]; intros n bf e H; [discriminate|].
  cbn [main_loop]. destruct f as [c|].
  - simpl in H. destruct (all_some fs) eqn:E; [discriminate|].
    destruct (parse fl c _) as [k bf2]. destruct k; apply IH; reflexivity.
  - apply main_loop_error.
Qed.

Lemma all_some_map {A} (l : list (option A)) r : all_some l = Some r -> l = map Some r.
Proof.
  revert r; induction l as [|x l IH]; intros r H; simpl in H.
  - injection H as <-. reflexivity.
  - destruct x; [|discriminate]. destruct (all_some l); [|discriminate].
    injection H as <-. simpl. now rewrite (IH l0).
Qed.

Theorem main_refines_spec fl doprint files :
  fNEWLINE fl = false -> main fl doprint files = spec_main fl doprint files.
Proof.
  intros Hnl. unfold main, spec_main.
  destruct (all_some files) as [fs|] eqn:Hall.
  - apply all_some_map in Hall. subst files.
    pose proof (main_loop_readable fl fs [] false Hnl) as H. simpl in H. rewrite H.
    unfold renders. destruct (filter nonempty (map (file_blocks fl) fs)) as [|p ps] eqn:Hf.
    + reflexivity.
    + cbn [map length negb andb Nat.eqb Nat.ltb Nat.leb].
      destruct doprint; [|reflexivity]. f_equal. apply cstr_id.
      apply nonul_join_nl. rewrite <- map_cons. rewrite Forall_map. apply Forall_forall.
      intros bl Hin. apply nonul_render.
      assert (Hin' : In bl (map (file_blocks fl) fs)).
      { rewrite <- Hf in Hin. apply filter_In in Hin. tauto. }
      apply in_map_iff in Hin'. destruct Hin' as [f [<- _]].
      eapply sublist_Forall; [apply blocks_sublist|apply clines_nonul].
  - pose proof (main_loop_unreadable fl files 0%nat [] false Hall) as H.
    destruct (main_loop fl files 0 [] false) as [[n bf] e]. subst e. reflexivity.
Qed.

(* ---- statements used by Properties_C13 -------------------------------------- *)

Definition has_match (fl : flags) (f : bytes) : Prop :=
  exists l, In l (drop_trace (clines f)) /\ selected fl l = true.

Lemma has_match_iff fl f : has_match fl f <-> file_blocks fl f <> [].
Proof.
  rewrite file_blocks_nil_iff. unfold has_match. split.
  - intros [l [Hin Hs]] Hex. assert (existsb (selected fl) (drop_trace (clines f)) = true).
    { apply existsb_exists. eauto. } congruence.
  - intros H. destruct (existsb _ _) eqn:E; [|congruence].
    apply existsb_exists in E. exact E.
Qed.

Lemma exit_status fl doprint files :
  fNEWLINE fl = false ->
  fst (main fl doprint files) =
    match all_some files with
    | None => 2
    | Some fs => if existsb (fun f => nonempty (file_blocks fl f)) fs then 0 else 1
    end.
Proof.
  intros Hnl. rewrite main_refines_spec by exact Hnl. unfold spec_main.
  destruct (all_some files) as [fs|]; [|reflexivity].
  induction fs as [|f fs IH]; [reflexivity|].
  cbn [map filter existsb]. destruct (nonempty (file_blocks fl f)); [reflexivity|exact IH].
Qed.

Lemma exit_zero_iff fl doprint fs :
  fNEWLINE fl = false ->
  (fst (main fl doprint (map Some fs)) = 0 <-> exists f, In f fs /\ has_match fl f) /\
  (fst (main fl doprint (map Some fs)) = 1 <-> ~ exists f, In f fs /\ has_match fl f).
Proof.
  intros Hnl. rewrite exit_status by exact Hnl.
  assert (Hall : all_some (map Some fs) = Some fs).
  { induction fs as [|f fs IH]; [reflexivity|]. simpl. now rewrite IH. }
  rewrite Hall.
  assert (Hex : existsb (fun f => nonempty (file_blocks fl f)) fs = true <->
                exists f, In f fs /\ has_match fl f).
  { rewrite existsb_exists. split; intros [f [Hin H]]; exists f; split; auto.
    - apply has_match_iff. destruct (file_blocks fl f); [discriminate|discriminate].
    - apply has_match_iff in H. destruct (file_blocks fl f); [congruence|reflexivity]. }
  destruct (existsb _ fs).
  - assert (Hy : exists f, In f fs /\ has_match fl f) by (apply Hex; reflexivity).
    split; split; intros H; auto; try discriminate. elim H; exact Hy.
  - assert (Hn : ~ exists f, In f fs /\ has_match fl f).
    { intros H. apply Hex in H. discriminate. }
    split; split; intros H; auto; try discriminate. elim Hn; exact H.
Qed.

Lemma exit_two_iff fl doprint files :
  fNEWLINE fl = false ->
  (fst (main fl doprint files) = 2 <-> In None files).
Proof.
  intros Hnl. rewrite exit_status by exact Hnl.
  assert (H : all_some files = None <-> In None files).
  { induction files as [|x l IH]; simpl; [split; [discriminate|tauto]|].
    destruct x; [|split; auto].
    destruct (all_some l); split; try discriminate; intros H.
    - destruct H as [H|H]; [discriminate|]. apply IH in H. discriminate.
    - right. apply IH. reflexivity.
    - reflexivity. }
  destruct (all_some files) as [fs|]; [|tauto].
  split; [|intros Hin; apply H in Hin; discriminate].
  destruct (existsb _ fs); discriminate.
Qed.

(* the printed text, read back as lines, is the blocks with one empty line between them *)
Fixpoint with_separators (bl : list (list bytes)) : list bytes :=
  match bl with
  | [] => []
  | [b] => b
  | b :: bl' => b ++ [] :: with_separators bl'
  end.

Lemma render_succ bl n : render_from false (S n) bl = unlines (concat (map (cons []) bl)).
Proof.
  revert n; induction bl as [|b bl IH]; intros n; [reflexivity|].
  cbn [render_from map concat Nat.eqb andb]. rewrite (IH (S n)).
  change ([] :: b) with ([[]] ++ b). rewrite <- app_assoc, !unlines_app. reflexivity.
Qed.

Lemma render_zero b bl :
  render_from false 0 (b :: bl) = unlines (with_separators (b :: bl)).
Proof.
  cbn [render_from Nat.eqb andb negb app]. rewrite render_succ.
  rewrite <- unlines_app. f_equal.
  revert b; induction bl as [|b' bl IH]; intros b; [simpl; now rewrite app_nil_r|].
  cbn [map concat]. change (with_separators (b :: b' :: bl)) with (b ++ [] :: with_separators (b' :: bl)).
  rewrite <- IH. reflexivity.
Qed.

Lemma with_separators_nonl bl : Forall nonl (concat bl) -> Forall nonl (with_separators bl).
Proof.
  induction bl as [|b bl IH]; intros H; [constructor|].
  simpl in H. apply Forall_app in H. destruct H as [Hb Hbl].
  destruct bl as [|b' bl]; [exact Hb|].
  change (with_separators (b :: b' :: bl)) with (b ++ [] :: with_separators (b' :: bl)).
  apply Forall_app. split; [exact Hb|]. constructor; [constructor|]. apply IH. exact Hbl.
Qed.

Lemma printed_lines fl f :
  file_blocks fl f <> [] ->
  getlines (render_from false 0 (file_blocks fl f)) = with_separators (file_blocks fl f).
Proof.
  intros Hne. destruct (file_blocks fl f) as [|b bl] eqn:E; [congruence|].
  rewrite render_zero. apply getlines_unlines. apply with_separators_nonl.
  rewrite <- E. eapply sublist_Forall; [apply blocks_sublist|apply clines_nonl].
Qed.

Lemma noprint_same fl files :
  fNEWLINE fl = false ->
  fst (main fl false files) = fst (main fl true files) /\ snd (main fl false files) = [].
Proof.
  intros Hnl. rewrite !main_refines_spec by exact Hnl. unfold spec_main.
  destruct (all_some files); [|split; reflexivity].
  destruct (filter _ _); split; reflexivity.
Qed.

Lemma peek_agrees fl f : (0 < peek fl f)%nat <-> (0 < fst (parse fl f []))%nat.
Proof.
  rewrite peek_spec, parse_spec. cbn [fst].
  destruct (existsb (selected fl) (drop_trace (clines f))) eqn:E.
  - assert (Hne : file_blocks fl f <> []).
    { intros H0. apply file_blocks_nil_iff in H0. congruence. }
    destruct (file_blocks fl f); [congruence|]. simpl. split; lia.
  - assert (H0 : file_blocks fl f = []) by (apply file_blocks_nil_iff; exact E).
    rewrite H0. simpl. split; lia.
Qed.

Lemma failed_or_xpass_is_failure fl f l dp :
  fNEWLINE fl = false -> fFAILED fl = true -> fXPASSED fl = true ->
  In l (drop_trace (clines f)) ->
  (exists a b, l = a ++ kw_FAILED ++ b) \/ (exists a b, l = a ++ kw_XPASS ++ b) ->
  fst (main fl dp [Some f]) = 0.
Proof.
  intros Hnl HF HP Hin Hkw.
  apply (proj2 (proj1 (exit_zero_iff fl dp [f] Hnl))).
  exists f. split; [now left|]. exists l. split; [exact Hin|].
  unfold selected. rewrite HF, HP. cbn [andb].
  destruct Hkw as [H|H]; apply infixb_spec in H.
  - unfold isfailed. rewrite H. now rewrite orb_true_r.
  - unfold isxpassed. rewrite H. now rewrite !orb_true_r.
Qed.

(* a selected line after the trace block is the last line of one of the blocks *)
Lemma chunks_In_selected sel cur ls l :
  In l ls -> sel l = true -> exists pre, In (pre ++ [l]) (chunks sel cur ls).
Proof.
  revert cur; induction ls as [|x ls IH]; intros cur Hin Hs; [destruct Hin|].
  simpl. destruct Hin as [->|Hin].
  - rewrite Hs. exists cur. now left.
  - destruct (sel x).
    + destruct (IH [] Hin Hs) as [pre H]. exists pre. now right.
    + apply IH; assumption.
Qed.

Lemma complete_selected fl f l :
  In l (drop_trace (clines f)) -> selected fl l = true ->
  exists b, In b (file_blocks fl f) /\ b <> [] /\ last b l = l.
Proof.
  intros Hin Hs. destruct (chunks_In_selected (selected fl) [] _ l Hin Hs) as [pre Hc].
  exists (from_last_marker (pre ++ [l])). split.
  - unfold file_blocks, blocks_of_lines. apply in_map. exact Hc.
  - apply from_last_marker_last.
Qed.

Lemma sound_single fl f :
  fNEWLINE fl = false -> file_blocks fl f <> [] ->
  snd (main fl true [Some f]) = render_from false 0 (file_blocks fl f).
Proof.
  intros Hnl Hne. rewrite main_refines_spec by exact Hnl. unfold spec_main. cbn [all_some map filter].
  destruct (file_blocks fl f) eqn:E; [congruence|]. reflexivity.
Qed.

Lemma keywords_spec l :
  (isfailed l = true <-> exists a b, l = a ++ kw_FAILED ++ b) /\
  (isxpassed l = true <-> exists a b, l = a ++ kw_XPASS ++ b) /\
  (isxfailed l = true <-> exists a b, l = a ++ kw_XFAIL ++ b) /\
  (isskipped l = true <-> (exists a b, l = a ++ kw_SKIPPED ++ b) \/ (exists a b, l = a ++ kw_DISABLED ++ b)).
Proof.
  repeat split; try apply infixb_spec.
  - unfold isskipped. rewrite orb_true_iff, !infixb_spec. tauto.
  - unfold isskipped. rewrite orb_true_iff, !infixb_spec. tauto.
Qed.
