(* RLDefs.v - executable model of regress-log.c and robsd-regress-log.c.
   Definitions only.  Anchors: regress_log_parse_impl, regress_log_peek,
   regress_log_trim, ismarker*, is{skipped,failed,xfailed,xpassed,xtrace},
   robsd-regress-log.c main. *)
From Robsd Require Export Base.Bytes.
From Coq Require Import String.
Local Open Scope N_scope.

Record flags := mkflags {
  fFAILED : bool;   (* -F  REGRESS_LOG_FAILED  *)
  fSKIPPED : bool;  (* -S  REGRESS_LOG_SKIPPED *)
  fXFAILED : bool;  (* -X  REGRESS_LOG_XFAILED *)
  fXPASSED : bool;  (* -P  REGRESS_LOG_XPASSED *)
  fNEWLINE : bool;  (* REGRESS_LOG_NEWLINE (library callers only) *)
}.

Definition kw_SKIPPED := Eval vm_compute in bs "SKIPPED".
Definition kw_DISABLED := Eval vm_compute in bs "DISABLED".
Definition kw_FAILED := Eval vm_compute in bs "FAILED".
Definition kw_XFAIL := Eval vm_compute in bs "EXPECTED_FAIL".
Definition kw_XPASS := Eval vm_compute in bs "UNEXPECTED_PASS".
Definition mk_regress := Eval vm_compute in bs "====".
Definition mk_subdir := Eval vm_compute in bs "===>".

Definition isskipped (l : bytes) := infixb kw_SKIPPED l || infixb kw_DISABLED l.
Definition isfailed (l : bytes) := infixb kw_FAILED l.
Definition isxfailed (l : bytes) := infixb kw_XFAIL l.
Definition isxpassed (l : bytes) := infixb kw_XPASS l.
Definition isxtrace (l : bytes) := match l with c :: _ => c =? 43 | [] => false end.

(* the scanning loop of ismarker_regress:
     for (; str[0] != '\0'; str++) if (str[-1] == ' ' && str[0] == '=') break;
   [prev] is str[-1]; returns the remaining string at the break or at the end *)
Fixpoint marker_scan (prev : byte) (s : bytes) : bytes :=
  match s with
  | [] => []
  | c :: s' => if (prev =? 32) && (c =? 61) then s else marker_scan c s'
  end.

Definition ismarker_regress (l : bytes) : bool :=
  if prefixb mk_regress l then
    match skipn 4 l with
    | c :: rest =>
        if c =? 32 then
          let r := marker_scan 32 rest in
          if prefixb mk_regress r then
            match skipn 4 r with [] => true | _ => false end
          else false
        else false
    | [] => false
    end
  else false.

Definition ismarker_subdir (l : bytes) := prefixb mk_subdir l.
Definition ismarker (l : bytes) := ismarker_regress l || ismarker_subdir l.

Definition selected (fl : flags) (l : bytes) : bool :=
  (fSKIPPED fl && isskipped l) || (fFAILED fl && isfailed l) ||
  (fXFAILED fl && isxfailed l) || (fXPASSED fl && isxpassed l).

(* regress_log_parse_impl's loop.  [ls] are the C-string lines of the file. *)
Fixpoint parse_loop (fl : flags) (peek : bool) (xtrace : bool)
    (scratch out : bytes) (nfound : nat) (ls : list bytes) : nat * bytes :=
  match ls with
  | [] => (nfound, out)
  | l :: ls' =>
      if xtrace && isxtrace l then parse_loop fl peek true scratch out nfound ls'
      else
        let scratch1 := (if ismarker l then [] else scratch) ++ l ++ [10] in
        if selected fl l then
          if peek then (S nfound, out)
          else
            let first := Nat.eqb nfound 0 && negb (fNEWLINE fl) in
            let out1 := (if first then out else out ++ [10]) ++ scratch1 in
            parse_loop fl peek false [] out1 (S nfound) ls'
        else parse_loop fl peek false scratch1 out nfound ls'
  end.

(* regress_log_parse on a readable file, appending to [out] *)
Definition parse (fl : flags) (file out : bytes) : nat * bytes :=
  parse_loop fl false true [] out 0 (clines file).

Definition peek (fl : flags) (file : bytes) : nat :=
  fst (parse_loop fl true true [] [] 0 (clines file)).

(* regress_log_trim: drop the leading trace block and a trailing one *)
Fixpoint trim_loop (xbeg : bool) (xend : nat) (bf : bytes) (ls : list bytes)
  : bytes :=
  match ls with
  | [] => cstr (if Nat.eqb xend 0 then bf else firstn xend bf)   (* "%.*s"; xend == 0 means unset *)
  | l :: ls' =>
      if xbeg && isxtrace l then trim_loop true xend bf ls'
      else
        let xend1 := if isxtrace l
                     then (if Nat.eqb xend 0 then List.length bf else xend)
                     else 0%nat in
        trim_loop false xend1 (bf ++ l ++ [10]) ls'
  end.

Definition trim (file : bytes) : bytes := trim_loop true 0 [] (clines file).

(* robsd-regress-log main on a list of files; None = unreadable *)
Fixpoint main_loop (fl : flags) (files : list (option bytes))
    (n : nat) (bf : bytes) (error : bool) : nat * bytes * bool :=
  match files with
  | [] => (n, bf, error)
  | f :: fs =>
      let bf1 := if Nat.ltb 0 n then bf ++ [10] else bf in
      match f with
      | None => main_loop fl fs n bf1 true
      | Some content =>
          let '(k, bf2) := parse fl content bf1 in
          match k with
          | O => main_loop fl fs n (if Nat.ltb 0 n then removelast bf2 else bf2) error
          | S _ => main_loop fl fs (S n) bf2 error
          end
      end
  end.

(* (exit status, stdout) *)
Definition main (fl : flags) (doprint : bool) (files : list (option bytes)) : N * bytes :=
  let '(n, bf, error) := main_loop fl files 0 [] false in
  let out := if negb error && Nat.ltb 0 n && doprint then cstr bf else [] in
  (if error then 2 else if Nat.eqb n 0 then 1 else 0, out).
