(* RLCallDefs.v - executable models of the CALLERS of the extractor, the places
   where "this log is a failed regress run" is decided.  Definitions only.

     util-regress.sh regress_failed      regress_log -FPn "${_log}"   (shell true = exit 0)
     util.sh step_exec                   _fail starts at 0; the runner's non-zero status is written to it;
                                         in mode robsd-regress a successful regress_failed overwrites it with 1;
                                         the function returns the content of _fail
     regress-html.c parse_run_log        the status shown for a run, decided from the RECORDED exit status
                                         first and from regress_log_peek second

   step_exec examines the log file from inside the pipeline whose other end
   ("| tee ${_log}") is still writing that file: what regress_failed reads,
   [seen], is whatever tee has written so far - a prefix of the final log.
   [step_exec_run inside] says which of the two the check reads. *)
From Robsd Require Export RegressLog.RLDefs.
Local Open Scope N_scope.

(* -F -P (and -n: no printing) *)
Definition fl_FP : flags := mkflags true false false true false.

(* regress_failed: None = the log cannot be read (robsd-regress-log exits 2: not "failed") *)
Definition regress_failed (seen : option bytes) : bool :=
  fst (main fl_FP false [seen]) =? 0.

(* step_exec's return value; [rc] = exit status of robsd-exec *)
Definition step_exec_exit (regress : bool) (rc : N) (seen : option bytes) : N :=
  if regress && regress_failed seen then 1 else rc.

(* [log] = the complete log, [seen] = what is in the file when regress_failed runs *)
Definition step_exec_run (inside regress : bool) (rc : N) (log seen : bytes) : N :=
  step_exec_exit regress rc (Some (if inside then seen else log)).

(* regress-html.c *)
Inductive hstatus := HPASS | HFAIL | HXFAIL | HXPASS | HSKIP | HNOTERM.

(* is_run_status_failure *)
Definition hfailure (s : hstatus) : bool :=
  match s with HFAIL | HXPASS | HNOTERM => true | HPASS | HXFAIL | HSKIP => false end.

Definition fl_P : flags := mkflags false false false true false.
Definition fl_X : flags := mkflags false false true false false.
Definition fl_S : flags := mkflags false true false false false.

(* parse_run_log: [exit] is the exit field of the step file, [timeout] is EX_TIMEOUT *)
Definition html_status (timeout exit : N) (log : bytes) : hstatus :=
  if exit =? timeout then HNOTERM
  else if negb (exit =? 0) then (if Nat.ltb 0 (peek fl_P log) then HXPASS else HFAIL)
  else if Nat.ltb 0 (peek fl_X log) then HXFAIL
  else if Nat.ltb 0 (peek fl_S log) then HSKIP
  else HPASS.
