(* Properties_C20.v - map, vector, buffer and checked arithmetic match their
   abstract models.  Only theorem statements, each closed by [exact] and
   followed by Print Assumptions.

   ---- checked arithmetic ----------------------------------------------------
   [KS_<ty>_<op>_overflow0] below are the terms regenerated on this run from
   libks/arithmetic.c by translator T2 (coq/gen/Gen_Arith.v, C semantics of
   Base/CInt.v: a result [None] means the function itself trapped or had
   undefined behaviour).  [checked_exact ty op f] (Ks/ArithSpec.v) says: for ALL
   operands a, b of the type, f a b returns (never traps), returns 0 and stores
   exactly a op b when that is representable in the type, and returns 1
   otherwise.  Ranges are written as powers of two in ArithSpec.v, independently
   of CInt.v.  Proofs: symbolic execution + lia/nia over Z, no enumeration. *)
From Robsd Require Import Ks.ArithSpec Ks.ArithProofs Ks.KsInst Ks.VectorProofs Ks.BufferProofs Ks.MapProofs Ks.MapIterProofs Ks.KsInstProofs.
From RobsdGen Require Import Gen_Arith.
Local Open Scope Z_scope.

Theorem C20_i32_add_exact : checked_exact I32 OAdd KS_i32_add_overflow0.
Proof. exact i32_add_exact. Qed.
Print Assumptions C20_i32_add_exact.

Theorem C20_i32_sub_exact : checked_exact I32 OSub KS_i32_sub_overflow0.
Proof. exact i32_sub_exact. Qed.
Print Assumptions C20_i32_sub_exact.

Theorem C20_i32_mul_exact : checked_exact I32 OMul KS_i32_mul_overflow0.
Proof. exact i32_mul_exact. Qed.
Print Assumptions C20_i32_mul_exact.

Theorem C20_i64_add_exact : checked_exact I64 OAdd KS_i64_add_overflow0.
Proof. exact i64_add_exact. Qed.
Print Assumptions C20_i64_add_exact.

Theorem C20_i64_sub_exact : checked_exact I64 OSub KS_i64_sub_overflow0.
Proof. exact i64_sub_exact. Qed.
Print Assumptions C20_i64_sub_exact.

Theorem C20_i64_mul_exact : checked_exact I64 OMul KS_i64_mul_overflow0.
Proof. exact i64_mul_exact. Qed.
Print Assumptions C20_i64_mul_exact.

Theorem C20_u32_add_exact : checked_exact U32 OAdd KS_u32_add_overflow0.
Proof. exact u32_add_exact. Qed.
Print Assumptions C20_u32_add_exact.

Theorem C20_u32_sub_exact : checked_exact U32 OSub KS_u32_sub_overflow0.
Proof. exact u32_sub_exact. Qed.
Print Assumptions C20_u32_sub_exact.

Theorem C20_u32_mul_exact : checked_exact U32 OMul KS_u32_mul_overflow0.
Proof. exact u32_mul_exact. Qed.
Print Assumptions C20_u32_mul_exact.

Theorem C20_u64_add_exact : checked_exact U64 OAdd KS_u64_add_overflow0.
Proof. exact u64_add_exact. Qed.
Print Assumptions C20_u64_add_exact.

Theorem C20_u64_sub_exact : checked_exact U64 OSub KS_u64_sub_overflow0.
Proof. exact u64_sub_exact. Qed.
Print Assumptions C20_u64_sub_exact.

Theorem C20_u64_mul_exact : checked_exact U64 OMul KS_u64_mul_overflow0.
Proof. exact u64_mul_exact. Qed.
Print Assumptions C20_u64_mul_exact.

Theorem C20_size_add_exact : checked_exact USize OAdd KS_size_add_overflow0.
Proof. exact size_add_exact. Qed.
Print Assumptions C20_size_add_exact.

Theorem C20_size_sub_exact : checked_exact USize OSub KS_size_sub_overflow0.
Proof. exact size_sub_exact. Qed.
Print Assumptions C20_size_sub_exact.

Theorem C20_size_mul_exact : checked_exact USize OMul KS_size_mul_overflow0.
Proof. exact size_mul_exact. Qed.
Print Assumptions C20_size_mul_exact.

(* the same, unfolded once, so that the statement can be read without ArithSpec.v *)
Theorem C20_fallbacks_never_trap_and_are_exact : forall ty op a b,
  ty_lo ty <= a <= ty_hi ty -> ty_lo ty <= b <= ty_hi ty ->
  exists flag stored, fallback ty op a b = Some (flag, stored) /\
    (ty_lo ty <= exact op a b <= ty_hi ty -> flag = 0 /\ stored = Some (exact op a b)) /\
    (~ ty_lo ty <= exact op a b <= ty_hi ty -> flag = 1).
Proof. exact fallback_exact. Qed.
Print Assumptions C20_fallbacks_never_trap_and_are_exact.

(* the boolean oracle the harness applies to the compiled code decides that postcondition *)
Theorem C20_arith_oracle_sound : forall ty op a b r,
  spec_ok_checked ty op a b r = true <-> checked_post ty op a b r.
Proof. exact spec_ok_checked_iff. Qed.
Print Assumptions C20_arith_oracle_sound.

(* ---- vector (libks/vector.c) ---------------------------------------------------
   [vrun] is the model with the real representation (capacity, header size,
   element size, the doubling loop with its three overflow guards); [lrun] /
   [spec_ok_vec] the list program (VectorSpec.v).  For ANY element size, header
   size and initial capacity in (0, 65536], ANY allocator that grants requests
   up to 2^50 bytes, ANY qsort that returns a sorted permutation, ANY starting
   state satisfying the invariant and EVERY operation sequence:
   - the list-program oracle accepts the model's trace: a failed ALLOC / CALLOC /
     RESERVE changes nothing and only happens when more than 2^32 elements are
     asked for; a success happens only for a representable byte size and
     returns what the list program returns (push appends, pop returns the last
     element, first/last/length/contents agree, sort sorts);
   - the final contents are the list program's - so growth preserves contents;
   - every live element lies inside the allocation ([vinv]) at the end. *)
Theorem C20_vector_refines_list :
  forall (stride hdr init_cap : Z) (alloc_ok : Z -> bool) (sortf : list Z -> list Z),
  0 < stride <= 65536 -> 0 <= hdr <= 65536 -> 0 < init_cap <= 65536 ->
  sorts sortf -> (forall sz, sz <= 1125899906842624 -> alloc_ok sz = true) ->
  forall (ops : list vop) (v : vec), vinv stride hdr v -> Forall op_wf ops ->
  let '(v', tr) := vrun stride hdr init_cap alloc_ok sortf v ops in
  length tr = length ops /\
  spec_ok_vec stride hdr (v_elems v) (trace_of ops tr) = true /\
  v_elems v' = spec_final (v_elems v) (trace_of ops tr) /\
  vinv stride hdr v'.
Proof. exact vrun_refines. Qed.
Print Assumptions C20_vector_refines_list.

(* the same without the oracle: while nothing reports failure, outputs and contents are the list program's *)
Theorem C20_vector_outputs_are_list_program :
  forall (stride hdr init_cap : Z) (alloc_ok : Z -> bool) (sortf : list Z -> list Z),
  0 < stride <= 65536 -> 0 <= hdr <= 65536 -> 0 < init_cap <= 65536 ->
  sorts sortf -> (forall sz, sz <= 1125899906842624 -> alloc_ok sz = true) ->
  forall (ops : list vop) (v : vec), vinv stride hdr v -> Forall op_wf ops ->
  let '(v', tr) := vrun stride hdr init_cap alloc_ok sortf v ops in
  forallb (fun p => negb (is_failure (fst p) (snd p))) (trace_of ops tr) = true ->
  map fst tr = snd (lrun (v_elems v) ops) /\ v_elems v' = fst (lrun (v_elems v) ops).
Proof. exact vrun_lrun. Qed.
Print Assumptions C20_vector_outputs_are_list_program.

(* qsort's contract determines the result on integers: any sorted permutation is the insertion sort *)
Theorem C20_vector_sort_unique : forall f, sorts f -> forall l, f l = isort l.
Proof. exact sorts_is_isort. Qed.
Print Assumptions C20_vector_sort_unique.

(* the doubling loop shared by vector.c and buffer.c: result >= request, never shrinks, less than twice the
   request when it grew; it reports overflow only for requests above 2^63; 65 rounds of fuel suffice *)
Theorem C20_doubling_loop : forall s need,
  0 < s ->
  (forall s', grow GROW_FUEL s need = Some s' -> need <= s' /\ s <= s' /\ (s' = s \/ s' < 2 * need)) /\
  (grow GROW_FUEL s need = None -> 9223372036854775808 < need).
Proof.
  exact (fun s need Hs => conj
    (fun s' H => match grow_some GROW_FUEL s need s' H with
                 | conj H1 (conj H2 H3) =>
                     conj H1 (conj (H2 (Z.lt_le_incl _ _ Hs))
                       match H3 with or_introl e => or_introl e | or_intror (conj _ h) => or_intror h end)
                 end)
    (grow_none s need Hs)).
Qed.
Print Assumptions C20_doubling_loop.

(* ---- buffer (libks/buffer.c) -------------------------------------------------- *)
Theorem C20_buffer_refines_bytes :
  forall (init_cap : Z) (alloc_ok : Z -> bool),
  0 < init_cap <= 65536 ->
  (forall sz, sz <= 1125899906842624 -> alloc_ok sz = true) ->
  (forall sz, alloc_ok sz = true -> sz <= 4611686018427387904) ->
  forall (ops : list bop) (b : buf), binv b -> Forall bop_wf ops -> Forall bsize_ok ops ->
  let '(b', tr) := brun init_cap alloc_ok b ops in
  length tr = length ops /\
  spec_ok_buf (b_data b) (btrace_of ops tr) = true /\
  b_data b' = bspec_final (b_data b) (btrace_of ops tr) /\
  binv b'.
Proof. exact brun_refines. Qed.
Print Assumptions C20_buffer_refines_bytes.

(* buffer_getline iterated to NULL returns exactly the lines of the contents as C strings; the lines
   contain no newline and, joined by newlines, give back the contents up to an optional final newline *)
Theorem C20_getline_splits : forall l : bytes,
  getline_loop (S (length l)) l = clines l /\
  Forall nonl (getlines l) /\
  (unlines (getlines l) = l \/ unlines (getlines l) = l ++ [10%N]) /\
  (nonul l -> clines l = getlines l).
Proof.
  exact (fun l => conj (getline_loop_clines l) (conj (getlines_nonl l) (conj (unlines_getlines l)
    (clines_nonul_id l)))).
Qed.
Print Assumptions C20_getline_splits.

(* buffer_cmp returns 0 exactly for equal contents *)
Theorem C20_buffer_cmp_zero_iff_equal : forall a b : bytes,
  length a = length b -> (memcmp_sign a b = 0 <-> a = b).
Proof. exact memcmp_sign_zero. Qed.
Print Assumptions C20_buffer_cmp_zero_iff_equal.

(* ---- map (libks/map.c) ----------------------------------------------------------
   [mrun] is the table model with the real structure (application-order list,
   bucket array of chains, expansion with rehash, deletion that frees the table
   with the last element, the (el, nx) iterator); [drun] the dictionary: an
   association list in insertion order.  For ANY hash function, ANY initial
   bucket count that is a power of two, ANY threshold, and EVERY operation
   sequence that respects the call-site discipline ([disciplined]: a key is
   inserted only while absent; the entry the iterator holds a pointer to is not
   removed behind its back): the model's results are the dictionary's - lookups
   answer like a dictionary over the live keys, removed keys are absent, the
   handle and value found are those of the insert - and the reached state
   satisfies the structural invariant with pairwise distinct keys. *)
Theorem C20_map_refines_dict :
  forall (hash : bytes -> N) (init_nb init_log2 thresh : N), (exists k, init_nb = (2 ^ k)%N) ->
  forall ops, disciplined dict0 ops = true ->
  let '(m, tr) := mrun hash init_nb init_log2 thresh map0 ops in
  map fst tr = snd (drun dict0 ops) /\
  map abs_e (m_list m) = d_ents (fst (drun dict0 ops)) /\
  minv hash m /\ keys_nodup m.
Proof.
  exact (fun hash nb lg th Hp ops Hd =>
    match mrun_refines hash nb lg th Hp ops map0 dict0 (R0 hash) Hd with
    | conj Ho HR =>
        (let '(m, tr) as p := mrun hash nb lg th map0 ops
           return (map fst (snd p) = snd (drun dict0 ops) -> R hash (fst p) (fst (drun dict0 ops)) ->
                   let '(m, tr) := p in
                   map fst tr = snd (drun dict0 ops) /\ map abs_e (m_list m) = d_ents (fst (drun dict0 ops)) /\
                   minv hash m /\ keys_nodup m)
         in fun Ho' HR' => match HR' with
                           | conj He (conj _ (conj _ (conj Hi Hk))) => conj Ho' (conj (eq_sym He) (conj Hi Hk))
                           end) Ho HR
    end).
Qed.
Print Assumptions C20_map_refines_dict.

(* iteration while removing: from a fresh iterator, one MAP_ITERATE per live entry - each optionally followed
   by MAP_REMOVE of the entry just returned ([sel] says which) - and one more call: the calls return the live
   entries, each exactly once, in insertion order, then NULL; afterwards exactly the unselected entries
   remain, in order *)
Theorem C20_map_iter_remove_current :
  forall (hash : bytes -> N) (init_nb init_log2 thresh : N), (exists k, init_nb = (2 ^ k)%N) ->
  forall (m : hmap) (sel : list bool),
  minv hash m -> keys_nodup m -> m_it m = None -> length sel = length (m_list m) ->
  map fst (snd (mrun hash init_nb init_log2 thresh m (iter_ops sel))) = map elt_out (m_list m) ++ [MoNull] /\
  m_list (fst (mrun hash init_nb init_log2 thresh m (iter_ops sel))) = keep sel (m_list m).
Proof. exact map_iteration. Qed.
Print Assumptions C20_map_iter_remove_current.

(* plain iteration: every live entry exactly once, in insertion order, then NULL; nothing changes *)
Theorem C20_map_iter_insertion_order :
  forall (hash : bytes -> N) (init_nb init_log2 thresh : N), (exists k, init_nb = (2 ^ k)%N) ->
  forall (m : hmap), minv hash m -> keys_nodup m -> m_it m = None ->
  let ops := repeat MIterNext (S (length (m_list m))) in
  map fst (snd (mrun hash init_nb init_log2 thresh m ops)) = map elt_out (m_list m) ++ [MoNull] /\
  m_list (fst (mrun hash init_nb init_log2 thresh m ops)) = m_list m.
Proof. exact map_iteration_plain. Qed.
Print Assumptions C20_map_iter_insertion_order.

(* values never move: no operation alters or copies an element; what is in the list afterwards was there
   before, or is the element the insert just allocated (identity = insert counter, i.e. its address) *)
Theorem C20_values_never_move :
  forall (hash : bytes -> N) (init_nb init_log2 thresh : N) (m : hmap) (op : mop) (e : elt),
  In e (m_list (fst (mstep hash init_nb init_log2 thresh m op))) ->
  In e (m_list m) \/ exists k v, op = MInsert k v /\ e = mkelt (m_next m) k v (hash k).
Proof. exact elements_never_change. Qed.
Print Assumptions C20_values_never_move.

(* ---- the executed instance: constants regenerated from the sources ------------- *)
Theorem C20_container_instances_accepted :
  (0 < Gen_KsConst.vector_init_cap <= 65536 /\ 0 < Gen_KsConst.buffer_init_cap <= 65536) /\
  (forall stride hdr ops, 0 < stride <= 65536 -> 0 <= hdr <= 65536 -> Forall op_wf ops ->
     spec_ok_vec_inst stride hdr (trace_of ops (vrun_inst stride hdr ops)) = true) /\
  (forall init ops, 0 <= init <= ULONG_MAX -> Forall bop_wf ops -> Forall bsize_ok ops ->
     match brun_inst init ops with
     | None => True
     | Some (_, tr) => spec_ok_buf_inst (btrace_of ops tr) = true
     end).
Proof. exact (conj (conj vector_init_cap_ok buffer_init_cap_ok) (conj vrun_inst_ok brun_inst_ok)). Qed.
Print Assumptions C20_container_instances_accepted.

(* map.c's constants: the initial bucket count is 2^log2; the dictionary oracle accepts every trace of the
   executed map model (HASH_JEN, 32 buckets, threshold 10) *)
Theorem C20_map_instance_accepted :
  (exists k, map_nb = (2 ^ k)%N) /\
  forall ops, spec_ok_map ops (map fst (fst (mrun_inst ops))) = true.
Proof. exact (conj map_nb_pow2 mrun_inst_ok). Qed.
Print Assumptions C20_map_instance_accepted.

(* non-vacuity: the unsigned multiply at b = 0 (the operand on which the fallback divided by zero before the
   repair), a signed multiply that overflows, INT64_MIN * -1, and one exact product *)
Example C20_arith_example :
  KS_u32_mul_overflow0 5 0 = Some (0, Some 0) /\
  KS_i32_mul_overflow0 65536 32768 = Some (1, None) /\
  KS_i64_mul_overflow0 (-9223372036854775808) (-1) = Some (1, None) /\
  KS_i64_mul_overflow0 (-3037000500) 3037000499 = Some (0, Some (-9223372033963249500)).
Proof. vm_compute. repeat split; reflexivity. Qed.

(* non-vacuity, containers: 40 pushes cross the capacities 16, 32, 64 and the contents survive; pop returns
   the last element; a reservation whose byte size overflows is refused and changes nothing; a buffer with an
   embedded NUL and no final newline splits into three lines *)
Example C20_vector_example :
  let ops := map VPush (map Z.of_nat (seq 0 40)) ++ [VPop; VReserve 2305843009213693952; VLen; VSort; VFirst] in
  map (fun p => snd p) (vrun_inst 8 56 ops) = repeat 16 16 ++ repeat 32 16 ++ repeat 64 8 ++ [64; 64; 64; 64; 64] /\
  map (fun p => fst p) (skipn 40 (vrun_inst 8 56 ops)) = [VoIdx 39 39; VoInt 1; VoInt 39; VoUnit; VoIdx 0 0].
Proof. vm_compute. split; reflexivity. Qed.

(* non-vacuity, map: 200 distinct keys make the table double on its own (32 -> 64 buckets or more); lookups
   still answer with the handle of the insert, a removed key is absent *)
Example C20_map_example :
  let keys := map (fun i => [N.of_nat i; 7%N; 7%N; 7%N]) (seq 0 200) in
  let ops := map (fun k => MInsert k 5) keys ++ [MFind [3%N; 7%N; 7%N; 7%N]; MRemove [3%N; 7%N; 7%N; 7%N]; MFind [3%N; 7%N; 7%N; 7%N]] in
  disciplined dict0 ops = true /\
  skipn 200 (map fst (fst (mrun_inst ops))) = [MoPtr 3 5; MoUnit; MoNull] /\
  (exists sh, nth 199 (map snd (fst (mrun_inst ops))) None = Some sh /\ (32 <? s_nb sh)%N = true).
Proof. vm_compute. split; [reflexivity|]. split; [reflexivity|]. eexists. split; reflexivity. Qed.

From Coq Require Import String.
Local Open Scope string_scope.
Example C20_buffer_example :
  brun_inst 0 [BPuts (bs "hi"); BPutc 10; BPutc 0; BPuts (bs "a"); BPutc 10; BPrintf (bs "0123456789abcdef"); BLines; BStr; BLen] =
  Some (16, [(BoInt 0, 16); (BoInt 0, 16); (BoInt 0, 16); (BoInt 0, 16); (BoInt 0, 16); (BoInt 0, 32);
             (BoLines [bs "hi"; []; bs "0123456789abcdef"], 32); (BoBytes (bs "hi" ++ [10%N]), 0); (BoInt 0, 0)]).
Proof. vm_compute. reflexivity. Qed.

