(* Properties_C17.v - new invocations and re-run steps never reuse a name.
   Only theorem statements, each closed by [exact] and followed by
   Print Assumptions.

   Models (Inv/NameDefs.v): [build_id] (count+1, as shipped), [build_id_fixed]
   (count+1 advanced to the next free suffix, /repo 70fb0eb, the repair of
   defect D10), [build_id_max] (largest suffix in use today plus one, the
   repair of defect D23), [build_init], [log_id] of util.sh on what find(1) /
   the glob sees.  gen/Gen_Util.v, regenerated from util.sh on every run by
   harness/t_util.py, says which of the three build_id bodies util.sh contains
   ([build_id_variant], [build_id_current], [gen_build_id_current]).

   TWO READINGS of "a directory ... that did not exist before, whatever
   invocations exist or have been cleaned away":
   (1) the name is carried by no entry of the root NOW: C17_build_id_fresh, for
       every root and every history of runs and arbitrary removals;
   (2) the name was NEVER handed out before: C17_never_reissued_partial, for
       every sequence of runs and REAL cleanings (Inv/PurgeDefs.robsd_clean_x,
       any keep / count / keep-attic, while the latest invocation runs or while
       nothing runs) on a day with at most nine invocations - the k-th run of
       the day is DATE.k and the names increase in the order robsd-ls uses.
       Outside: C17_never_reissued_refuted (eleven runs, `robsd-clean 1`, the
       next run is DATE.10 again; the newest invocation removed by hand).
       Historical: C17_regression_next_free_reissues (the second body handed
       out DATE.2 twice, below DATE.3).

   END TO END (Inv/NameNewDefs.v): [new_invocation] = build_id composed with
   build_init on a tree WITH contents (the tree of the cleaning model, a file
   node carries its bytes).  C17_new_invocation_fresh: in every tree reachable
   by runs and removals the result is the tree plus exactly the four entries of
   a fresh build directory; C17_new_invocation_never_overwrites: in ANY tree no
   entry is removed or changed.

   NOT CLAIMED (C17_concurrent_same_id_not_excluded): two runs that evaluate
   build_id before either has created its directory get the same name and both
   pass lock_acquire - replayed on util.sh, findings/C17_concurrent_same_id.md.
   [lock_acquire] is the meaning of the statements read out of util.sh
   (C17_lock_acquire_is_util_sh).

   LOG FILES: the statement holds for every interleaving of attempts with
   entries appearing anywhere (except top-level names STEM.log.k) and entries
   without ".log" in their name disappearing (C17_log_env_fresh).  A deleted
   log is outside the quantifier ("sequences of attempts": nothing in robsd
   deletes a log - except the C16 known finding clean-lock-spelled-differently,
   which strips the RUNNING directory); what happens then is stated as a
   boundary (C17_log_del_refuted; replayed, findings/C17_log_id_after_delete.md). *)
From Robsd Require Import Inv.NameSpec Inv.NameProofs Inv.NameMax Inv.NameTie Inv.NameNewDefs Inv.NameNew Inv.PurgeDefs
  Inv.PurgeSpec Inv.PurgeComplete Inv.PurgeBlocked Inv.NameMono Inv.LockSrc Inv.LockTie Inv.LsSpec.
From RobsdGen Require Import Gen_Util.
From Coq Require Import String.
Local Open Scope N_scope.

(* ---- build_id, as util.sh has it now ---- *)

(* reading (1): whatever the root holds - any entries of any kind at any depth,
   any gaps, more than nine per day, an attic - the name handed out is not the
   name of an entry of the root; for every history of runs and removals (of any
   victims whatsoever) starting from any root no run is handed an existing name *)
Theorem C17_build_id_fresh :
  (forall d start base tree, fresh_in (build_id_current d start base tree) tree) /\
  (forall d s, ~ In (gen_build_id_current d s) s) /\
  (forall ops s, no_collision (snd (history gen_build_id_current s ops))).
Proof. exact current_fresh. Qed.
Print Assumptions C17_build_id_fresh.

(* the generator used in the histories is build_id on a root holding these
   directories *)
Theorem C17_build_id_flat : forall d start base names,
  build_id_current d start base (flat_tree names) = gen_build_id_current d names.
Proof. exact current_flat. Qed.
Print Assumptions C17_build_id_flat.

(* the name is DATE.k - DATE, a dot, digits - with k one more than the largest
   suffix any entry directly below the root carries that day (any kind of
   entry; a suffix = what follows the last dot, all digits, no leading zero) *)
Theorem C17_build_id_named_after_date : forall d start base tree,
  named_after d (build_id_current d start base tree) = true /\
  build_id_current d start base tree = with_suffixN d (N.succ (max_suffix d (top_level tree))) /\
  forall n k, In n (top_level tree) -> day_suffix d n = Some k -> k < N.succ (max_suffix d (top_level tree)).
Proof. exact current_above. Qed.
Print Assumptions C17_build_id_named_after_date.

(* which body util.sh contains, read by the translator *)
Theorem C17_util_sh_build_id :
  build_id_variant = 2 /\ build_id_current = build_id_max /\ gen_build_id_current = gen_build_id_max.
Proof. exact (conj current_is_max (conj eq_refl eq_refl)). Qed.
Print Assumptions C17_util_sh_build_id.

(* reading (2), for the third body [build_id_max]: a root whose invocations are
   older than the day DATE = Y-M-D (names below DATE., nothing named DATE.x for any x),
   then any sequence of runs and real cleanings with at most nine runs: the
   tree stays well-formed; the names handed out are DATE.1, DATE.2, ... in this
   order whatever was cleaned in between - none twice, strictly increasing in
   the byte order robsd-ls sorts by; every invocation in the root is one of the
   old ones or one of these; every old one sorts below every new one; the most
   recent one is still there *)
Theorem C17_never_reissued_partial : forall rootstr d start base f0,
  nonl rootstr -> nonul rootstr -> forall y m dd, d = y ++ 45 :: m ++ 45 :: dd ->
  dashfree y -> dashfree m -> (dashfree dd /\ ~ In 46 dd /\ nonl d /\ nonul d) -> hidden d = false ->
  wf_tree f0 ->
  (forall e x, In e f0 -> f_path e = [x] -> prefixb (d ++ [46]) x = false) ->
  (forall v, invocation f0 v -> blt v (d ++ [46])) ->
  forall ops, (runs_of ops <= 9)%nat ->
  let st := hrun rootstr d start base f0 ops in
  wf_tree (fst st) /\
  snd st = names_upto d (runs_of ops) /\
  NoDup (snd st) /\ StronglySorted blt (snd st) /\
  (forall v, invocation (fst st) v -> invocation f0 v \/ In v (snd st)) /\
  (forall v w, invocation f0 v -> In w (snd st) -> blt v w) /\
  (snd st <> [] -> invocation (fst st) (last (snd st) [])).
Proof. exact reach_names. Qed.
Print Assumptions C17_never_reissued_partial.

(* [hrun] hands out the names build_id hands out: one run is the current
   build_id composed with build_init *)
Theorem C17_history_runs_current_build_id : forall rootstr d start base f born,
  hstep rootstr d start base (f, born) HRun =
  (snd (snd (new_invocation d start base f)), born ++ [fst (new_invocation d start base f)]).
Proof. exact (fun rootstr d start base f born => eq_refl). Qed.
Print Assumptions C17_history_runs_current_build_id.

(* outside the guard: (a) eleven runs on one day, then `robsd-clean 1` while
   nothing runs (keeps DATE.9, the greatest name; DATE.10 and DATE.11 go to the
   attic), then a run: DATE.10 a second time, while attic/2024/03/05.10 holds
   the first; (b) the newest invocation removed by hand (no cleaning does
   that): its name is handed out again *)
Theorem C17_never_reissued_refuted :
  (let st := hrun (bs "/r") (bs "2024-03-05") (bs "/r") (bs "r") [] ten_ops in
   nth 9 (snd st) [] = bs "2024-03-05.10" /\ nth 11 (snd st) [] = bs "2024-03-05.10" /\
   invocations_desc (fst st) = [bs "2024-03-05.9"; bs "2024-03-05.10"] /\
   is_dir_at [bs "attic"; bs "2024"; bs "03"; bs "05.10"] (fst st) = true) /\
  (let d := bs "2024-03-05" in
   map fst (snd (history gen_build_id_max [] [Run d; Run d; Remove [bs "2024-03-05.2"]; Run d])) =
     [bs "2024-03-05.1"; bs "2024-03-05.2"; bs "2024-03-05.2"]).
Proof. exact (conj reuse_after_ten max_reissues_after_newest_removed). Qed.
Print Assumptions C17_never_reissued_refuted.

Theorem C17_util_sh_log_constants :
  log_pad_width = 3%nat /\ log_ext = dot_log /\ log_dups_threshold = 0%nat.
Proof. exact log_constants. Qed.
Print Assumptions C17_util_sh_log_constants.

(* why it matters: build_init does not notice an existing directory - it is
   taken over with everything in it, and the function reports success *)
Theorem C17_build_init_reuses_silently : forall names,
  fst (build_init (Some names)) = 0 /\
  (forall x, In x names -> In x (snd (build_init (Some names)))) /\
  (forall x, In x (snd (build_init (Some names))) ->
     In x names \/ x = name_tmp \/ x = name_robsd_log \/ x = name_step_csv) /\
  In name_tmp (snd (build_init (Some names))) /\
  In name_robsd_log (snd (build_init (Some names))) /\
  In name_step_csv (snd (build_init (Some names))).
Proof. exact build_init_reuses. Qed.
Print Assumptions C17_build_init_reuses_silently.

(* ---- a new invocation end to end: build_id, then build_init, on a tree with
   contents.  For every tree [f] reached from a rooted tree by any sequence of
   runs and removals (cleaning of any victims), on any date: the script gets
   status 0, the tree afterwards is [f] followed by exactly the directory, its
   tmp, an empty robsd.log and an empty step.csv; no entry of [f] carries the
   new name or lies below it - so nothing of an earlier invocation is continued
   or overwritten; and what log_id then sees is the fresh build directory ---- *)
Theorem C17_new_invocation_fresh : forall start base ops f0 d,
  rooted f0 ->
  let f := fold_left (fs_step start base) ops f0 in
  let id := build_id_current d start base (view f) in
  new_invocation d start base f = (id, (0, f ++ fresh_entries id)) /\
  has_path [id] f = false /\ (forall e, In e f -> under [id] (f_path e) = false) /\
  builddir_view (f ++ fresh_entries id) id = fresh_builddir.
Proof. exact new_invocation_after_history. Qed.
Print Assumptions C17_new_invocation_fresh.

(* in ANY tree (not rooted, entries of any kind under any name): every entry
   is still there afterwards with the same node - file contents included - and
   whatever is new is one of those four entries *)
Theorem C17_new_invocation_never_overwrites : forall d start base f,
  let r := snd (snd (new_invocation d start base f)) in
  (forall e, In e f -> In e r) /\
  exists extra, r = f ++ extra /\ incl extra (fresh_entries (fst (new_invocation d start base f))).
Proof. exact new_invocation_preserves. Qed.
Print Assumptions C17_new_invocation_never_overwrites.

(* the flat model of build_init and the hand-written [fresh_builddir] are the
   same thing *)
Theorem C17_fresh_builddir_is_build_init :
  map (fun e => basename (e_path e)) fresh_builddir = snd (build_init None) /\
  forall id, map f_path (tl (fresh_entries id)) = map (fun n => [id; n]) (snd (build_init None)).
Proof. exact fresh_builddir_is_build_init. Qed.
Print Assumptions C17_fresh_builddir_is_build_init.

(* NON-CLAIM.  The scripts call build_id, build_init and only then
   lock_acquire.  Two runs A and B that both evaluate build_id on the same tree
   are handed the same name; A creates the directory and takes the lock; B's
   build_init finds everything in place (status 0, tree unchanged) and B's
   lock_acquire succeeds because the lock names exactly B's directory.  A run
   that computes its name after A created the directory is turned away. *)
Theorem C17_concurrent_same_id_not_excluded : forall d start base rootstr f,
  rooted f ->
  let id := build_id_current d start base (view f) in
  let bd := mkpath rootstr id in
  nonl bd ->
  let a_init := fs_build_init f id in
  let a_lock := lock_acquire None bd in
  let b_init := fs_build_init (snd a_init) id in
  let b_lock := lock_acquire (snd a_lock) bd in
  fst a_init = 0 /\ fst a_lock = 0 /\ fst b_init = 0 /\ fst b_lock = 0 /\
  snd b_init = snd a_init /\ snd b_lock = snd a_lock.
Proof. exact concurrent_same_id. Qed.
Print Assumptions C17_concurrent_same_id_not_excluded.

(* [lock_acquire] above is not a transcription held next to the source: the
   translator reads the statements of util.sh lock_acquire (which file is read
   into _owner, the tests of the refusal and how they are joined, the status,
   what is written where) into gen/Gen_Util.lock_acquire_src, and their meaning
   (Inv/LockSrc.run_lock) is this function, for every lock file content and
   every build directory *)
Theorem C17_lock_acquire_is_util_sh : forall root lock bd,
  run_lock lock_acquire_src root lock bd = lock_acquire lock bd.
Proof. exact lock_acquire_is_source. Qed.
Print Assumptions C17_lock_acquire_is_util_sh.

Theorem C17_sequential_runs_excluded : forall rootstr id1 id2,
  nonl (mkpath rootstr id1) -> id1 <> id2 ->
  fst (lock_acquire (snd (lock_acquire None (mkpath rootstr id1))) (mkpath rootstr id2)) = 1.
Proof. exact sequential_excluded. Qed.
Print Assumptions C17_sequential_runs_excluded.

(* ---- documented regression (defect D10, repaired in 70fb0eb): the count+1
   generator [build_id]/[gen_build_id] violates the statement.  Two invocations
   on one day, the older one cleaned away (robsd-clean with keep 1 does exactly
   that while the second one runs), a third invocation: it is handed the name
   of the second, which is still there.  The same history is replayed on the
   real scripts by the corpus of the check. ---- *)
Theorem C17_regression_count_plus_one_collides :
  (exists ops, ~ no_collision (snd (history gen_build_id [] ops))) /\
  (let d := bs "2024-03-05" in
   let tree := [mkent [bs "2024-03-05.2"] KDir; mkent [bs "attic"] KDir;
                mkent [bs "attic"; bs "2024"] KDir; mkent [bs "attic"; bs "2024"; bs "03"] KDir;
                mkent [bs "attic"; bs "2024"; bs "03"; bs "05.1"] KDir] in
   build_id d (bs "/r") (bs "r") tree = bs "2024-03-05.2" /\
   has_top (build_id d (bs "/r") (bs "r") tree) tree = true /\
   build_id_fixed d (bs "/r") (bs "r") tree = bs "2024-03-05.3").
Proof. exact count_plus_one_collides. Qed.
Print Assumptions C17_regression_count_plus_one_collides.

(* ---- documented regression (defect D23, the second body, /repo 70fb0eb): two
   runs, the first cleaned away, a third run, the second cleaned away, a fourth
   run - it is handed DATE.2 a second time (free NOW, so no collision flag), a
   name that sorts below DATE.3, which exists: robsd-ls lists the new
   invocation as the older one and the next cleaning archives it.  Replayed on
   the real scripts (findings/D23_build_id_monotone.md (a),
   corpus/C17/10_d23_keep2_seven_runs.json).  The third body hands out DATE.4 ---- *)
Theorem C17_regression_next_free_reissues :
  let d := bs "2024-03-05" in
  let ops := [Run d; Run d; Remove [bs "2024-03-05.1"]; Run d; Remove [bs "2024-03-05.2"]; Run d] in
  history gen_build_id_fixed [] ops =
    ([bs "2024-03-05.3"; bs "2024-03-05.2"],
     [(bs "2024-03-05.1", false); (bs "2024-03-05.2", false); (bs "2024-03-05.3", false); (bs "2024-03-05.2", false)]) /\
  bltb (bs "2024-03-05.2") (bs "2024-03-05.3") = true /\
  map fst (snd (history gen_build_id_max [] ops)) =
    [bs "2024-03-05.1"; bs "2024-03-05.2"; bs "2024-03-05.3"; bs "2024-03-05.4"].
Proof. exact next_free_reissues. Qed.
Print Assumptions C17_regression_next_free_reissues.

(* ---- log_id: holds in full ---- *)

(* for every sequence of attempts (any steps, any names, any number of
   repetitions) in a build directory satisfying the invariant - in particular
   the directory build_init creates - every generated log name is fresh at the
   moment it is generated, the names are pairwise distinct, none of them is a
   name that was there before, and the directory afterwards is the directory
   before plus exactly these files: earlier logs are untouched *)
Theorem C17_log_id_fresh : forall start base tree l,
  log_inv start base tree ->
  fresh_trace start base tree l /\
  NoDup (fst (attempts start base tree l)) /\
  (forall id, In id (fst (attempts start base tree l)) -> fresh_in id tree) /\
  snd (attempts start base tree l) =
    tree ++ map (fun id => mkent [id] KFile) (fst (attempts start base tree l)) /\
  log_inv start base (snd (attempts start base tree l)).
Proof. exact log_id_fresh_all. Qed.
Print Assumptions C17_log_id_fresh.

Theorem C17_log_inv_initial : forall start base,
  log_inv start base fresh_builddir /\
  (forall tree, (forall x k, has_top (with_suffix (x ++ dot_log) k) tree = false) ->
                log_inv start base tree).
Proof. exact (fun start base => conj (log_inv_fresh_builddir start base) (log_inv_no_suffixed start base)). Qed.
Print Assumptions C17_log_inv_initial.

(* the build directory is not only written by log_id: for every interleaving
   of attempts with entries appearing (anything that is not a top-level name
   STEM.log.k) and entries disappearing together with what is below them
   (anything without ".log" in its name), every attempt is handed a name no
   entry carries at that moment *)
Theorem C17_log_env_fresh : forall start base ops tree,
  log_inv start base tree -> lguard start base tree ops ->
  lfresh start base tree ops /\ log_inv start base (fold_left (lstep start base) ops tree).
Proof. exact log_env_fresh. Qed.
Print Assumptions C17_log_env_fresh.

(* outside that guard - the log_id analogue of D10: after two attempts of step 1
   "a" the log 001-a.log is deleted; the third attempt is handed 001-a.log.1,
   which exists *)
Theorem C17_log_del_refuted :
  exists tree p sn,
    log_inv (bs "/r/d") (bs "d") tree /\ ~ ldel_ok p tree /\
    let tree' := ldel p tree in
    fst (attempt (bs "/r/d") (bs "d") tree' sn) = bs "001-a.log.1" /\
    has_top (fst (attempt (bs "/r/d") (bs "d") tree' sn)) tree' = true /\
    ~ log_inv (bs "/r/d") (bs "d") tree'.
Proof. exact log_inv_del_refuted. Qed.
Print Assumptions C17_log_del_refuted.

(* the oracles applied to the names util.sh printed mean freshness *)
Theorem C17_oracles_sound : forall date tree step name out,
  (spec_ok_build_id date tree out = true -> fresh_in out tree /\ exists t, out = date ++ t) /\
  (spec_ok_log_id tree step name out = true -> fresh_in out tree).
Proof.
  exact (fun date tree step name out =>
    conj (spec_ok_build_id_fresh date tree out) (spec_ok_log_id_fresh tree step name out)).
Qed.
Print Assumptions C17_oracles_sound.

(* ... and they accept what the models produce: build_id as util.sh has it on
   every tree, log_id on every build directory satisfying the invariant *)
Theorem C17_oracles_complete : forall d start base tree step name,
  spec_ok_build_id d tree (build_id_current d start base tree) = true /\
  (log_inv start base tree -> spec_ok_log_id tree step name (log_id start base tree step name) = true).
Proof.
  exact (fun d start base tree step name =>
    conj (spec_ok_build_id_complete d start base tree) (spec_ok_log_id_complete start base tree step name)).
Qed.
Print Assumptions C17_oracles_complete.

(* non-vacuity: a third attempt of step 12 "bin/ksh" next to other logs, more
   than nine attempts, a name that echo would take for an option *)
Local Open Scope string_scope.
Example C17_example :
  let t := (fresh_builddir ++ [mkent [bs "012-bin-ksh.log"] KFile; mkent [bs "012-bin-ksh.log.1"] KFile;
                               mkent [bs "011-bin-ksh.log"] KFile])%list in
  log_id (bs "/r/d") (bs "d") t 12 (bs "bin/ksh") = bs "012-bin-ksh.log.2" /\
  fst (attempts (bs "/r/d") (bs "d") fresh_builddir
         [(1%nat, bs "a"); (1%nat, bs "a"); (2%nat, bs "-n"); (1%nat, bs "a"); (1000%nat, bs "a/b")]) =
    [bs "001-a.log"; bs "001-a.log.1"; bs "002-.log"; bs "001-a.log.2"; bs "1000-a-b.log"] /\
  gen_build_id_current (bs "2024-03-05") [bs "2024-03-05.1"; bs "2024-03-04.1"; bs "2024-03-05.2"] = bs "2024-03-05.3" /\
  gen_build_id_current (bs "2024-03-05") [bs "2024-03-05.2"; bs "2024-03-05.3"] = bs "2024-03-05.4" /\
  snd (history gen_build_id_current [] [Run (bs "2024-03-05"); Run (bs "2024-03-05");
         Remove [bs "2024-03-05.1"]; Run (bs "2024-03-05")]) =
    [(bs "2024-03-05.1", false); (bs "2024-03-05.2", false); (bs "2024-03-05.3", false)].
Proof. vm_compute. repeat split; reflexivity. Qed.
