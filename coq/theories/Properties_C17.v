(* Properties_C17.v - new invocations and re-run steps never reuse a name.
   Only theorem statements, each closed by [exact] and followed by
   Print Assumptions.

   Models (Inv/NameDefs.v): [build_id] (count+1, as shipped before commit
   70fb0eb), [build_id_fixed] (count+1 advanced to the next free suffix, the
   repair of defect D10), [build_init], [log_id] of util.sh on what find(1)
   sees.  gen/Gen_Util.v, regenerated from util.sh on every run by
   harness/t_util.py, says which of the two build_id bodies util.sh contains
   ([build_id_current], [gen_build_id_current], [build_id_is_fixed]).

   [history gen s ops] runs a sequence of operations [Run date] (a new
   invocation: build_id, then build_init, which takes over an existing
   directory) and [Remove victims] (cleaning, any victims whatsoever) on the
   set of directory names of an invocation root and reports for every run the
   generated name and whether a directory of that name was already there.

   The build_id half is stated at full strength for the code as it is now; it
   stops compiling when the loop is taken out of build_id again (the check
   then also replays C17_regression_count_plus_one_collides's history,
   corpus/C17/00_d10_only_date2.json and 01_d10_three_runs_keep1.json, on the
   real scripts).  The log file half holds in full. *)
From Robsd Require Import Inv.NameSpec Inv.NameProofs Inv.NameTie.
From RobsdGen Require Import Gen_Util.
From Coq Require Import String.
Local Open Scope N_scope.

(* ---- build_id, as util.sh has it now ---- *)

(* whatever the root holds - any entries of any kind at any depth, any gaps,
   more than nine per day, an attic - the name handed out is not the name of
   an entry of the root; for every history of runs and removals (cleaning of
   any victims) starting from any root no run is handed an existing name *)
Theorem C17_build_id_fresh :
  (forall d start base tree, fresh_in (build_id_current d start base tree) tree) /\
  (forall d s, ~ In (gen_build_id_current d s) s) /\
  (forall ops s, no_collision (snd (history gen_build_id_current s ops))).
Proof. exact current_fresh. Qed.
Print Assumptions C17_build_id_fresh.

(* the generator used in the histories is build_id on a root without nested
   matches, newlines in names or a matching root name *)
Theorem C17_build_id_flat : forall d start base names,
  prefixb d base = false -> nlcount start = 0%nat -> Forall (fun n => nlcount n = 0%nat) names ->
  build_id_current d start base (flat_tree names) = gen_build_id_current d names.
Proof. exact current_flat. Qed.
Print Assumptions C17_build_id_flat.

(* the name is still DATE.k, with k above the number of directories of the
   day, and it is the count+1 name wherever that one is free *)
Theorem C17_build_id_named_after_date : forall d start base tree,
  (has_top (build_id d start base tree) tree = false ->
     build_id_current d start base tree = build_id d start base tree) /\
  exists k, build_id_current d start base tree = with_suffix d k /\
            (S (find_lines start base (date_test d) tree) <= k)%nat.
Proof. exact current_conservative. Qed.
Print Assumptions C17_build_id_named_after_date.

(* which body util.sh contains, read by the translator *)
Theorem C17_util_sh_build_id :
  build_id_is_fixed = true /\ build_id_current = build_id_fixed /\ gen_build_id_current = gen_build_id_fixed.
Proof. exact (conj current_is_fixed (conj eq_refl eq_refl)). Qed.
Print Assumptions C17_util_sh_build_id.

Theorem C17_util_sh_log_constants :
  log_pad_width = 3%nat /\ log_ext = dot_log /\ log_dups_threshold = 0%nat.
Proof. exact log_constants. Qed.
Print Assumptions C17_util_sh_log_constants.

(* why it matters: build_init does not notice an existing directory - it is
   taken over with everything in it, and the function reports success *)
Theorem C17_build_init_reuses_silently : forall names,
  fst (build_init (Some names)) = 0 /\
  (forall x, In x names -> In x (snd (build_init (Some names)))) /\
  (forall x, In x (snd (build_init (Some names))) ->
     In x names \/ x = name_tmp \/ x = name_robsd_log \/ x = name_step_csv) /\
  In name_tmp (snd (build_init (Some names))) /\
  In name_robsd_log (snd (build_init (Some names))) /\
  In name_step_csv (snd (build_init (Some names))).
Proof. exact build_init_reuses. Qed.
Print Assumptions C17_build_init_reuses_silently.

(* ---- documented regression (defect D10, repaired in 70fb0eb): the count+1
   generator [build_id]/[gen_build_id] violates the statement.  Two invocations
   on one day, the older one cleaned away (robsd-clean with keep 1 does exactly
   that while the second one runs), a third invocation: it is handed the name
   of the second, which is still there.  The same history is replayed on the
   real scripts by the corpus of the check. ---- *)
Theorem C17_regression_count_plus_one_collides :
  (exists ops, ~ no_collision (snd (history gen_build_id [] ops))) /\
  (let d := bs "2024-03-05" in
   let tree := [mkent [bs "2024-03-05.2"] KDir; mkent [bs "attic"] KDir;
                mkent [bs "attic"; bs "2024"] KDir; mkent [bs "attic"; bs "2024"; bs "03"] KDir;
                mkent [bs "attic"; bs "2024"; bs "03"; bs "05.1"] KDir] in
   build_id d (bs "/r") (bs "r") tree = bs "2024-03-05.2" /\
   has_top (build_id d (bs "/r") (bs "r") tree) tree = true /\
   build_id_fixed d (bs "/r") (bs "r") tree = bs "2024-03-05.3").
Proof. exact count_plus_one_collides. Qed.
Print Assumptions C17_regression_count_plus_one_collides.

(* ---- log_id: holds in full ---- *)

(* for every sequence of attempts (any steps, any names, any number of
   repetitions) in a build directory satisfying the invariant - in particular
   the directory build_init creates - every generated log name is fresh at the
   moment it is generated, the names are pairwise distinct, none of them is a
   name that was there before, and the directory afterwards is the directory
   before plus exactly these files: earlier logs are untouched *)
Theorem C17_log_id_fresh : forall start base tree l,
  log_inv start base tree ->
  fresh_trace start base tree l /\
  NoDup (fst (attempts start base tree l)) /\
  (forall id, In id (fst (attempts start base tree l)) -> fresh_in id tree) /\
  snd (attempts start base tree l) =
    tree ++ map (fun id => mkent [id] KFile) (fst (attempts start base tree l)) /\
  log_inv start base (snd (attempts start base tree l)).
Proof. exact log_id_fresh_all. Qed.
Print Assumptions C17_log_id_fresh.

Theorem C17_log_inv_initial : forall start base,
  log_inv start base fresh_builddir /\
  (forall tree, (forall x k, has_top (with_suffix (x ++ dot_log) k) tree = false) ->
                log_inv start base tree).
Proof. exact (fun start base => conj (log_inv_fresh_builddir start base) (log_inv_no_suffixed start base)). Qed.
Print Assumptions C17_log_inv_initial.

(* the oracles applied to the names util.sh printed mean freshness *)
Theorem C17_oracles_sound : forall date tree step name out,
  (spec_ok_build_id date tree out = true -> fresh_in out tree /\ exists t, out = date ++ t) /\
  (spec_ok_log_id tree step name out = true -> fresh_in out tree).
Proof.
  exact (fun date tree step name out =>
    conj (spec_ok_build_id_fresh date tree out) (spec_ok_log_id_fresh tree step name out)).
Qed.
Print Assumptions C17_oracles_sound.

(* non-vacuity: a third attempt of step 12 "bin/ksh" next to other logs, more
   than nine attempts, a name that echo would take for an option *)
Local Open Scope string_scope.
Example C17_example :
  let t := (fresh_builddir ++ [mkent [bs "012-bin-ksh.log"] KFile; mkent [bs "012-bin-ksh.log.1"] KFile;
                               mkent [bs "011-bin-ksh.log"] KFile])%list in
  log_id (bs "/r/d") (bs "d") t 12 (bs "bin/ksh") = bs "012-bin-ksh.log.2" /\
  fst (attempts (bs "/r/d") (bs "d") fresh_builddir
         [(1%nat, bs "a"); (1%nat, bs "a"); (2%nat, bs "-n"); (1%nat, bs "a"); (1000%nat, bs "a/b")]) =
    [bs "001-a.log"; bs "001-a.log.1"; bs "002-.log"; bs "001-a.log.2"; bs "1000-a-b.log"] /\
  gen_build_id_current (bs "2024-03-05") [bs "2024-03-05.1"; bs "2024-03-04.1"; bs "2024-03-05.2"] = bs "2024-03-05.3" /\
  gen_build_id_current (bs "2024-03-05") [bs "2024-03-05.2"; bs "2024-03-05.3"] = bs "2024-03-05.4" /\
  snd (history gen_build_id_current [] [Run (bs "2024-03-05"); Run (bs "2024-03-05");
         Remove [bs "2024-03-05.1"]; Run (bs "2024-03-05")]) =
    [(bs "2024-03-05.1", false); (bs "2024-03-05.2", false); (bs "2024-03-05.3", false)].
Proof. vm_compute. repeat split; reflexivity. Qed.
