(* Properties_C16.v - cleaning keeps exactly the newest N invocations and
   removes nothing else.  Only theorem statements, each closed by [exact] and
   followed by Print Assumptions.

   [robsd_clean] (Inv/PurgeDefs.v) is the model of robsd-clean + util.sh purge
   on an abstract tree (entries = path below the invocation root + node), with
   the listing model of C15 inside; the whitelist, the +1 compensation, the
   tr characters (util.sh) and the count default, the exit status for retention
   0, the keep-attic value and the messages (robsd-clean) are regenerated from
   the sources (gen/Gen_Util.v).  The specification (Inv/PurgeSpec.v) speaks
   about the tree before, the tree after, the retention [n] = count argument or
   configured keep, and the invocation that is really running ([running], given
   independently of the lock file's spelling).

   Quantifiers: every well-formed tree (any number of invocations, several per
   day, stray files and directories, any attic content), every root string,
   every lock file content, every keep / count / keep-attic, every qsort.

   KEPT SET.  C16_kept_set_total says what the model keeps for EVERY lock file.
   The statement of the property - invocation (tree after) v <-> In v (kept_of
   names running n) - holds under the guard [lock_consistent]
   (C16_kept_set_partial); the guard is discharged for the lock file a new
   invocation writes (C16_lock_consistent_discharged).  Outside the guard, for
   EVERY lock whose first line is not the printed path of an invocation (stale,
   hidden, elsewhere, or the running invocation spelled differently as
   `robsd -r` writes it when robsddir is not canonical) the n-1 newest are kept
   and a running invocation that is not among them is archived
   (C16_kept_set_outside_guard; C16_kept_set_refuted are two witnesses; known
   findings clean-stale-lock-keeps-one-less, clean-lock-spelled-differently).

   ATTIC.  C16_attic_complete_partial: one destination per removed invocation,
   every whitelisted entry outside tmp arrives there with its content, nothing
   else is new - under the guard that the destinations of different
   invocations are apart (C16_attic_names: true for names Y-M-D.X, which is
   what build_id hands out).  C16_attic_complete_refuted: directories named a-a
   and a lose a report.  C16_oracle_accepts_model ties the executable oracle
   that the harness applies to the real robsd-clean to these theorems.

   This claim is PARTIAL in a second sense: the tie runs bash and GNU userland
   behind stand-ins instead of ksh and the BSD userland. *)
From Coq Require Import String.
From Robsd Require Import Inv.PurgeSpec Inv.PurgeProofs Inv.LsProofs Inv.PurgeComplete Inv.PurgeOracle Inv.PurgeTotal Inv.NameDefs.
Local Open Scope N_scope.

(* retention 0 (no count or count 0, and keep 0 or unset): nothing happens *)
Theorem C16_zero_is_noop : forall sortf rootstr keep_conf count ka lock f,
  (keep_conf = 0%nat /\ (count = None \/ count = Some 0%nat)) ->
  robsd_clean sortf rootstr keep_conf count ka lock f = (0, [], f).
Proof.
  exact (fun sortf rootstr keep_conf count ka lock f H =>
    final_zero sortf rootstr f lock keep_conf count ka (proj2 (effective_keep_zero keep_conf count) H)).
Qed.
Print Assumptions C16_zero_is_noop.

(* the kept set: with [names] the invocations newest first, the root afterwards
   holds exactly [kept_of names running n]: the running invocation, if any,
   plus the newest others, n in total or all of them when there are no more *)
Theorem C16_kept_set_partial : forall sortf rootstr f lock running keep_conf count ka,
  sorts sortf -> wf_tree f -> lock_consistent rootstr lock running f ->
  effective_keep keep_conf count <> 0%nat ->
  exists names, newest_first f names /\
    let n := effective_keep keep_conf count in
    let after := snd (robsd_clean sortf rootstr keep_conf count ka lock f) in
    (forall v, invocation after v <-> In v (kept_of names running n)) /\
    length (kept_of names running n) = Nat.min n (length names) /\
    (forall r, running = Some r -> In r (kept_of names running n)) /\
    (forall v, In v (kept_of names running n) -> In v names).
Proof.
  exact (fun sortf rootstr f lock running keep_conf count ka Hs =>
    final_kept_set sortf Hs rootstr f lock running keep_conf count ka).
Qed.
Print Assumptions C16_kept_set_partial.

(* without the guard: (1) three invocations, a lock file naming a directory
   that does not exist, retention 2 - one invocation is left; (2) the lock
   names the running invocation 2024-01-02.1 as /r//2024-01-02.1 while
   robsd-ls prints /r/2024-01-02.1, retention 2 - the running invocation is
   moved to the attic *)
Theorem C16_kept_set_refuted :
  (exists f lock, wf_tree f /\ running_builddir lock = Some (bs "/r/2020-02-02.7") /\
     invocations_desc f = [bs "2024-01-02.3"; bs "2024-01-02.2"; bs "2024-01-02.1"] /\
     invocations_desc (snd (robsd_clean_exec (bs "/r") 2 None true lock f)) = [bs "2024-01-02.3"]) /\
  (exists f lock, wf_tree f /\ running_builddir lock = Some (bs "/r//2024-01-02.1") /\
     invocations_desc f = [bs "2024-01-02.3"; bs "2024-01-02.2"; bs "2024-01-02.1"] /\
     invocations_desc (snd (robsd_clean_exec (bs "/r") 2 None true lock f)) = [bs "2024-01-02.3"]).
Proof. exact kept_set_refuted_witness. Qed.
Print Assumptions C16_kept_set_refuted.

(* removed exactly, nothing else touched, the attic - all relative to the kept
   set above.  [from_victim f' v e]: e is the copy, below attic/YYYY/MM/DD.X,
   of an entry of v outside tmp that is v's directory itself, has a
   whitelisted name, or is a directory with a whitelisted name below it;
   [created_parent]: one of the directories attic, attic/YYYY, attic/YYYY/MM *)
Theorem C16_removed_attic_rest_partial : forall sortf rootstr f lock running keep_conf count ka,
  sorts sortf -> wf_tree f -> lock_consistent rootstr lock running f ->
  effective_keep keep_conf count <> 0%nat ->
  exists names, newest_first f names /\
    let n := effective_keep keep_conf count in
    let kept := kept_of names running n in
    let after := snd (robsd_clean sortf rootstr keep_conf count ka lock f) in
    (* C16_removed_exact: nothing of an invocation that is not kept is left in the root *)
    (forall v e, invocation f v -> ~ In v kept -> In e after -> under [v] (f_path e) = false) /\
    (* C16_nothing_else_touched: every entry outside the attic and outside the
       removed invocations is there before iff it is there after, unchanged;
       nothing new appears outside the attic; with the attic disabled the attic
       is unchanged too *)
    (forall e, under [name_attic] (f_path e) = false ->
               (forall v, invocation f v -> ~ In v kept -> under [v] (f_path e) = false) ->
               (In e after <-> In e f)) /\
    (forall e, In e after -> In e f \/ (ka = true /\ under [name_attic] (f_path e) = true)) /\
    (ka = false -> forall e, under [name_attic] (f_path e) = true -> (In e after <-> In e f)) /\
    (* C16_attic_content *)
    (ka = true ->
       (forall p, has_path p f = true -> under [name_attic] p = true -> has_path p after = true) /\
       (forall v, invocation f v -> ~ In v kept ->
          has_path (attic_dst v) after = true \/ has_path (attic_dst v ++ [v]) after = true) /\
       (forall e, In e after -> under [name_attic] (f_path e) = true ->
          In e f \/ exists v f', (invocation f v /\ ~ In v kept) /\
                                 (created_parent v e \/ from_victim f' v e) /\
                                 (forall x, In x f' -> In x f \/ under [name_attic] (f_path x) = true))).
Proof.
  exact (fun sortf rootstr f lock running keep_conf count ka Hs =>
    final_rest sortf Hs rootstr f lock running keep_conf count ka).
Qed.
Print Assumptions C16_removed_attic_rest_partial.

(* ---- the kept set without any guard: for every lock file the root afterwards
   holds exactly the invocations purge did not select - the listing minus the
   entry whose printed path is the lock's first line, from position n (n+1
   when the lock file has no usable first line) ---- *)
Theorem C16_kept_set_total : forall sortf rootstr f lock keep_conf count ka,
  sorts sortf -> wf_tree f -> effective_keep keep_conf count <> 0%nat ->
  exists names, newest_first f names /\
    let n := effective_keep keep_conf count in
    let after := snd (robsd_clean sortf rootstr keep_conf count ka lock f) in
    forall v, invocation after v <->
              In v names /\ ~ In v (victim_names_total rootstr names (running_builddir lock) n).
Proof.
  exact (fun sortf rootstr f lock keep_conf count ka Hs =>
    kept_set_total sortf Hs rootstr f lock keep_conf count ka).
Qed.
Print Assumptions C16_kept_set_total.

(* outside the guard, for ALL lock files whose first line is not the printed
   path of an invocation of the root: the n-1 newest invocations are left, and
   an invocation r - running or not - that is not among them is gone *)
Theorem C16_kept_set_outside_guard : forall sortf rootstr f lock b keep_conf count ka,
  sorts sortf -> wf_tree f -> effective_keep keep_conf count <> 0%nat ->
  running_builddir lock = Some b -> (forall v, invocation f v -> mkpath rootstr v <> b) ->
  exists names, newest_first f names /\
    let n := effective_keep keep_conf count in
    let after := snd (robsd_clean sortf rootstr keep_conf count ka lock f) in
    (forall v, invocation after v <-> In v (firstn (n - 1) names)) /\
    length (firstn (n - 1) names) = Nat.min (n - 1) (length names).
Proof.
  exact (fun sortf rootstr f lock b keep_conf count ka Hs =>
    kept_set_unlisted_lock sortf Hs rootstr f lock b keep_conf count ka).
Qed.
Print Assumptions C16_kept_set_outside_guard.

(* the guard is met by the producer: robsd computes BUILDDIR as
   "${ROBSDDIR}/$(build_id ...)" and lock_acquire writes that string and a
   newline into .running - exactly the path robsd-ls prints; and by the absence
   of a lock when nothing runs.  (Not met: a lock left behind by a crash, and
   `-r <dir>` with a robsddir that readlink -f respells.) *)
Theorem C16_lock_consistent_discharged : forall rootstr f id,
  (nonl rootstr -> nonul rootstr -> nonl id -> nonul id -> invocation f id ->
   lock_consistent rootstr (lock_written (mkpath rootstr id)) (Some id) f) /\
  lock_consistent rootstr None None f.
Proof.
  exact (fun rootstr f id => conj (lock_consistent_new_invocation rootstr f id) (lock_consistent_no_lock rootstr f)).
Qed.
Print Assumptions C16_lock_consistent_discharged.

(* ---- the attic holds AT LEAST the whitelisted content, with the content: there
   is one destination [B v] per removed invocation v - attic/Y/M/D.X, or
   attic/Y/M/D.X/v when that directory existed - which is a directory
   afterwards; every entry of v outside v/tmp whose name is on the whitelist
   (and v's directory itself) is afterwards at B v ++ <its path below v> with
   the same node, i.e. the same file content; every new attic entry is a
   created parent or such a copy, at that same destination ---- *)
Theorem C16_attic_complete_partial : forall sortf rootstr f lock running keep_conf count,
  sorts sortf -> wf_tree f -> lock_consistent rootstr lock running f ->
  effective_keep keep_conf count <> 0%nat ->
  (forall v w, invocation f v -> invocation f w -> v <> w -> apart v w) ->
  exists names B, newest_first f names /\
    let n := effective_keep keep_conf count in
    let kept := kept_of names running n in
    let after := snd (robsd_clean sortf rootstr keep_conf count true lock f) in
    (forall v, B v = attic_dst v \/ B v = attic_dst v ++ [v]) /\
    (forall v e0, invocation f v -> ~ In v kept -> In e0 f ->
       under [v] (f_path e0) = true -> under [v; name_tmp] (f_path e0) = false ->
       (f_path e0 = [v] \/ spec_whitelisted (basename (f_path e0)) = true) ->
       In (mkfs (B v ++ skipn 1 (f_path e0)) (f_node e0)) after) /\
    (forall v, invocation f v -> ~ In v kept -> is_dir_at (B v) after = true) /\
    (forall e, In e after -> under [name_attic] (f_path e) = true ->
       In e f \/ exists v, (invocation f v /\ ~ In v kept) /\
                           (created_parent v e \/ from_victim_at (B v) f v e)).
Proof.
  exact (fun sortf rootstr f lock running keep_conf count Hs =>
    final_attic_complete sortf Hs rootstr f lock running keep_conf count).
Qed.
Print Assumptions C16_attic_complete_partial.

(* without the guard: invocation directories named a-a and a (destinations
   attic/a/a and attic/a), retention 1, a newer z: the report of a-a is
   nowhere afterwards, attic/a/a/report is the one of a *)
Theorem C16_attic_complete_refuted :
  exists f, wf_tree f /\
    In (mkfs [bs "a-a"; bs "report"] (FFile (bs "1"))) f /\
    let after := snd (robsd_clean_exec (bs "/r") 1 None true None f) in
    invocations_desc after = [bs "z"] /\
    forallb (fun e => negb (node_beq (f_node e) (FFile (bs "1")))) after = true /\
    ent_in (mkfs [bs "attic"; bs "a"; bs "a"; bs "report"] (FFile (bs "2"))) after = true /\
    spec_ok_clean None 1 true 0 f after = false.
Proof. exact attic_complete_refuted. Qed.
Print Assumptions C16_attic_complete_refuted.

(* YYYY-MM-DD.X -> attic/YYYY/MM/DD.X for every name Y-M-D of three non-empty
   parts free of '-' and '/'; two different such names have destinations that
   are apart; the names build_id hands out on a date Y-M-D are of that form *)
Theorem C16_attic_names :
  (forall y m d, dashfree y -> dashfree m -> dashfree d ->
     attic_dst (y ++ 45 :: m ++ 45 :: d) = [name_attic; y; m; d]) /\
  (forall v w, date_shaped v -> date_shaped w -> v <> w -> apart v w) /\
  (forall y m d k, dashfree y -> dashfree m -> dashfree d ->
     date_shaped (with_suffix (y ++ 45 :: m ++ 45 :: d) k)).
Proof. exact (conj attic_dst_date (conj date_shaped_apart date_shaped_with_suffix)). Qed.
Print Assumptions C16_attic_names.

(* ---- the oracle the harness applies to the trees the real robsd-clean leaves
   behind accepts every result of the model: kept set, removed exactly, nothing
   else touched, attic content sound and complete, retention 0 a no-op.  Attic
   clauses: for invocation names Y-M-D and no entry v/v/tmp/... ---- *)
Theorem C16_oracle_accepts_model : forall sortf rootstr f lock running keep_conf count ka,
  sorts sortf -> wf_tree f -> lock_consistent rootstr lock running f ->
  (ka = true -> forall v, invocation f v -> date_shaped v) ->
  (ka = true -> no_nested_tmp f) ->
  let r := robsd_clean sortf rootstr keep_conf count ka lock f in
  spec_ok_clean running (effective_keep keep_conf count) ka (fst (fst r)) f (snd r) = true.
Proof.
  exact (fun sortf rootstr f lock running keep_conf count ka Hs =>
    oracle_accepts_model sortf Hs rootstr f lock running keep_conf count ka).
Qed.
Print Assumptions C16_oracle_accepts_model.

(* the second guard is needed by the ORACLE, not by the model: v/v/tmp/report
   is preserved by purge and the oracle takes its copy for a copy of v/tmp *)
Theorem C16_oracle_nested_tmp_refuted :
  exists f, wf_tree f /\ ~ no_nested_tmp f /\
    spec_ok_clean None 1 true 0 f (snd (robsd_clean_exec (bs "/r") 1 None true None f)) = false.
Proof. exact oracle_nested_tmp_rejected. Qed.
Print Assumptions C16_oracle_nested_tmp_refuted.

(* qsort does not matter: every sorting function gives what the driver runs *)
Theorem C16_any_qsort : forall sortf rootstr keep_conf count ka lock f,
  sorts sortf -> wf_tree f ->
  robsd_clean sortf rootstr keep_conf count ka lock f = robsd_clean_exec rootstr keep_conf count ka lock f.
Proof. exact robsd_clean_any_qsort. Qed.
Print Assumptions C16_any_qsort.

(* the tables read out of util.sh are the documented ones: report, comment,
   tags, step and stat files, patches (*.diff.*), index; +1 when not running;
   YYYY-MM-DD.X -> YYYY/MM/DD.X *)
Theorem C16_util_sh_tables :
  purge_whitelist_patterns_text =
    [bs "*.diff.*"; bs "comment"; bs "index.txt"; bs "report"; bs "stat.csv"; bs "step.csv"; bs "tags"] /\
  purge_not_running_compensation = 1%nat /\
  purge_attic_tr_from = 45 /\ purge_attic_tr_to = 47 /\
  attic_dst (bs "2024-01-02.3") = [bs "attic"; bs "2024"; bs "01"; bs "02.3"] /\
  (forall n, whitelisted n = true <->
     (exists a b, n = a ++ bs ".diff." ++ b) \/
     In n [bs "comment"; bs "index.txt"; bs "report"; bs "stat.csv"; bs "step.csv"; bs "tags"]).
Proof. exact tables_documented. Qed.
Print Assumptions C16_util_sh_tables.

(* what the translator reads out of the robsd-clean script: _keep="${1:-0}", 0
   falls back to ${keep}, still 0 exits 0; keep-attic 1 selects purge (move to
   the attic), anything else purge -d + rm -rf; the messages *)
Theorem C16_robsd_clean_script :
  (clean_count_default = 0%nat /\ clean_zero_exit = 0 /\ clean_attic_value = 1%nat /\
   clean_msg_moving = msg_moving /\ clean_msg_to = msg_to /\ clean_msg_removing = msg_removing) /\
  (forall keep_conf count, effective_keep keep_conf count =
     let k := match count with Some c => c | None => clean_count_default end in
     if Nat.eqb k clean_count_default then keep_conf else k).
Proof. exact (conj clean_script_tie effective_keep_script). Qed.
Print Assumptions C16_robsd_clean_script.

(* non-vacuity: four invocations, the second newest running, retention 2, attic
   enabled, stray entries, earlier attic content *)
Local Open Scope string_scope.
Example C16_example :
  let f := [mkfs [bs "2024-01-02.1"] FDir; mkfs [bs "2024-01-02.1"; bs "report"] (FFile (bs "r1"));
            mkfs [bs "2024-01-02.1"; bs "001-a.log"] (FFile (bs "l"));
            mkfs [bs "2024-01-02.1"; bs "tmp"] FDir; mkfs [bs "2024-01-02.1"; bs "tmp"; bs "report"] (FFile (bs "t"));
            mkfs [bs "2024-01-02.1"; bs "rel"] FDir; mkfs [bs "2024-01-02.1"; bs "rel"; bs "index.txt"] (FFile (bs "i"));
            mkfs [bs "2024-01-02.1"; bs "rel"; bs "bsd.rd"] (FFile (bs "b"));
            mkfs [bs "2024-01-02.2"] FDir; mkfs [bs "2024-01-02.2"; bs "step.csv"] (FFile (bs "s"));
            mkfs [bs "2024-01-02.9"] FDir; mkfs [bs "2024-01-02.10"] FDir;
            mkfs [bs "stray"] (FFile (bs "x")); mkfs [bs "attic"] FDir; mkfs [bs "attic"; bs "note"] (FFile (bs "n"))] in
  let lock := Some (bs "/r/2024-01-02.10
") in
  let after := snd (robsd_clean_exec (bs "/r") 2 None true lock f) in
  invocations_desc f = [bs "2024-01-02.9"; bs "2024-01-02.2"; bs "2024-01-02.10"; bs "2024-01-02.1"] /\
  invocations_desc after = [bs "2024-01-02.9"; bs "2024-01-02.10"] /\
  spec_ok_clean (Some (bs "2024-01-02.10")) 2 true 0 f after = true /\
  ent_in (mkfs [bs "attic"; bs "2024"; bs "01"; bs "02.1"; bs "rel"; bs "index.txt"] (FFile (bs "i"))) after = true /\
  has_path [bs "attic"; bs "2024"; bs "01"; bs "02.1"; bs "rel"; bs "bsd.rd"] after = false /\
  has_path [bs "attic"; bs "2024"; bs "01"; bs "02.1"; bs "tmp"] after = false /\
  ent_in (mkfs [bs "stray"] (FFile (bs "x"))) after = true.
Proof. vm_compute. repeat split; reflexivity. Qed.
