(* Properties_C16.v - cleaning keeps exactly the newest N invocations and
   removes nothing else.  Only theorem statements, each closed by [exact] and
   followed by Print Assumptions.

   [robsd_clean_x] (Inv/PurgeDefs.v) is the model of robsd-clean + util.sh purge
   on an abstract tree (entries = path below the invocation root + node), with
   the listing model of C15 inside and WITH the failures of mkdir and cp: when
   attic, attic/YYYY, attic/YYYY/MM or the destination is something else than
   a directory the loop of purge ends there (set -e in a pipeline), the victim
   stays in the root without its logs and robsd-clean exits 0.  This is the
   function the driver runs against the real script.  The whitelist, the +1
   compensation, the tr characters (util.sh) and the count default, the exit
   status for retention 0, the keep-attic value and the messages (robsd-clean)
   are regenerated from the sources (gen/Gen_Util.v).  The specification
   (Inv/PurgeSpec.v) speaks about the tree before, the tree after, the
   retention [n] = count argument or configured keep, and the invocation that
   is really running ([running], given independently of the lock file).

   Quantifiers: every well-formed tree (any number of invocations, several per
   day, stray files and directories, any attic content), every root string,
   every lock file content, every keep / count / keep-attic, every qsort.

   GUARDS, each with a witness outside it:
   [completes] - every victim reaches the attic.  Discharged whenever the places
   where the attic directories go hold directories or nothing
   (C16_completes_when_attic_clear); outside: C16_attic_blocked_refuted, and
   what still holds then: C16_always.
   [lock_consistent] - the lock file names the running invocation by the path
   robsd-ls prints.  Discharged for the lock lock_acquire writes
   (C16_lock_consistent_discharged); outside: C16_kept_set_outside_guard,
   C16_kept_set_refuted (known findings clean-stale-lock-keeps-one-less,
   clean-lock-spelled-differently).
   NEWEST.  The property says "the newest N".  The code keeps the N greatest
   NAMES (byte order).  With the invocations listed by AGE the statement holds
   exactly when that list descends by name (C16_newest_by_age_partial); this is
   so in every state reachable by runs and cleaning on a day with at most nine
   invocations, build_id being the third body (C16_newest_are_most_recent, over
   Inv/NameMono.v); it fails from the tenth invocation of a day on
   (C16_newest_is_name_order_refuted; known finding newest-is-name-order-not-age).
   [apart] / date-shaped names for the attic clauses (C16_attic_names,
   C16_names_are_date_shaped: true for what build_id hands out;
   C16_attic_complete_refuted: a-a and a).

   This claim is PARTIAL in a second sense: the tie runs bash and GNU userland
   behind stand-ins instead of ksh and the BSD userland. *)
From Coq Require Import String.
From Robsd Require Import Inv.PurgeSpec Inv.PurgeProofs Inv.LsProofs Inv.PurgeComplete Inv.PurgeOracle Inv.PurgeTotal
  Inv.NameDefs Inv.PurgeBlocked Inv.PurgeFaithful Inv.NameMono Inv.NameTie Inv.LockSrc Inv.LockTie Inv.NameNewDefs.
From RobsdGen Require Import Gen_Util.
Local Open Scope N_scope.

(* retention 0 (no count or count 0, and keep 0 or unset): nothing happens *)
Theorem C16_zero_is_noop : forall sortf rootstr keep_conf count ka lock f,
  (keep_conf = 0%nat /\ (count = None \/ count = Some 0%nat)) ->
  robsd_clean_x sortf rootstr keep_conf count ka lock f = (0, [], f).
Proof.
  exact (fun sortf rootstr keep_conf count ka lock f H =>
    final_zero_x sortf rootstr f lock keep_conf count ka (proj2 (effective_keep_zero keep_conf count) H)).
Qed.
Print Assumptions C16_zero_is_noop.

(* the kept set, "newest" read as the code reads it (greatest name): with
   [names] the invocations in descending name order, the root afterwards holds
   exactly [kept_of names running n]: the running invocation, if any, plus the
   first others, n in total or all of them when there are no more *)
Theorem C16_kept_set_partial : forall sortf rootstr f lock running keep_conf count ka,
  sorts sortf -> wf_tree f -> lock_consistent rootstr lock running f ->
  effective_keep keep_conf count <> 0%nat ->
  (ka = true -> completes sortf rootstr keep_conf count lock f) ->
  exists names, newest_first f names /\
    let n := effective_keep keep_conf count in
    let after := snd (robsd_clean_x sortf rootstr keep_conf count ka lock f) in
    (forall v, invocation after v <-> In v (kept_of names running n)) /\
    length (kept_of names running n) = Nat.min n (length names) /\
    (forall r, running = Some r -> In r (kept_of names running n)) /\
    (forall v, In v (kept_of names running n) -> In v names).
Proof.
  exact (fun sortf rootstr f lock running keep_conf count ka Hs =>
    final_kept_set_x sortf Hs rootstr f lock running keep_conf count ka).
Qed.
Print Assumptions C16_kept_set_partial.

(* NEWEST = most recently created.  [ages] lists the invocations by age, newest
   first (age_list: exactly the invocations, each once).  Under the guard that
   this list descends by name the root afterwards holds the running invocation
   plus the most recently created others, n in total *)
Theorem C16_newest_by_age_partial : forall sortf rootstr f lock running keep_conf count ka ages,
  sorts sortf -> wf_tree f -> lock_consistent rootstr lock running f ->
  effective_keep keep_conf count <> 0%nat ->
  (ka = true -> completes sortf rootstr keep_conf count lock f) ->
  age_list f ages -> StronglySorted (fun a b => blt b a) ages ->
  let n := effective_keep keep_conf count in
  let after := snd (robsd_clean_x sortf rootstr keep_conf count ka lock f) in
  (forall v, invocation after v <-> In v (kept_of ages running n)) /\
  length (kept_of ages running n) = Nat.min n (length ages).
Proof. exact kept_by_age. Qed.
Print Assumptions C16_newest_by_age_partial.

(* outside that guard: the second ... tenth invocation of 2024-03-05 finished,
   the eleventh running (consistent lock), retention 9, every victim archived.
   By age the tenth is kept and the second goes; the code archives the tenth -
   the newest finished invocation, its report is in attic/2024/03/05.10 - and
   keeps the second.  The age oracle rejects the result, the name-order oracle
   accepts it.  Replayed: findings/D23_build_id_monotone.md (b),
   corpus/C16/10_tenth_of_a_day_keep9.json.  Second part: the smallest instance
   (ninth and tenth, nothing running, retention 1: the tenth is archived) *)
Theorem C16_newest_is_name_order_refuted :
  (let after := snd (robsd_clean_x_exec (bs "/r") 9 None true tenth_lock tenth_tree) in
   wf_tree tenth_tree /\ age_list tenth_tree tenth_ages /\
   lock_consistent (bs "/r") tenth_lock (Some (bs "2024-03-05.11")) tenth_tree /\
   completes isort (bs "/r") 9 None tenth_lock tenth_tree /\
   ~ StronglySorted (fun a b => blt b a) tenth_ages /\
   In (bs "2024-03-05.10") (kept_of tenth_ages (Some (bs "2024-03-05.11")) 9) /\
   ~ In (bs "2024-03-05.2") (kept_of tenth_ages (Some (bs "2024-03-05.11")) 9) /\
   invocation_b after (bs "2024-03-05.10") = false /\
   invocation_b after (bs "2024-03-05.2") = true /\
   ent_in (mkfs [bs "attic"; bs "2024"; bs "03"; bs "05.10"; bs "report"] (FFile (bs "report of run 10"))) after = true /\
   spec_ok_clean_age tenth_ages (Some (bs "2024-03-05.11")) 9 true 0 tenth_tree after = false /\
   spec_ok_clean (Some (bs "2024-03-05.11")) 9 true 0 tenth_tree after = true) /\
  (let f := day_dirs ["9"%string; "10"%string] in
   let ages := [bs "2024-03-05.10"; bs "2024-03-05.9"] in
   let after := snd (robsd_clean_x_exec (bs "/r") 1 None true None f) in
   wf_tree f /\ age_list f ages /\ kept_of ages None 1 = [bs "2024-03-05.10"] /\
   invocations_desc after = [bs "2024-03-05.9"] /\
   spec_ok_clean_age ages None 1 true 0 f after = false).
Proof. exact (conj newest_is_name_order_witness newest_is_name_order_small). Qed.
Print Assumptions C16_newest_is_name_order_refuted.

(* inside the guard by construction: every state reached from a root whose
   invocations are older than the day (names below DATE.) by runs (build_id =
   largest suffix in use + 1, then build_init) and cleanings (robsd_clean_x with
   any keep / count / keep-attic, while the latest invocation runs or while
   nothing runs), at most nine runs: the invocations by AGE - those born today
   in reverse order of birth, then the older ones - are the invocations in
   descending name order, and a further cleaning keeps the running one plus the
   most recently created *)
Theorem C16_newest_are_most_recent : forall rootstr d start base f0 y m dd,
  nonl rootstr -> nonul rootstr -> d = y ++ 45 :: m ++ 45 :: dd ->
  dashfree y -> dashfree m -> (dashfree dd /\ ~ In 46 dd /\ nonl d /\ nonul d) -> hidden d = false ->
  wf_tree f0 ->
  (forall e x, In e f0 -> f_path e = [x] -> prefixb (d ++ [46]) x = false) ->
  (forall v, invocation f0 v -> blt v (d ++ [46])) ->
  forall ops kc cnt ka during,
  (runs_of ops <= 9)%nat -> effective_keep kc cnt <> 0%nat ->
  let st := hrun rootstr d start base f0 ops in
  let lock := hlock rootstr (snd st) during in
  let running := hrunning (snd st) during in
  (ka = true -> completes isort rootstr kc cnt lock (fst st)) ->
  let n := effective_keep kc cnt in
  let after := snd (robsd_clean_x_exec rootstr kc cnt ka lock (fst st)) in
  let ages := ages_of f0 (fst st) (snd st) in
  ages = invocations_desc (fst st) /\
  (forall v, invocation after v <-> In v (kept_of ages running n)) /\
  length (kept_of ages running n) = Nat.min n (length ages).
Proof.
  exact (fun rootstr d start base f0 y m dd H1 H2 H3 H4 H5 H6 H7 H8 H9 H10 ops kc cnt ka during Hn Hne Hc =>
    conj (proj2 (proj2 (reach_ages rootstr d start base f0 H1 H2 y m dd H3 H4 H5 H6 H7 H8 H9 H10 ops Hn)))
         (kept_most_recent rootstr d start base f0 H1 H2 y m dd H3 H4 H5 H6 H7 H8 H9 H10 ops kc cnt ka during Hn Hne Hc)).
Qed.
Print Assumptions C16_newest_are_most_recent.

(* without the lock guard: (1) three invocations, a lock file naming a directory
   that does not exist, retention 2 - one invocation is left; (2) the lock
   names the running invocation 2024-01-02.1 as /r//2024-01-02.1 while
   robsd-ls prints /r/2024-01-02.1, retention 2 - the running invocation is
   moved to the attic *)
Theorem C16_kept_set_refuted :
  (exists f lock, wf_tree f /\ running_builddir lock = Some (bs "/r/2020-02-02.7") /\
     invocations_desc f = [bs "2024-01-02.3"; bs "2024-01-02.2"; bs "2024-01-02.1"] /\
     invocations_desc (snd (robsd_clean_x_exec (bs "/r") 2 None true lock f)) = [bs "2024-01-02.3"]) /\
  (exists f lock, wf_tree f /\ running_builddir lock = Some (bs "/r//2024-01-02.1") /\
     invocations_desc f = [bs "2024-01-02.3"; bs "2024-01-02.2"; bs "2024-01-02.1"] /\
     invocations_desc (snd (robsd_clean_x_exec (bs "/r") 2 None true lock f)) = [bs "2024-01-02.3"]).
Proof. exact kept_set_refuted_witness_x. Qed.
Print Assumptions C16_kept_set_refuted.

(* removed exactly, nothing else touched, the attic - all relative to the kept
   set above.  [from_victim f' v e]: e is the copy, below attic/YYYY/MM/DD.X,
   of an entry of v outside tmp that is v's directory itself, has a
   whitelisted name, or is a directory with a whitelisted name below it;
   [created_parent]: one of the directories attic, attic/YYYY, attic/YYYY/MM *)
Theorem C16_removed_attic_rest_partial : forall sortf rootstr f lock running keep_conf count ka,
  sorts sortf -> wf_tree f -> lock_consistent rootstr lock running f ->
  effective_keep keep_conf count <> 0%nat ->
  (ka = true -> completes sortf rootstr keep_conf count lock f) ->
  exists names, newest_first f names /\
    let n := effective_keep keep_conf count in
    let kept := kept_of names running n in
    let after := snd (robsd_clean_x sortf rootstr keep_conf count ka lock f) in
    (* C16_removed_exact: nothing of an invocation that is not kept is left in the root *)
    (forall v e, invocation f v -> ~ In v kept -> In e after -> under [v] (f_path e) = false) /\
    (* C16_nothing_else_touched: every entry outside the attic and outside the
       removed invocations is there before iff it is there after, unchanged;
       nothing new appears outside the attic; with the attic disabled the attic
       is unchanged too *)
    (forall e, under [name_attic] (f_path e) = false ->
               (forall v, invocation f v -> ~ In v kept -> under [v] (f_path e) = false) ->
               (In e after <-> In e f)) /\
    (forall e, In e after -> In e f \/ (ka = true /\ under [name_attic] (f_path e) = true)) /\
    (ka = false -> forall e, under [name_attic] (f_path e) = true -> (In e after <-> In e f)) /\
    (* C16_attic_content *)
    (ka = true ->
       (forall p, has_path p f = true -> under [name_attic] p = true -> has_path p after = true) /\
       (forall v, invocation f v -> ~ In v kept ->
          has_path (attic_dst v) after = true \/ has_path (attic_dst v ++ [v]) after = true) /\
       (forall e, In e after -> under [name_attic] (f_path e) = true ->
          In e f \/ exists v f', (invocation f v /\ ~ In v kept) /\
                                 (created_parent v e \/ from_victim f' v e) /\
                                 (forall x, In x f' -> In x f \/ under [name_attic] (f_path x) = true))).
Proof.
  exact (fun sortf rootstr f lock running keep_conf count ka Hs =>
    final_rest_x sortf Hs rootstr f lock running keep_conf count ka).
Qed.
Print Assumptions C16_removed_attic_rest_partial.

(* ---- [completes]: met whenever, for every invocation v, nothing but
   directories (or nothing at all) sits at attic, attic/YYYY, attic/YYYY/MM and
   attic/YYYY/MM/DD.X - for names of the shape Y-M-D ---- *)
Theorem C16_completes_when_attic_clear : forall sortf rootstr f lock running keep_conf count,
  sorts sortf -> wf_tree f -> lock_consistent rootstr lock running f ->
  (forall v, invocation f v -> date_shaped v) ->
  (forall v p, invocation f v -> attic_path_of v p -> nondir_at p f = false) ->
  completes sortf rootstr keep_conf count lock f.
Proof.
  exact (fun sortf rootstr f lock running keep_conf count Hs =>
    completes_when_clear sortf Hs rootstr f lock running keep_conf count).
Qed.
Print Assumptions C16_completes_when_attic_clear.

(* outside: a plain file attic/2024, `robsd-clean 1` on three invocations.  Exit
   status 0, no message; all three invocations are still in the root; the first
   victim has lost its log and its tmp and kept its report; the second victim is
   untouched; the file is untouched; the oracle rejects.  Replayed on the real
   script, corpus/C16/20_attic_year_is_a_file.json *)
Theorem C16_attic_blocked_refuted :
  let r := robsd_clean_x_exec (bs "/r") 0 (Some 1%nat) true None blocked_tree in
  wf_tree blocked_tree /\ ~ completes isort (bs "/r") 0 (Some 1%nat) None blocked_tree /\
  fst r = (0, []) /\
  invocations_desc (snd r) = [bs "2024-01-02.3"; bs "2024-01-02.2"; bs "2024-01-02.1"] /\
  has_path [bs "2024-01-02.2"; bs "001-a.log"] (snd r) = false /\
  has_path [bs "2024-01-02.2"; bs "tmp"] (snd r) = false /\
  ent_in (mkfs [bs "2024-01-02.2"; bs "report"] (FFile (bs "r2"))) (snd r) = true /\
  ent_in (mkfs [bs "2024-01-02.1"; bs "001-a.log"] (FFile (bs "l1"))) (snd r) = true /\
  ent_in (mkfs [bs "attic"; bs "2024"] (FFile (bs "not a directory"))) (snd r) = true /\
  spec_ok_clean None 1 true 0 blocked_tree (snd r) = false.
Proof. exact attic_blocked_witness. Qed.
Print Assumptions C16_attic_blocked_refuted.

(* what holds for EVERY tree, lock and retention, blocked or not: exit status
   0; nothing new outside the attic; nothing outside the attic and outside the
   victims is removed or changed *)
Theorem C16_always : forall sortf rootstr keep_conf count ka lock f,
  let after := snd (robsd_clean_x sortf rootstr keep_conf count ka lock f) in
  let vs := victim_list sortf rootstr keep_conf count lock f in
  fst (fst (robsd_clean_x sortf rootstr keep_conf count ka lock f)) = 0 /\
  (forall e, In e after -> In e f \/ (ka = true /\ under [name_attic] (f_path e) = true)) /\
  (forall e, In e f -> under [name_attic] (f_path e) = false ->
             (forall v, In v vs -> under [v] (f_path e) = false) -> In e after).
Proof. exact clean_x_always. Qed.
Print Assumptions C16_always.

(* existing attic content: every entry that was below the attic and not at or
   below the destination of a removed invocation is still there afterwards with
   the same node - the same bytes *)
Theorem C16_old_attic_content_preserved : forall sortf rootstr f lock running keep_conf count,
  sorts sortf -> wf_tree f -> lock_consistent rootstr lock running f ->
  effective_keep keep_conf count <> 0%nat ->
  completes sortf rootstr keep_conf count lock f ->
  exists names, newest_first f names /\
    let kept := kept_of names running (effective_keep keep_conf count) in
    let after := snd (robsd_clean_x sortf rootstr keep_conf count true lock f) in
    forall e, In e f -> under [name_attic] (f_path e) = true ->
      (forall v, invocation f v -> ~ In v kept -> under (attic_dst v) (f_path e) = false) ->
      In e after.
Proof.
  exact (fun sortf rootstr f lock running keep_conf count Hs =>
    old_attic_preserved sortf Hs rootstr f lock running keep_conf count).
Qed.
Print Assumptions C16_old_attic_content_preserved.

(* ---- the kept set without the lock guard: for every lock file the root
   afterwards holds exactly the invocations purge did not select - the listing
   minus the entry whose printed path is the lock's first line, from position n
   (n+1 when the lock file has no usable first line) ---- *)
Theorem C16_kept_set_total : forall sortf rootstr f lock keep_conf count ka,
  sorts sortf -> wf_tree f -> effective_keep keep_conf count <> 0%nat ->
  (ka = true -> completes sortf rootstr keep_conf count lock f) ->
  exists names, newest_first f names /\
    let n := effective_keep keep_conf count in
    let after := snd (robsd_clean_x sortf rootstr keep_conf count ka lock f) in
    forall v, invocation after v <->
              In v names /\ ~ In v (victim_names_total rootstr names (running_builddir lock) n).
Proof.
  exact (fun sortf rootstr f lock keep_conf count ka Hs =>
    kept_set_total_x sortf Hs rootstr f lock keep_conf count ka).
Qed.
Print Assumptions C16_kept_set_total.

(* outside the guard, for ALL lock files whose first line is not the printed
   path of an invocation of the root: the n-1 first invocations are left, and
   an invocation r - running or not - that is not among them is gone *)
Theorem C16_kept_set_outside_guard : forall sortf rootstr f lock b keep_conf count ka,
  sorts sortf -> wf_tree f -> effective_keep keep_conf count <> 0%nat ->
  (ka = true -> completes sortf rootstr keep_conf count lock f) ->
  running_builddir lock = Some b -> (forall v, invocation f v -> mkpath rootstr v <> b) ->
  exists names, newest_first f names /\
    let n := effective_keep keep_conf count in
    let after := snd (robsd_clean_x sortf rootstr keep_conf count ka lock f) in
    (forall v, invocation after v <-> In v (firstn (n - 1) names)) /\
    length (firstn (n - 1) names) = Nat.min (n - 1) (length names).
Proof.
  exact (fun sortf rootstr f lock b keep_conf count ka Hs =>
    kept_set_unlisted_lock_x sortf Hs rootstr f lock b keep_conf count ka).
Qed.
Print Assumptions C16_kept_set_outside_guard.

(* the lock guard is met by the producer: robsd computes BUILDDIR as
   "${ROBSDDIR}/$(build_id ...)" and lock_acquire - the function whose
   statements are read out of util.sh (Inv/LockTie.v) - leaves exactly
   [lock_written] of that string in .running: the path robsd-ls prints; and by
   the absence of a lock when nothing runs.  (Not met: a lock left behind by a
   crash, and `-r <dir>` with a robsddir that readlink -f respells.) *)
Theorem C16_lock_consistent_discharged : forall rootstr f id,
  (nonl rootstr -> nonul rootstr -> nonl id -> nonul id -> invocation f id ->
   lock_consistent rootstr (lock_written (mkpath rootstr id)) (Some id) f) /\
  lock_consistent rootstr None None f /\
  (forall root, snd (run_lock lock_acquire_src root None (mkpath rootstr id)) = lock_written (mkpath rootstr id)).
Proof.
  exact (fun rootstr f id => conj (lock_consistent_new_invocation rootstr f id)
           (conj (lock_consistent_no_lock rootstr f)
                 (fun root => eq_trans (f_equal snd (lock_acquire_is_source root None (mkpath rootstr id)))
                                       (lock_written_is_acquire (mkpath rootstr id))))).
Qed.
Print Assumptions C16_lock_consistent_discharged.

(* ---- the attic holds AT LEAST the whitelisted content, with the content: there
   is one destination [B v] per removed invocation v - attic/Y/M/D.X, or
   attic/Y/M/D.X/v when that directory existed - which is a directory
   afterwards; every entry of v outside v/tmp whose name is on the whitelist
   (and v's directory itself) is afterwards at B v ++ <its path below v> with
   the same node, i.e. the same file content; every new attic entry is a
   created parent or such a copy, at that same destination ---- *)
Theorem C16_attic_complete_partial : forall sortf rootstr f lock running keep_conf count,
  sorts sortf -> wf_tree f -> lock_consistent rootstr lock running f ->
  effective_keep keep_conf count <> 0%nat ->
  completes sortf rootstr keep_conf count lock f ->
  (forall v w, invocation f v -> invocation f w -> v <> w -> apart v w) ->
  exists names B, newest_first f names /\
    let n := effective_keep keep_conf count in
    let kept := kept_of names running n in
    let after := snd (robsd_clean_x sortf rootstr keep_conf count true lock f) in
    (forall v, B v = attic_dst v \/ B v = attic_dst v ++ [v]) /\
    (forall v e0, invocation f v -> ~ In v kept -> In e0 f ->
       under [v] (f_path e0) = true -> under [v; name_tmp] (f_path e0) = false ->
       (f_path e0 = [v] \/ spec_whitelisted (basename (f_path e0)) = true) ->
       In (mkfs (B v ++ skipn 1 (f_path e0)) (f_node e0)) after) /\
    (forall v, invocation f v -> ~ In v kept -> is_dir_at (B v) after = true) /\
    (forall e, In e after -> under [name_attic] (f_path e) = true ->
       In e f \/ exists v, (invocation f v /\ ~ In v kept) /\
                           (created_parent v e \/ from_victim_at (B v) f v e)).
Proof.
  exact (fun sortf rootstr f lock running keep_conf count Hs =>
    final_attic_complete_x sortf Hs rootstr f lock running keep_conf count).
Qed.
Print Assumptions C16_attic_complete_partial.

(* without the guard: invocation directories named a-a and a (destinations
   attic/a/a and attic/a), retention 1, a newer z: the report of a-a is
   nowhere afterwards, attic/a/a/report is the one of a *)
Theorem C16_attic_complete_refuted :
  exists f, wf_tree f /\
    In (mkfs [bs "a-a"; bs "report"] (FFile (bs "1"))) f /\
    let after := snd (robsd_clean_x_exec (bs "/r") 1 None true None f) in
    invocations_desc after = [bs "z"] /\
    forallb (fun e => negb (node_beq (f_node e) (FFile (bs "1")))) after = true /\
    ent_in (mkfs [bs "attic"; bs "a"; bs "a"; bs "report"] (FFile (bs "2"))) after = true /\
    spec_ok_clean None 1 true 0 f after = false.
Proof. exact attic_complete_refuted_x. Qed.
Print Assumptions C16_attic_complete_refuted.

(* YYYY-MM-DD.X -> attic/YYYY/MM/DD.X for every name Y-M-D of three non-empty
   parts free of '-' and '/'; two different such names have destinations that
   are apart *)
Theorem C16_attic_names :
  (forall y m d, dashfree y -> dashfree m -> dashfree d ->
     attic_dst (y ++ 45 :: m ++ 45 :: d) = [name_attic; y; m; d]) /\
  (forall v w, date_shaped v -> date_shaped w -> v <> w -> apart v w).
Proof. exact (conj attic_dst_date date_shaped_apart). Qed.
Print Assumptions C16_attic_names.

(* ... and the name build_id (as util.sh has it) hands out on a date Y-M-D, in
   any root, is of that shape *)
Theorem C16_names_are_date_shaped : forall y m dd start base tree,
  dashfree y -> dashfree m -> dashfree dd ->
  date_shaped (build_id_current (y ++ 45 :: m ++ 45 :: dd) start base tree).
Proof.
  exact (fun y m dd start base tree Hy Hm Hd =>
    eq_ind_r date_shaped (date_shaped_with_suffixN y m dd _ Hy Hm Hd)
             (proj1 (proj2 (current_above (y ++ 45 :: m ++ 45 :: dd) start base tree)))).
Qed.
Print Assumptions C16_names_are_date_shaped.

(* ---- the oracles the harness applies to the trees the real robsd-clean leaves
   behind accept every result of the model: kept set, removed exactly, nothing
   else touched, attic content sound and complete, retention 0 a no-op.  Attic
   clauses: for invocation names Y-M-D and no entry v/v/tmp/...  The age oracle
   (the one the harness applies, with the order in which it made the
   invocations): under the guard that this order descends by name ---- *)
Theorem C16_oracle_accepts_model : forall sortf rootstr f lock running keep_conf count ka,
  sorts sortf -> wf_tree f -> lock_consistent rootstr lock running f ->
  (ka = true -> completes sortf rootstr keep_conf count lock f) ->
  (ka = true -> forall v, invocation f v -> date_shaped v) ->
  (ka = true -> no_nested_tmp f) ->
  let r := robsd_clean_x sortf rootstr keep_conf count ka lock f in
  spec_ok_clean running (effective_keep keep_conf count) ka (fst (fst r)) f (snd r) = true.
Proof.
  exact (fun sortf rootstr f lock running keep_conf count ka Hs =>
    oracle_accepts_model_x sortf Hs rootstr f lock running keep_conf count ka).
Qed.
Print Assumptions C16_oracle_accepts_model.

Theorem C16_oracle_age_accepts_model : forall sortf rootstr f lock running keep_conf count ka ages,
  sorts sortf -> wf_tree f -> lock_consistent rootstr lock running f ->
  (ka = true -> completes sortf rootstr keep_conf count lock f) ->
  (ka = true -> forall v, invocation f v -> date_shaped v) ->
  (ka = true -> no_nested_tmp f) ->
  age_list f ages -> StronglySorted (fun a b => blt b a) ages ->
  let r := robsd_clean_x sortf rootstr keep_conf count ka lock f in
  spec_ok_clean_age ages running (effective_keep keep_conf count) ka (fst (fst r)) f (snd r) = true.
Proof. exact oracle_age_accepts_model. Qed.
Print Assumptions C16_oracle_age_accepts_model.

(* the second guard is needed by the ORACLE, not by the model: v/v/tmp/report
   is preserved by purge and the oracle takes its copy for a copy of v/tmp *)
Theorem C16_oracle_nested_tmp_refuted :
  exists f, wf_tree f /\ ~ no_nested_tmp f /\
    spec_ok_clean None 1 true 0 f (snd (robsd_clean_x_exec (bs "/r") 1 None true None f)) = false.
Proof. exact oracle_nested_tmp_rejected_x. Qed.
Print Assumptions C16_oracle_nested_tmp_refuted.

(* qsort does not matter: every sorting function gives what the driver runs *)
Theorem C16_any_qsort : forall sortf rootstr keep_conf count ka lock f,
  sorts sortf -> wf_tree f ->
  robsd_clean_x sortf rootstr keep_conf count ka lock f = robsd_clean_x_exec rootstr keep_conf count ka lock f.
Proof. exact robsd_clean_x_any_qsort. Qed.
Print Assumptions C16_any_qsort.

(* the tables read out of util.sh are the documented ones: report, comment,
   tags, step and stat files, patches (*.diff.*), index; +1 when not running;
   YYYY-MM-DD.X -> YYYY/MM/DD.X *)
Theorem C16_util_sh_tables :
  purge_whitelist_patterns_text =
    [bs "*.diff.*"; bs "comment"; bs "index.txt"; bs "report"; bs "stat.csv"; bs "step.csv"; bs "tags"] /\
  purge_not_running_compensation = 1%nat /\
  purge_attic_tr_from = 45 /\ purge_attic_tr_to = 47 /\
  attic_dst (bs "2024-01-02.3") = [bs "attic"; bs "2024"; bs "01"; bs "02.3"] /\
  (forall n, whitelisted n = true <->
     (exists a b, n = a ++ bs ".diff." ++ b) \/
     In n [bs "comment"; bs "index.txt"; bs "report"; bs "stat.csv"; bs "step.csv"; bs "tags"]).
Proof. exact tables_documented. Qed.
Print Assumptions C16_util_sh_tables.

(* what the translator reads out of the robsd-clean script: _keep="${1:-0}", 0
   falls back to ${keep}, still 0 exits 0; keep-attic 1 selects purge (move to
   the attic), anything else purge -d + rm -rf; the messages *)
Theorem C16_robsd_clean_script :
  (clean_count_default = 0%nat /\ clean_zero_exit = 0 /\ clean_attic_value = 1%nat /\
   clean_msg_moving = msg_moving /\ clean_msg_to = msg_to /\ clean_msg_removing = msg_removing) /\
  (forall keep_conf count, effective_keep keep_conf count =
     let k := match count with Some c => c | None => clean_count_default end in
     if Nat.eqb k clean_count_default then keep_conf else k).
Proof. exact (conj clean_script_tie effective_keep_script). Qed.
Print Assumptions C16_robsd_clean_script.

(* non-vacuity: four invocations, the second newest running, retention 2, attic
   enabled, stray entries, earlier attic content *)
Local Open Scope string_scope.
Example C16_example :
  let f := [mkfs [bs "2024-01-02.1"] FDir; mkfs [bs "2024-01-02.1"; bs "report"] (FFile (bs "r1"));
            mkfs [bs "2024-01-02.1"; bs "001-a.log"] (FFile (bs "l"));
            mkfs [bs "2024-01-02.1"; bs "tmp"] FDir; mkfs [bs "2024-01-02.1"; bs "tmp"; bs "report"] (FFile (bs "t"));
            mkfs [bs "2024-01-02.1"; bs "rel"] FDir; mkfs [bs "2024-01-02.1"; bs "rel"; bs "index.txt"] (FFile (bs "i"));
            mkfs [bs "2024-01-02.1"; bs "rel"; bs "bsd.rd"] (FFile (bs "b"));
            mkfs [bs "2024-01-02.2"] FDir; mkfs [bs "2024-01-02.2"; bs "step.csv"] (FFile (bs "s"));
            mkfs [bs "2024-01-02.9"] FDir; mkfs [bs "2024-01-02.10"] FDir;
            mkfs [bs "stray"] (FFile (bs "x")); mkfs [bs "attic"] FDir; mkfs [bs "attic"; bs "note"] (FFile (bs "n"))] in
  let lock := Some (bs "/r/2024-01-02.10
") in
  let after := snd (robsd_clean_x_exec (bs "/r") 2 None true lock f) in
  invocations_desc f = [bs "2024-01-02.9"; bs "2024-01-02.2"; bs "2024-01-02.10"; bs "2024-01-02.1"] /\
  invocations_desc after = [bs "2024-01-02.9"; bs "2024-01-02.10"] /\
  spec_ok_clean (Some (bs "2024-01-02.10")) 2 true 0 f after = true /\
  ent_in (mkfs [bs "attic"; bs "2024"; bs "01"; bs "02.1"; bs "rel"; bs "index.txt"] (FFile (bs "i"))) after = true /\
  has_path [bs "attic"; bs "2024"; bs "01"; bs "02.1"; bs "rel"; bs "bsd.rd"] after = false /\
  has_path [bs "attic"; bs "2024"; bs "01"; bs "02.1"; bs "tmp"] after = false /\
  ent_in (mkfs [bs "stray"] (FFile (bs "x"))) after = true.
Proof. vm_compute. repeat split; reflexivity. Qed.
