(* Properties_C16.v - cleaning keeps exactly the newest N invocations and
   removes nothing else.  Only theorem statements, each closed by [exact] and
   followed by Print Assumptions.

   [robsd_clean] (Inv/PurgeDefs.v) is the model of robsd-clean + util.sh purge
   on an abstract tree (entries = path below the invocation root + node), with
   the listing model of C15 inside; the whitelist, the +1 compensation and the
   tr characters are regenerated from util.sh (gen/Gen_Util.v).  The
   specification (Inv/PurgeSpec.v) speaks about the tree before, the tree
   after, the retention [n] = count argument or configured keep, and the
   invocation that is really running ([running], given independently of the
   lock file's spelling).

   Quantifiers: every well-formed tree (any number of invocations, several per
   day, stray files and directories, any attic content), every root string,
   every lock file content, every keep / count / keep-attic, every qsort.

   FULL STATEMENT of the kept set: for every lock file and running invocation,
     invocation (tree after) v  <->  In v (kept_of names running n).
   The faithful model violates it when the lock file does not name the running
   invocation by exactly the path robsd-ls prints (C16_kept_set_refuted: a
   stale lock keeps one invocation less than N; a lock spelled differently,
   as `robsd -r` writes it when robsddir is configured with a trailing slash,
   lets the running invocation itself be moved away).  Everything is proved
   under the guard [lock_consistent] (C16_*_partial).

   This claim is PARTIAL in a second sense: the tie runs bash and GNU userland
   behind stand-ins instead of ksh and the BSD userland. *)
From Coq Require Import String.
From Robsd Require Import Inv.PurgeSpec Inv.PurgeProofs Inv.LsProofs.
Local Open Scope N_scope.

(* retention 0 (no count or count 0, and keep 0 or unset): nothing happens *)
Theorem C16_zero_is_noop : forall sortf rootstr keep_conf count ka lock f,
  (keep_conf = 0%nat /\ (count = None \/ count = Some 0%nat)) ->
  robsd_clean sortf rootstr keep_conf count ka lock f = (0, [], f).
Proof.
  exact (fun sortf rootstr keep_conf count ka lock f H =>
    final_zero sortf rootstr f lock keep_conf count ka (proj2 (effective_keep_zero keep_conf count) H)).
Qed.
Print Assumptions C16_zero_is_noop.

(* the kept set: with [names] the invocations newest first, the root afterwards
   holds exactly [kept_of names running n]: the running invocation, if any,
   plus the newest others, n in total or all of them when there are no more *)
Theorem C16_kept_set_partial : forall sortf rootstr f lock running keep_conf count ka,
  sorts sortf -> wf_tree f -> lock_consistent rootstr lock running f ->
  effective_keep keep_conf count <> 0%nat ->
  exists names, newest_first f names /\
    let n := effective_keep keep_conf count in
    let after := snd (robsd_clean sortf rootstr keep_conf count ka lock f) in
    (forall v, invocation after v <-> In v (kept_of names running n)) /\
    length (kept_of names running n) = Nat.min n (length names) /\
    (forall r, running = Some r -> In r (kept_of names running n)) /\
    (forall v, In v (kept_of names running n) -> In v names).
Proof.
  exact (fun sortf rootstr f lock running keep_conf count ka Hs =>
    final_kept_set sortf Hs rootstr f lock running keep_conf count ka).
Qed.
Print Assumptions C16_kept_set_partial.

(* without the guard: (1) three invocations, a lock file naming a directory
   that does not exist, retention 2 - one invocation is left; (2) the lock
   names the running invocation 2024-01-02.1 as /r//2024-01-02.1 while
   robsd-ls prints /r/2024-01-02.1, retention 2 - the running invocation is
   moved to the attic *)
Theorem C16_kept_set_refuted :
  (exists f lock, wf_tree f /\ running_builddir lock = Some (bs "/r/2020-02-02.7") /\
     invocations_desc f = [bs "2024-01-02.3"; bs "2024-01-02.2"; bs "2024-01-02.1"] /\
     invocations_desc (snd (robsd_clean_exec (bs "/r") 2 None true lock f)) = [bs "2024-01-02.3"]) /\
  (exists f lock, wf_tree f /\ running_builddir lock = Some (bs "/r//2024-01-02.1") /\
     invocations_desc f = [bs "2024-01-02.3"; bs "2024-01-02.2"; bs "2024-01-02.1"] /\
     invocations_desc (snd (robsd_clean_exec (bs "/r") 2 None true lock f)) = [bs "2024-01-02.3"]).
Proof. exact kept_set_refuted_witness. Qed.
Print Assumptions C16_kept_set_refuted.

(* removed exactly, nothing else touched, the attic - all relative to the kept
   set above.  [from_victim f' v e]: e is the copy, below attic/YYYY/MM/DD.X,
   of an entry of v outside tmp that is v's directory itself, has a
   whitelisted name, or is a directory with a whitelisted name below it;
   [created_parent]: one of the directories attic, attic/YYYY, attic/YYYY/MM *)
Theorem C16_removed_attic_rest_partial : forall sortf rootstr f lock running keep_conf count ka,
  sorts sortf -> wf_tree f -> lock_consistent rootstr lock running f ->
  effective_keep keep_conf count <> 0%nat ->
  exists names, newest_first f names /\
    let n := effective_keep keep_conf count in
    let kept := kept_of names running n in
    let after := snd (robsd_clean sortf rootstr keep_conf count ka lock f) in
    (* C16_removed_exact: nothing of an invocation that is not kept is left in the root *)
    (forall v e, invocation f v -> ~ In v kept -> In e after -> under [v] (f_path e) = false) /\
    (* C16_nothing_else_touched: every entry outside the attic and outside the
       removed invocations is there before iff it is there after, unchanged;
       nothing new appears outside the attic; with the attic disabled the attic
       is unchanged too *)
    (forall e, under [name_attic] (f_path e) = false ->
               (forall v, invocation f v -> ~ In v kept -> under [v] (f_path e) = false) ->
               (In e after <-> In e f)) /\
    (forall e, In e after -> In e f \/ (ka = true /\ under [name_attic] (f_path e) = true)) /\
    (ka = false -> forall e, under [name_attic] (f_path e) = true -> (In e after <-> In e f)) /\
    (* C16_attic_content *)
    (ka = true ->
       (forall p, has_path p f = true -> under [name_attic] p = true -> has_path p after = true) /\
       (forall v, invocation f v -> ~ In v kept ->
          has_path (attic_dst v) after = true \/ has_path (attic_dst v ++ [v]) after = true) /\
       (forall e, In e after -> under [name_attic] (f_path e) = true ->
          In e f \/ exists v f', (invocation f v /\ ~ In v kept) /\
                                 (created_parent v e \/ from_victim f' v e) /\
                                 (forall x, In x f' -> In x f \/ under [name_attic] (f_path x) = true))).
Proof.
  exact (fun sortf rootstr f lock running keep_conf count ka Hs =>
    final_rest sortf Hs rootstr f lock running keep_conf count ka).
Qed.
Print Assumptions C16_removed_attic_rest_partial.

(* qsort does not matter: every sorting function gives what the driver runs *)
Theorem C16_any_qsort : forall sortf rootstr keep_conf count ka lock f,
  sorts sortf -> wf_tree f ->
  robsd_clean sortf rootstr keep_conf count ka lock f = robsd_clean_exec rootstr keep_conf count ka lock f.
Proof. exact robsd_clean_any_qsort. Qed.
Print Assumptions C16_any_qsort.

(* the tables read out of util.sh are the documented ones: report, comment,
   tags, step and stat files, patches (*.diff.*), index; +1 when not running;
   YYYY-MM-DD.X -> YYYY/MM/DD.X *)
Theorem C16_util_sh_tables :
  purge_whitelist_patterns_text =
    [bs "*.diff.*"; bs "comment"; bs "index.txt"; bs "report"; bs "stat.csv"; bs "step.csv"; bs "tags"] /\
  purge_not_running_compensation = 1%nat /\
  purge_attic_tr_from = 45 /\ purge_attic_tr_to = 47 /\
  attic_dst (bs "2024-01-02.3") = [bs "attic"; bs "2024"; bs "01"; bs "02.3"] /\
  (forall n, whitelisted n = true <->
     (exists a b, n = a ++ bs ".diff." ++ b) \/
     In n [bs "comment"; bs "index.txt"; bs "report"; bs "stat.csv"; bs "step.csv"; bs "tags"]).
Proof. exact tables_documented. Qed.
Print Assumptions C16_util_sh_tables.

(* non-vacuity: four invocations, the second newest running, retention 2, attic
   enabled, stray entries, earlier attic content *)
Local Open Scope string_scope.
Example C16_example :
  let f := [mkfs [bs "2024-01-02.1"] FDir; mkfs [bs "2024-01-02.1"; bs "report"] (FFile (bs "r1"));
            mkfs [bs "2024-01-02.1"; bs "001-a.log"] (FFile (bs "l"));
            mkfs [bs "2024-01-02.1"; bs "tmp"] FDir; mkfs [bs "2024-01-02.1"; bs "tmp"; bs "report"] (FFile (bs "t"));
            mkfs [bs "2024-01-02.1"; bs "rel"] FDir; mkfs [bs "2024-01-02.1"; bs "rel"; bs "index.txt"] (FFile (bs "i"));
            mkfs [bs "2024-01-02.1"; bs "rel"; bs "bsd.rd"] (FFile (bs "b"));
            mkfs [bs "2024-01-02.2"] FDir; mkfs [bs "2024-01-02.2"; bs "step.csv"] (FFile (bs "s"));
            mkfs [bs "2024-01-02.9"] FDir; mkfs [bs "2024-01-02.10"] FDir;
            mkfs [bs "stray"] (FFile (bs "x")); mkfs [bs "attic"] FDir; mkfs [bs "attic"; bs "note"] (FFile (bs "n"))] in
  let lock := Some (bs "/r/2024-01-02.10
") in
  let after := snd (robsd_clean_exec (bs "/r") 2 None true lock f) in
  invocations_desc f = [bs "2024-01-02.9"; bs "2024-01-02.2"; bs "2024-01-02.10"; bs "2024-01-02.1"] /\
  invocations_desc after = [bs "2024-01-02.9"; bs "2024-01-02.10"] /\
  spec_ok_clean (Some (bs "2024-01-02.10")) 2 true 0 f after = true /\
  ent_in (mkfs [bs "attic"; bs "2024"; bs "01"; bs "02.1"; bs "rel"; bs "index.txt"] (FFile (bs "i"))) after = true /\
  has_path [bs "attic"; bs "2024"; bs "01"; bs "02.1"; bs "rel"; bs "bsd.rd"] after = false /\
  has_path [bs "attic"; bs "2024"; bs "01"; bs "02.1"; bs "tmp"] after = false /\
  ent_in (mkfs [bs "stray"] (FFile (bs "x"))) after = true.
Proof. vm_compute. repeat split; reflexivity. Qed.
