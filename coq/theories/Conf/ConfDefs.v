(* ConfDefs.v - executable model of the configuration reader.  Definitions only.

   config_lexer_read (conf.c)            -> [lex]
   lexer_next/peek/if/expect (lexer.c)   -> [next], [expect], [lexer_if]
   config_find / config_present          -> [config_find], [present]
   config_interpolate_lookup             -> [lookup]
   interpolate() with a lookup that changes the configuration (rdomain counter,
   FUN defaults that append a variable)  -> [sinterp] (InterpDefs.interp threaded with a state)
   config_default_*                      -> [call_fun], [build_dir]
   config_parse_* (conf.c, conf-canvas.c, conf-robsd-regress.c) -> [parse_*]
   config_parse_keyword/_inner/_validate -> [parse_keyword], [parse_loop], [validate]
   config_parse + robsd-config.c main    -> [config_parse], [robsd_config]

   All functions take the tables [T] (regenerated from the sources) and the
   environment [E] as arguments. *)
From Robsd Require Export Conf.ConfTypes Conf.ConfNames.
Local Open Scope N_scope.

(* ---------------------------------------------------------------- characters *)
Definition is_lower (c : N) : bool := (97 <=? c) && (c <=? 122).
Definition is_digit (c : N) : bool := (48 <=? c) && (c <=? 57).
Definition is_wordch (c : N) : bool := is_lower c || is_digit c || (c =? 45).

Fixpoint span (p : N -> bool) (s : bytes) : bytes * bytes :=
  match s with
  | c :: r => if p c then let '(a, b) := span p r in (c :: a, b) else ([], s)
  | [] => ([], [])
  end.

(* ---------------------------------------------------------------- token table *)
(* token_type_lookup_alloc inserts a row when its literal is non-empty and its
   mode is 0 or the current one; token_type_lookup finds by literal *)
Definition row_visible (m : mode) (r : tokrow) : bool :=
  match tr_key r with
  | [] => false
  | _ => match tr_mode r with None => true | Some m' => mode_eqb m m' end
  end.

Fixpoint tt_lookup (tbl : list tokrow) (m : mode) (key : bytes) (fallback : ttype) : ttype :=
  match tbl with
  | [] => fallback
  | r :: tbl' => if row_visible m r && beq (tr_key r) key then tr_type r
                 else tt_lookup tbl' m key fallback
  end.

(* ---------------------------------------------------------------- lexer *)
Inductive lexres :=
| LexOk (toks : list token) (eof_lno : Z) (dg : list diag)   (* tokens before EOF, line of the EOF token, diagnostics newest first *)
| LexFail (dg : list diag)                                    (* the read callback returned NULL *)
| LexFuel.

Definition lexerr (lno : Z) (m : dmsg) : diag := mk_diag P_conf lno m.

(* the do/while around lexer_getc that skips isspace() bytes; lexer_getc counts lines *)
Fixpoint skip_ws (lno : Z) (s : bytes) : Z * bytes :=
  match s with
  | c :: r => if is_space c then skip_ws (if c =? 10 then (lno + 1)%Z else lno) r else (lno, s)
  | [] => (lno, [])
  end.

(* the body of a comment: up to and including the newline; a NUL byte also ends
   it (and lexing resumes after the NUL) *)
Fixpoint skip_comment (lno : Z) (s : bytes) : Z * bytes :=
  match s with
  | [] => (lno, [])
  | c :: r => if c =? 10 then ((lno + 1)%Z, r) else if c =? 0 then (lno, r) else skip_comment lno r
  end.

(* the body of a string: up to the closing quote; NUL or end of input = unterminated *)
Fixpoint scan_string (lno : Z) (s : bytes) (acc : bytes) : option (bytes * Z * bytes) :=
  match s with
  | [] => None
  | c :: r => if c =? 0 then None
              else if c =? 34 then Some (rev acc, lno, r)
              else scan_string (if c =? 10 then (lno + 1)%Z else lno) r (c :: acc)
  end.

Definition i32_min : Z := (-2147483648)%Z.
Definition i32_max : Z := 2147483647%Z.
Definition in_i32 (z : Z) : bool := ((i32_min <=? z) && (z <=? i32_max))%Z.
Definition wrap32 (z : Z) : Z := ((z + 2147483648) mod 4294967296 - 2147483648)%Z.

(* KS_i32_mul_overflow / KS_i32_add_overflow as the compiler builtins behave:
   the wrapped result is stored, the return value says whether it wrapped *)
Definition mul_ov (a b : Z) : Z * bool := let r := (a * b)%Z in (wrap32 r, negb (in_i32 r)).
Definition add_ov (a b : Z) : Z * bool := let r := (a + b)%Z in (wrap32 r, negb (in_i32 r)).

(* the digit loop: if (mul_overflow(val,10,&val) || add_overflow(val,x,&val)) error = 1 *)
Fixpoint lex_int (ds : bytes) (val : Z) (err : bool) : Z * bool :=
  match ds with
  | [] => (val, err)
  | d :: r =>
      let x := (Z.of_N d - 48)%Z in
      let '(m, o1) := mul_ov val 10 in
      if o1 then lex_int r m true
      else let '(a, o2) := add_ov m x in lex_int r a (err || o2)
  end.

Definition word_token (T : tables) (lno : Z) (w : bytes) : token :=
  match tt_lookup (t_tokens T) (t_mode T) w T_KEYWORD with
  | T_KEYWORD => mk_token T_KEYWORD lno w 0
  | T_YES => mk_token T_BOOLEAN lno [] 1
  | T_NO => mk_token T_BOOLEAN lno [] 0
  | t => mk_token t lno [] 0
  end.

Fixpoint lex_go (fuel : nat) (T : tables) (lno : Z) (s : bytes) (acc : list token) (dg : list diag) : lexres :=
  match fuel with
  | O => LexFuel
  | S fuel' =>
      let '(lno1, s1) := skip_ws lno s in
      match s1 with
      | [] => LexOk (rev acc) lno1 dg
      | c :: r =>
          if c =? 0 then LexOk (rev acc) lno1 dg
          else if c =? 35 then
            let '(lno2, r2) := skip_comment lno1 r in lex_go fuel' T lno2 r2 acc dg
          else if is_lower c then
            let '(w, r2) := span is_wordch s1 in
            lex_go fuel' T lno1 r2 (word_token T lno1 w :: acc) dg
          else if is_digit c then
            let '(ds, r2) := span is_digit s1 in
            let '(v, err) := lex_int ds 0 false in
            lex_go fuel' T lno1 r2 (mk_token T_INTEGER lno1 [] v :: acc)
                   (if err then lexerr lno1 M_integer_too_big :: dg else dg)
          else if c =? 34 then
            match scan_string lno1 r [] with
            | None => LexFail (lexerr lno1 M_unterminated_string :: dg)
            | Some (str, lno2, r2) =>
                lex_go fuel' T lno2 r2 (mk_token T_STRING lno1 str 0 :: acc)
                       (match str with [] => lexerr lno1 M_empty_string :: dg | _ => dg end)
            end
          else
            lex_go fuel' T lno1 r
                   (mk_token (tt_lookup (t_tokens T) (t_mode T) [c] T_UNKNOWN) lno1 [] 0 :: acc) dg
      end
  end.

(* lexer_alloc: the whole file is tokenised before parsing starts *)
Definition lex (T : tables) (text : bytes) : lexres :=
  lex_go (S (length text)) T 1%Z text [] [].

(* ---------------------------------------------------------------- token cursor *)
(* The token list handed to the parser holds the tokens before EOF; EOF is the
   token every read past the end yields (lexer_next does not move past it). *)
Definition eof_tok (eof : Z) : token := mk_token T_EOF eof [] 0.

Definition next (eof : Z) (ts : list token) : token * list token :=
  match ts with
  | [] => (eof_tok eof, [])
  | t :: r => (t, r)
  end.

(* lexer_expect: the token is consumed also when it is not the wanted one *)
Definition expect (eof : Z) (c : cfg) (ts : list token) (ty : ttype) : cfg * list token * option token :=
  let '(t, r) := next eof ts in
  if ttype_eqb (tk_type t) ty then (c, r, Some t)
  else (add_diag c (lexerr (tk_lno t) (M_want ty (tk_type t))), r, None).

(* lexer_if: consumed only when it matches *)
Definition lexer_if (eof : Z) (ts : list token) (ty : ttype) : option (token * list token) :=
  let '(t, r) := next eof ts in
  if ttype_eqb (tk_type t) ty then Some (t, r) else None.

(* ---------------------------------------------------------------- variables *)
Fixpoint find_var (vars : list (bytes * value)) (name : bytes) : option value :=
  match vars with
  | [] => None
  | (k, v) :: r => if beq k name then Some v else find_var r name
  end.

(* config_present *)
Definition present (c : cfg) (name : bytes) : bool :=
  match find_var (c_vars c) name with Some _ => true | None => false end.

(* replace the value of the first variable of that name (writes through the
   pointer config_find returned) *)
Fixpoint set_first (vars : list (bytes * value)) (name : bytes) (v : value) : list (bytes * value) :=
  match vars with
  | [] => []
  | (k, w) :: r => if beq k name then (k, v) :: r else (k, w) :: set_first r name v
  end.

(* replace the value of the variable at a position (writes through the pointer
   config_append returned) *)
Fixpoint set_nth (vars : list (bytes * value)) (i : nat) (v : value) : list (bytes * value) :=
  match vars, i with
  | [], _ => []
  | (k, _) :: r, O => (k, v) :: r
  | kv :: r, S i' => kv :: set_nth r i' v
  end.

(* fnmatch(3) for a pattern made of literals and one '*' *)
Fixpoint pat_split (p : bytes) : option (bytes * bytes) :=
  match p with
  | [] => None
  | c :: r => if c =? 42 then Some ([], r)
              else match pat_split r with Some (a, b) => Some (c :: a, b) | None => None end
  end.

Definition suffixb (suf s : bytes) : bool := prefixb (rev suf) (rev s).

Definition patmatch (p name : bytes) : bool :=
  match pat_split p with
  | Some (pre, suf) => prefixb pre name && suffixb suf name
                       && (length pre + length suf <=? length name)%nat
  | None => beq p name
  end.

(* grammar_equals *)
Definition grammar_equals (g : grammar) (name : bytes) : bool :=
  beq (gr_kw g) name || (gr_pat g && patmatch (gr_kw g) name).

Fixpoint find_grammar (p : grammar -> bool) (G : list grammar) : option grammar :=
  match G with
  | [] => None
  | g :: G' => if p g then Some g else find_grammar p G'
  end.

(* config_find_grammar_for_interpolation *)
Definition grammar_for_interp (G : list grammar) (name : bytes) : option grammar :=
  find_grammar (fun g => grammar_equals g name) G.

Definition has_fn (g : grammar) : bool := match gr_fn g with PF_none => false | _ => true end.

(* config_find_grammar_for_keyword *)
Definition grammar_for_keyword (G : list grammar) (kw : bytes) : option grammar :=
  find_grammar (fun g => has_fn g && beq (gr_kw g) kw) G.

Definition is_early (G : list grammar) (name : bytes) : bool :=
  match grammar_for_interp G name with Some g => gr_early g | None => false end.

(* the static default of config_find (the vadef branch); None = __builtin_trap *)
Definition default_value (E : env) (g : grammar) : option value :=
  match gr_type g with
  | VT_INVALID => None
  | VT_INTEGER => Some (VInt (match gr_default g with D_i32 z => z | _ => 0%Z end))
  | VT_STRING | VT_DIRECTORY =>
      Some (VStr (match gr_default g with
                  | D_str s => s
                  | D_macro M_MACHINE => e_machine E
                  | D_macro M_MACHINE_ARCH => e_arch E
                  | _ => []
                  end))
  | VT_LIST => Some (VList [])
  end.

Fixpoint join_sp (l : list bytes) : bytes :=
  match l with
  | [] => []
  | [x] => x
  | x :: r => x ++ 32 :: join_sp r
  end.

(* the switch of config_interpolate_lookup *)
Definition render (v : value) : bytes :=
  match v with
  | VInvalid => []
  | VInt z => render_Z z
  | VStr s => s
  | VList l => join_sp l
  end.

(* config_default_rdomain: the shipped body and the repaired one *)
Definition rdomain_next (T : tables) (c : cfg) : cfg * Z :=
  let r := c_rdomain c in
  if (r =? t_rdomain_max T)%Z then
    (set_rdomain c (if t_rdomain_fixed T then t_rdomain_min T + 1 else t_rdomain_min T)%Z, t_rdomain_min T)
  else (set_rdomain c (r + 1)%Z, r).


Section Lookup.
  Variable E : env.
  Variable T : tables.
  (* config_default_build_dir, given below; a parameter here because it
     interpolates, i.e. calls back into the lookup *)
  Variable bd : cfg -> bytes -> cfg * option value.

  (* config_find restricted to what config_default_parallel needs: a variable
     or a static default *)
  Definition config_find_plain (c : cfg) (name : bytes) : cfg * option value :=
    match find_var (c_vars c) name with
    | Some v => (c, Some v)
    | None =>
        match grammar_for_interp (t_grammar T) name with
        | None => (c, None)
        | Some g =>
            if gr_req g then (c, None)
            else match gr_default g with
                 | D_fun _ => (set_abort c, None)
                 | _ => match default_value E g with
                        | Some v => (c, Some v)
                        | None => (set_abort c, None)
                        end
                 end
        end
    end.

  Definition call_fun (f : dfun) (c : cfg) (name : bytes) : cfg * option value :=
    match f with
    | DF_build_dir => bd c name
    | DF_exec_dir =>
        let d := match e_execdir E with
                 | Some x => match cstr x with [] => t_execdir_default T | y => y end
                 | None => t_execdir_default T
                 end in
        (cfg_append c name (VStr d), Some (VStr d))
    | DF_inet4 => (cfg_append c name (VStr (e_inet4 E)), Some (VStr (e_inet4 E)))
    | DF_inet6 => (cfg_append c name (VStr (e_inet6 E)), Some (VStr (e_inet6 E)))
    | DF_ncpu => (cfg_append c name (VInt (e_ncpu E)), Some (VInt (e_ncpu E)))
    | DF_trace =>
        let v := VStr (if c_trace c then minus_x else []) in (cfg_append c name v, Some v)
    | DF_rdomain => let '(c1, r) := rdomain_next T c in (c1, Some (VInt r))
    | DF_regress_targets =>
        let v := VList [str_regress] in (cfg_append c name v, Some v)
    | DF_parallel => config_find_plain c kw_parallel
    end.

  (* config_find *)
  Definition config_find (c : cfg) (name : bytes) : cfg * option value :=
    match find_var (c_vars c) name with
    | Some v => (c, Some v)
    | None =>
        match grammar_for_interp (t_grammar T) name with
        | None => (c, None)
        | Some g =>
            if gr_req g then (c, None)
            else match gr_default g with
                 | D_fun f => call_fun f c name
                 | _ => match default_value E g with
                        | Some v => (c, Some v)
                        | None => (set_abort c, None)
                        end
                 end
        end
    end.

  (* config_interpolate_lookup; [early] is cf->interpolate.early *)
  Definition lookup (early : bool) (c : cfg) (name : bytes) : cfg * option bytes :=
    if early && negb (is_early (t_grammar T) name) then (c, None)
    else
      let '(c1, ov) := config_find c name in
      match ov with
      | None | Some VInvalid => (c1, None)
      | Some v => (c1, Some (render v))
      end.
End Lookup.

(* ---------------------------------------------------------------- interpolation with a state *)
Section SInner.
  Context {St : Type}.
  Variable ignore : bool.
  Variable lk : St -> bytes -> St * option bytes.
  Variable rec : St -> bytes -> St * ires.

  Fixpoint sinner (st : St) (s : bytes) : St * ires :=
    match s with
    | [] => (st, IOk [])
    | c :: s' =>
        if c =? DOLLAR then
          match s' with
          | c2 :: s'' => if c2 =? LBRACE then sname_scan st [] s'' else (st, IErr EBrace)
          | [] => (st, IErr EBrace)
          end
        else let '(st', r) := sinner st s' in (st', ibind [c] r)
    end
  with sname_scan (st : St) (acc : bytes) (s : bytes) : St * ires :=
    match s with
    | [] => (st, IErr EClose)
    | c :: s' =>
        if c =? RBRACE then
          match acc with
          | [] => (st, IErr EEmpty)
          | _ =>
              let '(st1, ov) := lk st acc in
              match ov with
              | None =>
                  if ignore then
                    let '(st2, r) := sinner st1 s' in
                    (st2, ibind (DOLLAR :: LBRACE :: acc ++ [RBRACE]) r)
                  else (st1, IErr (EUnknown acc))
              | Some v =>
                  let '(st2, r) := rec st1 (cstr v) in
                  match r with
                  | IErr e => (st2, IErr e)
                  | IOk o => let '(st3, r3) := sinner st2 s' in (st3, ibind o r3)
                  end
              end
          end
        else sname_scan st (acc ++ [c]) s'
    end.
End SInner.

Fixpoint sinterp {St : Type} (d : nat) (ignore : bool) (lk : St -> bytes -> St * option bytes)
         (st : St) (s : bytes) : St * ires :=
  match d with
  | O => (st, IErr EDeep)
  | S d' => sinner ignore lk (sinterp d' ignore lk) st s
  end.

Definition sinterp_str {St : Type} (limit : nat) (ignore : bool) lk (st : St) (s : bytes) : St * ires :=
  sinterp (pred limit) ignore lk st (cstr s).

(* ---------------------------------------------------------------- builddir *)

Fixpoint first_line (b : bytes) : option bytes :=
  match b with
  | [] => None
  | c :: r => if c =? 10 then Some []
              else match first_line r with Some l => Some (c :: l) | None => None end
  end.

(* a nested builddir lookup while builddir is being computed: in the shipped code it never returns
   (config_default_build_dir calls itself without bound, D18); guarded against re-entry
   (findings/D18_builddir_reentry.diff) it has no value *)
Definition bd_diverge (c : cfg) (name : bytes) : cfg * option value := (set_abort c, None).
Definition bd_quiet (c : cfg) (name : bytes) : cfg * option value := (c, None).
Definition bd_nested (T : tables) : cfg -> bytes -> cfg * option value :=
  if t_builddir_guard T then bd_quiet else bd_diverge.

(* config_default_build_dir *)
Definition build_dir (E : env) (T : tables) (c : cfg) (name : bytes) : cfg * option value :=
  let '(c1, r) := sinterp_str (t_depth_limit T) false (lookup E T (bd_nested T) false) c running_tmpl in
  match r with
  | IErr e => (add_diag c1 (mk_diag (ipath T) 0 (M_interp e)), None)
  | IOk path =>
      match e_file E path with
      | F_noopen => (c1, None)
      | F_content b =>
          match first_line (cstr b) with
          | None => (add_diag c1 (mk_diag P_none 0 (M_line_not_found path)), None)
          | Some l => (cfg_append c1 name (VStr l), Some (VStr l))
          end
      end
  end.

Definition lookup1 (E : env) (T : tables) : bool -> cfg -> bytes -> cfg * option bytes :=
  lookup E T (build_dir E T).

Definition find1 (E : env) (T : tables) : cfg -> bytes -> cfg * option value :=
  config_find E T (build_dir E T).

(* config_interpolate_str *)
Definition cfg_interp (E : env) (T : tables) (c : cfg) (s : bytes) : cfg * ires :=
  sinterp_str (t_depth_limit T) false (lookup1 E T false) c s.

(* config_interpolate_early *)
Definition cfg_interp_early (E : env) (T : tables) (c : cfg) (s : bytes) : cfg * ires :=
  sinterp_str (t_depth_limit T) true (lookup1 E T true) c s.

(* ---------------------------------------------------------------- value parsers *)
Inductive prv := R_append (v : value) | R_error | R_nop | R_fatal.

Definition regress_name (path suffix : bytes) : bytes :=
  regress_prefix ++ path ++ 45 :: suffix.


Section Parse.
  Variable E : env.
  Variable T : tables.
  Variable eof : Z.

  Definition parse_boolean (c : cfg) (ts : list token) : prv * cfg * list token :=
    let '(c1, r, ot) := expect eof c ts T_BOOLEAN in
    match ot with
    | None => (R_error, c1, r)
    | Some tk => (R_append (VInt (tk_int tk)), c1, r)
    end.

  Definition parse_integer (c : cfg) (ts : list token) : prv * cfg * list token :=
    let '(c1, r, ot) := expect eof c ts T_INTEGER in
    match ot with
    | None => (R_error, c1, r)
    | Some tk => (R_append (VInt (tk_int tk)), c1, r)
    end.

  Definition parse_string (c : cfg) (ts : list token) : prv * cfg * list token :=
    let '(c1, r, ot) := expect eof c ts T_STRING in
    match ot with
    | None => (R_error, c1, r)
    | Some tk => (R_append (VStr (tk_str tk)), c1, r)
    end.

  (* the for(;;) of config_parse_list; also yields the line of the closing brace *)
  Fixpoint list_items (c : cfg) (ts : list token) (acc : list bytes) : prv * cfg * list token * Z :=
    match ts with
    | [] => (R_fatal, add_diag c (lexerr eof (M_want T_STRING T_EOF)), [], eof)
    | t :: r =>
        if ttype_eqb (tk_type t) T_RBRACE then (R_append (VList (rev acc)), c, r, tk_lno t)
        else if ttype_eqb (tk_type t) T_STRING then list_items c r (tk_str t :: acc)
        else (R_fatal, add_diag c (lexerr (tk_lno t) (M_want T_STRING (tk_type t))), r, tk_lno t)
    end.

  Definition parse_list_l (c : cfg) (ts : list token) : prv * cfg * list token * Z :=
    let '(c1, r, ot) := expect eof c ts T_LBRACE in
    match ot with
    | None => (R_error, c1, r, 0%Z)
    | Some _ => list_items c1 r []
    end.

  Definition parse_list (c : cfg) (ts : list token) : prv * cfg * list token :=
    fst (parse_list_l c ts).

  Definition parse_glob (c : cfg) (ts : list token) : prv * cfg * list token :=
    let '(c1, r, ot) := expect eof c ts T_STRING in
    match ot with
    | None => (R_error, c1, r)
    | Some tk =>
        match e_glob E (tk_str tk) with
        | GL_nomatch => (R_nop, c1, r)
        | GL_err => (R_fatal, add_diag c1 (lexerr (tk_lno tk) M_glob_error), r)
        | GL_match l => (R_append (VList l), c1, r)
        end
    end.

  Definition parse_user (c : cfg) (ts : list token) : prv * cfg * list token :=
    let '(c1, r, ot) := expect eof c ts T_STRING in
    match ot with
    | None => (R_error, c1, r)
    | Some tk =>
        if e_user E (tk_str tk) then (R_append (VStr (tk_str tk)), c1, r)
        else (R_error, add_diag c1 (lexerr (tk_lno tk) (M_user_not_found (tk_str tk))), r)
    end.

  Definition parse_directory (c : cfg) (ts : list token) : prv * cfg * list token :=
    let '(c1, r, ot) := expect eof c ts T_STRING in
    match ot with
    | None => (R_error, c1, r)
    | Some tk =>
        match tk_str tk with
        | [] => (R_error, c1, r)
        | dir =>
            let '(c2, ir) := cfg_interp E T c1 dir in
            match ir with
            | IErr e => (R_error, add_diag c2 (mk_diag (ipath T) (tk_lno tk) (M_interp e)), r)
            | IOk path =>
                match e_dir E path with
                | DS_err n => (R_error, add_diag c2 (lexerr (tk_lno tk) (M_dir_error path n)), r)
                | DS_notdir => (R_error, add_diag c2 (lexerr (tk_lno tk) (M_not_a_directory path)), r)
                | DS_dir => (R_append (VStr dir), c2, r)
                end
            end
        end
    end.

  (* config_parse_canvas_directory *)
  Definition parse_canvas_directory (c : cfg) (ts : list token) : prv * cfg * list token :=
    let '(rv, c1, r) := parse_directory c ts in
    match rv with
    | R_append v => (R_nop, cfg_append (cfg_append c1 kw_canvas_dir v) kw_robsddir v, r)
    | _ => (rv, c1, r)
    end.

  (* the option loop of config_parse_canvas_step; [last] is the line of the
     token lexer_back would return.  None = goto err. *)
  Fixpoint step_opts (fuel : nat) (c : cfg) (ts : list token) (cmd : option (list bytes)) (par : bool) (last : Z)
    : option (option (list bytes) * bool * Z) * cfg * list token :=
    match fuel with
    | O => (None, set_abort c, ts)
    | S fuel' =>
        match lexer_if eof ts T_COMMAND with
        | Some (tk, r) =>
            let '(rv, c1, r1, l1) := parse_list_l c r in
            match rv with
            | R_append (VList l) => step_opts fuel' c1 r1 (Some l) par l1
            | _ => (None, c1, r1)
            end
        | None =>
            match lexer_if eof ts T_PARALLEL with
            | Some (tk, r) => step_opts fuel' c r cmd true (tk_lno tk)
            | None => (Some (cmd, par, last), c, ts)
            end
        end
    end.

  Definition parse_canvas_step (c : cfg) (ts : list token) : prv * cfg * list token :=
    let '(c1, r, ot) := expect eof c ts T_STRING in
    match ot with
    | None => (R_error, c1, r)
    | Some tk =>
        let '(res, c2, r2) := step_opts (S (length r)) c1 r None false (tk_lno tk) in
        match res with
        | None => (R_error, c2, r2)
        | Some (Some (a :: l), par, _) =>
            let c3 := match c_steps c2 with [] => cfg_append c2 kw_step VInvalid | _ => c2 end in
            (R_nop, set_steps c3 (c_steps c3 ++ [mk_cstep (tk_str tk) (a :: l) par]), r2)
        | Some (_, _, last) =>
            (R_error, add_diag c2 (lexerr last M_step_command_missing), r2)
        end
    end.

  (* config_find_or_create_list followed by variable_value_concat *)
  Definition concat_list (c : cfg) (name : bytes) (l : list bytes) : cfg :=
    let c1 := if present c name then c else cfg_append c name (VList []) in
    match find_var (c_vars c1) name with
    | Some (VList old) => set_vars c1 (set_first (c_vars c1) name (VList (old ++ l)))
    | _ => set_abort c1
    end.

  (* config_parse_regress_option_env; false = CONFIG_ERROR *)
  Definition regress_option_env (c : cfg) (ts : list token) (path : bytes) : bool * cfg * list token :=
    let '(rv, c1, r) := parse_list c ts in
    match rv with
    | R_append (VList l) =>
        let name := regress_name path sfx_env in
        let idx := length (c_vars c1) in
        let c2 := cfg_append c1 name (VList (regress_env_ref :: l)) in
        let '(c3, ir) := cfg_interp_early E T c2 (36 :: 123 :: name ++ [125]) in
        match ir with
        | IErr e => (false, add_diag c3 (mk_diag (ipath T) 0 (M_interp e)), r)
        | IOk str => (true, set_vars c3 (set_nth (c_vars c3) idx (VStr str)), r)
        end
    | _ => (false, c1, r)
    end.

  (* the option loop of config_parse_regress; false = return CONFIG_ERROR *)
  Fixpoint regress_opts (fuel : nat) (c : cfg) (ts : list token) (path : bytes) : bool * cfg * list token :=
    match fuel with
    | O => (false, set_abort c, ts)
    | S fuel' =>
        let '(t, r) := next eof ts in
        match tk_type t with
        | T_ENV =>
            let '(ok, c1, r1) := regress_option_env c r path in
            if ok then regress_opts fuel' c1 r1 path else (false, c1, r1)
        | T_NO_PARALLEL =>
            regress_opts fuel' (cfg_append c (regress_name path sfx_parallel) (VInt 0)) r path
        | T_OBJ =>
            let '(rv, c1, r1) := parse_list c r in
            match rv with
            | R_append (VList l) => regress_opts fuel' (concat_list c1 kw_regress_obj l) r1 path
            | _ => (false, c1, r1)
            end
        | T_PACKAGES =>
            let '(rv, c1, r1) := parse_list c r in
            match rv with
            | R_append (VList l) => regress_opts fuel' (concat_list c1 kw_regress_packages l) r1 path
            | _ => (false, c1, r1)
            end
        | T_QUIET =>
            regress_opts fuel' (cfg_append c (regress_name path sfx_quiet) (VInt 1)) r path
        | T_ROOT =>
            regress_opts fuel' (cfg_append c (regress_name path sfx_root) (VInt 1)) r path
        | T_TARGETS =>
            let '(rv, c1, r1) := parse_list c r in
            match rv with
            | R_append (VList l) => regress_opts fuel' (concat_list c1 (regress_name path sfx_targets) l) r1 path
            | _ => (false, c1, r1)
            end
        | _ => (true, c, ts)
        end
    end.

  Definition parse_regress (c : cfg) (ts : list token) : prv * cfg * list token :=
    let '(c1, r, ot) := expect eof c ts T_STRING in
    match ot with
    | None => (R_error, c1, r)
    | Some tk =>
        let '(ok, c2, r2) := regress_opts (S (length r)) c1 r (tk_str tk) in
        if ok then (R_nop, concat_list c2 str_regress [tk_str tk], r2)
        else (R_error, c2, r2)
    end.

  Definition parse_regress_env (c : cfg) (ts : list token) : prv * cfg * list token :=
    let '(rv, c1, r) := parse_list c ts in
    match rv with
    | R_append (VList l) => (R_nop, concat_list c1 kw_regress_env l, r)
    | _ => (R_error, c1, r)
    end.

  Definition parse_regress_timeout (c : cfg) (ts : list token) : prv * cfg * list token :=
    let '(rv, c1, r) := parse_integer c ts in
    match rv with
    | R_append (VInt n) =>
        let '(u, r1) := next eof r in
        let scalar := match tk_type u with
                      | T_SECONDS => Some 1%Z | T_MINUTES => Some 60%Z | T_HOURS => Some 3600%Z
                      | _ => None
                      end in
        match scalar with
        | None => (R_error, add_diag c1 (lexerr (tk_lno u) M_unknown_timeout_unit), r1)
        | Some k =>
            let '(v, ov) := mul_ov k n in
            if ov then (R_error, add_diag c1 (lexerr (tk_lno u) M_timeout_too_large), r1)
            else (R_append (VInt v), c1, r1)
        end
    | _ => (R_error, c1, r)
    end.

  Definition run_pfun (f : pfun) (c : cfg) (ts : list token) : prv * cfg * list token :=
    match f with
    | PF_none => (R_fatal, set_abort c, ts)
    | PF_boolean => parse_boolean c ts
    | PF_integer => parse_integer c ts
    | PF_string => parse_string c ts
    | PF_list => parse_list c ts
    | PF_glob => parse_glob c ts
    | PF_user => parse_user c ts
    | PF_directory => parse_directory c ts
    | PF_canvas_directory => parse_canvas_directory c ts
    | PF_canvas_step => parse_canvas_step c ts
    | PF_regress => parse_regress c ts
    | PF_regress_env => parse_regress_env c ts
    | PF_regress_timeout => parse_regress_timeout c ts
    end.

  (* config_parse_keyword; [tk] is the KEYWORD token already consumed *)
  Definition parse_keyword (c : cfg) (tk : token) (ts : list token) : prv * cfg * list token :=
    match grammar_for_keyword (t_grammar T) (tk_str tk) with
    | None => (R_fatal, add_diag c (lexerr (tk_lno tk) (M_unknown_keyword (tk_str tk))), ts)
    | Some g =>
        let no_repeat := negb (gr_rep g) && present c (tk_str tk) in
        let '(rv, c1, r) := run_pfun (gr_fn g) c ts in
        let c2 := match rv with R_append v => cfg_append c1 (tk_str tk) v | _ => c1 end in
        if no_repeat then
          (R_error, add_diag c2 (lexerr (tk_lno tk) (M_already_defined (tk_str tk))), r)
        else (rv, c2, r)
    end.

  (* the for(;;) of config_parse_inner; the bool is its local [error] *)
  Fixpoint parse_loop (fuel : nat) (c : cfg) (ts : list token) (error : bool) : cfg * bool :=
    match fuel with
    | O => (set_abort c, true)
    | S fuel' =>
        match ts with
        | [] => (c, error)
        | t :: r =>
            if ttype_eqb (tk_type t) T_KEYWORD then
              let '(rv, c1, r1) := parse_keyword c t r in
              match rv with
              | R_error => parse_loop fuel' c1 r1 true
              | R_fatal => (c1, true)
              | _ => parse_loop fuel' c1 r1 error
              end
            else (add_diag c (lexerr (tk_lno t) (M_want T_KEYWORD (tk_type t))), true)
        end
    end.
End Parse.

(* config_validate *)
Fixpoint validate (G : list grammar) (c : cfg) : cfg * bool :=
  match G with
  | [] => (c, false)
  | g :: G' =>
      if gr_req g && negb (present c (gr_kw g)) then
        let '(c1, _) := validate G' (add_diag c (lexerr 0 (M_mandatory_missing (gr_kw g)))) in (c1, true)
      else validate G' c
  end.

Definition lexer_get_error (c : cfg) : bool := existsb (fun d => is_lexer_msg (d_msg d)) (c_diags c).

Inductive outcome := Accepted (c : cfg) | Rejected (c : cfg).

Definition cfg_of (o : outcome) : cfg := match o with Accepted c | Rejected c => c end.

(* config_steps_add_script: the argv template instantiated *)
Definition script_argv (T : tables) (script name : bytes) : list bytes :=
  map (fun a => match a with A_lit s => s | A_script => script | A_name => name end) (t_argv T).

(* the callbacks' after_parse: only canvas does something *)
Definition after_parse (T : tables) (c : cfg) : cfg :=
  match t_mode T with
  | CANVAS =>
      let '(script, name) := t_canvas_end T in
      set_steps c (c_steps c ++ [mk_cstep name (script_argv T script name) false])
  | _ => c
  end.

Definition with_diags (c : cfg) (dg : list diag) : cfg :=
  mk_cfg (c_vars c) (c_rdomain c) (c_trace c) (c_steps c) dg (c_abort c).

(* config_parse_inner on an already tokenised file *)
Definition parse_tokens (E : env) (T : tables) (toks : list token) (eof : Z) (dg : list diag) : outcome :=
  let c0 := with_diags (cfg_init T) dg in
  let '(c1, error) := parse_loop E T eof (S (length toks)) c0 toks false in
  if lexer_get_error c1 then Rejected c1
  else
    let '(c2, verr) := validate (t_grammar T) c1 in
    if verr then Rejected c2
    else if error then Rejected c2
    else Accepted c2.

(* config_parse *)
Definition config_parse (E : env) (T : tables) (text : bytes) : outcome :=
  match lex T text with
  | LexOk toks eof dg => parse_tokens E T toks eof dg
  | LexFail dg => Rejected (with_diags (cfg_init T) dg)
  | LexFuel => Rejected (set_abort (cfg_init T))
  end.

(* ---------------------------------------------------------------- robsd-config *)
Fixpoint split_eq (s : bytes) : option (bytes * bytes) :=
  match s with
  | [] => None
  | c :: r => if c =? 61 then Some ([], r)
              else match split_eq r with Some (a, b) => Some (c :: a, b) | None => None end
  end.

(* config_append_var; false = refused *)
Definition append_var (T : tables) (c : cfg) (s : bytes) : cfg * bool :=
  match split_eq (cstr s) with
  | None => (add_diag c (mk_diag P_none 0 (M_no_separator (cstr s))), false)
  | Some (name, val) =>
      match grammar_for_keyword (t_grammar T) name with
      | Some _ => (add_diag c (mk_diag P_none 0 (M_cannot_define name)), false)
      | None => (cfg_append c name (VStr val), true)
      end
  end.

Fixpoint append_vars (T : tables) (c : cfg) (vs : list bytes) : cfg * bool :=
  match vs with
  | [] => (c, true)
  | v :: vs' => let '(c1, ok) := append_var T c v in if ok then append_vars T c1 vs' else (c1, false)
  end.

(* interpolate_file on the lines of standard input, the configuration threaded through *)
Fixpoint interp_lines_st (E : env) (T : tables) (c : cfg) (lno : Z) (ls : list bytes) : cfg * option bytes :=
  match ls with
  | [] => (c, Some [])
  | l :: ls' =>
      let '(c1, r) := sinterp (pred (t_depth_limit T)) false (lookup1 E T false) c l in
      match r with
      | IErr e => (add_diag c1 (mk_diag P_stdin (lno + 1) (M_interp e)), None)
      | IOk o =>
          let '(c2, rest) := interp_lines_st E T c1 (lno + 1) ls' in
          match rest with
          | Some t => (c2, Some (o ++ 10 :: t))
          | None => (c2, None)
          end
      end
  end.

Record cmdres := mk_cmdres { r_exit : N; r_stdout : bytes; r_diags : list diag (* in order of emission *); r_abort : bool }.

(* robsd-config -m mode -C file [-v var=val ...] - *)
Definition robsd_config (E : env) (T : tables) (text : bytes) (vars : list bytes) (stdin : bytes) : cmdres :=
  match config_parse E T text with
  | Rejected c => mk_cmdres 1 [] (rev (c_diags c)) (c_abort c)
  | Accepted c =>
      let c := after_parse T c in
      let '(c1, ok) := append_vars T c vars in
      if ok then
        let '(c2, out) := interp_lines_st E T c1 0 (clines stdin) in
        match out with
        | Some o => mk_cmdres 0 (cstr o) (rev (c_diags c2)) (c_abort c2)
        | None => mk_cmdres 1 [] (rev (c_diags c2)) (c_abort c2)
        end
      else mk_cmdres 1 [] (rev (c_diags c1)) (c_abort c1)
  end.
