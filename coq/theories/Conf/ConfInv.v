(* ConfInv.v - invariants of the diagnostics through interpolation, lookups and
   the specification's state transformer: the interpolation machinery only ever
   adds diagnostics that are not lexer-class (log_warnx / warnx), so
   lexer_get_error is not changed by it. *)
From Robsd Require Import Conf.ConfSpec.
Local Open Scope N_scope.

(* ---------------------------------------------------------------- a property of the state kept by interpolation *)
Section Pres.
  Context {St : Type}.
  Variable P : St -> Prop.
  Variable ignore : bool.
  Variable lk : St -> bytes -> St * option bytes.
  Hypothesis lk_pres : forall st n, P st -> P (fst (lk st n)).

  Lemma sinner_cons rec st c s' :
    sinner ignore lk rec st (c :: s') =
    if c =? DOLLAR then
      match s' with
      | c2 :: s'' => if c2 =? LBRACE then sname_scan ignore lk rec st [] s'' else (st, IErr EBrace)
      | [] => (st, IErr EBrace)
      end
    else let '(st', r) := sinner ignore lk rec st s' in (st', ibind [c] r).
  Proof. reflexivity. Qed.

  Lemma sname_scan_cons rec st acc c s' :
    sname_scan ignore lk rec st acc (c :: s') =
    if c =? RBRACE then
      match acc with
      | [] => (st, IErr EEmpty)
      | _ =>
          let '(st1, ov) := lk st acc in
          match ov with
          | None =>
              if ignore then
                let '(st2, r) := sinner ignore lk rec st1 s' in
                (st2, ibind (DOLLAR :: LBRACE :: acc ++ [RBRACE]) r)
              else (st1, IErr (EUnknown acc))
          | Some v =>
              let '(st2, r) := rec st1 (cstr v) in
              match r with
              | IErr e => (st2, IErr e)
              | IOk o => let '(st3, r3) := sinner ignore lk rec st2 s' in (st3, ibind o r3)
              end
          end
      end
    else sname_scan ignore lk rec st (acc ++ [c]) s'.
  Proof. reflexivity. Qed.

  Lemma sinner_pres_len (rec : St -> bytes -> St * ires) :
    (forall st s, P st -> P (fst (rec st s))) ->
    forall n s, (length s <= n)%nat ->
                (forall st, P st -> P (fst (sinner ignore lk rec st s)))
                /\ (forall st acc, P st -> P (fst (sname_scan ignore lk rec st acc s))).
  Proof.
    intros Hrec. induction n as [|n IH]; intros s Hlen.
    - destruct s; [|simpl in Hlen; lia]. split; intros; simpl; assumption.
    - destruct s as [|ch s']; [split; intros; simpl; assumption|].
      simpl in Hlen. assert (Hs' : (length s' <= n)%nat) by lia.
      destruct (IH s' Hs') as [I1 I2]. split.
      + intros st Hst. rewrite sinner_cons. destruct (ch =? DOLLAR).
        * destruct s' as [|c2 s'']; [exact Hst|]. destruct (c2 =? LBRACE); [|exact Hst].
          simpl in Hs'. apply (proj2 (IH s'' ltac:(lia))). exact Hst.
        * destruct (sinner ignore lk rec st s') as [st' r] eqn:Es. simpl.
          specialize (I1 st Hst). rewrite Es in I1. exact I1.
      + intros st acc Hst. rewrite sname_scan_cons. destruct (ch =? RBRACE).
        * destruct acc as [|a acc']; [exact Hst|].
          pose proof (lk_pres st (a :: acc') Hst) as H1.
          destruct (lk st (a :: acc')) as [st1 ov]. simpl in H1. destruct ov as [v|].
          -- pose proof (Hrec st1 (cstr v) H1) as H2. destruct (rec st1 (cstr v)) as [st2 r]. simpl in H2.
             destruct r as [o|e]; [|exact H2].
             specialize (I1 st2 H2). destruct (sinner _ lk rec st2 s') as [st3 r3]. exact I1.
          -- destruct ignore; [|exact H1].
             specialize (I1 st1 H1). destruct (sinner _ lk rec st1 s') as [st2 r2]. exact I1.
        * apply I2. exact Hst.
  Qed.

  Lemma sinterp_pres d : forall st s, P st -> P (fst (sinterp d ignore lk st s)).
  Proof.
    induction d as [|d IH]; intros st s Hst; simpl; [exact Hst|].
    apply (proj1 (sinner_pres_len (sinterp d ignore lk) IH (length s) s (le_n _))). exact Hst.
  Qed.
End Pres.

(* ---------------------------------------------------------------- properties of the diagnostics *)
(* [clean] is any property of a configuration that depends on its diagnostics
   only and survives the addition of a diagnostic that is not lexer-class *)
Section DiagInv.
Variable clean : cfg -> Prop.
Hypothesis clean_same_diags : forall c c', c_diags c' = c_diags c -> clean c -> clean c'.
Hypothesis clean_add_diag : forall c d, is_lexer_msg (d_msg d) = false -> clean c -> clean (add_diag c d).

Lemma clean_append c n v : clean c -> clean (cfg_append c n v).
Proof. apply clean_same_diags. reflexivity. Qed.
Lemma clean_set_vars c v : clean c -> clean (set_vars c v).
Proof. apply clean_same_diags. reflexivity. Qed.
Lemma clean_set_steps c v : clean c -> clean (set_steps c v).
Proof. apply clean_same_diags. reflexivity. Qed.
Lemma clean_set_abort c : clean c -> clean (set_abort c).
Proof. apply clean_same_diags. reflexivity. Qed.
Lemma clean_set_rdomain c r : clean c -> clean (set_rdomain c r).
Proof. apply clean_same_diags. reflexivity. Qed.

Section CleanLookup.
  Variable E : env.
  Variable T : tables.

  Lemma clean_find_plain c n : clean c -> clean (fst (config_find_plain E T c n)).
  Proof.
    intros H. unfold config_find_plain. destruct (find_var (c_vars c) n); [exact H|].
    destruct (grammar_for_interp (t_grammar T) n) as [g|]; [|exact H]. destruct (gr_req g); [exact H|].
    destruct (gr_default g); try (destruct (default_value E g); simpl; auto using clean_set_abort); simpl; auto using clean_set_abort.
  Qed.

  Lemma clean_rdomain_next c : clean c -> clean (fst (rdomain_next T c)).
  Proof. intros H. unfold rdomain_next. destruct (_ =? _)%Z; simpl; apply clean_set_rdomain, H. Qed.

  Section WithBd.
    Variable bd : cfg -> bytes -> cfg * option value.
    Hypothesis bd_clean : forall c n, clean c -> clean (fst (bd c n)).

    Lemma clean_call_fun f c n : clean c -> clean (fst (call_fun E T bd f c n)).
    Proof.
      intros H. destruct f; simpl; auto using clean_append, clean_find_plain.
      pose proof (clean_rdomain_next c H) as Hr. destruct (rdomain_next T c). exact Hr.
    Qed.

    Lemma clean_config_find c n : clean c -> clean (fst (config_find E T bd c n)).
    Proof.
      intros H. unfold config_find. destruct (find_var (c_vars c) n); [exact H|].
      destruct (grammar_for_interp (t_grammar T) n) as [g|]; [|exact H]. destruct (gr_req g); [exact H|].
      destruct (gr_default g); try (destruct (default_value E g); simpl; auto using clean_set_abort; fail).
      apply clean_call_fun, H.
    Qed.

    Lemma clean_lookup early c n : clean c -> clean (fst (lookup E T bd early c n)).
    Proof.
      intros H. unfold lookup. destruct (early && negb (is_early (t_grammar T) n)); [exact H|].
      pose proof (clean_config_find c n H) as Hf. destruct (config_find E T bd c n) as [c1 ov]. simpl in Hf.
      destruct ov as [[| | |]|]; exact Hf.
    Qed.
  End WithBd.

  Lemma clean_build_dir c n : clean c -> clean (fst (build_dir E T c n)).
  Proof.
    intros H. unfold build_dir, sinterp_str.
    assert (Hn : forall c0 n0, clean c0 -> clean (fst (bd_nested T c0 n0))).
    { intros c0 n0 Hc. unfold bd_nested. destruct (t_builddir_guard T); [exact Hc|apply clean_set_abort, Hc]. }
    pose proof (sinterp_pres clean false (lookup E T (bd_nested T) false)
                  (fun st m Hst => clean_lookup (bd_nested T) Hn false st m Hst)
                  (pred (t_depth_limit T)) c (cstr running_tmpl) H) as Hs.
    destruct (sinterp _ _ _ c _) as [c1 r]. simpl in Hs. destruct r as [p|e].
    - destruct (e_file E p); [exact Hs|]. destruct (first_line (cstr b)); simpl.
      + apply clean_append, Hs.
      + apply clean_add_diag; [reflexivity|exact Hs].
    - simpl. apply clean_add_diag; [reflexivity|exact Hs].
  Qed.

  Lemma clean_lookup1 early c n : clean c -> clean (fst (lookup1 E T early c n)).
  Proof. apply clean_lookup. apply clean_build_dir. Qed.

  Lemma clean_cfg_interp c s : clean c -> clean (fst (cfg_interp E T c s)).
  Proof. intros H. unfold cfg_interp, sinterp_str. apply sinterp_pres; [|exact H]. intros; now apply clean_lookup1. Qed.

  Lemma clean_cfg_interp_early c s : clean c -> clean (fst (cfg_interp_early E T c s)).
  Proof. intros H. unfold cfg_interp_early, sinterp_str. apply sinterp_pres; [|exact H]. intros; now apply clean_lookup1. Qed.

  Lemma clean_concat_list c n l : clean c -> clean (concat_list c n l).
  Proof.
    intros H. unfold concat_list.
    set (c1 := if present c n then c else cfg_append c n (VList [])).
    assert (H1 : clean c1) by (unfold c1; destruct (present c n); auto using clean_append).
    destruct (find_var (c_vars c1) n) as [[| | |old]|]; auto using clean_set_abort, clean_set_vars.
  Qed.

  Lemma clean_dir_ok c s c1 : clean c -> dir_ok E T c s = Some c1 -> clean c1.
  Proof.
    intros H. unfold dir_ok. destruct s as [|b s]; [discriminate|].
    pose proof (clean_cfg_interp c (b :: s) H) as Hi. destruct (cfg_interp E T c (b :: s)) as [c2 r]. simpl in Hi.
    destruct r as [p|e]; [|discriminate]. destruct (e_dir E p); try discriminate. intros H1; inversion H1; subst. exact Hi.
  Qed.

  Lemma clean_apply_env c path l c1 : clean c -> apply_env E T c path l = Some c1 -> clean c1.
  Proof.
    intros H. unfold apply_env.
    match goal with |- context [cfg_interp_early E T ?c2 ?s] =>
      pose proof (clean_cfg_interp_early c2 s (clean_append _ _ _ H)) as Hi; destruct (cfg_interp_early E T c2 s) as [c3 r] end.
    simpl in Hi. destruct r as [str|e]; [|discriminate]. intros H1; inversion H1; subst. apply clean_set_vars, Hi.
  Qed.

  Lemma clean_apply_ropts os : forall c path c1, clean c -> apply_ropts E T c path os = Some c1 -> clean c1.
  Proof.
    induction os as [|o os IH]; intros c path c1 H; simpl; [intros H1; inversion H1; subst; exact H|].
    destruct (apply_ropt E T c path o) as [c2|] eqn:Ho; [|discriminate]. apply IH.
    destruct o; simpl in Ho; try (inversion Ho; subst; auto using clean_append, clean_concat_list; fail).
    eapply clean_apply_env; eauto.
  Qed.

  Lemma clean_apply_value c f v c1 ov : clean c -> apply_value E T c f v = Some (c1, ov) -> clean c1.
  Proof.
    intros H. destruct f, v; simpl; try discriminate; try (intros H1; inversion H1; subst; auto using clean_concat_list; fail).
    - destruct (e_glob E s); intros H1; inversion H1; subst; exact H.
    - destruct (e_user E s); intros H1; inversion H1; subst; exact H.
    - destruct (dir_ok E T c s) as [c2|] eqn:Hd; intros H1; inversion H1; subst. eapply clean_dir_ok; eauto.
    - destruct (dir_ok E T c s) as [c2|] eqn:Hd; intros H1; inversion H1; subst.
      apply clean_append, clean_append. eapply clean_dir_ok; eauto.
    - destruct (step_summary opts None false) as [[[|a l]|] par]; try discriminate.
      intros H1; inversion H1; subst. apply clean_set_steps. destruct (c_steps c); auto using clean_append.
    - destruct (apply_ropts E T c path opts) as [c2|] eqn:Hr; [|discriminate].
      intros H1; inversion H1; subst. apply clean_concat_list. eapply clean_apply_ropts; eauto.
    - destruct (unit_seconds unit) as [k|]; [|discriminate]. destruct (in_i32 (k * n)); intros H1; inversion H1; subst; exact H.
  Qed.

  Lemma clean_run_entries es : forall c c1, clean c -> run_entries E T c es = Some c1 -> clean c1.
  Proof.
    induction es as [|e es IH]; intros c c1 H; simpl; [intros H1; inversion H1; subst; exact H|].
    destruct (grammar_for_keyword (t_grammar T) (en_kw e)) as [g|]; [|discriminate].
    destruct (value_fits (gr_fn g) (en_val e) && (gr_rep g || negb (present c (en_kw e)))); [|discriminate].
    unfold apply_entry. destruct (apply_value E T c (gr_fn g) (en_val e)) as [[c2 ov]|] eqn:Ha; [|discriminate].
    pose proof (clean_apply_value _ _ _ _ _ H Ha) as H2.
    destruct ov; apply IH; auto using clean_append.
  Qed.
End CleanLookup.
End DiagInv.


(* the two instances: no lexer-class diagnostic yet / one already there *)
Definition clean (c : cfg) : Prop := lexer_get_error c = false.
Definition dirty (c : cfg) : Prop := lexer_get_error c = true.

Lemma clean_same c c' : c_diags c' = c_diags c -> clean c -> clean c'.
Proof. unfold clean, lexer_get_error. intros ->. auto. Qed.
Lemma clean_add c d : is_lexer_msg (d_msg d) = false -> clean c -> clean (add_diag c d).
Proof. unfold clean, lexer_get_error. simpl. intros -> H. exact H. Qed.
Lemma dirty_same c c' : c_diags c' = c_diags c -> dirty c -> dirty c'.
Proof. unfold dirty, lexer_get_error. intros ->. auto. Qed.
Lemma dirty_add_any c d : dirty c -> dirty (add_diag c d).
Proof. unfold dirty, lexer_get_error. simpl. intros ->. apply orb_true_r. Qed.
Lemma dirty_add c d : is_lexer_msg (d_msg d) = false -> dirty c -> dirty (add_diag c d).
Proof. intros _. apply dirty_add_any. Qed.
