(* ConfOracle.v - the specification oracle: the configuration reader run on the
   DOCUMENTED tables (Conf/DocSpec.v).  Definitions only, and no dependency on
   any proof, so that the extracted oracle still builds when a table no longer
   matches the documentation (that is exactly when it is needed).
   Conf/ConfInst.v proves that it decides conformance to the documented grammar.

   Three table records:
     [doc_tables m]           what the pages say and the property demands: documented rows and tokens, rdomain cycling
                              through 11..255 without repetition, diagnostics that name the file.  THE ORACLE.
     [doc_tables_with r p m]  the same with the two behaviour switches as parameters (r: body of config_default_rdomain,
                              p: parse-time substitution diagnostics carry the path), so that statements about
                              ACCEPTANCE do not depend on them (a return of D6 or D16 must alarm on its own clause)
     [doc_tables_as_built m]  the documented rows WITH the exceptions of Conf/DocExceptions.v applied, the token table
                              with [token_exceptions] applied, the switches as the source has them: what Conf/ConfDocIff.v
                              proves the code to implement.
   What no page describes and the configuration reader needs is taken over from the regenerated tables in all three:
   the step tables and argv template (the schedule, C10), the depth limit (C09), the default of the undocumented
   exec-dir, the re-entry guard of config_default_build_dir (C12). *)
From Robsd Require Import Conf.ConfDefs Conf.DocSpec Conf.DocExceptions.
From RobsdGen Require Import Gen_Conf.
From Coq Require Import String.
Local Open Scope string_scope.

(* the words of the documented syntax: "yes | no" (every page), the list braces, the regress options and the
   time-out units "s, m or h" (robsd-regress.conf.5:103-141), the step options (canvas.conf.5:33-37) *)
Definition doc_tokens : list tokrow := Eval vm_compute in [
  mk_tokrow T_LBRACE (bs "{") None;
  mk_tokrow T_RBRACE (bs "}") None;
  mk_tokrow T_COMMAND (bs "command") (Some CANVAS);
  mk_tokrow T_ENV (bs "env") (Some ROBSD_REGRESS);
  mk_tokrow T_HOURS (bs "h") (Some ROBSD_REGRESS);
  mk_tokrow T_MINUTES (bs "m") (Some ROBSD_REGRESS);
  mk_tokrow T_NO (bs "no") None;
  mk_tokrow T_NO_PARALLEL (bs "no-parallel") (Some ROBSD_REGRESS);
  mk_tokrow T_OBJ (bs "obj") (Some ROBSD_REGRESS);
  mk_tokrow T_PACKAGES (bs "packages") (Some ROBSD_REGRESS);
  mk_tokrow T_PARALLEL (bs "parallel") (Some CANVAS);
  mk_tokrow T_QUIET (bs "quiet") (Some ROBSD_REGRESS);
  mk_tokrow T_ROOT (bs "root") (Some ROBSD_REGRESS);
  mk_tokrow T_SECONDS (bs "s") (Some ROBSD_REGRESS);
  mk_tokrow T_TARGETS (bs "targets") (Some ROBSD_REGRESS);
  mk_tokrow T_YES (bs "yes") None ].

(* the token table with [token_exceptions] applied: the mode column of the listed types replaced *)
Definition tokens_as_built : list tokrow := Eval vm_compute in
  map (fun r => match find (fun e => ttype_eqb (fst e) (tr_type r)) token_exceptions with
                | Some (_, mo) => mk_tokrow (tr_type r) (tr_key r) mo
                | None => r
                end) doc_tokens.

Definition doc_tables_with (rfix ipath : bool) (m : mode) : tables :=
  let G := tables_of m in
  mk_tables m doc_tokens (doc_table m) (t_steps G) (t_argv G) (t_regress_script G) (t_canvas_end G)
            doc_rdomain_first (doc_rdomain_last + 1) rfix (t_execdir_default G) (t_depth_limit G) ipath (t_builddir_guard G).

Definition doc_tables (m : mode) : tables := doc_tables_with true true m.

Definition doc_tables_as_built (m : mode) : tables :=
  let G := tables_of m in
  mk_tables m tokens_as_built (as_built_table m) (t_steps G) (t_argv G) (t_regress_script G) (t_canvas_end G)
            doc_rdomain_first (doc_rdomain_last + 1) (t_rdomain_fixed G) (t_execdir_default G) (t_depth_limit G)
            (t_interp_path G) (t_builddir_guard G).

(* robsd-config run on the documented tables *)
Definition spec_config (E : env) (m : mode) (text : bytes) (vars : list bytes) (stdin : bytes) : cmdres :=
  robsd_config E (doc_tables m) text vars stdin.

Definition spec_accepts (E : env) (m : mode) (text : bytes) : bool :=
  match config_parse E (doc_tables m) text with Accepted _ => true | Rejected _ => false end.
