(* ConfOracle.v - the specification oracle: the configuration reader run on the
   DOCUMENTED tables (Conf/DocSpec.v).  Definitions only, and no dependency on
   any proof, so that the extracted oracle still builds when a table no longer
   matches the documentation (that is exactly when it is needed).
   Conf/ConfInst.v proves that it decides conformance to the documented grammar. *)
From Robsd Require Import Conf.ConfDefs Conf.DocSpec.
From RobsdGen Require Import Gen_Conf.
From Coq Require Import String.
Local Open Scope string_scope.

(* the words of the documented syntax: "yes | no", the time-out units "s, m or
   h", the regress options, the step options, the list braces *)
Definition doc_tokens : list tokrow := Eval vm_compute in [
  mk_tokrow T_LBRACE (bs "{") None;
  mk_tokrow T_RBRACE (bs "}") None;
  mk_tokrow T_COMMAND (bs "command") (Some CANVAS);
  mk_tokrow T_ENV (bs "env") (Some ROBSD_REGRESS);
  mk_tokrow T_HOURS (bs "h") (Some ROBSD_REGRESS);
  mk_tokrow T_MINUTES (bs "m") (Some ROBSD_REGRESS);
  mk_tokrow T_NO (bs "no") None;
  mk_tokrow T_NO_PARALLEL (bs "no-parallel") (Some ROBSD_REGRESS);
  mk_tokrow T_OBJ (bs "obj") (Some ROBSD_REGRESS);
  mk_tokrow T_PACKAGES (bs "packages") (Some ROBSD_REGRESS);
  mk_tokrow T_PARALLEL (bs "parallel") (Some CANVAS);
  mk_tokrow T_QUIET (bs "quiet") (Some ROBSD_REGRESS);
  mk_tokrow T_ROOT (bs "root") (Some ROBSD_REGRESS);
  mk_tokrow T_SECONDS (bs "s") None;
  mk_tokrow T_TARGETS (bs "targets") (Some ROBSD_REGRESS);
  mk_tokrow T_YES (bs "yes") None ].

Definition doc_tables (m : mode) : tables :=
  let G := tables_of m in
  mk_tables m doc_tokens (doc_table m) (t_steps G) (t_argv G) (t_regress_script G) (t_canvas_end G)
            doc_rdomain_first (doc_rdomain_last + 1) true (t_execdir_default G) (t_depth_limit G) true (t_builddir_guard G).

(* robsd-config run on the documented tables *)
Definition spec_config (E : env) (m : mode) (text : bytes) (vars : list bytes) (stdin : bytes) : cmdres :=
  robsd_config E (doc_tables m) text vars stdin.

Definition spec_accepts (E : env) (m : mode) (text : bytes) : bool :=
  match config_parse E (doc_tables m) text with Accepted _ => true | Rejected _ => false end.

