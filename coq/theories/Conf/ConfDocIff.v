(* ConfDocIff.v - the implementation's tables against the DOCUMENTED ones, as a
   statement about acceptance (not only about the tables).

   The configuration reader consults its tables through
     - the token lookup              [tt_lookup (t_tokens T) (t_mode T)]
     - the row answering a reference [grammar_for_interp (t_grammar T)], of which it
       only uses the row when it is not "required and not early" ([iview])
     - the row of a keyword          [grammar_for_keyword (t_grammar T)]
     - the set of required rows      [required_ok T]
     - seven scalars (rdomain range and body, exec-dir default, depth limit, path switch, re-entry guard).
   Two tables that agree on these ([tables_sim]) accept the same texts and build
   the same dictionary ([accept_sim]).  The regenerated table of a mode and the
   documented one have the same SET of rows (ConfTie: equal after sorting) and
   no name can match two rows ([uniq_match], computed), hence they agree on all
   lookups whatever the order of the rows (Conf/ConfRows.v). *)
From Robsd Require Import Conf.ConfDefs Conf.ConfSpec Conf.DocSpec Conf.DocExceptions Conf.ConfOracle Conf.ConfTie Conf.ConfDiag Conf.ConfRows
  Conf.ConfInv.
From RobsdGen Require Import Gen_Conf.
Local Open Scope N_scope.

(* what a lookup sees of the row answering a name: a required row that is not
   early behaves exactly like no row (config_find returns NULL, is_early is false) *)
Definition iview (og : option grammar) : option grammar :=
  match og with
  | Some g => if gr_req g && negb (gr_early g) then None else Some g
  | None => None
  end.

Record tables_sim (T T' : tables) : Prop := mk_tables_sim {
  ts_mode : t_mode T = t_mode T';
  ts_tok : forall key fb, tt_lookup (t_tokens T) (t_mode T) key fb = tt_lookup (t_tokens T') (t_mode T') key fb;
  ts_gfi : forall n, iview (grammar_for_interp (t_grammar T) n) = iview (grammar_for_interp (t_grammar T') n);
  ts_rmin : t_rdomain_min T = t_rdomain_min T';
  ts_rmax : t_rdomain_max T = t_rdomain_max T';
  ts_rfix : t_rdomain_fixed T = t_rdomain_fixed T';
  ts_exec : t_execdir_default T = t_execdir_default T';
  ts_depth : t_depth_limit T = t_depth_limit T';
  ts_ipath : t_interp_path T = t_interp_path T';
  ts_guard : t_builddir_guard T = t_builddir_guard T' }.

(* ---------------------------------------------------------------- interpolation only sees the lookup function *)
Section SinterpExt.
  Context {St : Type}.
  Variable ignore : bool.
  Variables lk lk' : St -> bytes -> St * option bytes.
  Hypothesis lk_ext : forall st n, lk st n = lk' st n.

  Lemma sinner_ext_len (rec rec' : St -> bytes -> St * ires) :
    (forall st s, rec st s = rec' st s) ->
    forall n s, (length s <= n)%nat ->
      (forall st, sinner ignore lk rec st s = sinner ignore lk' rec' st s)
      /\ (forall st acc, sname_scan ignore lk rec st acc s = sname_scan ignore lk' rec' st acc s).
  Proof.
    intros Hrec. induction n as [|n IH]; intros s Hlen.
    - destruct s; [|simpl in Hlen; lia]. split; intros; reflexivity.
    - destruct s as [|ch s']; [split; intros; reflexivity|].
      simpl in Hlen. assert (Hs' : (length s' <= n)%nat) by lia.
      destruct (IH s' Hs') as [I1 I2]. split.
      + intros st. rewrite !sinner_cons. destruct (ch =? DOLLAR).
        * destruct s' as [|c2 s'']; [reflexivity|]. destruct (c2 =? LBRACE); [|reflexivity].
          simpl in Hs'. apply (proj2 (IH s'' ltac:(lia))).
        * rewrite I1. reflexivity.
      + intros st acc. rewrite !sname_scan_cons. destruct (ch =? RBRACE); [|apply I2].
        destruct acc as [|a acc']; [reflexivity|]. rewrite lk_ext.
        destruct (lk' st (a :: acc')) as [st1 ov]. destruct ov as [v|].
        * rewrite Hrec. destruct (rec' st1 (cstr v)) as [st2 r]. destruct r as [o|e]; [|reflexivity].
          rewrite I1. reflexivity.
        * destruct ignore; [|reflexivity]. rewrite I1. reflexivity.
  Qed.

  Lemma sinterp_ext d : forall st s, sinterp d ignore lk st s = sinterp d ignore lk' st s.
  Proof.
    induction d as [|d IH]; intros st s; simpl; [reflexivity|].
    apply (proj1 (sinner_ext_len _ _ IH (length s) s (le_n _))).
  Qed.
End SinterpExt.

(* ---------------------------------------------------------------- the reader on two similar tables *)
Section Sim.
  Variable E : env.
  Variables T T' : tables.
  Hypothesis HS : tables_sim T T'.

  Lemma word_token_sim lno w : word_token T lno w = word_token T' lno w.
  Proof. unfold word_token. rewrite (ts_tok _ _ HS). reflexivity. Qed.

  Lemma lex_go_sim fuel : forall lno s acc dg, lex_go fuel T lno s acc dg = lex_go fuel T' lno s acc dg.
  Proof.
    induction fuel as [|fuel IH]; intros lno s acc dg; [reflexivity|]. simpl.
    destruct (skip_ws lno s) as [lno1 s1]. destruct s1 as [|c r]; [reflexivity|].
    destruct (c =? 0); [reflexivity|].
    destruct (c =? 35). { destruct (skip_comment lno1 r) as [lno2 r2]. apply IH. }
    destruct (is_lower c). { destruct (span is_wordch (c :: r)) as [w r2]. rewrite word_token_sim. apply IH. }
    destruct (is_digit c). { destruct (span is_digit (c :: r)) as [ds r2]. destruct (lex_int ds 0 false) as [v err]. apply IH. }
    destruct (c =? 34). { destruct (scan_string lno1 r []) as [[[str lno2] r2]|]; [apply IH|reflexivity]. }
    rewrite (ts_tok _ _ HS). apply IH.
  Qed.

  Lemma lex_sim text : lex T text = lex T' text.
  Proof. apply lex_go_sim. Qed.

  Lemma cfg_init_sim : cfg_init T = cfg_init T'.
  Proof. unfold cfg_init. rewrite (ts_rmin _ _ HS). reflexivity. Qed.

  Lemma is_early_sim n : is_early (t_grammar T) n = is_early (t_grammar T') n.
  Proof.
    unfold is_early. pose proof (ts_gfi _ _ HS n) as H. unfold iview in H.
    destruct (grammar_for_interp (t_grammar T) n) as [g|]; destruct (grammar_for_interp (t_grammar T') n) as [g'|];
      try reflexivity.
    - destruct (gr_req g && negb (gr_early g)) eqn:A; destruct (gr_req g' && negb (gr_early g')) eqn:B.
      + apply andb_true_iff in A. apply andb_true_iff in B. destruct A as [_ A], B as [_ B].
        apply negb_true_iff in A. apply negb_true_iff in B. congruence.
      + discriminate.
      + discriminate.
      + congruence.
    - destruct (gr_req g && negb (gr_early g)) eqn:A; [|discriminate].
      apply andb_true_iff in A. destruct A as [_ A]. apply negb_true_iff in A. exact A.
    - destruct (gr_req g' && negb (gr_early g')) eqn:B; [|discriminate].
      apply andb_true_iff in B. destruct B as [_ B]. apply negb_true_iff in B. symmetry. exact B.
  Qed.

  (* every use of the row by config_find / config_find_plain goes through [iview] *)
  Lemma find_row_sim {A} n (k : grammar -> A) (z : A) :
    match grammar_for_interp (t_grammar T) n with None => z | Some g => if gr_req g then z else k g end
    = match grammar_for_interp (t_grammar T') n with None => z | Some g => if gr_req g then z else k g end.
  Proof.
    pose proof (ts_gfi _ _ HS n) as H. unfold iview in H.
    destruct (grammar_for_interp (t_grammar T) n) as [g|]; destruct (grammar_for_interp (t_grammar T') n) as [g'|];
      try reflexivity.
    - destruct (gr_req g) eqn:Rg; destruct (gr_req g') eqn:Rg'; simpl in H.
      + reflexivity.
      + destruct (negb (gr_early g)); [discriminate|]. inversion H; subst. congruence.
      + destruct (negb (gr_early g')); [discriminate|]. inversion H; subst. congruence.
      + inversion H; subst. reflexivity.
    - destruct (gr_req g); [reflexivity|]. simpl in H. discriminate.
    - destruct (gr_req g'); [reflexivity|]. simpl in H. discriminate.
  Qed.

  Lemma find_plain_sim c n : config_find_plain E T c n = config_find_plain E T' c n.
  Proof.
    unfold config_find_plain. destruct (find_var (c_vars c) n); [reflexivity|].
    apply (find_row_sim n (fun g => match gr_default g with
                                    | D_fun _ => (set_abort c, None)
                                    | _ => match default_value E g with Some v => (c, Some v) | None => (set_abort c, None) end
                                    end) (c, None)).
  Qed.

  Lemma rdomain_next_sim c : rdomain_next T c = rdomain_next T' c.
  Proof. unfold rdomain_next. rewrite (ts_rmin _ _ HS), (ts_rmax _ _ HS), (ts_rfix _ _ HS). reflexivity. Qed.

  Section WithBd.
    Variables bd bd' : cfg -> bytes -> cfg * option value.
    Hypothesis bd_ext : forall c n, bd c n = bd' c n.

    Lemma call_fun_sim f c n : call_fun E T bd f c n = call_fun E T' bd' f c n.
    Proof.
      destruct f; simpl; auto using find_plain_sim.
      - rewrite (ts_exec _ _ HS). reflexivity.
      - rewrite rdomain_next_sim. reflexivity.
    Qed.

    Lemma config_find_sim c n : config_find E T bd c n = config_find E T' bd' c n.
    Proof.
      unfold config_find. destruct (find_var (c_vars c) n); [reflexivity|].
      rewrite (find_row_sim n (fun g => match gr_default g with
                                        | D_fun f => call_fun E T bd f c n
                                        | _ => match default_value E g with Some v => (c, Some v) | None => (set_abort c, None) end
                                        end) (c, None)).
      destruct (grammar_for_interp (t_grammar T') n) as [g|]; [|reflexivity].
      destruct (gr_req g); [reflexivity|]. destruct (gr_default g); try reflexivity. apply call_fun_sim.
    Qed.

    Lemma lookup_sim early c n : lookup E T bd early c n = lookup E T' bd' early c n.
    Proof. unfold lookup. rewrite is_early_sim, config_find_sim. reflexivity. Qed.
  End WithBd.

  Lemma build_dir_sim c n : build_dir E T c n = build_dir E T' c n.
  Proof.
    unfold build_dir, sinterp_str, ipath, bd_nested. rewrite (ts_depth _ _ HS), (ts_ipath _ _ HS), (ts_guard _ _ HS).
    rewrite (sinterp_ext false _ _ (fun st m => lookup_sim _ _ (fun _ _ => eq_refl) false st m)).
    reflexivity.
  Qed.

  Lemma lookup1_sim early c n : lookup1 E T early c n = lookup1 E T' early c n.
  Proof. apply lookup_sim. apply build_dir_sim. Qed.

  Lemma cfg_interp_sim c s : cfg_interp E T c s = cfg_interp E T' c s.
  Proof. unfold cfg_interp, sinterp_str. rewrite (ts_depth _ _ HS). apply sinterp_ext. apply lookup1_sim. Qed.

  Lemma cfg_interp_early_sim c s : cfg_interp_early E T c s = cfg_interp_early E T' c s.
  Proof. unfold cfg_interp_early, sinterp_str. rewrite (ts_depth _ _ HS). apply sinterp_ext. apply lookup1_sim. Qed.

  Lemma dir_ok_sim c s : dir_ok E T c s = dir_ok E T' c s.
  Proof. unfold dir_ok. destruct s; [reflexivity|]. rewrite cfg_interp_sim. reflexivity. Qed.

  Lemma apply_env_sim c p l : apply_env E T c p l = apply_env E T' c p l.
  Proof. unfold apply_env. rewrite cfg_interp_early_sim. reflexivity. Qed.

  Lemma apply_ropts_sim os : forall c p, apply_ropts E T c p os = apply_ropts E T' c p os.
  Proof.
    induction os as [|o os IH]; intros c p; simpl; [reflexivity|].
    assert (Ho : apply_ropt E T c p o = apply_ropt E T' c p o) by (destruct o; simpl; auto using apply_env_sim).
    rewrite Ho. destruct (apply_ropt E T' c p o); [apply IH|reflexivity].
  Qed.

  Lemma apply_value_sim c f v : apply_value E T c f v = apply_value E T' c f v.
  Proof. destruct f, v; simpl; try reflexivity; rewrite ?dir_ok_sim, ?apply_ropts_sim; reflexivity. Qed.

  Lemma apply_entry_sim c g e : apply_entry E T c g e = apply_entry E T' c g e.
  Proof. unfold apply_entry. rewrite apply_value_sim. reflexivity. Qed.

  (* the entries: only the rows of the keywords that occur matter *)
  Lemma run_entries_sim es : forall c,
    Forall (fun e => grammar_for_keyword (t_grammar T) (en_kw e) = grammar_for_keyword (t_grammar T') (en_kw e)) es ->
    run_entries E T c es = run_entries E T' c es.
  Proof.
    induction es as [|e es IH]; intros c Hk; simpl; [reflexivity|].
    inversion Hk as [|e0 es0 He Hes]; subst. rewrite He.
    destruct (grammar_for_keyword (t_grammar T') (en_kw e)) as [g|]; [|reflexivity].
    destruct (value_fits (gr_fn g) (en_val e) && (gr_rep g || negb (present c (en_kw e)))); [|reflexivity].
    rewrite apply_entry_sim. destruct (apply_entry E T' c g e); [apply IH; exact Hes|reflexivity].
  Qed.
End Sim.

(* two tables that moreover have the same keyword rows and the same required rows *)
Record tables_equiv (T T' : tables) : Prop := mk_tables_equiv {
  te_sim : tables_sim T T';
  te_gfk : forall kw, grammar_for_keyword (t_grammar T) kw = grammar_for_keyword (t_grammar T') kw;
  te_req : forall c, required_ok T c = required_ok T' c }.

Lemma text_conforms_equiv E T T' text c :
  tables_equiv T T' -> text_conforms E T text c -> text_conforms E T' text c.
Proof.
  intros [HS Hk Hr] [toks [eof [Hl [es [Hm [Hrun Hreq]]]]]].
  exists toks, eof. split; [rewrite <- (lex_sim T T' HS); exact Hl|].
  exists es. split; [exact Hm|]. split.
  - rewrite <- (cfg_init_sim T T' HS), <- (run_entries_sim E T T' HS); [exact Hrun|].
    apply Forall_forall. intros e _. apply Hk.
  - rewrite <- Hr. exact Hreq.
Qed.

Lemma tables_sim_sym T T' : tables_sim T T' -> tables_sim T' T.
Proof. intros [A B C D F G H I J K]. constructor; try (symmetry; assumption); intros; symmetry; auto. Qed.

Lemma tables_equiv_sym T T' : tables_equiv T T' -> tables_equiv T' T.
Proof. intros [A B C]. constructor; auto using tables_sim_sym. Qed.

(* similar tables accept the same texts and define the same dictionary *)
Theorem accept_equiv E T T' text c :
  tables_equiv T T' -> (config_parse E T text = Accepted c <-> config_parse E T' text = Accepted c).
Proof.
  intros H. rewrite !config_parse_iff. split; apply text_conforms_equiv; auto using tables_equiv_sym.
Qed.

(* ---------------------------------------------------------------- same rows in another order *)
Lemma In_insert_row g h l : In g (insert_row h l) <-> g = h \/ In g l.
Proof.
  induction l as [|a l IH]; simpl; [intuition|].
  destruct (bytes_leb (gr_kw h) (gr_kw a)); simpl; [intuition|]. rewrite IH. intuition.
Qed.

Lemma In_canon g l : In g (canon l) <-> In g l.
Proof.
  induction l as [|a l IH]; simpl; [reflexivity|]. rewrite In_insert_row, IH. intuition.
Qed.

Lemma same_rows_canon G G' : canon G = G' -> same_rows G G'.
Proof. intros <- g. symmetry. apply In_canon. Qed.

Lemma iview_eq a b : a = b -> iview a = iview b.
Proof. intros ->; reflexivity. Qed.

(* rows without a literal are invisible to the token lookup *)
Lemma tt_lookup_filter tbl m key fb :
  tt_lookup (filter (fun r => match tr_key r with [] => false | _ => true end) tbl) m key fb = tt_lookup tbl m key fb.
Proof.
  induction tbl as [|r tbl IH]; [reflexivity|]. cbn [filter].
  destruct (tr_key r) as [|k ks] eqn:Hk.
  - cbn [tt_lookup]. unfold row_visible. rewrite Hk. cbn [andb]. exact IH.
  - cbn [tt_lookup]. rewrite IH. reflexivity.
Qed.

Lemma tokens_as_built_filter :
  tokens_as_built = filter (fun r => match tr_key r with [] => false | _ => true end) token_table.
Proof. vm_compute. reflexivity. Qed.

(* the general recipe: same mode, tokens filtered, same set of rows without ambiguity, same scalars *)
Lemma tables_equiv_same_rows T T' :
  t_mode T = t_mode T' ->
  t_tokens T' = filter (fun r => match tr_key r with [] => false | _ => true end) (t_tokens T) ->
  same_rows (t_grammar T) (t_grammar T') -> uniq_match (t_grammar T) = true ->
  t_rdomain_min T = t_rdomain_min T' -> t_rdomain_max T = t_rdomain_max T' -> t_rdomain_fixed T = t_rdomain_fixed T' ->
  t_execdir_default T = t_execdir_default T' -> t_depth_limit T = t_depth_limit T' -> t_interp_path T = t_interp_path T' ->
  t_builddir_guard T = t_builddir_guard T' ->
  tables_equiv T T'.
Proof.
  intros Hm Ht Hs Hu H1 H2 H3 H4 H5 H6 H7. constructor; [constructor; auto|..].
  - intros key fb. rewrite Ht, <- Hm. symmetry. apply tt_lookup_filter.
  - intros n. apply iview_eq. apply gfi_same_rows; assumption.
  - intros kw. apply gfk_same_rows; assumption.
  - intros c. unfold required_ok. apply forallb_same_rows. exact Hs.
Qed.

Lemma uniq_match_gen m : uniq_match (t_grammar (tables_of m)) = true.
Proof. destruct m; vm_compute; reflexivity. Qed.

(* ---------------------------------------------------------------- all five modes: the documented tables with the listed exceptions *)
(* The switches of config_default_rdomain and of the parse-time diagnostics are the SAME on both sides ([doc_tables_as_built]
   takes them from the source): what they should be is the subject of C08_rdomain_cycle_holds_now and
   C08_reject_names_file_holds_now, not of acceptance. *)
Lemma tables_equiv_as_built m : tables_equiv (tables_of m) (doc_tables_as_built m).
Proof.
  apply tables_equiv_same_rows.
  - destruct m; reflexivity.
  - rewrite token_table_same. exact tokens_as_built_filter.
  - apply same_rows_canon. exact (tables_match_as_built m).
  - apply uniq_match_gen.
  - destruct m; reflexivity.
  - destruct m; reflexivity.
  - reflexivity.
  - reflexivity.
  - reflexivity.
  - reflexivity.
  - reflexivity.
Qed.

(* THE headline, as far as it holds: the implementation accepts a text iff it conforms to the documented grammar WITH the
   exceptions of Conf/DocExceptions.v applied, and then both define the same dictionary *)
Theorem accept_iff_as_built E m text c :
  config_parse E (tables_of m) text = Accepted c <-> text_conforms E (doc_tables_as_built m) text c.
Proof. rewrite (accept_equiv E _ _ text c (tables_equiv_as_built m)). apply config_parse_iff. Qed.

(* ---------------------------------------------------------------- the whole command on an accepted text *)
Section SimCmd.
  Variable E : env.
  Variables T T' : tables.
  Hypothesis HE : tables_equiv T T'.
  Hypothesis Hend : t_canvas_end T = t_canvas_end T'.
  Hypothesis Hargv : t_argv T = t_argv T'.

  Lemma after_parse_sim c : after_parse T c = after_parse T' c.
  Proof. unfold after_parse, script_argv. rewrite (ts_mode _ _ (te_sim _ _ HE)), Hend, Hargv. reflexivity. Qed.

  Lemma append_vars_sim vs : forall c, append_vars T c vs = append_vars T' c vs.
  Proof.
    induction vs as [|v vs IH]; intros c; [reflexivity|]. cbn [append_vars]. unfold append_var.
    destruct (split_eq (cstr v)) as [[name val]|]; [|reflexivity]. rewrite (te_gfk _ _ HE name).
    destruct (grammar_for_keyword (t_grammar T') name); [reflexivity|]. apply IH.
  Qed.

  Lemma interp_lines_st_sim ls : forall c lno, interp_lines_st E T c lno ls = interp_lines_st E T' c lno ls.
  Proof.
    induction ls as [|l ls IH]; intros c lno; [reflexivity|]. cbn [interp_lines_st].
    rewrite (ts_depth _ _ (te_sim _ _ HE)).
    rewrite (sinterp_ext false _ _ (lookup1_sim E T T' (te_sim _ _ HE) false)).
    destruct (sinterp (pred (t_depth_limit T')) false (lookup1 E T' false) c l) as [c1 r]. destruct r as [o|e]; [|reflexivity].
    rewrite IH. reflexivity.
  Qed.

  (* exit status, standard output, every diagnostic and the trap flag of robsd-config are those of the other table *)
  Theorem robsd_config_accepted_sim text c vars stdin :
    config_parse E T text = Accepted c -> robsd_config E T text vars stdin = robsd_config E T' text vars stdin.
  Proof.
    intros H. pose proof (proj1 (accept_equiv E T T' text c HE) H) as H'. unfold robsd_config. rewrite H, H'.
    rewrite after_parse_sim, append_vars_sim. destruct (append_vars T' (after_parse T' c) vars) as [c1 ok].
    destruct ok; [|reflexivity]. rewrite interp_lines_st_sim. reflexivity.
  Qed.
End SimCmd.

(* VALUE-ORACLE REFLECTION: on an accepted configuration robsd-config (model on the regenerated tables) prints, for every
   -v list and every template, what the reader on the documented-tables-with-exceptions prints *)
Theorem robsd_config_as_built E m text c vars stdin :
  config_parse E (tables_of m) text = Accepted c ->
  robsd_config E (tables_of m) text vars stdin = robsd_config E (doc_tables_as_built m) text vars stdin.
Proof. apply robsd_config_accepted_sim; [apply tables_equiv_as_built|reflexivity|reflexivity]. Qed.

(* ---------------------------------------------------------------- helpers for statements about the documented tables *)
Definition with_grammar (T : tables) (G : list grammar) : tables :=
  mk_tables (t_mode T) (t_tokens T) G (t_steps T) (t_argv T) (t_regress_script T) (t_canvas_end T)
            (t_rdomain_min T) (t_rdomain_max T) (t_rdomain_fixed T) (t_execdir_default T) (t_depth_limit T) (t_interp_path T)
            (t_builddir_guard T).
