(* ConfValue.v - what a variable interpolates to.
   config_interpolate_lookup answers with the rendering of the first definition
   of the name, else with the default of the matching table row; the rendering
   joins lists with single spaces, prints integers (booleans are the integers
   1 and 0) in decimal, and a time-out is stored in seconds. *)
From Robsd Require Import Conf.ConfDefs Conf.ConfSpec.
Local Open Scope N_scope.

Section Value.
  Variable E : env.
  Variable T : tables.

  (* a defined variable: its own value, whatever the tables say; the configuration is not changed *)
  Lemma lookup_defined early c n v :
    find_var (c_vars c) n = Some v -> v <> VInvalid ->
    early = false \/ is_early (t_grammar T) n = true ->
    lookup1 E T early c n = (c, Some (render v)).
  Proof.
    intros Hf Hv He. unfold lookup1, lookup.
    assert (Hb : early && negb (is_early (t_grammar T) n) = false) by (destruct He as [->| ->]; [reflexivity|apply andb_false_r]).
    rewrite Hb. unfold config_find. rewrite Hf. destruct v; try reflexivity. congruence.
  Qed.

  (* an undefined variable with a static default: the default of its row *)
  Lemma lookup_default c n g v :
    find_var (c_vars c) n = None -> grammar_for_interp (t_grammar T) n = Some g ->
    gr_req g = false -> (forall f, gr_default g <> D_fun f) -> default_value E g = Some v ->
    lookup1 E T false c n = (c, Some (render v)).
  Proof.
    intros Hf Hg Hr Hd Hv. unfold lookup1, lookup. simpl. unfold config_find. rewrite Hf, Hg, Hr.
    destruct (gr_default g) eqn:Ed; try (rewrite Hv; unfold default_value in Hv; destruct (gr_type g); inversion Hv; reflexivity).
    exfalso. exact (Hd f eq_refl).
  Qed.

  (* an undefined required variable, or a name no row matches: unknown *)
  Lemma lookup_required_unset c n g :
    find_var (c_vars c) n = None -> grammar_for_interp (t_grammar T) n = Some g -> gr_req g = true ->
    lookup1 E T false c n = (c, None).
  Proof. intros Hf Hg Hr. unfold lookup1, lookup. simpl. unfold config_find. now rewrite Hf, Hg, Hr. Qed.

  Lemma lookup_unknown c n :
    find_var (c_vars c) n = None -> grammar_for_interp (t_grammar T) n = None ->
    lookup1 E T false c n = (c, None).
  Proof. intros Hf Hg. unfold lookup1, lookup. simpl. unfold config_find. now rewrite Hf, Hg. Qed.

  (* the sentinel canvas keeps for "step" is not a value *)
  Lemma lookup_invalid c n : find_var (c_vars c) n = Some VInvalid -> lookup1 E T false c n = (c, None).
  Proof. intros Hf. unfold lookup1, lookup. simpl. unfold config_find. now rewrite Hf. Qed.

  (* ---- first definition wins *)
  Lemma find_var_app_some vars more n v : find_var vars n = Some v -> find_var (vars ++ more) n = Some v.
  Proof.
    induction vars as [|[k w] vars IH]; simpl; [discriminate|]. destruct (beq k n); [auto|exact IH].
  Qed.

  Lemma find_var_app_none vars more n : find_var vars n = None -> find_var (vars ++ more) n = find_var more n.
  Proof.
    induction vars as [|[k w] vars IH]; simpl; [reflexivity|]. destruct (beq k n); [discriminate|exact IH].
  Qed.

  Lemma append_defines c n v : find_var (c_vars c) n = None -> find_var (c_vars (cfg_append c n v)) n = Some v.
  Proof. intros H. simpl. rewrite (find_var_app_none _ _ _ H). simpl. now rewrite beq_refl. Qed.

  Lemma append_keeps c n v m w : find_var (c_vars c) m = Some w -> find_var (c_vars (cfg_append c n v)) m = Some w.
  Proof. intros H. simpl. now apply find_var_app_some. Qed.

  (* ---- what an entry of a plain kind defines under its keyword *)
  Definition own_value (f : pfun) (ev : evalue) : option value :=
    match f, ev with
    | PF_boolean, E_bool b => Some (VInt b)
    | PF_integer, E_int z => Some (VInt z)
    | (PF_string | PF_user | PF_directory), E_str s => Some (VStr s)
    | PF_glob, E_str s => match e_glob E s with GL_match l => Some (VList l) | _ => None end
    | PF_list, E_list l => Some (VList l)
    | PF_regress_timeout, E_timeout n u =>
        match unit_seconds u with Some k => Some (VInt (k * n)%Z) | None => None end
    | _, _ => None
    end.

  Definition plain (f : pfun) : bool :=
    match f with
    | PF_boolean | PF_integer | PF_string | PF_user | PF_directory | PF_glob | PF_list | PF_regress_timeout => true
    | _ => false
    end.

  Lemma apply_value_own c f ev c1 ov :
    plain f = true -> apply_value E T c f ev = Some (c1, ov) -> ov = own_value f ev.
  Proof.
    destruct f, ev; simpl; try discriminate; intros _ H; try (inversion H; reflexivity).
    - destruct (e_glob E s); inversion H; reflexivity.
    - destruct (e_user E s); inversion H; reflexivity.
    - destruct (dir_ok E T c s); inversion H; reflexivity.
    - destruct (unit_seconds unit); [|discriminate]. destruct (in_i32 (z * n)); inversion H; reflexivity.
  Qed.

  (* an accepted entry of a plain, not yet defined keyword defines it as that value *)
  Lemma plain_entry_defines c g e c1 v :
    plain (gr_fn g) = true -> apply_entry E T c g e = Some c1 ->
    own_value (gr_fn g) (en_val e) = Some v ->
    (forall c0 ov, apply_value E T c (gr_fn g) (en_val e) = Some (c0, ov) -> find_var (c_vars c0) (en_kw e) = None) ->
    find_var (c_vars c1) (en_kw e) = Some v.
  Proof.
    intros Hp Ha Hv Hfresh. unfold apply_entry in Ha.
    destruct (apply_value E T c (gr_fn g) (en_val e)) as [[c0 ov]|] eqn:Hav; [|discriminate].
    rewrite (apply_value_own _ _ _ _ _ Hp Hav), Hv in Ha. inversion Ha; subst.
    apply append_defines. eapply Hfresh; eauto.
  Qed.
End Value.

(* ---- rendering *)
(* lists: the elements separated by exactly one space *)
Definition join_spec (l : list bytes) : bytes :=
  match l with
  | [] => []
  | x :: r => x ++ flat_map (fun y => 32 :: y) r
  end.

Lemma render_list_single_spaces l : render (VList l) = join_spec l.
Proof.
  simpl. induction l as [|x [|y r] IH]; simpl; [reflexivity|now rewrite app_nil_r|].
  simpl in IH. rewrite IH. reflexivity.
Qed.

Lemma render_int z : render (VInt z) = render_Z z.
Proof. reflexivity. Qed.

Lemma render_yes : render (VInt 1) = [49].
Proof. reflexivity. Qed.
Lemma render_no : render (VInt 0) = [48].
Proof. reflexivity. Qed.

(* time-outs are kept in seconds *)
Lemma timeout_in_seconds E T c n u c1 v :
  apply_value E T c PF_regress_timeout (E_timeout n u) = Some (c1, Some v) ->
  exists k, unit_seconds u = Some k /\ v = VInt (k * n)%Z /\ in_i32 (k * n) = true.
Proof.
  simpl. destruct (unit_seconds u) as [k|]; [|discriminate]. destruct (in_i32 (k * n)) eqn:Hi; [|discriminate].
  intros H; inversion H; subst. eauto.
Qed.
