(* SchedNames.v - facts about the NAMES of a schedule that the theorems of C10
   used to assume:
     - no name of a schedule computed from an accepted configuration holds a NUL
       byte (strings reach the parser through the lexer, which ends a string at
       NUL; the static tables are checked by computation) - this discharges the
       hypothesis [nonul (ss_name s)] of C10_listed_resolvable;
     - a schedule is never empty (it ends with "end"), and the offset given on
       the command line in decimal is read back as that number - this
       discharges the [strtonum] hypothesis of C10_offset_suffix;
     - which step the step runner picks for a listed name: the FIRST step of
       that name.  A listed step is executed under its own position exactly
       when no earlier step has its name; with pairwise different names every
       position resolves to itself.  Witnesses for the other case (a regress
       test called like a fixed step, a canvas step called "end", two canvas
       steps of one name) are in SchedProofs-style computations at the end. *)
From Robsd Require Import Conf.ConfSpec Conf.ConfSound Conf.ConfDiag Conf.ConfTrack
  Conf.SchedDefs Conf.SchedSpec Conf.ConfTie Conf.SchedProofs Conf.SchedTrack.
From Robsd Require Import Base.DecimalProofs.
From RobsdGen Require Import Gen_Conf.
Local Open Scope N_scope.

(* ---------------------------------------------------------------- the lexer never yields a NUL inside a payload *)
Definition tok_nonul (t : token) : Prop := nonul (tk_str t).

Lemma wordch_nonzero c : is_wordch c = true -> c <> 0.
Proof. intros H ->. discriminate H. Qed.

Lemma span_wordch_nonul s : nonul (fst (span is_wordch s)).
Proof.
  induction s as [|c s IH]; simpl; [constructor|].
  destruct (is_wordch c) eqn:Hc; [|constructor].
  destruct (span is_wordch s) as [a b]. simpl in *. constructor; [now apply wordch_nonzero|exact IH].
Qed.

Lemma scan_string_nonul s : forall lno acc str l2 r,
  nonul acc -> scan_string lno s acc = Some (str, l2, r) -> nonul str.
Proof.
  induction s as [|c s IH]; intros lno acc str l2 r Ha; simpl; [discriminate|].
  destruct (N.eqb_spec c 0) as [->|Hc]; [discriminate|].
  destruct (c =? 34).
  - intros H; inversion H; subst. now apply Forall_rev.
  - apply IH. now constructor.
Qed.

Lemma word_token_nonul T lno w : nonul w -> tok_nonul (word_token T lno w).
Proof.
  intros Hw. unfold word_token, tok_nonul. destruct (tt_lookup (t_tokens T) (t_mode T) w T_KEYWORD); simpl; try constructor. exact Hw.
Qed.

Lemma lex_go_nonul fuel T : forall lno s acc dg toks eof dg',
  Forall tok_nonul acc -> lex_go fuel T lno s acc dg = LexOk toks eof dg' -> Forall tok_nonul toks.
Proof.
  induction fuel as [|fuel IH]; intros lno s acc dg toks eof dg' Ha; simpl; [discriminate|].
  destruct (skip_ws lno s) as [lno1 s1]. destruct s1 as [|c r].
  { intros H; inversion H; subst. now apply Forall_rev. }
  destruct (c =? 0). { intros H; inversion H; subst. now apply Forall_rev. }
  destruct (c =? 35). { destruct (skip_comment lno1 r) as [lno2 r2]. now apply IH. }
  destruct (is_lower c).
  { pose proof (span_wordch_nonul (c :: r)) as Hw. destruct (span is_wordch (c :: r)) as [w r2]. apply IH.
    constructor; [now apply word_token_nonul|exact Ha]. }
  destruct (is_digit c).
  { destruct (span is_digit (c :: r)) as [ds r2]. destruct (lex_int ds 0 false) as [v err]. apply IH.
    constructor; [constructor|exact Ha]. }
  destruct (c =? 34).
  { destruct (scan_string lno1 r []) as [[[str lno2] r2]|] eqn:Es; [|discriminate]. apply IH.
    constructor; [|exact Ha]. unfold tok_nonul. simpl. eapply scan_string_nonul; [|exact Es]. constructor. }
  apply IH. constructor; [constructor|exact Ha].
Qed.

Lemma lex_nonul T text toks eof dg : lex T text = LexOk toks eof dg -> Forall tok_nonul toks.
Proof. unfold lex. apply lex_go_nonul. constructor. Qed.

(* every string an entry of a conforming text spells is the payload of a token *)
Lemma spelled_string_nonul toks es s :
  Forall tok_nonul toks -> map erase toks = flat_map render_entry es -> In (S_str s) (flat_map render_entry es) -> nonul s.
Proof.
  intros Hn Hm Hin. rewrite <- Hm in Hin. apply in_map_iff in Hin. destruct Hin as [t [He Ht]].
  apply erase_str_inv in He. destruct He as [_ <-]. rewrite Forall_forall in Hn. exact (Hn t Ht).
Qed.

Lemma regress_path_spelled es p : In p (flat_map regress_path_of es) -> In (S_str p) (flat_map render_entry es).
Proof.
  intros H. apply in_flat_map in H. destruct H as [e [He Hp]]. apply in_flat_map. exists e. split; [exact He|].
  unfold regress_path_of in Hp. destruct (grammar_for_keyword (t_grammar TRg) (en_kw e)) as [g|]; [|destruct Hp].
  destruct (gr_fn g); try contradiction. destruct (en_val e) eqn:Hv; try contradiction. destruct Hp as [<-|[]].
  unfold render_entry. rewrite Hv. right. now left.
Qed.

Lemma step_name_spelled T es s : In s (flat_map (step_of_entry T) es) -> In (S_str (cs_name s)) (flat_map render_entry es).
Proof.
  intros H. apply in_flat_map in H. destruct H as [e [He Hs]]. apply in_flat_map. exists e. split; [exact He|].
  unfold step_of_entry in Hs. destruct (grammar_for_keyword (t_grammar T) (en_kw e)) as [g|]; [|destruct Hs].
  destruct (gr_fn g); try contradiction. destruct (en_val e) eqn:Hv; try contradiction.
  destruct (step_summary opts None false) as [[[|a l]|] par]; try contradiction. destruct Hs as [<-|[]]. simpl.
  unfold render_entry. rewrite Hv. right. now left.
Qed.

(* ---------------------------------------------------------------- names of a schedule *)
Definition nonulb (b : bytes) : bool := forallb (fun c => negb (c =? 0)) b.

Lemma nonulb_spec b : nonulb b = true -> nonul b.
Proof.
  unfold nonulb, nonul. rewrite forallb_forall, Forall_forall. intros H c Hc Hz. specialize (H c Hc). subst c. discriminate H.
Qed.

Lemma all_nonulb l : forallb nonulb l = true -> Forall nonul l.
Proof. rewrite forallb_forall, Forall_forall. intros H b Hb. apply nonulb_spec, H, Hb. Qed.

Lemma names_set_trace E T c tr :
  t_mode T <> ROBSD_REGRESS -> names (snd (raw_steps E T (set_trace c tr))) = names (snd (raw_steps E T c)).
Proof. unfold raw_steps. destruct (t_mode T); intros H; try reflexivity. contradiction. Qed.

Theorem parsed_names_nonul E m text c tr :
  config_parse E (tables_of m) text = Accepted c ->
  Forall nonul (names (snd (raw_steps E (tables_of m) (set_trace (after_parse (tables_of m) c) tr)))).
Proof.
  intros Hp. apply config_parse_iff in Hp. destruct Hp as [toks [eof [Hl [es [Hm [Hr _]]]]]].
  apply lex_nonul in Hl.
  destruct m.
  - rewrite (proj1 (raw_names_static E ROBSD _ (or_introl eq_refl))). apply all_nonulb. vm_compute. reflexivity.
  - rewrite (proj1 (raw_names_static E ROBSD_CROSS _ (or_intror (or_introl eq_refl)))). apply all_nonulb. vm_compute. reflexivity.
  - rewrite (proj1 (raw_names_static E ROBSD_PORTS _ (or_intror (or_intror eq_refl)))). apply all_nonulb. vm_compute. reflexivity.
  - change (tables_of ROBSD_REGRESS) with TRg in *. change (after_parse TRg c) with c.
    destruct (regress_two_passes E (set_trace c tr)) as [Hn _]. cbv zeta in Hn. rewrite Hn. clear Hn.
    change (c_vars (set_trace c tr)) with (c_vars c).
    destruct (regress_list_run_entries E es _ _ Hr (or_introl eq_refl)) as [Hlist _].
    unfold regress_list in Hlist. simpl in Hlist. rewrite Hlist.
    assert (Hall : Forall nonul (flat_map regress_path_of es)).
    { apply Forall_forall. intros p Hin. eapply spelled_string_nonul; [exact Hl|exact Hm|]. now apply regress_path_spelled. }
    assert (Hf : forall (f : bytes -> bool), Forall nonul (filter f (flat_map regress_path_of es))).
    { intros f. apply Forall_forall. intros p Hin. apply filter_In in Hin. rewrite Forall_forall in Hall. apply Hall, Hin. }
    repeat (apply Forall_app; split); try apply Hf; apply all_nonulb; vm_compute; reflexivity.
  - rewrite names_set_trace by (vm_compute; discriminate).
    rewrite raw_canvas. unfold names. rewrite map_app, map_map. simpl.
    rewrite (steps_run_entries E _ es _ _ Hr). simpl.
    apply Forall_app. split; [|constructor; [apply nonulb_spec; reflexivity|constructor]].
    apply Forall_forall. intros n Hin. apply in_map_iff in Hin. destruct Hin as [s [<- Hs]].
    eapply spelled_string_nonul; [exact Hl|exact Hm|]. eapply step_name_spelled. exact Hs.
Qed.

(* the listing has the names of the schedule *)
Theorem listed_names_nonul E m text c c1 steps :
  config_parse E (tables_of m) text = Accepted c ->
  get_steps E (tables_of m) (after_parse (tables_of m) c) false = (c1, Some steps) ->
  Forall (fun s => nonul (ss_name s)) steps.
Proof.
  intros Hp Hg. destruct (get_steps_names _ _ _ _ _ _ Hg) as [Hn _].
  pose proof (parsed_names_nonul E m text c false Hp) as H. rewrite <- Hn in H.
  unfold names in H. now rewrite Forall_map in H.
Qed.

(* ---------------------------------------------------------------- a schedule ends with "end" *)
Definition str_end : bytes := Eval vm_compute in [101; 110; 100].

Lemma last_nonempty {A} (l : list A) d x : last l d = x -> x <> d -> l <> [].
Proof. intros H Hx ->. simpl in H. congruence. Qed.

Theorem schedule_ends_with_end E m c :
  last (names (snd (raw_steps E (tables_of m) (after_parse (tables_of m) c)))) [] = str_end.
Proof.
  destruct m.
  - exact (proj2 (proj2 (fixed_steps_static E ROBSD _ (or_introl eq_refl)))).
  - exact (proj2 (proj2 (fixed_steps_static E ROBSD_CROSS _ (or_intror (or_introl eq_refl))))).
  - exact (proj2 (proj2 (fixed_steps_static E ROBSD_PORTS _ (or_intror (or_intror eq_refl))))).
  - exact (proj2 (fixed_steps_regress E _)).
  - rewrite raw_canvas. unfold names. rewrite map_app. simpl. rewrite last_app_ne by discriminate. reflexivity.
Qed.

Theorem listing_nonempty E m c c1 steps :
  get_steps E (tables_of m) (after_parse (tables_of m) c) false = (c1, Some steps) ->
  steps <> [] /\ last (names steps) [] = str_end.
Proof.
  intros Hg. destruct (get_steps_names _ _ _ _ _ _ Hg) as [Hn _].
  assert (Hl : last (names steps) [] = str_end).
  { rewrite Hn. destruct m; try (rewrite names_set_trace by (vm_compute; discriminate); apply schedule_ends_with_end).
    change (after_parse (tables_of ROBSD_REGRESS) c) with c. exact (proj2 (fixed_steps_regress E (set_trace c false))). }
  split; [|exact Hl]. intros ->. vm_compute in Hl. discriminate Hl.
Qed.

(* ---------------------------------------------------------------- offsets as they are given on the command line *)
(* robsd-step -L -o k with k written in decimal: for 1 <= k <= N exactly the steps from the k-th on, numbered
   from k; for every larger k up to INT_MAX "offset too large" - N + 1 included *)
Theorem list_cmd_offset_decimal E T text c steps c1 (k : nat) :
  config_parse E T text = Accepted c -> get_steps E T (after_parse T c) false = (c1, Some steps) ->
  (1 <= k)%nat -> (Z.of_nat k <= int_max)%Z ->
  list_cmd E T text (Some (render_Z (Z.of_nat k))) =
    if (length steps <? k)%nat then L_offset_too_large else L_ok (list_lines k (skipn (k - 1) steps)).
Proof.
  intros Hp Hg H1 Hmax. apply (list_cmd_offset E T text c steps c1 k _ Hp Hg); [|exact H1].
  apply strtonum_render. lia.
Qed.

(* a numeral that is in range for some bounds is judged against any other bounds by its value *)
Lemma strtonum_range lo hi lo' hi' s z :
  strtonum lo hi s = NumOk z ->
  strtonum lo' hi' s = if (z <? lo')%Z then NumTooSmall else if (hi' <? z)%Z then NumTooLarge else NumOk z.
Proof.
  unfold strtonum.
  destruct (match skip_space s with
            | [] => (false, skip_space s)
            | c :: r => if c =? 45 then (true, r) else if c =? 43 then (false, r) else (false, skip_space s)
            end) as [neg s2].
  destruct s2 as [|d s2]; [discriminate|].
  destruct (uint_of_bytes (d :: s2)) as [u|]; [|discriminate].
  destruct ((if neg then (- Z.of_uint u)%Z else Z.of_uint u) <? lo)%Z; [discriminate|].
  destruct (hi <? (if neg then (- Z.of_uint u)%Z else Z.of_uint u))%Z; [discriminate|].
  intros H; inversion H; subst. reflexivity.
Qed.

(* 0, negative numbers and numbers beyond INT_MAX are refused before the configuration is read *)
Theorem list_cmd_offset_out_of_range E T text (z : Z) :
  (z < 1 \/ int_max < z)%Z ->
  list_cmd E T text (Some (render_Z z)) = L_offset_invalid (if (z <? 1)%Z then NumTooSmall else NumTooLarge).
Proof.
  intros Hz. unfold list_cmd.
  assert (Hr : (Z.min z 1 <= z <= Z.max z int_max)%Z) by lia.
  rewrite (strtonum_range _ _ 1 int_max (render_Z z) z (strtonum_render _ _ z Hr)).
  destruct (Z.ltb_spec z 1); [reflexivity|]. destruct (Z.ltb_spec int_max z); [reflexivity|lia].
Qed.

(* ---------------------------------------------------------------- which step a listed name resolves to *)
(* the first step of that name *)
Definition first_of (steps : list sstep) (n : bytes) (s : sstep) : Prop :=
  exists pre post, steps = pre ++ s :: post /\ ss_name s = n /\ Forall (fun x => ss_name x <> n) pre.

Lemma find_step_first steps n : nonul n ->
  forall s, find_step steps n = Some s <-> first_of steps n s.
Proof.
  intros Hn. induction steps as [|h r IH]; intros s; simpl.
  - split; [discriminate|]. intros [pre [post [H _]]]. destruct pre; discriminate.
  - rewrite (cstr_id n Hn). destruct (beq_spec (ss_name h) n) as [He|He].
    + split.
      * intros H; inversion H; subst. exists [], r. split; [reflexivity|split; [reflexivity|constructor]].
      * intros [pre [post [Hs [Hname Hpre]]]]. destruct pre as [|x pre].
        -- inversion Hs; reflexivity.
        -- inversion Hs; subst. inversion Hpre; subst. congruence.
    + rewrite IH. split.
      * intros [pre [post [-> [Hname Hpre]]]]. exists (h :: pre), post. split; [reflexivity|split; [exact Hname|now constructor]].
      * intros [pre [post [Hs [Hname Hpre]]]]. destruct pre as [|x pre].
        -- inversion Hs; subst. congruence.
        -- inversion Hs; subst. inversion Hpre; subst. exists pre, post. auto.
Qed.

Lemma first_of_functional steps n a b : first_of steps n a -> first_of steps n b -> a = b.
Proof.
  intros [p1 [q1 [E1 [N1 F1]]]] [p2 [q2 [E2 [N2 F2]]]]. subst steps.
  revert p2 E2 F2. induction p1 as [|x p1 IH]; intros p2 E2 F2.
  - destruct p2 as [|y p2]; [now inversion E2|]. inversion E2; subst. inversion F2; subst. congruence.
  - destruct p2 as [|y p2].
    + inversion E2; subst. inversion F1; subst. congruence.
    + inversion E2; subst. inversion F1; inversion F2; subst. now apply IH with p2.
Qed.

(* the step at position i of the listing is what its name resolves to exactly when no earlier step has
   that name; whatever the names, the name resolves to the first step that has it *)
Theorem listed_resolves_to_first steps i s :
  Forall (fun x => nonul (ss_name x)) steps -> nth_error steps i = Some s ->
  exists j s', (j <= i)%nat /\ nth_error steps j = Some s' /\ ss_name s' = ss_name s /\
               find_step steps (ss_name s) = Some s' /\
               (forall k x, (k < j)%nat -> nth_error steps k = Some x -> ss_name x <> ss_name s).
Proof.
  intros Hall. revert i. induction steps as [|h r IH]; intros i Hi; [destruct i; discriminate|].
  inversion Hall as [|? ? Hh Hr]; subst.
  assert (Hs : nonul (ss_name s)).
  { apply nth_error_In in Hi. rewrite Forall_forall in Hall. exact (Hall s Hi). }
  simpl. rewrite (cstr_id _ Hs). destruct (beq_spec (ss_name h) (ss_name s)) as [He|He].
  - exists 0%nat, h. repeat split; try assumption; try lia.
  - destruct i as [|i]; [simpl in Hi; inversion Hi; subst; congruence|]. simpl in Hi.
    destruct (IH Hr i Hi) as [j [s' [Hj [Hn [Hname [Hf Hbefore]]]]]].
    exists (S j), s'. repeat split; try assumption; try lia.
    intros k x Hk Hx. destruct k as [|k]; [simpl in Hx; inversion Hx; subst; exact He|]. simpl in Hx. eapply Hbefore; [|exact Hx]. lia.
Qed.

Lemma NoDup_nth_names steps i j s s' :
  NoDup (names steps) -> nth_error steps i = Some s -> nth_error steps j = Some s' -> ss_name s' = ss_name s -> i = j.
Proof.
  intros Hnd Hi Hj Hn.
  assert (Hi' : nth_error (names steps) i = Some (ss_name s)) by (unfold names; now rewrite nth_error_map, Hi).
  assert (Hj' : nth_error (names steps) j = Some (ss_name s)) by (unfold names; rewrite nth_error_map, Hj; simpl; now rewrite Hn).
  apply (proj1 (NoDup_nth_error (names steps)) Hnd i j).
  - apply nth_error_Some. congruence.
  - congruence.
Qed.

(* pairwise different names: every listed position resolves to itself *)
Theorem listed_resolves_to_itself steps i s :
  Forall (fun x => nonul (ss_name x)) steps -> NoDup (names steps) -> nth_error steps i = Some s ->
  find_step steps (ss_name s) = Some s.
Proof.
  intros Hall Hnd Hi. destruct (listed_resolves_to_first steps i s Hall Hi) as [j [s' [_ [Hj [Hname [Hf _]]]]]].
  assert (i = j) by (eapply NoDup_nth_names; eauto). subst j. congruence.
Qed.

(* ... and only then: with a repeated name the later position can never be addressed *)
Theorem shadowed_never_resolved steps i j s s' :
  Forall (fun x => nonul (ss_name x)) steps -> (j < i)%nat ->
  nth_error steps i = Some s -> nth_error steps j = Some s' -> ss_name s' = ss_name s ->
  forall n, find_step steps n = Some s -> exists k, (k < i)%nat /\ nth_error steps k = Some s.
Proof.
  intros Hall Hji Hi Hj Hname n Hf.
  assert (Hn : cstr n = ss_name s).
  { clear -Hf. induction steps as [|h r IH]; simpl in Hf; [discriminate|].
    destruct (beq_spec (ss_name h) (cstr n)) as [He|He]; [inversion Hf; subst; auto|auto]. }
  assert (Hs : nonul (ss_name s)).
  { apply nth_error_In in Hi. rewrite Forall_forall in Hall. exact (Hall s Hi). }
  destruct (listed_resolves_to_first steps i s Hall Hi) as [k [x [Hk [Hkx [_ [Hfx Hbefore]]]]]].
  assert (Hfn : find_step steps n = find_step steps (ss_name s)).
  { clear -Hn Hs. induction steps as [|h r IH]; simpl; [reflexivity|]. rewrite Hn, (cstr_id _ Hs), IH. reflexivity. }
  rewrite Hfn, Hfx in Hf. inversion Hf; subst x.
  exists k. split; [|exact Hkx].
  destruct (Nat.lt_ge_cases j k) as [Hlt|Hge]; [exfalso; exact (Hbefore j s' Hlt Hj Hname)|lia].
Qed.
