(* ConfTrack.v - which variables an entry writes, and that nothing else changes.
   Every production writes a known set of names ([entry_targets]); besides
   those, only variables whose name is answered by a row with a computed default
   can come into existence (ConfPrim).  Hence for every other name the value
   found after a list of entries is the value found before. *)
From Robsd Require Import Conf.ConfSpec Conf.ConfInv Conf.ConfPrim Conf.ConfValue.
Local Open Scope N_scope.

(* ---------------------------------------------------------------- lists of variables *)
Lemma find_var_app_other vars n v n0 : beq n n0 = false -> find_var (vars ++ [(n, v)]) n0 = find_var vars n0.
Proof.
  intros H. induction vars as [|[k w] vars IH]; simpl; [now rewrite H|]. destruct (beq k n0); [reflexivity|exact IH].
Qed.

Lemma find_var_set_first_other vars n v n0 : beq n n0 = false -> find_var (set_first vars n v) n0 = find_var vars n0.
Proof.
  intros H. induction vars as [|[k w] vars IH]; simpl; [reflexivity|].
  destruct (beq_spec k n) as [->|Hk]; simpl.
  - now rewrite H.
  - destruct (beq k n0); [reflexivity|exact IH].
Qed.

Lemma find_var_set_first_same vars n v w : find_var vars n = Some w -> find_var (set_first vars n v) n = Some v.
Proof.
  induction vars as [|[k u] vars IH]; simpl; [discriminate|].
  destruct (beq k n) eqn:Hk; simpl; [now rewrite Hk|]. rewrite Hk. exact IH.
Qed.

Lemma set_nth_app base k w extra v : set_nth (base ++ (k, w) :: extra) (length base) v = base ++ (k, v) :: extra.
Proof. induction base as [|[a b] base IH]; simpl; [reflexivity|]. now rewrite IH. Qed.

Lemma find_var_mid_other base k w w' extra n0 :
  beq k n0 = false -> find_var (base ++ (k, w) :: extra) n0 = find_var (base ++ (k, w') :: extra) n0.
Proof.
  intros H. induction base as [|[a b] base IH]; simpl; [now rewrite H|]. destruct (beq a n0); [reflexivity|exact IH].
Qed.

Lemma beq_false_ne a b : a <> b -> beq a b = false.
Proof. intros H. destruct (beq_spec a b); [contradiction|reflexivity]. Qed.

(* ---------------------------------------------------------------- the names a production writes *)
Definition ropt_target (path : bytes) (o : ropt) : bytes :=
  match o with
  | O_env _ => regress_name path sfx_env
  | O_no_parallel => regress_name path sfx_parallel
  | O_obj _ => kw_regress_obj
  | O_packages _ => kw_regress_packages
  | O_quiet => regress_name path sfx_quiet
  | O_root => regress_name path sfx_root
  | O_targets _ => regress_name path sfx_targets
  end.

Definition value_targets (f : pfun) (ev : evalue) : list bytes :=
  match f, ev with
  | PF_canvas_directory, _ => [kw_canvas_dir; kw_robsddir]
  | PF_canvas_step, _ => [kw_step]
  | PF_regress_env, _ => [kw_regress_env]
  | PF_regress, E_regress path opts => str_regress :: map (ropt_target path) opts
  | _, _ => []
  end.

Definition not_among (n0 : bytes) (l : list bytes) : Prop := Forall (fun n => beq n n0 = false) l.

Section Untouched.
  Variable E : env.
  Variable T : tables.
  Variable n0 : bytes.
  Hypothesis n0_not_fun : ~ fun_name T n0.

  Let Pv (x : option value) (c : cfg) : Prop := find_var (c_vars c) n0 = x.

  Lemma Pv_append_fun x c n v : fun_name T n -> Pv x c -> Pv x (cfg_append c n v).
  Proof.
    intros Hf H. unfold Pv in *. simpl. rewrite find_var_app_other; [exact H|].
    apply beq_false_ne. intros ->. contradiction.
  Qed.

  Lemma untouched_interp c s : find_var (c_vars (fst (cfg_interp E T c s))) n0 = find_var (c_vars c) n0.
  Proof.
    apply (prim_cfg_interp E T (Pv (find_var (c_vars c) n0)) (Pv_append_fun _)); unfold Pv; auto.
  Qed.

  Lemma untouched_interp_early c s : find_var (c_vars (fst (cfg_interp_early E T c s))) n0 = find_var (c_vars c) n0.
  Proof.
    apply (prim_cfg_interp_early E T (Pv (find_var (c_vars c) n0)) (Pv_append_fun _)); unfold Pv; auto.
  Qed.

  Lemma untouched_dir_ok c s c1 : dir_ok E T c s = Some c1 -> find_var (c_vars c1) n0 = find_var (c_vars c) n0.
  Proof.
    apply (prim_dir_ok E T (Pv (find_var (c_vars c) n0)) (Pv_append_fun _)); unfold Pv; auto.
  Qed.

  (* interpolation only ever appends *)
  Lemma interp_early_extends c s : exists extra, c_vars (fst (cfg_interp_early E T c s)) = c_vars c ++ extra.
  Proof.
    apply (prim_cfg_interp_early E T (fun c' => exists extra, c_vars c' = c_vars c ++ extra)).
    - intros c' n v _ [ex Hx]. exists (ex ++ [(n, v)]). simpl. now rewrite Hx, app_assoc.
    - intros c' r Hx. exact Hx.
    - intros c' Hx. exact Hx.
    - intros c' d _ Hx. exact Hx.
    - exists []. now rewrite app_nil_r.
  Qed.

  Lemma untouched_concat_list c n l : beq n n0 = false -> find_var (c_vars (concat_list c n l)) n0 = find_var (c_vars c) n0.
  Proof.
    intros H. unfold concat_list.
    set (c1 := if present c n then c else cfg_append c n (VList [])).
    assert (H1 : find_var (c_vars c1) n0 = find_var (c_vars c) n0).
    { unfold c1. destruct (present c n); [reflexivity|]. simpl. now apply find_var_app_other. }
    destruct (find_var (c_vars c1) n) as [[| | |old]|]; simpl; try exact H1.
    rewrite find_var_set_first_other by exact H. exact H1.
  Qed.

  Lemma untouched_apply_env c path l c1 :
    beq (regress_name path sfx_env) n0 = false -> apply_env E T c path l = Some c1 ->
    find_var (c_vars c1) n0 = find_var (c_vars c) n0.
  Proof.
    intros H. unfold apply_env.
    set (name := regress_name path sfx_env) in *. set (v := VList (regress_env_ref :: l)).
    set (tm := 36 :: 123 :: name ++ [125]).
    pose proof (interp_early_extends (cfg_append c name v) tm) as [extra Hx].
    pose proof (untouched_interp_early (cfg_append c name v) tm) as Hu.
    destruct (cfg_interp_early E T (cfg_append c name v) tm) as [c3 r]. simpl in Hx, Hu.
    destruct r as [str|e]; [|discriminate]. intros H1; inversion H1; subst. simpl.
    rewrite Hx, <- app_assoc. simpl app. rewrite set_nth_app.
    rewrite (find_var_mid_other _ _ (VStr str) v _ _ H).
    replace (c_vars c ++ (name, v) :: extra) with (c_vars c3) by (rewrite Hx, <- app_assoc; reflexivity).
    rewrite Hu. now apply find_var_app_other.
  Qed.

  Lemma untouched_apply_ropt c path o c1 :
    beq (ropt_target path o) n0 = false -> apply_ropt E T c path o = Some c1 ->
    find_var (c_vars c1) n0 = find_var (c_vars c) n0.
  Proof.
    intros H. destruct o; simpl in *; intros H1.
    - exact (untouched_apply_env _ _ _ _ H H1).
    - inversion H1; subst. simpl. now apply find_var_app_other.
    - inversion H1; subst. now apply untouched_concat_list.
    - inversion H1; subst. now apply untouched_concat_list.
    - inversion H1; subst. simpl. now apply find_var_app_other.
    - inversion H1; subst. simpl. now apply find_var_app_other.
    - inversion H1; subst. now apply untouched_concat_list.
  Qed.

  Lemma untouched_apply_ropts os : forall c path c1,
    not_among n0 (map (ropt_target path) os) -> apply_ropts E T c path os = Some c1 ->
    find_var (c_vars c1) n0 = find_var (c_vars c) n0.
  Proof.
    induction os as [|o os IH]; intros c path c1 Hn; simpl; [intros H; inversion H; reflexivity|].
    inversion Hn as [|? ? Ho Hos]; subst.
    destruct (apply_ropt E T c path o) as [c2|] eqn:Ha; [|discriminate]. intros H.
    rewrite (IH _ _ _ Hos H). eapply untouched_apply_ropt; eauto.
  Qed.

  Lemma untouched_apply_value c f ev c1 ov :
    not_among n0 (value_targets f ev) -> apply_value E T c f ev = Some (c1, ov) ->
    find_var (c_vars c1) n0 = find_var (c_vars c) n0.
  Proof.
    intros Hn. destruct f, ev; simpl in *; try discriminate; intros H; try (inversion H; reflexivity).
    - destruct (e_glob E s); inversion H; reflexivity.
    - destruct (e_user E s); inversion H; reflexivity.
    - destruct (dir_ok E T c s) as [c2|] eqn:Hd; inversion H; subst. eapply untouched_dir_ok; eauto.
    - destruct (dir_ok E T c s) as [c2|] eqn:Hd; inversion H; subst.
      inversion Hn as [|? ? H1 Hn']; subst. inversion Hn' as [|? ? H2 _]; subst. simpl.
      rewrite find_var_app_other by exact H2. rewrite find_var_app_other by exact H1. eapply untouched_dir_ok; eauto.
    - destruct (step_summary opts None false) as [[[|a l]|] par]; try discriminate. inversion H; subst.
      inversion Hn as [|? ? H1 _]; subst. simpl. destruct (c_steps c); simpl; [now apply find_var_app_other|reflexivity].
    - destruct (apply_ropts E T c path opts) as [c2|] eqn:Hr; [|discriminate]. inversion H; subst.
      inversion Hn as [|? ? H1 Hn']; subst. rewrite untouched_concat_list by exact H1. eapply untouched_apply_ropts; eauto.
    - inversion H; subst. inversion Hn as [|? ? H1 _]; subst. now apply untouched_concat_list.
    - destruct (unit_seconds unit) as [k|]; [|discriminate]. destruct (in_i32 (k * n)); inversion H; reflexivity.
  Qed.

  (* an entry that neither is named n0 nor writes n0 leaves it alone *)
  Lemma untouched_apply_entry c g e c1 :
    beq (en_kw e) n0 = false -> not_among n0 (value_targets (gr_fn g) (en_val e)) ->
    apply_entry E T c g e = Some c1 -> find_var (c_vars c1) n0 = find_var (c_vars c) n0.
  Proof.
    intros Hk Hn. unfold apply_entry.
    destruct (apply_value E T c (gr_fn g) (en_val e)) as [[c2 ov]|] eqn:Ha; [|discriminate].
    pose proof (untouched_apply_value _ _ _ _ _ Hn Ha) as Hu.
    destruct ov as [v|]; intros H; inversion H; subst; [|exact Hu]. simpl. rewrite find_var_app_other by exact Hk. exact Hu.
  Qed.
End Untouched.

(* ---------------------------------------------------------------- canvas steps in configuration order *)
Definition step_of_entry (T : tables) (e : entry) : list cstep :=
  match grammar_for_keyword (t_grammar T) (en_kw e) with
  | Some g =>
      match gr_fn g, en_val e with
      | PF_canvas_step, E_step name opts =>
          match step_summary opts None false with
          | (Some (a :: l), par) => [mk_cstep name (a :: l) par]
          | _ => []
          end
      | _, _ => []
      end
  | None => []
  end.

Section Steps.
  Variable E : env.
  Variable T : tables.

  Let Ps (S : list cstep) (c : cfg) : Prop := c_steps c = S.

  Lemma steps_interp c s : c_steps (fst (cfg_interp E T c s)) = c_steps c.
  Proof. apply (prim_cfg_interp E T (Ps (c_steps c))); unfold Ps; auto. Qed.
  Lemma steps_interp_early c s : c_steps (fst (cfg_interp_early E T c s)) = c_steps c.
  Proof. apply (prim_cfg_interp_early E T (Ps (c_steps c))); unfold Ps; auto. Qed.
  Lemma steps_dir_ok c s c1 : dir_ok E T c s = Some c1 -> c_steps c1 = c_steps c.
  Proof. apply (prim_dir_ok E T (Ps (c_steps c))); unfold Ps; auto. Qed.

  Lemma steps_concat_list c n l : c_steps (concat_list c n l) = c_steps c.
  Proof.
    unfold concat_list. set (c1 := if present c n then c else cfg_append c n (VList [])).
    assert (H1 : c_steps c1 = c_steps c) by (unfold c1; destruct (present c n); reflexivity).
    destruct (find_var (c_vars c1) n) as [[| | |old]|]; exact H1.
  Qed.

  Lemma steps_apply_ropts os : forall c path c1, apply_ropts E T c path os = Some c1 -> c_steps c1 = c_steps c.
  Proof.
    induction os as [|o os IH]; intros c path c1; simpl; [intros H; inversion H; reflexivity|].
    destruct (apply_ropt E T c path o) as [c2|] eqn:Ha; [|discriminate]. intros H. rewrite (IH _ _ _ H).
    destruct o; simpl in Ha; try (inversion Ha; subst; first [reflexivity|apply steps_concat_list]).
    unfold apply_env in Ha.
    match type of Ha with context [cfg_interp_early E T ?c2 ?s] =>
      pose proof (steps_interp_early c2 s) as Hs; destruct (cfg_interp_early E T c2 s) as [c3 [str|e]] end; [|discriminate].
    inversion Ha; subst. exact Hs.
  Qed.

  Lemma steps_apply_value c f ev c1 ov :
    apply_value E T c f ev = Some (c1, ov) ->
    c_steps c1 = c_steps c ++ match f, ev with
                              | PF_canvas_step, E_step name opts =>
                                  match step_summary opts None false with
                                  | (Some (a :: l), par) => [mk_cstep name (a :: l) par]
                                  | _ => []
                                  end
                              | _, _ => []
                              end.
  Proof.
    destruct f, ev; simpl; try discriminate; intros H; try (inversion H; subst; now rewrite app_nil_r).
    - destruct (e_glob E s); inversion H; subst; now rewrite app_nil_r.
    - destruct (e_user E s); inversion H; subst; now rewrite app_nil_r.
    - destruct (dir_ok E T c s) as [c2|] eqn:Hd; inversion H; subst. rewrite app_nil_r. eapply steps_dir_ok; eauto.
    - destruct (dir_ok E T c s) as [c2|] eqn:Hd; inversion H; subst. rewrite app_nil_r. simpl. eapply steps_dir_ok; eauto.
    - destruct (step_summary opts None false) as [[[|a l]|] par]; try discriminate.
      destruct (c_steps c) eqn:Hc; inversion H; subst; simpl; rewrite ?Hc; reflexivity.
    - destruct (apply_ropts E T c path opts) as [c2|] eqn:Hr; [|discriminate]. inversion H; subst.
      rewrite app_nil_r, steps_concat_list. eapply steps_apply_ropts; eauto.
    - inversion H; subst. now rewrite app_nil_r, steps_concat_list.
    - destruct (unit_seconds unit) as [k|]; [|discriminate]. destruct (in_i32 (k * n)); inversion H; subst; now rewrite app_nil_r.
  Qed.

  (* the canvas step list after a list of entries: the step entries, in order *)
  Theorem steps_run_entries es : forall c c1,
    run_entries E T c es = Some c1 -> c_steps c1 = c_steps c ++ flat_map (step_of_entry T) es.
  Proof.
    induction es as [|e es IH]; intros c c1; simpl; [intros H; inversion H; now rewrite app_nil_r|].
    unfold step_of_entry at 1.
    destruct (grammar_for_keyword (t_grammar T) (en_kw e)) as [g|]; [|discriminate].
    destruct (value_fits (gr_fn g) (en_val e) && (gr_rep g || negb (present c (en_kw e)))); [|discriminate].
    unfold apply_entry. destruct (apply_value E T c (gr_fn g) (en_val e)) as [[c2 ov]|] eqn:Ha; [|discriminate].
    pose proof (steps_apply_value _ _ _ _ _ Ha) as Hs. intros H.
    assert (H2 : run_entries E T (match ov with Some v => cfg_append c2 (en_kw e) v | None => c2 end) es = Some c1)
      by (destruct ov; exact H).
    rewrite (IH _ _ H2). assert (Hc : c_steps (match ov with Some v => cfg_append c2 (en_kw e) v | None => c2 end) = c_steps c2)
      by (destruct ov; reflexivity).
    rewrite Hc, Hs, <- app_assoc. reflexivity.
  Qed.
End Steps.

(* ---------------------------------------------------------------- plain keywords: the value written, first definition wins *)
(* names no production other than the keyword's own entry writes: not one of the
   fixed names, and not of the form regress-<path>-<option> *)
Definition free_kw (kw : bytes) : bool :=
  negb (prefixb regress_prefix kw)
  && negb (existsb (beq kw) [kw_canvas_dir; kw_robsddir; kw_step; str_regress]).

Lemma regress_name_prefix p s : prefixb regress_prefix (regress_name p s) = true.
Proof. apply prefixb_spec. eexists. reflexivity. Qed.

Lemma free_kw_targets kw f ev : free_kw kw = true -> not_among kw (value_targets f ev).
Proof.
  unfold free_kw. intros H. apply andb_true_iff in H. destruct H as [Hp Hf].
  apply negb_true_iff in Hp. apply negb_true_iff in Hf.
  assert (Hfix : forall n, In n [kw_canvas_dir; kw_robsddir; kw_step; str_regress] -> beq n kw = false).
  { intros n Hin. destruct (beq_spec n kw) as [->|]; [|reflexivity].
    exfalso. assert (existsb (beq kw) [kw_canvas_dir; kw_robsddir; kw_step; str_regress] = true)
      by (apply existsb_exists; exists kw; split; [exact Hin|apply beq_refl]). congruence. }
  assert (Hpre : forall n, prefixb regress_prefix n = true -> beq n kw = false).
  { intros n Hn. destruct (beq_spec n kw) as [->|]; [congruence|reflexivity]. }
  assert (Hrn : forall p s, beq (regress_name p s) kw = false) by (intros; apply Hpre, regress_name_prefix).
  assert (H1 : beq kw_canvas_dir kw = false) by (apply Hfix; left; reflexivity).
  assert (H2 : beq kw_robsddir kw = false) by (apply Hfix; right; left; reflexivity).
  assert (H3 : beq kw_step kw = false) by (apply Hfix; right; right; left; reflexivity).
  assert (H4 : beq str_regress kw = false) by (apply Hfix; right; right; right; left; reflexivity).
  assert (H5 : beq kw_regress_env kw = false) by (apply Hpre; reflexivity).
  assert (H6 : beq kw_regress_obj kw = false) by (apply Hpre; reflexivity).
  assert (H7 : beq kw_regress_packages kw = false) by (apply Hpre; reflexivity).
  unfold not_among, value_targets.
  destruct f, ev; repeat (constructor; try assumption).
  apply Forall_forall. intros n Hin. apply in_map_iff in Hin. destruct Hin as [o [<- _]].
  destruct o; unfold ropt_target; auto.
Qed.

Section PlainValue.
  Variable E : env.
  Variable T : tables.
  Variable kw : bytes.

  (* the keyword is settable with a plain kind, nothing else writes its name, and
     looking it up never defines it *)
  Definition plain_free : bool :=
    match grammar_for_keyword (t_grammar T) kw with
    | Some g => plain (gr_fn g)
    | None => false
    end
    && free_kw kw
    && match grammar_for_interp (t_grammar T) kw with
       | Some g' => match gr_default g' with D_fun f => negb (appends f) | _ => true end
       | None => true
       end.

  Hypothesis Hpf : plain_free = true.

  Lemma plain_free_not_fun : ~ fun_name T kw.
  Proof.
    unfold plain_free in Hpf. apply andb_true_iff in Hpf. destruct Hpf as [_ H].
    intros [g [f [Hg [Hd Ha]]]]. rewrite Hg, Hd, Ha in H. discriminate.
  Qed.

  (* the value the first defining entry named kw writes *)
  Fixpoint kw_value (es : list entry) : option value :=
    match es with
    | [] => None
    | e :: es' =>
        if beq (en_kw e) kw then
          match grammar_for_keyword (t_grammar T) kw with
          | Some g => match own_value E (gr_fn g) (en_val e) with Some v => Some v | None => kw_value es' end
          | None => kw_value es'
          end
        else kw_value es'
    end.

  Theorem plain_value_run_entries es : forall c c1,
    run_entries E T c es = Some c1 ->
    find_var (c_vars c1) kw = match find_var (c_vars c) kw with Some v => Some v | None => kw_value es end.
  Proof.
    pose proof plain_free_not_fun as Hnf.
    assert (Hfree : free_kw kw = true).
    { unfold plain_free in Hpf. apply andb_true_iff in Hpf. destruct Hpf as [H _]. apply andb_true_iff in H. tauto. }
    induction es as [|e es IH]; intros c c1; simpl.
    - intros H; inversion H; subst. destruct (find_var (c_vars c1) kw); reflexivity.
    - destruct (grammar_for_keyword (t_grammar T) (en_kw e)) as [g|] eqn:Hg; [|discriminate].
      destruct (value_fits (gr_fn g) (en_val e) && (gr_rep g || negb (present c (en_kw e)))); [|discriminate].
      destruct (apply_entry E T c g e) as [c2|] eqn:Ha; [|discriminate]. intros H. rewrite (IH _ _ H).
      destruct (beq_spec (en_kw e) kw) as [Hk|Hk].
      + (* the entry is named kw: a plain kind *)
        rewrite Hk in Hg. rewrite Hg.
        assert (Hp : plain (gr_fn g) = true).
        { unfold plain_free in Hpf. rewrite Hg in Hpf. apply andb_true_iff in Hpf. destruct Hpf as [H1 _]. apply andb_true_iff in H1. tauto. }
        unfold apply_entry in Ha. destruct (apply_value E T c (gr_fn g) (en_val e)) as [[c3 ov]|] eqn:Hav; [|discriminate].
        rewrite (apply_value_own E T _ _ _ _ _ Hp Hav) in Ha.
        pose proof (untouched_apply_value E T kw Hnf _ _ _ _ _ (free_kw_targets kw _ _ Hfree) Hav) as Hu.
        destruct (own_value E (gr_fn g) (en_val e)) as [v|]; inversion Ha; subst.
        * simpl c_vars. rewrite Hk, <- Hu. destruct (find_var (c_vars c3) kw) as [w|] eqn:Hc3.
          -- now rewrite (find_var_app_some _ _ _ _ Hc3).
          -- rewrite (find_var_app_none _ _ _ Hc3). simpl. now rewrite beq_refl.
        * rewrite Hu. reflexivity.
      + rewrite (untouched_apply_entry E T kw Hnf _ _ _ _ (beq_false_ne _ _ Hk) (free_kw_targets kw _ _ Hfree) Ha).
        reflexivity.
  Qed.
End PlainValue.
