(* ConfComplete.v - conforms -> accept: on the spelling of a value whose side
   conditions hold, followed by a keyword or the end of the file, every parser
   routine succeeds, consumes exactly that spelling and leaves the dictionary
   the specification assigns; no lexer-class diagnostic is produced along the
   way, so config_parse_inner accepts. *)
From Robsd Require Import Conf.ConfSpec Conf.ConfSound Conf.ConfInv.
Local Open Scope N_scope.
Local Arguments Z.mul : simpl never.
Local Arguments Z.add : simpl never.

(* ---------------------------------------------------------------- the routines on a spelled value *)
(* what follows a value in a conforming stream: a keyword, or nothing *)
Definition stop_ok (r : list token) : Prop :=
  match r with [] => True | t :: _ => tk_type t = T_KEYWORD end.

Section Complete.
  Variable E : env.
  Variable T : tables.
  Variable eof : Z.

  Definition rv_of (ov : option value) : prv := match ov with Some v => R_append v | None => R_nop end.

  Lemma expect_hit c t r ty : tk_type t = ty -> expect eof c (t :: r) ty = (c, r, Some t).
  Proof. unfold expect, next. intros ->. now rewrite ttype_eqb_refl. Qed.

  Lemma lexer_if_hit t r ty : tk_type t = ty -> lexer_if eof (t :: r) ty = Some (t, r).
  Proof. unfold lexer_if, next. intros ->. now rewrite ttype_eqb_refl. Qed.

  Lemma lexer_if_stop r ty : stop_ok r -> ty <> T_KEYWORD -> ty <> T_EOF -> lexer_if eof r ty = None.
  Proof.
    unfold lexer_if, next. intros Hs H1 H2. destruct r as [|t r'].
    - simpl. destruct (ttype_eqb_spec T_EOF ty); [congruence|reflexivity].
    - simpl in Hs. rewrite Hs. destruct (ttype_eqb_spec T_KEYWORD ty); [congruence|reflexivity].
  Qed.

  Lemma list_items_complete items : forall c tsv r acc,
    map erase tsv = map S_str items ++ [S_sym T_RBRACE] ->
    exists lno, list_items eof c (tsv ++ r) acc = (R_append (VList (rev acc ++ items)), c, r, lno).
  Proof.
    induction items as [|it items IH]; intros c tsv r acc Hm; simpl in Hm.
    - destruct tsv as [|t [|t2 tsv]]; try discriminate. simpl in Hm. inversion Hm as [Ht].
      apply erase_sym_inv in Ht. destruct Ht as [Ht _]. simpl. rewrite Ht. simpl.
      rewrite app_nil_r. eauto.
    - destruct tsv as [|t tsv]; [discriminate|]. simpl in Hm. inversion Hm as [[Ht Hm']].
      apply erase_str_inv in Ht. destruct Ht as [Ht Hs]. simpl. rewrite Ht. simpl.
      destruct (IH c tsv r (tk_str t :: acc) Hm') as [lno Hl]. exists lno. rewrite Hl. simpl.
      rewrite Hs, <- app_assoc. reflexivity.
  Qed.

  Lemma parse_list_l_complete c tsv r l :
    map erase tsv = render_list l ->
    exists lno, parse_list_l eof c (tsv ++ r) = (R_append (VList l), c, r, lno).
  Proof.
    unfold render_list. intros Hm. destruct tsv as [|t tsv]; [discriminate|]. simpl in Hm. inversion Hm as [[Ht Hm']].
    apply erase_sym_inv in Ht. destruct Ht as [Ht _]. unfold parse_list_l. simpl app. rewrite (expect_hit _ _ _ _ Ht).
    destruct (list_items_complete l c tsv r [] Hm') as [lno Hl]. exists lno. exact Hl.
  Qed.

  Lemma parse_list_complete c tsv r l :
    map erase tsv = render_list l -> parse_list eof c (tsv ++ r) = (R_append (VList l), c, r).
  Proof.
    intros Hm. unfold parse_list. destruct (parse_list_l_complete c tsv r l Hm) as [lno ->]. reflexivity.
  Qed.

  Definition complete_at (f : pfun) : Prop :=
    forall c ev tsv r c1 ov,
      value_fits f ev = true -> map erase tsv = render_value ev -> apply_value E T c f ev = Some (c1, ov) ->
      stop_ok r -> run_pfun E T eof f c (tsv ++ r) = (rv_of ov, c1, r).

  Ltac one_tok tsv Hm t :=
    destruct tsv as [|t [|? ?]]; try discriminate; simpl in Hm; inversion Hm as [Ht]; clear Hm.

  Lemma complete_boolean : complete_at PF_boolean.
  Proof.
    intros c ev tsv r c1 ov Hf Hm Ha _. destruct ev; try discriminate. simpl in *. inversion Ha; subst.
    one_tok tsv Hm t. apply erase_bool_inv in Ht. destruct Ht as [Ht Hb].
    unfold parse_boolean. simpl app. rewrite (expect_hit _ _ _ _ Ht), Hb. reflexivity.
  Qed.

  Lemma complete_integer : complete_at PF_integer.
  Proof.
    intros c ev tsv r c1 ov Hf Hm Ha _. destruct ev; try discriminate. simpl in *. inversion Ha; subst.
    one_tok tsv Hm t. apply erase_int_inv in Ht. destruct Ht as [Ht Hb].
    unfold parse_integer. simpl app. rewrite (expect_hit _ _ _ _ Ht), Hb. reflexivity.
  Qed.

  Lemma complete_string : complete_at PF_string.
  Proof.
    intros c ev tsv r c1 ov Hf Hm Ha _. destruct ev; try discriminate. simpl in *. inversion Ha; subst.
    one_tok tsv Hm t. apply erase_str_inv in Ht. destruct Ht as [Ht Hb].
    unfold parse_string. simpl app. rewrite (expect_hit _ _ _ _ Ht), Hb. reflexivity.
  Qed.

  Lemma complete_list : complete_at PF_list.
  Proof.
    intros c ev tsv r c1 ov Hf Hm Ha _. destruct ev; try discriminate. simpl in *. inversion Ha; subst.
    now apply parse_list_complete.
  Qed.

  Lemma complete_glob : complete_at PF_glob.
  Proof.
    intros c ev tsv r c1 ov Hf Hm Ha _. destruct ev; try discriminate. simpl in *.
    one_tok tsv Hm t. apply erase_str_inv in Ht. destruct Ht as [Ht Hb].
    unfold parse_glob. simpl app. rewrite (expect_hit _ _ _ _ Ht), Hb.
    destruct (e_glob E s); inversion Ha; subst; reflexivity.
  Qed.

  Lemma complete_user : complete_at PF_user.
  Proof.
    intros c ev tsv r c1 ov Hf Hm Ha _. destruct ev; try discriminate. simpl in *.
    one_tok tsv Hm t. apply erase_str_inv in Ht. destruct Ht as [Ht Hb].
    unfold parse_user. simpl app. rewrite (expect_hit _ _ _ _ Ht), Hb.
    destruct (e_user E s); inversion Ha; subst; reflexivity.
  Qed.

  Lemma parse_directory_complete c t r s c1 :
    tk_type t = T_STRING -> tk_str t = s -> dir_ok E T c s = Some c1 ->
    parse_directory E T eof c (t :: r) = (R_append (VStr s), c1, r).
  Proof.
    intros Ht Hs Hd. unfold parse_directory. rewrite (expect_hit _ _ _ _ Ht), Hs. unfold dir_ok in Hd.
    destruct s as [|b s']; [discriminate|]. destruct (cfg_interp E T c (b :: s')) as [c2 ir].
    destruct ir as [p|e]; [|discriminate]. destruct (e_dir E p); try discriminate. inversion Hd; subst. reflexivity.
  Qed.

  Lemma complete_directory : complete_at PF_directory.
  Proof.
    intros c ev tsv r c1 ov Hf Hm Ha _. destruct ev; try discriminate. simpl in *.
    one_tok tsv Hm t. apply erase_str_inv in Ht. destruct Ht as [Ht Hb].
    destruct (dir_ok E T c s) as [c2|] eqn:Hd; inversion Ha; subst. simpl app.
    now apply parse_directory_complete.
  Qed.

  Lemma complete_canvas_directory : complete_at PF_canvas_directory.
  Proof.
    intros c ev tsv r c1 ov Hf Hm Ha _. destruct ev; try discriminate. simpl in *.
    one_tok tsv Hm t. apply erase_str_inv in Ht. destruct Ht as [Ht Hb].
    destruct (dir_ok E T c s) as [c2|] eqn:Hd; inversion Ha; subst. simpl app.
    unfold parse_canvas_directory. rewrite (parse_directory_complete _ _ _ _ _ Ht eq_refl Hd). reflexivity.
  Qed.

  Lemma complete_regress_env : complete_at PF_regress_env.
  Proof.
    intros c ev tsv r c1 ov Hf Hm Ha _. destruct ev; try discriminate. simpl in *. inversion Ha; subst.
    unfold parse_regress_env. rewrite (parse_list_complete _ _ _ _ Hm). reflexivity.
  Qed.

  Lemma wrap32_id z : in_i32 z = true -> wrap32 z = z.
  Proof.
    intros H. unfold in_i32, i32_min, i32_max in H. apply andb_true_iff in H. destruct H as [H1 H2].
    apply Z.leb_le in H1, H2. unfold wrap32. rewrite Z.mod_small by lia. lia.
  Qed.

  Lemma mul_ov_in k n : in_i32 (k * n) = true -> mul_ov k n = ((k * n)%Z, false).
  Proof.
    intros H. unfold mul_ov. rewrite H. simpl. f_equal.
    unfold in_i32, i32_min, i32_max in H. apply andb_true_iff in H. destruct H as [H1 H2].
    apply Z.leb_le in H1, H2. unfold wrap32. rewrite Z.mod_small by lia. lia.
  Qed.

  Lemma complete_regress_timeout : complete_at PF_regress_timeout.
  Proof.
    intros c ev tsv r c1 ov Hf Hm Ha _. destruct ev; try discriminate. simpl in *.
    destruct tsv as [|t [|u [|? ?]]]; try discriminate. simpl in Hm. inversion Hm as [[Ht Hu]]. clear Hm.
    apply erase_int_inv in Ht. destruct Ht as [Ht <-]. apply erase_sym_inv in Hu. destruct Hu as [Hu _].
    unfold parse_regress_timeout, parse_integer. simpl app. rewrite (expect_hit _ _ _ _ Ht). simpl. rewrite Hu.
    destruct unit; simpl in Ha; try discriminate;
      (destruct (in_i32 (_ * _)) eqn:Hin; inversion Ha; subst; simpl; rewrite (wrap32_id _ Hin); reflexivity).
  Qed.

  (* ---- canvas step *)
  Lemma step_opts_complete opts : forall fuel c tsv r cmd par last,
    map erase tsv = flat_map render_sopt opts -> stop_ok r -> (length (tsv ++ r) < fuel)%nat ->
    exists last', step_opts eof fuel c (tsv ++ r) cmd par last
                  = (Some (fst (step_summary opts cmd par), snd (step_summary opts cmd par), last'), c, r).
  Proof.
    induction opts as [|o opts IH]; intros fuel c tsv r cmd par last Hm Hs Hlen.
    - destruct tsv; [|discriminate]. simpl in *. destruct fuel as [|fuel]; [lia|]. simpl.
      rewrite (lexer_if_stop r T_COMMAND Hs) by discriminate. rewrite (lexer_if_stop r T_PARALLEL Hs) by discriminate. eauto.
    - destruct fuel as [|fuel]; [lia|]. destruct o as [l|]; simpl in Hm.
      + destruct tsv as [|t tsv]; [discriminate|]. simpl in Hm. inversion Hm as [[Ht Hm']]. clear Hm.
        apply erase_sym_inv in Ht. destruct Ht as [Ht _].
        assert (Hm'' : map erase tsv = render_list l ++ flat_map render_sopt opts) by exact Hm'.
        apply map_eq_app in Hm''. destruct Hm'' as [tl [trest [-> [Hl Hrest]]]].
        simpl. rewrite (lexer_if_hit _ _ _ Ht). rewrite <- app_assoc.
        destruct (parse_list_l_complete c tl (trest ++ r) l Hl) as [lno ->].
        apply IH; auto. simpl in Hlen. rewrite <- app_assoc, app_length in Hlen. lia.
      + destruct tsv as [|t tsv]; [discriminate|]. simpl in Hm. inversion Hm as [[Ht Hm']]. clear Hm.
        apply erase_sym_inv in Ht. destruct Ht as [Ht _].
        simpl. assert (Hn : lexer_if eof (t :: tsv ++ r) T_COMMAND = None).
        { unfold lexer_if, next. rewrite Ht. reflexivity. }
        rewrite Hn, (lexer_if_hit _ _ _ Ht). apply IH; auto. simpl in Hlen. lia.
  Qed.

  Lemma complete_canvas_step : complete_at PF_canvas_step.
  Proof.
    intros c ev tsv r c1 ov Hf Hm Ha Hs. destruct ev; try discriminate. simpl in *.
    destruct tsv as [|t tsv]; [discriminate|]. simpl in Hm. inversion Hm as [[Ht Hm']]. clear Hm.
    apply erase_str_inv in Ht. destruct Ht as [Ht Hn].
    unfold parse_canvas_step. simpl app. rewrite (expect_hit _ _ _ _ Ht).
    destruct (step_opts_complete opts (S (length (tsv ++ r))) c tsv r None false (tk_lno t) Hm' Hs (Nat.lt_succ_diag_r _)) as [last' ->].
    destruct (step_summary opts None false) as [[[|a l]|] par]; try discriminate. simpl. inversion Ha; subst. reflexivity.
  Qed.

  (* ---- regress *)
  Lemma regress_option_env_complete c tsv r path l c1 :
    map erase tsv = render_list l -> apply_env E T c path l = Some c1 ->
    regress_option_env E T eof c (tsv ++ r) path = (true, c1, r).
  Proof.
    intros Hm Ha. unfold regress_option_env. rewrite (parse_list_complete _ _ _ _ Hm). unfold apply_env in Ha.
    destruct (cfg_interp_early E T _ _) as [c3 ir]. destruct ir as [str|e]; inversion Ha; subst. reflexivity.
  Qed.

  Lemma regress_opts_stop fuel c r path : stop_ok r -> regress_opts E T eof (S fuel) c r path = (true, c, r).
  Proof.
    intros Hs. simpl. unfold next. destruct r as [|t r']; [reflexivity|]. simpl in Hs. rewrite Hs. reflexivity.
  Qed.

  Lemma regress_opts_complete opts : forall fuel c tsv r path c1,
    map erase tsv = flat_map render_ropt opts -> apply_ropts E T c path opts = Some c1 -> stop_ok r ->
    (length (tsv ++ r) < fuel)%nat ->
    regress_opts E T eof fuel c (tsv ++ r) path = (true, c1, r).
  Proof.
    induction opts as [|o opts IH]; intros fuel c tsv r path c1 Hm Ha Hs Hlen.
    - destruct tsv; [|discriminate]. simpl in *. inversion Ha; subst. destruct fuel as [|fuel]; [lia|].
      now apply regress_opts_stop.
    - destruct fuel as [|fuel]; [lia|]. simpl in Ha.
      destruct (apply_ropt E T c path o) as [c2|] eqn:Ho; [|discriminate].
      destruct tsv as [|t tsv]; [destruct o; discriminate|].
      assert (Hlen' : forall tl trest, tsv = tl ++ trest -> (length (trest ++ r) < fuel)%nat).
      { intros tl trest ->. simpl in Hlen. rewrite <- app_assoc, app_length in Hlen. lia. }
      destruct o as [l| |l|l| | |l]; simpl in Hm; inversion Hm as [[Ht Hm']]; clear Hm;
        apply erase_sym_inv in Ht; destruct Ht as [Ht _]; simpl; unfold next; rewrite Ht; simpl in Ho.
      + assert (Hm'' : map erase tsv = render_list l ++ flat_map render_ropt opts) by exact Hm'.
        apply map_eq_app in Hm''. destruct Hm'' as [tl [trest [Heq [Hl Hrest]]]].
        rewrite Heq, <- app_assoc. rewrite (regress_option_env_complete _ _ _ _ _ _ Hl Ho).
        apply IH; auto. eapply Hlen'; eauto.
      + inversion Ho; subst. apply (IH fuel _ tsv r path c1 Hm' Ha Hs). apply (Hlen' [] tsv eq_refl).
      + assert (Hm'' : map erase tsv = render_list l ++ flat_map render_ropt opts) by exact Hm'.
        apply map_eq_app in Hm''. destruct Hm'' as [tl [trest [Heq [Hl Hrest]]]].
        rewrite Heq, <- app_assoc. rewrite (parse_list_complete _ _ _ _ Hl). inversion Ho; subst. apply IH; auto. eapply Hlen'; eauto.
      + assert (Hm'' : map erase tsv = render_list l ++ flat_map render_ropt opts) by exact Hm'.
        apply map_eq_app in Hm''. destruct Hm'' as [tl [trest [Heq [Hl Hrest]]]].
        rewrite Heq, <- app_assoc. rewrite (parse_list_complete _ _ _ _ Hl). inversion Ho; subst. apply IH; auto. eapply Hlen'; eauto.
      + inversion Ho; subst. apply (IH fuel _ tsv r path c1 Hm' Ha Hs). apply (Hlen' [] tsv eq_refl).
      + inversion Ho; subst. apply (IH fuel _ tsv r path c1 Hm' Ha Hs). apply (Hlen' [] tsv eq_refl).
      + assert (Hm'' : map erase tsv = render_list l ++ flat_map render_ropt opts) by exact Hm'.
        apply map_eq_app in Hm''. destruct Hm'' as [tl [trest [Heq [Hl Hrest]]]].
        rewrite Heq, <- app_assoc. rewrite (parse_list_complete _ _ _ _ Hl). inversion Ho; subst. apply IH; auto. eapply Hlen'; eauto.
  Qed.

  Lemma complete_regress : complete_at PF_regress.
  Proof.
    intros c ev tsv r c1 ov Hf Hm Ha Hs. destruct ev; try discriminate. simpl in *.
    destruct tsv as [|t tsv]; [discriminate|]. simpl in Hm. inversion Hm as [[Ht Hm']]. clear Hm.
    apply erase_str_inv in Ht. destruct Ht as [Ht Hn].
    destruct (apply_ropts E T c path opts) as [c2|] eqn:Hr; [|discriminate]. inversion Ha; subst.
    unfold parse_regress. simpl app. rewrite (expect_hit _ _ _ _ Ht).
    rewrite (regress_opts_complete opts (S (length (tsv ++ r))) c tsv r (tk_str t) c2 Hm' Hr Hs (Nat.lt_succ_diag_r _)).
    reflexivity.
  Qed.

  Lemma run_pfun_complete f : complete_at f.
  Proof.
    destruct f.
    - intros c ev tsv r c1 ov Hf. destruct ev; discriminate.
    - exact complete_boolean.
    - exact complete_integer.
    - exact complete_string.
    - exact complete_list.
    - exact complete_glob.
    - exact complete_user.
    - exact complete_directory.
    - exact complete_canvas_directory.
    - exact complete_canvas_step.
    - exact complete_regress.
    - exact complete_regress_env.
    - exact complete_regress_timeout.
  Qed.

  (* ---- entries *)
  Lemma stop_ok_entries r es : map erase r = flat_map render_entry es -> stop_ok r.
  Proof.
    destruct r as [|t r]; [exact (fun _ => I)|]. destruct es as [|e es]; [discriminate|].
    simpl. intros H. injection H as Ht _. apply erase_kw_inv in Ht. exact (proj1 Ht).
  Qed.

  Lemma parse_loop_complete es : forall fuel c toks c1,
    map erase toks = flat_map render_entry es -> run_entries E T c es = Some c1 ->
    (length toks < fuel)%nat ->
    parse_loop E T eof fuel c toks false = (c1, false).
  Proof.
    induction es as [|e es IH]; intros fuel c toks c1 Hm Hr Hlen.
    - destruct toks; [|discriminate]. simpl in Hr. inversion Hr; subst. destruct fuel; [lia|]. reflexivity.
    - destruct fuel as [|fuel]; [lia|]. simpl in Hm, Hr.
      destruct toks as [|t toks]; [discriminate|]. simpl in Hm. inversion Hm as [[Ht Hm']]. clear Hm.
      apply erase_kw_inv in Ht. destruct Ht as [Ht Hk].
      apply map_eq_app in Hm'. destruct Hm' as [tsv [rest [-> [Hv Hrest]]]].
      destruct (grammar_for_keyword (t_grammar T) (en_kw e)) as [g|] eqn:Hg; [|discriminate].
      destruct (value_fits (gr_fn g) (en_val e)) eqn:Hf; [|discriminate].
      destruct (gr_rep g || negb (present c (en_kw e))) eqn:Hrep; [|discriminate]. simpl in Hr.
      unfold apply_entry in Hr. destruct (apply_value E T c (gr_fn g) (en_val e)) as [[c2 ov]|] eqn:Ha; [|discriminate].
      simpl. rewrite Ht. simpl. unfold parse_keyword. rewrite Hk, Hg.
      rewrite (run_pfun_complete (gr_fn g) c (en_val e) tsv rest c2 ov Hf Hv Ha (stop_ok_entries _ _ Hrest)).
      assert (Hnr : negb (gr_rep g) && present c (en_kw e) = false).
      { destruct (gr_rep g); [reflexivity|]. simpl in *. now apply negb_true_iff in Hrep. }
      rewrite Hnr. simpl in Hlen. rewrite app_length in Hlen.
      destruct ov as [v|]; simpl; apply IH; auto; lia.
  Qed.
End Complete.

Lemma validate_ok G : forall c,
  forallb (fun g => negb (gr_req g) || present c (gr_kw g)) G = true -> validate G c = (c, false).
Proof.
  induction G as [|g G IH]; intros c H; simpl in *; [reflexivity|].
  apply andb_true_iff in H. destruct H as [H1 H2].
  assert (Hq : gr_req g && negb (present c (gr_kw g)) = false).
  { destruct (gr_req g); simpl in *; [|reflexivity]. now rewrite H1. }
  rewrite Hq. now apply IH.
Qed.

Lemma clean_init T : clean (cfg_init T).
Proof. reflexivity. Qed.

Theorem parse_tokens_complete E T toks eof c :
  conforms_to E T toks c -> parse_tokens E T toks eof [] = Accepted c.
Proof.
  intros [es [Hm [Hr Hreq]]]. unfold parse_tokens.
  change (with_diags (cfg_init T) []) with (cfg_init T).
  rewrite (parse_loop_complete E T eof es _ _ _ _ Hm Hr (Nat.lt_succ_diag_r _)).
  pose proof (clean_run_entries clean clean_same clean_add E T es _ _ (clean_init T) Hr) as Hc. unfold clean in Hc. rewrite Hc.
  unfold required_ok in Hreq. rewrite (validate_ok _ _ Hreq). reflexivity.
Qed.

Theorem parse_tokens_iff E T toks eof c :
  parse_tokens E T toks eof [] = Accepted c <-> conforms_to E T toks c.
Proof. split; [apply parse_tokens_sound|apply parse_tokens_complete]. Qed.
