(* ConfInst.v - the general theorems instantiated: with the regenerated tables
   (what the code does) and with the documented tables (what the manual pages
   say).  [doc_tables] is the model's table record filled from DocSpec only
   where the documentation speaks (tokens, grammar, rdomain range, the repaired
   cycling); the step scripts, argv template, limits and the re-entry guard of
   config_default_build_dir (D18), which the pages do not describe, are taken
   over from the regenerated tables.

   The SPECIFICATION ORACLE applied to what the implementation did is
   [spec_config]: the configuration reader run on the DOCUMENTED tables.  By
   [config_parse_iff] it accepts exactly the texts that conform to the
   documented grammar, and by the value lemmas its output is the configured
   value or the documented default; so a disagreement between robsd-config and
   [spec_config] is a violation of the property, not a disagreement with the
   model of the code (that one runs on the regenerated tables). *)
From Robsd Require Export Conf.ConfOracle.
From Robsd Require Import Conf.ConfDefs Conf.ConfSpec Conf.DocSpec Conf.DocExceptions Conf.ConfTie Conf.ConfSound Conf.ConfComplete
  Conf.ConfDiag Conf.ConfReject Conf.ConfRdomain.
From RobsdGen Require Import Gen_Conf.
From Coq Require Import String.
Local Open Scope string_scope.

(* the token table of the code is the documented one with [token_exceptions] applied (rows without a literal never match):
   "s" is a word of every mode in conf-token.h, of robsd-regress.conf.5 only in the documentation *)
Lemma tokens_match_docs :
  filter (fun r => match tr_key r with [] => false | _ => true end) token_table = tokens_as_built.
Proof. vm_compute. reflexivity. Qed.

Lemma tokens_differ_from_docs_exactly :
  filter (fun r => negb (existsb (fun d => ttype_eqb (tr_type d) (tr_type r) && beq (tr_key d) (tr_key r)
                                           && match tr_mode d, tr_mode r with
                                              | None, None => true | Some a, Some b => mode_eqb a b | _, _ => false end) doc_tokens))
         tokens_as_built
  = [mk_tokrow T_SECONDS [115%N] None].
Proof. vm_compute. reflexivity. Qed.

Lemma wf_tokens_gen m : wf_tokens (tables_of m) = true.
Proof. destruct m; vm_compute; reflexivity. Qed.
Lemma wf_tokens_doc m : wf_tokens (doc_tables m) = true.
Proof. destruct m; vm_compute; reflexivity. Qed.

(* the oracle reflects the specification *)
Lemma spec_accepts_iff E m text :
  spec_accepts E m text = true <-> exists c, text_conforms E (doc_tables m) text c.
Proof.
  unfold spec_accepts. split.
  - destruct (config_parse E (doc_tables m) text) as [c|c] eqn:H; [|discriminate].
    intros _. exists c. now apply config_parse_iff.
  - intros [c Hc]. apply config_parse_iff in Hc. now rewrite Hc.
Qed.

(* ---- rdomain on the regenerated regress tables *)
Definition TR := tables_of ROBSD_REGRESS.

Lemma rdomain_partial k : (Z.of_nat k <= doc_rdomain_last - doc_rdomain_first + 1)%Z ->
  rd_val TR k (cfg_init TR) = (doc_rdomain_first + Z.of_nat k mod (doc_rdomain_last - doc_rdomain_first + 1))%Z.
Proof.
  intros Hk. destruct (t_rdomain_fixed TR) eqn:Hf.
  - rewrite (fixed_cycle TR ltac:(vm_compute; reflexivity) (cfg_init TR) k Hf eq_refl). reflexivity.
  - rewrite (shipped_first_cycle TR ltac:(vm_compute; reflexivity) (cfg_init TR) k Hf eq_refl Hk). reflexivity.
Qed.

Lemma rdomain_if_fixed k : t_rdomain_fixed TR = true ->
  rd_val TR k (cfg_init TR) = (doc_rdomain_first + Z.of_nat k mod (doc_rdomain_last - doc_rdomain_first + 1))%Z
  /\ rd_val TR k (cfg_init TR) <> rd_val TR (S k) (cfg_init TR).
Proof.
  intros Hf. split.
  - rewrite (fixed_cycle TR ltac:(vm_compute; reflexivity) (cfg_init TR) k Hf eq_refl). reflexivity.
  - apply fixed_consecutive_distinct; auto; vm_compute; reflexivity.
Qed.

(* the documented tables have the cycling behaviour, for every reference *)
Lemma rdomain_doc k :
  rd_val (doc_tables ROBSD_REGRESS) k (cfg_init (doc_tables ROBSD_REGRESS))
  = (doc_rdomain_first + Z.of_nat k mod (doc_rdomain_last - doc_rdomain_first + 1))%Z.
Proof. rewrite (fixed_cycle (doc_tables ROBSD_REGRESS) ltac:(vm_compute; reflexivity) (cfg_init (doc_tables ROBSD_REGRESS)) k eq_refl eq_refl). reflexivity. Qed.

(* ${rdomain} is answered by config_default_rdomain (regress mode, no variable of that name) *)
Definition kw_rdomain : bytes := Eval vm_compute in bs "rdomain".

Lemma lookup_rdomain E early c :
  find_var (c_vars c) kw_rdomain = None ->
  lookup1 E TR early c kw_rdomain =
  (fst (rdomain_next TR c), Some (render_Z (snd (rdomain_next TR c)))).
Proof.
  intros Hn. unfold lookup1, lookup.
  assert (He : is_early (t_grammar TR) kw_rdomain = true) by (vm_compute; reflexivity).
  rewrite He, andb_false_r. unfold config_find. rewrite Hn.
  assert (Hg : grammar_for_interp (t_grammar TR) kw_rdomain
               = Some (mk_grammar kw_rdomain VT_INTEGER PF_none false false false true (D_fun DF_rdomain))) by (vm_compute; reflexivity).
  rewrite Hg. simpl. destruct (rdomain_next TR c) as [c1 r]. reflexivity.
Qed.
