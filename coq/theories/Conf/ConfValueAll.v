(* ConfValueAll.v - values of an accepted configuration, for the keywords and the
   per-test options the first pass (Conf/ConfTrack.v, [plain_free]) left out.

   1. [plain_value_accepted]: [plain_free] demanded that NO production of ANY
      table writes the keyword's name ([free_kw]: not spelled regress-..., not
      robsddir).  Here the demand is relative to the table: no row of THIS table
      has a parser that writes the name ([writes_free]).  That admits
      regress-user and regress-timeout (no per-test option name ends in -user or
      -timeout) and robsddir in the four modes without canvas-dir; the one
      keyword still excluded is robsddir in canvas mode, where canvas-dir
      defines it too (D7) - [plain_keywords_all_covered].
   2. [run_entries_frame]: a name that no entry writes keeps its value through
      the whole configuration; with [option_names_injective] this is "an option
      given for test A never changes ${regress-B-...}".
   3. [flag_option_value]: quiet / root / no-parallel of test p end to end:
      regress-p-quiet = 1, regress-p-root = 1, regress-p-parallel = 0 exactly
      when an entry regress "p" carries the option, else undefined (and then
      ${regress-p-parallel} falls back to the global switch by its documented default). *)
From Robsd Require Import Conf.ConfDefs Conf.ConfSpec Conf.ConfPrim Conf.ConfValue Conf.ConfTrack Conf.ConfRows Conf.ConfAbort.
From RobsdGen Require Import Gen_Conf.
Local Open Scope N_scope.

Definition option_sfx : list bytes := [sfx_env; sfx_parallel; sfx_quiet; sfx_root; sfx_targets].

(* the parser [f] never writes the name [kw] (other than as the keyword's own variable) *)
Definition fn_avoids (f : pfun) (kw : bytes) : bool :=
  match f with
  | PF_canvas_directory => negb (beq kw_canvas_dir kw) && negb (beq kw_robsddir kw)
  | PF_canvas_step => negb (beq kw_step kw)
  | PF_regress_env => negb (beq kw_regress_env kw)
  | PF_regress =>
      negb (beq str_regress kw) && negb (beq kw_regress_obj kw) && negb (beq kw_regress_packages kw)
      && (negb (prefixb regress_prefix kw) || forallb (fun sfx => negb (suffixb (45 :: sfx) kw)) option_sfx)
  | _ => true
  end.

Lemma regress_name_suffix p sfx : suffixb (45 :: sfx) (regress_name p sfx) = true.
Proof. unfold regress_name. rewrite app_assoc. apply suffixb_app. Qed.

Lemma fn_avoids_targets f kw ev : fn_avoids f kw = true -> not_among kw (value_targets f ev).
Proof.
  intros H. unfold not_among, value_targets.
  destruct f; unfold fn_avoids in H; try (destruct ev; constructor; fail).
  - apply andb_true_iff in H. destruct H as [H1 H2]. apply negb_true_iff in H1. apply negb_true_iff in H2.
    destruct ev; repeat (constructor; try assumption).
  - apply negb_true_iff in H. destruct ev; repeat (constructor; try assumption).
  - apply andb_true_iff in H. destruct H as [H H4]. apply andb_true_iff in H. destruct H as [H H3].
    apply andb_true_iff in H. destruct H as [H1 H2].
    apply negb_true_iff in H1. apply negb_true_iff in H2. apply negb_true_iff in H3.
    destruct ev as [| | | | |path opts|]; try (constructor; fail). constructor; [exact H1|].
    apply Forall_forall. intros n Hin. apply in_map_iff in Hin. destruct Hin as [o [<- _]].
    assert (Hrn : forall sfx, In sfx option_sfx -> beq (regress_name path sfx) kw = false).
    { intros sfx Hs. destruct (beq_spec (regress_name path sfx) kw) as [He|]; [|reflexivity]. exfalso.
      apply orb_true_iff in H4. destruct H4 as [H4|H4].
      - apply negb_true_iff in H4. rewrite <- He, regress_name_prefix in H4. discriminate.
      - rewrite forallb_forall in H4. specialize (H4 sfx Hs). apply negb_true_iff in H4.
        rewrite <- He, regress_name_suffix in H4. discriminate. }
    destruct o; unfold ropt_target; try assumption; apply Hrn; unfold option_sfx; simpl; tauto.
  - apply negb_true_iff in H. destruct ev; repeat (constructor; try assumption).
Qed.

Section PlainValueAll.
  Variable E : env.
  Variable T : tables.
  Variable kw : bytes.

  Definition writes_free : bool := forallb (fun g => negb (has_fn g) || fn_avoids (gr_fn g) kw) (t_grammar T).

  Definition plain_free_in : bool :=
    match grammar_for_keyword (t_grammar T) kw with
    | Some g => plain (gr_fn g)
    | None => false
    end
    && writes_free
    && match grammar_for_interp (t_grammar T) kw with
       | Some g' => match gr_default g' with D_fun f => negb (appends f) | _ => true end
       | None => true
       end.

  Hypothesis Hpf : plain_free_in = true.

  Lemma plain_free_in_not_fun : ~ fun_name T kw.
  Proof.
    unfold plain_free_in in Hpf. apply andb_true_iff in Hpf. destruct Hpf as [_ H].
    intros [g [f [Hg [Hd Ha]]]]. rewrite Hg, Hd, Ha in H. discriminate.
  Qed.

  Lemma row_targets g ev : grammar_for_keyword (t_grammar T) (en_kw ev) = Some g ->
    not_among kw (value_targets (gr_fn g) (en_val ev)).
  Proof.
    intros Hg. apply find_grammar_some in Hg. destruct Hg as [Hin Hp]. apply andb_true_iff in Hp. destruct Hp as [Hfn _].
    unfold plain_free_in in Hpf. apply andb_true_iff in Hpf. destruct Hpf as [H _]. apply andb_true_iff in H. destruct H as [_ Hw].
    unfold writes_free in Hw. rewrite forallb_forall in Hw. specialize (Hw g Hin). rewrite Hfn in Hw. simpl in Hw.
    apply fn_avoids_targets, Hw.
  Qed.

  Theorem plain_value_run_entries_in es : forall c c1,
    run_entries E T c es = Some c1 ->
    find_var (c_vars c1) kw = match find_var (c_vars c) kw with Some v => Some v | None => kw_value E T kw es end.
  Proof.
    pose proof plain_free_in_not_fun as Hnf.
    induction es as [|e es IH]; intros c c1; simpl.
    - intros H; inversion H; subst. destruct (find_var (c_vars c1) kw); reflexivity.
    - destruct (grammar_for_keyword (t_grammar T) (en_kw e)) as [g|] eqn:Hg; [|discriminate].
      destruct (value_fits (gr_fn g) (en_val e) && (gr_rep g || negb (present c (en_kw e)))); [|discriminate].
      destruct (apply_entry E T c g e) as [c2|] eqn:Ha; [|discriminate]. intros H. rewrite (IH _ _ H).
      pose proof (row_targets g e Hg) as Hna.
      destruct (beq_spec (en_kw e) kw) as [Hk|Hk].
      + rewrite Hk in Hg. rewrite Hg.
        assert (Hp : plain (gr_fn g) = true).
        { unfold plain_free_in in Hpf. rewrite Hg in Hpf. apply andb_true_iff in Hpf. destruct Hpf as [H1 _]. apply andb_true_iff in H1. tauto. }
        unfold apply_entry in Ha. destruct (apply_value E T c (gr_fn g) (en_val e)) as [[c3 ov]|] eqn:Hav; [|discriminate].
        rewrite (apply_value_own E T _ _ _ _ _ Hp Hav) in Ha.
        pose proof (untouched_apply_value E T kw Hnf _ _ _ _ _ Hna Hav) as Hu.
        destruct (own_value E (gr_fn g) (en_val e)) as [v|]; inversion Ha; subst.
        * simpl c_vars. rewrite Hk, <- Hu. destruct (find_var (c_vars c3) kw) as [w|] eqn:Hc3.
          -- now rewrite (find_var_app_some _ _ _ _ Hc3).
          -- rewrite (find_var_app_none _ _ _ Hc3). simpl. now rewrite beq_refl.
        * rewrite Hu. reflexivity.
      + rewrite (untouched_apply_entry E T kw Hnf _ _ _ _ (beq_false_ne _ _ Hk) Hna Ha). reflexivity.
  Qed.

  (* for an accepted configuration: the keyword's variable is the value of its first defining entry and
     interpolates to its rendering *)
  Theorem plain_value_accepted es c :
    run_entries E T (cfg_init T) es = Some c ->
    find_var (c_vars c) kw = kw_value E T kw es
    /\ (forall v, kw_value E T kw es = Some v -> v <> VInvalid -> lookup1 E T false c kw = (c, Some (render v))).
  Proof.
    intros Hr. pose proof (plain_value_run_entries_in es _ _ Hr) as H. simpl in H. split; [exact H|].
    intros v Hv Hn. apply lookup_defined; [now rewrite H|exact Hn|now left].
  Qed.
End PlainValueAll.

(* every settable plain keyword of every mode is covered, but robsddir in canvas mode *)
Lemma plain_keywords_all_covered m :
  forallb (fun g => negb (has_fn g && plain (gr_fn g)) || plain_free_in (tables_of m) (gr_kw g)
                    || (mode_eqb m CANVAS && beq (gr_kw g) kw_robsddir))
          (t_grammar (tables_of m)) = true.
Proof. destruct m; vm_compute; reflexivity. Qed.

(* ---------------------------------------------------------------- frame: what no entry writes stays *)
Definition entry_writes (T : tables) (e : entry) : list bytes :=
  en_kw e :: match grammar_for_keyword (t_grammar T) (en_kw e) with
             | Some g => value_targets (gr_fn g) (en_val e)
             | None => []
             end.

Theorem run_entries_frame E T n0 : ~ fun_name T n0 -> forall es c c1,
  Forall (fun e => grammar_for_keyword (t_grammar T) (en_kw e) <> None -> not_among n0 (entry_writes T e)) es ->
  run_entries E T c es = Some c1 -> find_var (c_vars c1) n0 = find_var (c_vars c) n0.
Proof.
  intros Hnf. induction es as [|e es IH]; intros c c1 Hw; simpl; [intros H; inversion H; reflexivity|].
  inversion Hw as [|e0 es0 He Hes]; subst. unfold entry_writes in He.
  destruct (grammar_for_keyword (t_grammar T) (en_kw e)) as [g|] eqn:Hg; [|discriminate].
  destruct (value_fits (gr_fn g) (en_val e) && (gr_rep g || negb (present c (en_kw e)))); [|discriminate].
  destruct (apply_entry E T c g e) as [c2|] eqn:Ha; [|discriminate]. intros H. rewrite (IH _ _ Hes H).
  specialize (He ltac:(discriminate)). inversion He as [|k ks Hk Hks]; subst. eapply untouched_apply_entry; eauto.
Qed.

(* the names of the per-test options are injective in (test, option) *)
Lemma rev_inj {A} (a b : list A) : rev a = rev b -> a = b.
Proof. intros H. rewrite <- (rev_involutive a), <- (rev_involutive b), H. reflexivity. Qed.

Lemma option_names_injective p q s t :
  In s option_sfx -> In t option_sfx -> regress_name p s = regress_name q t -> p = q /\ s = t.
Proof.
  unfold regress_name. intros Hs Ht H. apply app_inv_head in H.
  apply (f_equal (@rev N)) in H. rewrite !rev_app_distr in H.
  unfold option_sfx in Hs, Ht. simpl in Hs, Ht.
  destruct Hs as [<-|[<-|[<-|[<-|[<-|[]]]]]]; destruct Ht as [<-|[<-|[<-|[<-|[<-|[]]]]]]; simpl in H;
    try discriminate; (split; [|reflexivity]); inversion H as [Hr]; exact (rev_inj _ _ Hr).
Qed.

(* the per-test names an entry writes all carry the entry's own test *)
Lemma regress_entry_writes_own_test T e g q t :
  grammar_for_keyword (t_grammar T) (en_kw e) = Some g ->
  In t option_sfx -> In (regress_name q t) (value_targets (gr_fn g) (en_val e)) ->
  exists opts, gr_fn g = PF_regress /\ en_val e = E_regress q opts.
Proof.
  intros Hg Ht Hin. unfold value_targets in Hin.
  assert (Hc : forall n, In n [kw_canvas_dir; kw_robsddir; kw_step; kw_regress_env; str_regress; kw_regress_obj; kw_regress_packages] ->
                         regress_name q t <> n).
  { intros n Hn He. unfold option_sfx in Ht. simpl in Ht, Hn. unfold regress_name in He.
    assert (Hlen : forall x, regress_prefix ++ q ++ 45 :: x = n -> rev x ++ 45 :: rev q ++ rev regress_prefix = rev n).
    { intros x <-. rewrite !rev_app_distr. simpl. rewrite <- !app_assoc. reflexivity. }
    apply Hlen in He.
    destruct Hn as [<-|[<-|[<-|[<-|[<-|[<-|[<-|[]]]]]]]]; destruct Ht as [<-|[<-|[<-|[<-|[<-|[]]]]]]; simpl in He; try discriminate;
      inversion He as [Hq]; apply (f_equal (@length N)) in Hq; rewrite ?app_length in Hq; simpl in Hq; lia. }
  destruct (gr_fn g); try (destruct (en_val e); destruct Hin; fail).
  - exfalso. assert (In (regress_name q t) [kw_canvas_dir; kw_robsddir]) by (destruct (en_val e); exact Hin).
    destruct H as [H|[H|[]]]; symmetry in H; revert H; apply Hc; simpl; tauto.
  - exfalso. assert (In (regress_name q t) [kw_step]) by (destruct (en_val e); exact Hin).
    destruct H as [H|[]]; symmetry in H; revert H; apply Hc; simpl; tauto.
  - destruct (en_val e) as [| | | | |path opts|]; try destruct Hin.
    + exfalso. symmetry in H. revert H. apply Hc. simpl; tauto.
    + apply in_map_iff in H. destruct H as [o [Ho _]].
      destruct o; unfold ropt_target in Ho;
        try (exfalso; symmetry in Ho; revert Ho; apply Hc; simpl; tauto);
        (apply option_names_injective in Ho; [destruct Ho as [-> _]; eauto|unfold option_sfx; simpl; tauto|exact Ht]).
  - exfalso. assert (In (regress_name q t) [kw_regress_env]) by (destruct (en_val e); exact Hin).
    destruct H as [H|[]]; symmetry in H; revert H; apply Hc; simpl; tauto.
Qed.

Lemma not_among_notin n0 l : ~ In n0 l -> not_among n0 l.
Proof.
  intros H. apply Forall_forall. intros n Hin. destruct (beq_spec n n0) as [->|]; [contradiction|reflexivity].
Qed.

(* PER-TEST OPTIONS APPLY ONLY TO THEIR TEST: through a whole accepted configuration, the variable
   regress-<q>-<option> is changed by no entry other than  regress "q" ...  (whatever options the other
   tests carry, whatever other keywords are set).  [~ fun_name]: all options but targets, whose documented
   default is materialised by the first reference. *)
Theorem per_test_options_frame E T q t : In t option_sfx ->
  ~ fun_name T (regress_name q t) -> grammar_for_keyword (t_grammar T) (regress_name q t) = None ->
  forall es c c1,
  Forall (fun e => forall opts, en_val e <> E_regress q opts) es ->
  run_entries E T c es = Some c1 ->
  find_var (c_vars c1) (regress_name q t) = find_var (c_vars c) (regress_name q t).
Proof.
  intros Ht Hnf Hk es c c1 Hq. apply (run_entries_frame E T _ Hnf).
  apply Forall_forall. intros e Hin Hg. rewrite Forall_forall in Hq. specialize (Hq e Hin).
  apply not_among_notin. unfold entry_writes. intros [He|Hv].
  - rewrite He, Hk in Hg. apply Hg. reflexivity.
  - destruct (grammar_for_keyword (t_grammar T) (en_kw e)) as [g|] eqn:Hge; [|destruct Hv].
    destruct (regress_entry_writes_own_test T e g q t Hge Ht Hv) as [opts [_ Hev]]. exact (Hq opts Hev).
Qed.

(* the hypotheses hold of the regress table for env, parallel, quiet, root and every test *)
Lemma option_not_fun q t : In t [sfx_env; sfx_parallel; sfx_quiet; sfx_root] ->
  ~ fun_name (tables_of ROBSD_REGRESS) (regress_name q t)
  /\ grammar_for_keyword (t_grammar (tables_of ROBSD_REGRESS)) (regress_name q t) = None.
Proof.
  intros Ht. split.
  - intros [g [f [Hg [Hd Ha]]]]. apply find_grammar_some in Hg. destruct Hg as [Hin Hm].
    assert (Hs : suffixb (row_suffix g) (regress_name q t) = true) by (apply grammar_equals_suffix, Hm).
    unfold regress_name, suffixb in Hs. rewrite !rev_app_distr in Hs.
    simpl in Hin. repeat (destruct Hin as [<-|Hin]; [try discriminate|]); try destruct Hin;
      simpl in Ht; destruct Ht as [<-|[<-|[<-|[<-|[]]]]]; try discriminate;
      inversion Hd; subst f; discriminate Ha.
  - destruct (grammar_for_keyword _ _) as [g|] eqn:Hg; [|reflexivity]. exfalso.
    apply find_grammar_some in Hg. destruct Hg as [Hin Hp]. apply andb_true_iff in Hp. destruct Hp as [Hfn Hkw].
    apply beq_eq in Hkw. unfold regress_name in Hkw.
    apply (f_equal (@rev N)) in Hkw. rewrite !rev_app_distr in Hkw.
    simpl in Hin. repeat (destruct Hin as [<-|Hin]; [try discriminate|]); try destruct Hin;
      simpl in Ht; destruct Ht as [<-|[<-|[<-|[<-|[]]]]]; try discriminate;
      apply (f_equal (@length N)) in Hkw; rewrite ?app_length in Hkw; simpl in Hkw; lia.
Qed.

(* ---------------------------------------------------------------- "interpolates to exactly the value" at the template level *)
(* config_interpolate_lookup hands the rendered value back to interpolate(), which expands it AGAIN; a value
   without '$' comes out unchanged.  Hence for a defined variable whose rendering contains neither '$' nor NUL
   the template ${kw} expands to exactly the rendering, and the configuration is not changed by it. *)
Definition ref_of (kw : bytes) : bytes := DOLLAR :: LBRACE :: kw ++ [RBRACE].

Lemma sname_scan_plain {St : Type} ignore (lk : St -> bytes -> St * option bytes) rec st kw : forall acc,
  Forall (fun c => c <> RBRACE) kw ->
  sname_scan ignore lk rec st acc (kw ++ [RBRACE]) = sname_scan ignore lk rec st (acc ++ kw) [RBRACE].
Proof.
  induction kw as [|c kw IH]; intros acc H; [now rewrite app_nil_r|].
  inversion H as [|c0 kw0 Hc Hk]; subst. simpl app. rewrite ConfInv.sname_scan_cons.
  destruct (N.eqb_spec c RBRACE) as [->|_]; [contradiction|].
  rewrite IH by exact Hk. rewrite <- app_assoc. reflexivity.
Qed.

Theorem interp_var_plain E T c kw v :
  (3 <= t_depth_limit T)%nat -> kw <> [] -> Forall (fun ch => ch <> RBRACE /\ ch <> 0) kw ->
  find_var (c_vars c) kw = Some v -> v <> VInvalid -> nodollar (render v) ->
  cfg_interp E T c (ref_of kw) = (c, IOk (cstr (render v))).
Proof.
  intros Hd Hne Hkw Hf Hv Hs. unfold cfg_interp, sinterp_str.
  assert (Hc : cstr (ref_of kw) = ref_of kw).
  { apply cstr_id. unfold ref_of. constructor; [discriminate|]. constructor; [discriminate|].
    apply Forall_app. split; [|repeat constructor; discriminate].
    eapply Forall_impl; [|exact Hkw]. intros a [_ Ha]. exact Ha. }
  rewrite Hc. destruct (t_depth_limit T) as [|[|[|d]]]; try lia. cbn [pred sinterp].
  unfold ref_of. rewrite ConfInv.sinner_cons. cbn [N.eqb Pos.eqb DOLLAR LBRACE].
  rewrite sname_scan_plain by (eapply Forall_impl; [|exact Hkw]; intros a [Ha _]; exact Ha).
  cbn [app]. rewrite ConfInv.sname_scan_cons. cbn [RBRACE N.eqb Pos.eqb].
  destruct kw as [|k0 kw']; [contradiction|].
  rewrite (lookup_defined E T false c (k0 :: kw') v Hf Hv (or_introl eq_refl)).
  cbn [sinterp]. rewrite (sinner_nodollar false _ _ (cstr (render v)) (cstr_nodollar _ Hs)).
  cbn [sinner ibind]. rewrite app_nil_r. reflexivity.
Qed.

(* ---------------------------------------------------------------- rdomain: any 245 consecutive references are pairwise distinct *)
From Robsd Require Import Conf.ConfRdomain Conf.ConfInst Conf.DocSpec.

Lemma rd_spec_injective_window T i j :
  (0 < t_rdomain_max T - t_rdomain_min T)%Z -> (i < j)%nat ->
  (Z.of_nat j < Z.of_nat i + (t_rdomain_max T - t_rdomain_min T))%Z -> rd_spec T i <> rd_spec T j.
Proof.
  intros Hn Hij Hw. unfold rd_spec. set (n := (t_rdomain_max T - t_rdomain_min T)%Z) in *. intros H.
  assert (Hm : (Z.of_nat i mod n = Z.of_nat j mod n)%Z) by lia.
  pose proof (Z.div_mod (Z.of_nat i) n ltac:(lia)) as Di. pose proof (Z.div_mod (Z.of_nat j) n ltac:(lia)) as Dj.
  rewrite Hm in Di.
  assert (Hd : (Z.of_nat j - Z.of_nat i = n * (Z.of_nat j / n - Z.of_nat i / n))%Z) by lia.
  assert (H0 : (0 < Z.of_nat j - Z.of_nat i < n)%Z) by lia.
  set (q := (Z.of_nat j / n - Z.of_nat i / n)%Z) in *.
  destruct (Z_le_gt_dec q 0) as [Hq|Hq]; [assert (n * q <= 0)%Z by nia; lia|assert (n * 1 <= n * q)%Z by nia; lia].
Qed.

(* with the body config_default_rdomain has now: the i-th and the j-th reference differ whenever 0 < j - i < 245 *)
Lemma rdomain_window_distinct i j : t_rdomain_fixed TR = true -> (i < j)%nat -> (j < i + 245)%nat ->
  rd_val TR i (cfg_init TR) <> rd_val TR j (cfg_init TR).
Proof.
  intros Hf Hij Hw.
  rewrite (fixed_cycle TR ltac:(vm_compute; reflexivity) (cfg_init TR) i Hf eq_refl).
  rewrite (fixed_cycle TR ltac:(vm_compute; reflexivity) (cfg_init TR) j Hf eq_refl).
  apply rd_spec_injective_window; [vm_compute; reflexivity|exact Hij|].
  change (t_rdomain_max TR - t_rdomain_min TR)%Z with 245%Z. lia.
Qed.

(* ---------------------------------------------------------------- the flag options of a test, end to end *)
Definition ropt_eqb (a b : ropt) : bool :=
  match a, b with O_no_parallel, O_no_parallel | O_quiet, O_quiet | O_root, O_root => true | _, _ => false end.

(* the variable suffix and the value a flag option writes *)
Definition flag_sfx (o : ropt) : option (bytes * Z) :=
  match o with O_no_parallel => Some (sfx_parallel, 0%Z) | O_quiet => Some (sfx_quiet, 1%Z) | O_root => Some (sfx_root, 1%Z) | _ => None end.

(* entry [e] is  regress "q" ... o ...  *)
Definition has_flag (T : tables) (q : bytes) (o : ropt) (e : entry) : bool :=
  match grammar_for_keyword (t_grammar T) (en_kw e) with
  | Some g => match gr_fn g, en_val e with
              | PF_regress, E_regress p opts => beq p q && existsb (ropt_eqb o) opts
              | _, _ => false
              end
  | None => false
  end.

Lemma flag_sfx_option o sfx z : flag_sfx o = Some (sfx, z) -> In sfx option_sfx.
Proof. destruct o; simpl; intros H; inversion H; subst; unfold option_sfx; simpl; tauto. Qed.

Lemma regress_name_not_const q t n :
  In t option_sfx -> In n [kw_regress_obj; kw_regress_packages; str_regress] -> regress_name q t <> n.
Proof.
  intros Ht Hn He. unfold regress_name in He.
  assert (Hr : rev t ++ 45 :: rev q ++ rev regress_prefix = rev n).
  { rewrite <- He. rewrite !rev_app_distr. simpl. rewrite <- !app_assoc. reflexivity. }
  unfold option_sfx in Ht. simpl in Ht, Hn.
  destruct Hn as [<-|[<-|[<-|[]]]]; destruct Ht as [<-|[<-|[<-|[<-|[<-|[]]]]]]; simpl in Hr; try discriminate;
    inversion Hr as [Hq]; apply (f_equal (@length N)) in Hq; rewrite ?app_length in Hq; simpl in Hq; lia.
Qed.

(* an option whose target is the flag's variable IS that flag of that test *)
Lemma ropt_target_flag p o' q o sfx z :
  flag_sfx o = Some (sfx, z) -> ropt_target p o' = regress_name q sfx -> p = q /\ ropt_eqb o o' = true.
Proof.
  intros Hf Ht. pose proof (flag_sfx_option _ _ _ Hf) as Hs.
  destruct o'; unfold ropt_target in Ht;
    try (exfalso; symmetry in Ht; revert Ht; apply regress_name_not_const; [exact Hs|simpl; tauto]);
    (apply option_names_injective in Ht; [|unfold option_sfx; simpl; tauto|exact Hs]); destruct Ht as [-> Hsfx];
    destruct o; simpl in Hf; inversion Hf; subst; try discriminate; auto.
Qed.

Section Flags.
  Variable E : env.
  Variable T : tables.
  Variables (q : bytes) (o : ropt) (sfx : bytes) (z : Z).
  Hypothesis Hflag : flag_sfx o = Some (sfx, z).
  Let n0 := regress_name q sfx.
  Hypothesis Hnf : ~ fun_name T n0.
  Hypothesis Hnk : grammar_for_keyword (t_grammar T) n0 = None.

  Definition first_or (x : option value) (y : option value) : option value := match x with Some v => Some v | None => y end.

  Lemma apply_ropts_flag opts : forall c c1, apply_ropts E T c q opts = Some c1 ->
    find_var (c_vars c1) n0 = first_or (find_var (c_vars c) n0) (if existsb (ropt_eqb o) opts then Some (VInt z) else None).
  Proof.
    induction opts as [|o' opts IH]; intros c c1; simpl.
    - intros H; inversion H; subst. destruct (find_var (c_vars c1) n0); reflexivity.
    - destruct (apply_ropt E T c q o') as [c2|] eqn:Ha; [|discriminate]. intros H. rewrite (IH _ _ H).
      destruct (ropt_eqb o o') eqn:He.
      + (* the flag itself: appends (n0, z) *)
        assert (Hc2 : c2 = cfg_append c n0 (VInt z)).
        { destruct o, o'; simpl in He; try discriminate; simpl in Hflag; inversion Hflag; subst; simpl in Ha; inversion Ha; reflexivity. }
        subst c2. simpl c_vars. destruct (find_var (c_vars c) n0) as [w|] eqn:Hw.
        * rewrite (find_var_app_some _ _ _ _ Hw). reflexivity.
        * rewrite (find_var_app_none _ _ _ Hw). simpl. rewrite beq_refl. simpl. destruct (existsb (ropt_eqb o) opts); reflexivity.
      + assert (Hb : beq (ropt_target q o') n0 = false).
        { destruct (beq_spec (ropt_target q o') n0) as [Heq|]; [|reflexivity].
          destruct (ropt_target_flag _ _ _ _ _ _ Hflag Heq) as [_ Hx]. congruence. }
        rewrite (untouched_apply_ropt E T n0 Hnf _ _ _ _ Hb Ha). simpl. reflexivity.
  Qed.

  (* THE VALUE of regress-q-<flag> after an accepted configuration: the flag's value exactly when some entry
     regress "q" carries the flag *)
  Theorem flag_option_run_entries es : forall c c1, run_entries E T c es = Some c1 ->
    find_var (c_vars c1) n0 = first_or (find_var (c_vars c) n0) (if existsb (has_flag T q o) es then Some (VInt z) else None).
  Proof.
    induction es as [|e es IH]; intros c c1; simpl.
    - intros H; inversion H; subst. destruct (find_var (c_vars c1) n0); reflexivity.
    - unfold has_flag at 1.
      destruct (grammar_for_keyword (t_grammar T) (en_kw e)) as [g|] eqn:Hg; [|discriminate].
      destruct (value_fits (gr_fn g) (en_val e) && (gr_rep g || negb (present c (en_kw e)))); [|discriminate].
      destruct (apply_entry E T c g e) as [c2|] eqn:Ha; [|discriminate]. intros H. rewrite (IH _ _ H).
      assert (Hkw : beq (en_kw e) n0 = false).
      { destruct (beq_spec (en_kw e) n0) as [Heq|]; [|reflexivity]. rewrite Heq, Hnk in Hg. discriminate. }
      destruct (match gr_fn g, en_val e with
                | PF_regress, E_regress p opts => beq p q && existsb (ropt_eqb o) opts
                | _, _ => false end) eqn:Hhf.
      + (* regress "q" ... o ... *)
        destruct (gr_fn g) eqn:Hfn; try discriminate. destruct (en_val e) as [| | | | |p opts|] eqn:Hev; try discriminate.
        apply andb_true_iff in Hhf. destruct Hhf as [Hp Ho]. apply beq_eq in Hp. subst p.
        unfold apply_entry in Ha. rewrite Hfn, Hev in Ha. simpl in Ha.
        destruct (apply_ropts E T c q opts) as [c3|] eqn:Hr; [|discriminate]. inversion Ha; subst c2.
        rewrite untouched_concat_list by (destruct (beq_spec str_regress n0) as [Heq|]; [exfalso; symmetry in Heq; revert Heq; apply regress_name_not_const; [exact (flag_sfx_option _ _ _ Hflag)|simpl; tauto]|reflexivity]).
        rewrite (apply_ropts_flag _ _ _ Hr), Ho. simpl. destruct (find_var (c_vars c) n0); reflexivity.
      + (* any other entry leaves the variable alone *)
        assert (Hna : not_among n0 (value_targets (gr_fn g) (en_val e))).
        { apply not_among_notin. intros Hin.
          destruct (regress_entry_writes_own_test T e g q sfx Hg (flag_sfx_option _ _ _ Hflag) Hin) as [opts [Hfn Hev]].
          rewrite Hfn, Hev in Hhf, Hin. simpl in Hin. destruct Hin as [Hin|Hin].
          - symmetry in Hin. revert Hin. apply regress_name_not_const; [exact (flag_sfx_option _ _ _ Hflag)|simpl; tauto].
          - apply in_map_iff in Hin. destruct Hin as [o' [Ho' Hio]].
            destruct (ropt_target_flag _ _ _ _ _ _ Hflag Ho') as [_ Heqb].
            rewrite beq_refl in Hhf. simpl in Hhf.
            assert (existsb (ropt_eqb o) opts = true) by (apply existsb_exists; eauto). congruence. }
        rewrite (untouched_apply_entry E T n0 Hnf _ _ _ _ Hkw Hna Ha). simpl. destruct (find_var (c_vars c) n0); reflexivity.
  Qed.
End Flags.

(* for the regress table as it is, from the empty dictionary: quiet, root and no-parallel of every test *)
Theorem flag_option_value E q o sfx z es c :
  flag_sfx o = Some (sfx, z) -> run_entries E (tables_of ROBSD_REGRESS) (cfg_init (tables_of ROBSD_REGRESS)) es = Some c ->
  find_var (c_vars c) (regress_name q sfx) = if existsb (has_flag (tables_of ROBSD_REGRESS) q o) es then Some (VInt z) else None.
Proof.
  intros Hf Hr.
  assert (Hs : In sfx [sfx_env; sfx_parallel; sfx_quiet; sfx_root]) by (destruct o; simpl in Hf; inversion Hf; subst; simpl; tauto).
  destruct (option_not_fun q sfx Hs) as [Hnf Hnk].
  rewrite (flag_option_run_entries E (tables_of ROBSD_REGRESS) q o sfx z Hf Hnf Hnk es _ _ Hr). reflexivity.
Qed.
