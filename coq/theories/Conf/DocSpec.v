(* DocSpec.v - the documented grammar, variable table, defaults and step lists
   of the five modes, TRANSCRIBED BY HAND, line by line, from the manual pages of /repo
       robsd.conf.5  robsd-cross.conf.5  robsd-ports.conf.5  robsd-regress.conf.5
       canvas.conf.5  robsd-config.8  (step lists: robsd.8 robsd-cross.8 robsd-ports.8 robsd-regress.8)
   Every row carries the page and line it comes from.  The file contains what the
   pages SAY and nothing else: a variable no page mentions has no row here, a
   variable a page documents has a row here whether or not the C tables have one.
   Where the C tables differ, the difference is NOT smoothed over here; it is listed,
   row by row, in Conf/DocExceptions.v ([doc_exceptions]), proved there to be
   exactly the difference between these rows and the regenerated tables
   (coq/gen/Gen_Conf.v), each class with a witness text on which the documented
   reading and the code disagree.

   Rules of the transcription (uniform; none of them looks at the C tables)
   R1 type = the synopsis of the .It line:
        Dq Ar path|conf|host|hostname|command|name -> K_string (or K_directory by R2, K_user: Dq Ar user)
        yes | no -> K_yesno;  Ar number -> K_number;  { Dq Ar x ... } -> K_list;  Dq Ar glob -> K_glob
        Ar timeout unit -> K_timeout;  regress Dq path [options], step Dq name [options], regress-env { ... }
      "Additional variables" of robsd-config.8 give the read-only ones (kinds K_ro_string, K_ro_integer, K_ro_list): they can be referenced, not assigned.
      K_user: the named user must exist, K_directory: the directory must exist (property C08: "referenced
      directories and users existing").
   R2 directory = the argument is a path AND the description calls it a directory on the machine robsd runs on:
      robsddir, destdir, bsd-objdir, bsd-srcdir, x11-objdir, x11-srcdir, chroot ("Directory used as the proot chroot"),
      ports-dir ("Source directory for the ports tree"), canvas-dir.  Not: distrib-path ("Directory on distrib-host":
      another machine), distrib-signify ("Path to signify private key": a file).  crossdir ("Unique directory per
      target") is a string BY THE PAGE ITSELF: its EXAMPLES section writes crossdir "/home/robsd-cross/${target}" and
      robsd-config.8:66 defines target as the argument passed to robsd-cross, which does not exist when the file is
      parsed - an existence-checked directory could not accept the page's own example.
   R3 required = the variable occurs in the configuration of the EXAMPLES section (the pages do not use the word; the
      examples are minimal).
   R4 repeatable = the page says "May be given multiple times" / "may be given multiple times".  Nothing else is.
   R5 default = the sentence "Defaults to ..." / "defaults to ...": yes/no are 1/0 (dd_int), a number or a string is
      itself.  Where the page states no default, or states one that is a behaviour and not a value ("Defaults to keeping
      everything", "Defaults to unlimited"), the row has [dd_none] (the empty value of its type: 0, "", empty list).
      "rooted in X" (robsd-config.8) is transcribed as ${X}/<last word of the variable name>; the basename is NOT documented
      (comment, tmp, rel, relx, attic are the names the scripts use) - marked (basename undocumented).
   R6 a star in a documented name (regress-*-env) is a pattern for any test path.
   Not stated by any page and therefore a READING, marked (reading): WHEN a reference inside  env { ... }  of a test is
   expanded.  The rows of rdomain and regress-*-env carry early = true, i.e. "rdomain references in a test's environment are
   expanded when the option is read, so that a test has ONE rdomain"; the alternative (expanded again at every reference to
   ${regress-*-env}) contradicts no page either.  The nesting limit of references is documented nowhere (C09). *)
From Robsd Require Export Conf.ConfTypes.
From Coq Require Import String.
Local Open Scope string_scope.

Inductive dkind :=
| K_yesno | K_number | K_string | K_user | K_directory | K_glob | K_list
| K_canvas_dir | K_step | K_regress | K_regress_env | K_timeout
| K_ro_string | K_ro_integer | K_ro_list.

Definition kind_type (k : dkind) : vtype :=
  match k with
  | K_yesno | K_number | K_timeout | K_ro_integer => VT_INTEGER
  | K_string | K_user | K_canvas_dir | K_ro_string => VT_STRING
  | K_directory => VT_DIRECTORY
  | K_glob | K_list | K_regress | K_regress_env | K_ro_list => VT_LIST
  | K_step => VT_INVALID
  end.

Definition kind_fn (k : dkind) : pfun :=
  match k with
  | K_yesno => PF_boolean | K_number => PF_integer | K_string => PF_string | K_user => PF_user
  | K_directory => PF_directory | K_glob => PF_glob | K_list => PF_list
  | K_canvas_dir => PF_canvas_directory | K_step => PF_canvas_step | K_regress => PF_regress
  | K_regress_env => PF_regress_env | K_timeout => PF_regress_timeout
  | K_ro_string | K_ro_integer | K_ro_list => PF_none
  end.

Inductive ddefault :=
| dd_none | dd_str (s : string) | dd_int (z : Z) | dd_arch | dd_machine
| dd_env (f : dfun).           (* supplied by the environment / computed on reference *)

Definition dd_default (d : ddefault) : gdefault :=
  match d with
  | dd_none => D_null | dd_str s => D_str (bs s) | dd_int z => D_i32 z
  | dd_arch => D_macro M_MACHINE_ARCH | dd_machine => D_macro M_MACHINE | dd_env f => D_fun f
  end.

Definition REQ := true.   Definition opt := false.
Definition REP := true.   Definition once := false.

(* a plain row; patterns and early interpolation are given by [docp] *)
Definition doc (kw : string) (k : dkind) (req rep : bool) (d : ddefault) : grammar :=
  mk_grammar (bs kw) (kind_type k) (kind_fn k) req rep false false (dd_default d).
Definition docp (kw : string) (k : dkind) (early : bool) (d : ddefault) : grammar :=
  mk_grammar (bs kw) (kind_type k) (kind_fn k) false false true early (dd_default d).
Definition doce (kw : string) (k : dkind) (d : ddefault) : grammar :=
  mk_grammar (bs kw) (kind_type k) (kind_fn k) false false false true (dd_default d).

(* ---- shared by all modes: the common keywords of every *.conf.5 page and the
   "additional variables ... for all modes" of robsd-config.8:21-50 *)
Definition doc_common_settable : list grammar := [
  doc "hook"          K_list   opt once dd_none;               (* robsd.conf.5:28 cross:24 ports:26 regress:22 canvas:39 *)
  doc "keep"          K_number opt once dd_none;               (* robsd.conf.5:37-42 "Defaults to keeping everything": a behaviour *)
  doc "keep-attic"    K_yesno  opt once (dd_int 1);            (* robsd.conf.5:43-52 "Defaults to yes" *)
  doc "skip"          K_list   opt once dd_none;               (* robsd.conf.5:59 cross:49 ports:51 canvas:64 *)
  doc "stat-interval" K_number opt once (dd_int 10)            (* robsd.conf.5:32-36 "Defaults to 10" *)
].

Definition doc_common_readonly : list grammar := [
  doc "arch"         K_ro_string  opt once dd_arch;                       (* robsd-config.8:25 CPU architecture *)
  doc "builddir"     K_ro_string  opt once (dd_env DF_build_dir);         (* robsd-config.8:27 the current invocation directory rooted in robsddir *)
  doc "comment-path" K_ro_string  opt once (dd_str "${builddir}/comment");(* robsd-config.8:30 "Path to comment rooted in builddir" *)
  doc "inet"         K_ro_string  opt once (dd_env DF_inet4);             (* robsd-config.8:33 *)
  doc "inet6"        K_ro_string  opt once (dd_env DF_inet6);             (* robsd-config.8:36 *)
  doc "keep-dir"     K_ro_string  opt once (dd_str "${robsddir}/attic");  (* robsd-config.8:43 + robsd.conf.5:46-49 "a directory named attic rooted in robsddir" *)
  doc "machine"      K_ro_string  opt once dd_machine;                    (* robsd-config.8:39 *)
  doc "ncpu"         K_ro_integer opt once (dd_env DF_ncpu);              (* robsd-config.8:41 *)
  doc "tmp-dir"      K_ro_string  opt once (dd_str "${builddir}/tmp")     (* robsd-config.8:47 "Temporary directory rooted in builddir" (basename undocumented) *)
].

Definition doc_robsddir : grammar := doc "robsddir" K_directory REQ once dd_none.   (* robsd.conf.5:20 cross:20 ports:20 regress:20; EXAMPLES of each *)

(* ---- robsd.conf.5 *)
Definition doc_robsd_own : list grammar := [
  doc "bsd-diff"        K_glob      opt once dd_none;                      (* :63-71 "silently ignored if glob does not yield any matches" *)
  doc "bsd-objdir"      K_directory opt once (dd_str "/usr/obj");          (* :72-74 *)
  doc "bsd-reldir"      K_ro_string opt once (dd_str "${builddir}/rel");   (* robsd-config.8:55 "rooted in builddir" (basename undocumented) *)
  doc "bsd-srcdir"      K_directory opt once (dd_str "/usr/src");          (* :75-77 *)
  doc "cvs-root"        K_string    opt once dd_none;                      (* :78 *)
  doc "cvs-user"        K_user      opt once dd_none;                      (* :82 *)
  doc "destdir"         K_directory REQ once dd_none;                      (* :22, EXAMPLES :128 *)
  doc "distrib-host"    K_string    opt once dd_none;                      (* :88 *)
  doc "distrib-path"    K_string    opt once dd_none;                      (* :90 "Directory on distrib-host": another machine *)
  doc "distrib-signify" K_string    opt once dd_none;                      (* :95 a file *)
  doc "distrib-user"    K_user      opt once dd_none;                      (* :99 *)
  doc "kernel"          K_string    opt once (dd_str "GENERIC.MP");        (* :53-54 *)
  doc "reboot"          K_yesno     opt once (dd_int 0);                   (* :55-58 "Defaults to no" *)
  doc "x11-diff"        K_glob      opt once dd_none;                      (* :103-111 *)
  doc "x11-objdir"      K_directory opt once (dd_str "/usr/xobj");         (* :112-114 *)
  doc "x11-reldir"      K_ro_string opt once (dd_str "${builddir}/relx");  (* robsd-config.8:58 (basename undocumented) *)
  doc "x11-srcdir"      K_directory opt once (dd_str "/usr/xenocara")      (* :115-117 *)
].

(* ---- robsd-cross.conf.5 and "Additional variables in robsd-cross mode" of robsd-config.8:63-69 *)
Definition doc_cross_own : list grammar := [
  doc "bsd-srcdir" K_directory opt once (dd_str "/usr/src");               (* :53-55 *)
  doc "crossdir"   K_string    REQ once dd_none;                           (* :22, EXAMPLES :66 with ${target}: rule R2 *)
  doc "target"     K_ro_string opt once dd_none                            (* robsd-config.8:66 "The target argument passed to robsd-cross" *)
].

(* ---- robsd-ports.conf.5 *)
Definition doc_ports_own : list grammar := [
  doc "chroot"          K_directory REQ once dd_none;                      (* :22-25 "Directory used as the proot chroot", EXAMPLES :110 *)
  doc "cvs-root"        K_string opt once dd_none;                         (* :55 *)
  doc "cvs-user"        K_user   opt once dd_none;                         (* :59 *)
  doc "distrib-host"    K_string opt once dd_none;                         (* :65 *)
  doc "distrib-path"    K_string opt once dd_none;                         (* :67 *)
  doc "distrib-signify" K_string opt once dd_none;                         (* :72 *)
  doc "distrib-user"    K_user   opt once dd_none;                         (* :76 *)
  doc "ports"           K_list   REQ once dd_none;                         (* :80, EXAMPLES :112 *)
  doc "ports-diff"      K_glob   opt once dd_none;                         (* :85-93 *)
  doc "ports-dir"       K_directory opt once (dd_str "/usr/ports");        (* :94-96 "Source directory for the ports tree, defaults to /usr/ports" *)
  doc "ports-user"      K_user   REQ once dd_none                          (* :97, EXAMPLES :111 *)
].

(* ---- robsd-regress.conf.5 and "Additional variables in robsd-regress mode" of robsd-config.8:71-88 *)
Definition doc_regress_own : list grammar := [
  doc  "bsd-diff"           K_glob        opt once dd_none;                (* :68-76 *)
  doc  "bsd-srcdir"         K_directory   opt once (dd_str "/usr/src");    (* :77-79 *)
  doc  "cvs-root"           K_string      opt once dd_none;                (* :80 *)
  doc  "cvs-user"           K_user        opt once dd_none;                (* :84 *)
  doc  "parallel"           K_yesno       opt once (dd_int 1);             (* :47-54 "Defaults to yes" *)
  doce "rdomain"            K_ro_integer  (dd_env DF_rdomain);             (* robsd-config.8:74-77 "incremented on every reference"; early (reading) *)
  doc  "rdonly"             K_yesno       opt once (dd_int 0);             (* :55-64 "Defaults to no" *)
  doc  "regress"            K_regress     REQ REP dd_none;                 (* :90-98 "May be given multiple times", EXAMPLES :156; robsd-config.8:78 "All configured regression tests" *)
  docp "regress-*-env"      K_ro_string   true (dd_str "${regress-env}");  (* robsd-config.8:82 "Environment variables for a given regression test"; regress.conf.5:131-132
                                                                              "added to all regression tests": a test without env has the global ones; early (reading) *)
  docp "regress-*-quiet"    K_ro_integer  false dd_none;                   (* robsd-config.8:84 "Quiet option for a given regression test" *)
  docp "regress-*-root"     K_ro_integer  false dd_none;                   (* robsd-config.8:86 "Root option for a given regression test" *)
  doc  "regress-env"        K_regress_env opt once dd_none;                (* :131-132; no "multiple times" *)
  doc  "regress-obj"        K_ro_list     opt once dd_none;                (* robsd-config.8:80 "Additional directories requiring an object directory" *)
  doc  "regress-timeout"    K_timeout     opt once dd_none;                (* :133-142 "Defaults to unlimited": a behaviour *)
  doc  "regress-user"       K_user        opt once (dd_str "build");       (* :143-145 "Defaults to build" *)
  doc  "sudo"               K_string      opt once (dd_str "doas -n")      (* :65-67 *)
].

(* ---- canvas.conf.5: robsddir is NOT among its variables *)
Definition doc_canvas_own : list grammar := [
  doc "canvas-dir"  K_canvas_dir REQ once dd_none;                          (* :22 "Directory used to store invocations", EXAMPLES :72 *)
  doc "canvas-name" K_string     REQ once dd_none;                          (* :20, EXAMPLES :71 *)
  doc "step"        K_step       REQ REP  dd_none                           (* :24-38 "may be given multiple times", EXAMPLES :74-79 *)
].

(* insertion sort by keyword: the canonical order both sides are compared in *)
Fixpoint bytes_leb (a b : bytes) : bool :=
  match a, b with
  | [], _ => true
  | _ :: _, [] => false
  | x :: a', y :: b' => if (x <? y)%N then true else if (y <? x)%N then false else bytes_leb a' b'
  end.

Fixpoint insert_row (g : grammar) (l : list grammar) : list grammar :=
  match l with
  | [] => [g]
  | h :: t => if bytes_leb (gr_kw g) (gr_kw h) then g :: l else h :: insert_row g t
  end.

Definition canon (l : list grammar) : list grammar := fold_right insert_row [] l.

Definition doc_rows (m : mode) : list grammar :=
  match m with
  | ROBSD => doc_robsddir :: doc_robsd_own
  | ROBSD_CROSS => doc_robsddir :: doc_cross_own
  | ROBSD_PORTS => doc_robsddir :: doc_ports_own
  | ROBSD_REGRESS => doc_robsddir :: doc_regress_own
  | CANVAS => doc_canvas_own
  end ++ doc_common_settable ++ doc_common_readonly.

(* normalised (the extracted oracle then contains byte lists, not Coq strings) *)
Definition doc_table_robsd : list grammar := Eval vm_compute in canon (doc_rows ROBSD).
Definition doc_table_cross : list grammar := Eval vm_compute in canon (doc_rows ROBSD_CROSS).
Definition doc_table_ports : list grammar := Eval vm_compute in canon (doc_rows ROBSD_PORTS).
Definition doc_table_regress : list grammar := Eval vm_compute in canon (doc_rows ROBSD_REGRESS).
Definition doc_table_canvas : list grammar := Eval vm_compute in canon (doc_rows CANVAS).

Definition doc_table (m : mode) : list grammar :=
  match m with
  | ROBSD => doc_table_robsd
  | ROBSD_CROSS => doc_table_cross
  | ROBSD_PORTS => doc_table_ports
  | ROBSD_REGRESS => doc_table_regress
  | CANVAS => doc_table_canvas
  end.

Lemma doc_table_is_canon m : doc_table m = canon (doc_rows m).
Proof. destruct m; vm_compute; reflexivity. Qed.

(* what the code's canvas table has in addition (defect D7): robsddir as a
   settable, required directory *)
Definition canvas_extra_row : grammar := Eval vm_compute in doc_robsddir.

(* ---- rdomain: "successive rdomain references yield distinct values cycling
   through 11..255" (property text; robsd-config.8: "Unique rdomain(4),
   incremented on every reference") *)
Definition doc_rdomain_first : Z := 11.
Definition doc_rdomain_last : Z := 255.

(* ---- step lists: "The process is divided into the steps as follows" of
   robsd.8, robsd-cross.8, robsd-ports.8, robsd-regress.8 (there "regress"
   stands for the configured tests); canvas has only configured steps and the
   final end *)
Definition doc_steps_of (m : mode) : list bytes :=
  map bs (match m with
          | ROBSD => ["env"; "cvs"; "patch"; "kernel"; "reboot"; "base"; "release"; "checkflist"; "xbase";
                      "xrelease"; "image"; "hash"; "revert"; "distrib"; "dmesg"; "end"]
          | ROBSD_CROSS => ["env"; "dirs"; "tools"; "distrib"; "dmesg"; "end"]
          | ROBSD_PORTS => ["env"; "cvs"; "clean"; "proot"; "patch"; "dpb"; "distrib"; "revert"; "dmesg"; "end"]
          | ROBSD_REGRESS => ["env"; "pkg-add"; "cvs"; "patch"; "obj"; "mount"; "umount"; "revert"; "pkg-del"; "dmesg"; "end"]
          | CANVAS => ["end"]
          end).
Definition doc_steps_robsd : list bytes := Eval vm_compute in doc_steps_of ROBSD.
Definition doc_steps_cross : list bytes := Eval vm_compute in doc_steps_of ROBSD_CROSS.
Definition doc_steps_ports : list bytes := Eval vm_compute in doc_steps_of ROBSD_PORTS.
Definition doc_steps_regress : list bytes := Eval vm_compute in doc_steps_of ROBSD_REGRESS.
Definition doc_steps_canvas : list bytes := Eval vm_compute in doc_steps_of CANVAS.
Definition doc_steps (m : mode) : list bytes :=
  match m with
  | ROBSD => doc_steps_robsd | ROBSD_CROSS => doc_steps_cross | ROBSD_PORTS => doc_steps_ports
  | ROBSD_REGRESS => doc_steps_regress | CANVAS => doc_steps_canvas
  end.

(* where the configured tests go in robsd-regress.8's list: after mount *)
Definition doc_regress_after : bytes := Eval vm_compute in bs "mount".

(* booleans: "yes | no" *)
Definition doc_yes : Z := 1.
Definition doc_no : Z := 0.
(* regress-timeout units: "The unit must be either s, m or h" *)
Definition doc_unit_seconds (u : ttype) : option Z :=
  match u with T_SECONDS => Some 1%Z | T_MINUTES => Some 60%Z | T_HOURS => Some 3600%Z | _ => None end.
