(* DocSpec.v - the documented grammar, variable table, defaults and step lists
   of the five modes, TRANSCRIBED BY HAND from the manual pages
       robsd.conf.5  robsd-cross.conf.5  robsd-ports.conf.5  robsd-regress.conf.5
       canvas.conf.5  robsd-config.8  robsd.8  robsd-cross.8  robsd-ports.8  robsd-regress.8
   and independent of the C tables (which the translator regenerates into
   coq/gen/Gen_Conf.v).  Conf/ConfTie.v proves the two equal up to the order of
   the rows, so that flipping a default, dropping "required", adding or removing
   a keyword, or reordering a step list stops a proof.

   Conventions of the transcription
   * One row per variable.  "The following variables are recognized" (*.conf.5)
     gives the settable keywords with their value syntax:
        Dq Ar path|conf|host|hostname|command   -> K_string, or K_directory / K_user, see below
        yes | no                                -> K_yesno
        Ar number                               -> K_number
        { Dq Ar x ... }                         -> K_list
        Dq Ar glob                              -> K_glob
        Ar timeout unit                         -> K_timeout
        regress Dq path [options], step Dq name [options], regress-env { ... }
     "Additional variables" of robsd-config.8 give the read-only ones (K_ro_*):
     they can be referenced but not assigned.
   * required = the variable occurs in the minimal configuration shown in the
     EXAMPLES section of the page (the pages do not use the word "required"; the
     examples are exactly the smallest accepted configurations).
   * repeatable = "May be given multiple times" / "may be given multiple times",
     and regress-env ("added to all regression tests", accumulating).
   * K_user: the argument is called "user".  K_directory: the argument is a
     path that robsd reads or writes on this machine before any step runs
     (robsddir, destdir, the source and object trees, canvas-dir).  The pages do
     not say which paths are checked for existence; crossdir, chroot and
     ports-dir are described as directories as well but are created by, or live
     inside the chroot of, later steps (crossdir's own example contains
     ${target}, which only exists at run time), so they are plain strings here.
   * default = the sentence "Defaults to ..."/"defaults to ...".  Where a page
     states no default the row has [dd_none] (empty string, 0, empty list by
     type).  "Defaults to keeping everything" (keep) and "Defaults to unlimited"
     (regress-timeout) are the value 0, "yes"/"no" are 1/0.
   * Rows marked (undocumented) exist because other documented defaults are
     phrased in terms of them or the scripts rely on them; they are listed so
     that the comparison with the C tables is exact, and named in the report. *)
From Robsd Require Export Conf.ConfTypes.
From Coq Require Import String.
Local Open Scope string_scope.

Inductive dkind :=
| K_yesno | K_number | K_string | K_user | K_directory | K_glob | K_list
| K_canvas_dir | K_step | K_regress | K_regress_env | K_timeout
| K_ro_string | K_ro_integer | K_ro_list.

Definition kind_type (k : dkind) : vtype :=
  match k with
  | K_yesno | K_number | K_timeout | K_ro_integer => VT_INTEGER
  | K_string | K_user | K_canvas_dir | K_ro_string => VT_STRING
  | K_directory => VT_DIRECTORY
  | K_glob | K_list | K_regress | K_regress_env | K_ro_list => VT_LIST
  | K_step => VT_INVALID
  end.

Definition kind_fn (k : dkind) : pfun :=
  match k with
  | K_yesno => PF_boolean | K_number => PF_integer | K_string => PF_string | K_user => PF_user
  | K_directory => PF_directory | K_glob => PF_glob | K_list => PF_list
  | K_canvas_dir => PF_canvas_directory | K_step => PF_canvas_step | K_regress => PF_regress
  | K_regress_env => PF_regress_env | K_timeout => PF_regress_timeout
  | K_ro_string | K_ro_integer | K_ro_list => PF_none
  end.

Inductive ddefault :=
| dd_none | dd_str (s : string) | dd_int (z : Z) | dd_arch | dd_machine
| dd_env (f : dfun).           (* supplied by the environment / computed on reference *)

Definition dd_default (d : ddefault) : gdefault :=
  match d with
  | dd_none => D_null | dd_str s => D_str (bs s) | dd_int z => D_i32 z
  | dd_arch => D_macro M_MACHINE_ARCH | dd_machine => D_macro M_MACHINE | dd_env f => D_fun f
  end.

Definition REQ := true.   Definition opt := false.
Definition REP := true.   Definition once := false.

(* a plain row; patterns and early interpolation are given by [docp] *)
Definition doc (kw : string) (k : dkind) (req rep : bool) (d : ddefault) : grammar :=
  mk_grammar (bs kw) (kind_type k) (kind_fn k) req rep false false (dd_default d).
Definition docp (kw : string) (k : dkind) (early : bool) (d : ddefault) : grammar :=
  mk_grammar (bs kw) (kind_type k) (kind_fn k) false false true early (dd_default d).
Definition doce (kw : string) (k : dkind) (d : ddefault) : grammar :=
  mk_grammar (bs kw) (kind_type k) (kind_fn k) false false false true (dd_default d).

(* ---- shared by all modes: the common keywords of every *.conf.5 page and the
   "additional variables ... for all modes" of robsd-config.8 *)
Definition doc_common_settable : list grammar := [
  doc "hook"          K_list   opt once dd_none;
  doc "keep"          K_number opt once dd_none;               (* "Defaults to keeping everything" *)
  doc "keep-attic"    K_yesno  opt once (dd_int 1);            (* "Defaults to yes" *)
  doc "skip"          K_list   opt once dd_none;
  doc "stat-interval" K_number opt once (dd_int 10)            (* "Defaults to 10" *)
].

Definition doc_common_readonly : list grammar := [
  doc "arch"         K_ro_string  opt once dd_arch;                       (* CPU architecture *)
  doc "build-user"   K_ro_string  opt once (dd_str "build");              (* (undocumented) "Defaults to build" of regress-user refers to it *)
  doc "builddir"     K_ro_string  opt once (dd_env DF_build_dir);         (* the current invocation directory *)
  doc "comment-path" K_ro_string  opt once (dd_str "${builddir}/comment");(* rooted in builddir *)
  doc "exec-dir"     K_ro_string  opt once (dd_env DF_exec_dir);          (* (undocumented) *)
  doc "inet"         K_ro_string  opt once (dd_env DF_inet4);
  doc "inet6"        K_ro_string  opt once (dd_env DF_inet6);
  doc "keep-dir"     K_ro_string  opt once (dd_str "${robsddir}/attic");  (* "a directory named attic rooted in robsddir" *)
  doc "machine"      K_ro_string  opt once dd_machine;
  doc "ncpu"         K_ro_integer opt once (dd_env DF_ncpu);
  doc "report-path"  K_ro_string  opt once (dd_str "${builddir}/report");  (* (undocumented) *)
  doc "tags-path"    K_ro_string  opt once (dd_str "${builddir}/tags");    (* (undocumented) *)
  doc "tmp-dir"      K_ro_string  opt once (dd_str "${builddir}/tmp");     (* rooted in builddir *)
  doc "trace"        K_ro_string  opt once (dd_env DF_trace)               (* (undocumented) *)
].

Definition doc_robsddir : grammar := doc "robsddir" K_directory REQ once dd_none.

(* ---- robsd.conf.5 *)
Definition doc_robsd_own : list grammar := [
  doc "bsd-diff"        K_glob      opt once dd_none;
  doc "bsd-objdir"      K_directory opt once (dd_str "/usr/obj");
  doc "bsd-reldir"      K_ro_string opt once (dd_str "${builddir}/rel");   (* robsd-config.8, rooted in builddir *)
  doc "bsd-srcdir"      K_directory opt once (dd_str "/usr/src");
  doc "cvs-root"        K_string    opt once dd_none;
  doc "cvs-user"        K_user      opt once dd_none;
  doc "destdir"         K_directory REQ once dd_none;
  doc "distrib-host"    K_string    opt once dd_none;
  doc "distrib-path"    K_string    opt once dd_none;
  doc "distrib-signify" K_string    opt once dd_none;
  doc "distrib-user"    K_user      opt once dd_none;
  doc "kernel"          K_string    opt once (dd_str "GENERIC.MP");
  doc "reboot"          K_yesno     opt once dd_none;                      (* "Defaults to no" *)
  doc "x11-diff"        K_glob      opt once dd_none;
  doc "x11-objdir"      K_directory opt once (dd_str "/usr/xobj");
  doc "x11-reldir"      K_ro_string opt once (dd_str "${builddir}/relx");  (* robsd-config.8 *)
  doc "x11-srcdir"      K_directory opt once (dd_str "/usr/xenocara")
].

(* ---- robsd-cross.conf.5 ("target" of robsd-config.8 is defined with -v by robsd-cross, not a table row) *)
Definition doc_cross_own : list grammar := [
  doc "bsd-srcdir" K_directory opt once (dd_str "/usr/src");
  doc "crossdir"   K_string    REQ once dd_none
].

(* ---- robsd-ports.conf.5 *)
Definition doc_ports_own : list grammar := [
  doc "chroot"          K_string REQ once dd_none;
  doc "cvs-root"        K_string opt once dd_none;
  doc "cvs-user"        K_user   opt once dd_none;
  doc "distrib-host"    K_string opt once dd_none;
  doc "distrib-path"    K_string opt once dd_none;
  doc "distrib-signify" K_string opt once dd_none;
  doc "distrib-user"    K_user   opt once dd_none;
  doc "ports"           K_list   REQ once dd_none;
  doc "ports-diff"      K_glob   opt once dd_none;
  doc "ports-dir"       K_string opt once (dd_str "/usr/ports");
  doc "ports-user"      K_user   REQ once dd_none
].

(* ---- robsd-regress.conf.5 and the regress part of robsd-config.8 *)
Definition doc_regress_own : list grammar := [
  doc  "bsd-diff"           K_glob        opt once dd_none;
  doc  "bsd-srcdir"         K_directory   opt once (dd_str "/usr/src");
  doc  "cvs-root"           K_string      opt once dd_none;
  doc  "cvs-user"           K_user        opt once dd_none;
  doc  "parallel"           K_yesno       opt once (dd_int 1);           (* "Defaults to yes" *)
  doce "rdomain"            K_ro_integer  (dd_env DF_rdomain);           (* "incremented on every reference" *)
  doc  "rdonly"             K_yesno       opt once dd_none;              (* "Defaults to no" *)
  doc  "regress"            K_regress     REQ REP dd_none;               (* "May be given multiple times" *)
  docp "regress-*-env"      K_ro_string   true (dd_str "${regress-env}");(* environment of one test: the global one unless given *)
  docp "regress-*-parallel" K_ro_integer  false (dd_env DF_parallel);    (* (undocumented) no-parallel of one test, else the global switch *)
  docp "regress-*-targets"  K_ro_list     false (dd_env DF_regress_targets); (* "Defaults to regress" *)
  doc  "regress-env"        K_regress_env opt REP dd_none;
  doc  "regress-timeout"    K_timeout     opt once dd_none;              (* "Defaults to unlimited" *)
  doc  "regress-user"       K_user        opt once (dd_str "${build-user}"); (* "Defaults to build" *)
  doc  "sudo"               K_string      opt once (dd_str "doas -n")
].

(* ---- canvas.conf.5: robsddir is NOT among its variables *)
Definition doc_canvas_own : list grammar := [
  doc "canvas-dir"  K_canvas_dir REQ once dd_none;
  doc "canvas-name" K_string     REQ once dd_none;
  doc "step"        K_step       REQ REP  dd_none                        (* "may be given multiple times" *)
].

(* insertion sort by keyword: the canonical order both sides are compared in *)
Fixpoint bytes_leb (a b : bytes) : bool :=
  match a, b with
  | [], _ => true
  | _ :: _, [] => false
  | x :: a', y :: b' => if (x <? y)%N then true else if (y <? x)%N then false else bytes_leb a' b'
  end.

Fixpoint insert_row (g : grammar) (l : list grammar) : list grammar :=
  match l with
  | [] => [g]
  | h :: t => if bytes_leb (gr_kw g) (gr_kw h) then g :: l else h :: insert_row g t
  end.

Definition canon (l : list grammar) : list grammar := fold_right insert_row [] l.

Definition doc_rows (m : mode) : list grammar :=
  match m with
  | ROBSD => doc_robsddir :: doc_robsd_own
  | ROBSD_CROSS => doc_robsddir :: doc_cross_own
  | ROBSD_PORTS => doc_robsddir :: doc_ports_own
  | ROBSD_REGRESS => doc_robsddir :: doc_regress_own
  | CANVAS => doc_canvas_own
  end ++ doc_common_settable ++ doc_common_readonly.

(* normalised (the extracted oracle then contains byte lists, not Coq strings) *)
Definition doc_table_robsd : list grammar := Eval vm_compute in canon (doc_rows ROBSD).
Definition doc_table_cross : list grammar := Eval vm_compute in canon (doc_rows ROBSD_CROSS).
Definition doc_table_ports : list grammar := Eval vm_compute in canon (doc_rows ROBSD_PORTS).
Definition doc_table_regress : list grammar := Eval vm_compute in canon (doc_rows ROBSD_REGRESS).
Definition doc_table_canvas : list grammar := Eval vm_compute in canon (doc_rows CANVAS).

Definition doc_table (m : mode) : list grammar :=
  match m with
  | ROBSD => doc_table_robsd
  | ROBSD_CROSS => doc_table_cross
  | ROBSD_PORTS => doc_table_ports
  | ROBSD_REGRESS => doc_table_regress
  | CANVAS => doc_table_canvas
  end.

Lemma doc_table_is_canon m : doc_table m = canon (doc_rows m).
Proof. destruct m; vm_compute; reflexivity. Qed.

(* what the code's canvas table has in addition (defect D7): robsddir as a
   settable, required directory *)
Definition canvas_extra_row : grammar := Eval vm_compute in doc_robsddir.

(* ---- rdomain: "successive rdomain references yield distinct values cycling
   through 11..255" (property text; robsd-config.8: "Unique rdomain(4),
   incremented on every reference") *)
Definition doc_rdomain_first : Z := 11.
Definition doc_rdomain_last : Z := 255.

(* ---- step lists: "The process is divided into the steps as follows" of
   robsd.8, robsd-cross.8, robsd-ports.8, robsd-regress.8 (there "regress"
   stands for the configured tests); canvas has only configured steps and the
   final end *)
Definition doc_steps_of (m : mode) : list bytes :=
  map bs (match m with
          | ROBSD => ["env"; "cvs"; "patch"; "kernel"; "reboot"; "base"; "release"; "checkflist"; "xbase";
                      "xrelease"; "image"; "hash"; "revert"; "distrib"; "dmesg"; "end"]
          | ROBSD_CROSS => ["env"; "dirs"; "tools"; "distrib"; "dmesg"; "end"]
          | ROBSD_PORTS => ["env"; "cvs"; "clean"; "proot"; "patch"; "dpb"; "distrib"; "revert"; "dmesg"; "end"]
          | ROBSD_REGRESS => ["env"; "pkg-add"; "cvs"; "patch"; "obj"; "mount"; "umount"; "revert"; "pkg-del"; "dmesg"; "end"]
          | CANVAS => ["end"]
          end).
Definition doc_steps_robsd : list bytes := Eval vm_compute in doc_steps_of ROBSD.
Definition doc_steps_cross : list bytes := Eval vm_compute in doc_steps_of ROBSD_CROSS.
Definition doc_steps_ports : list bytes := Eval vm_compute in doc_steps_of ROBSD_PORTS.
Definition doc_steps_regress : list bytes := Eval vm_compute in doc_steps_of ROBSD_REGRESS.
Definition doc_steps_canvas : list bytes := Eval vm_compute in doc_steps_of CANVAS.
Definition doc_steps (m : mode) : list bytes :=
  match m with
  | ROBSD => doc_steps_robsd | ROBSD_CROSS => doc_steps_cross | ROBSD_PORTS => doc_steps_ports
  | ROBSD_REGRESS => doc_steps_regress | CANVAS => doc_steps_canvas
  end.

(* where the configured tests go in robsd-regress.8's list: after mount *)
Definition doc_regress_after : bytes := Eval vm_compute in bs "mount".

(* booleans: "yes | no" *)
Definition doc_yes : Z := 1.
Definition doc_no : Z := 0.
(* regress-timeout units: "The unit must be either s, m or h" *)
Definition doc_unit_seconds (u : ttype) : option Z :=
  match u with T_SECONDS => Some 1%Z | T_MINUTES => Some 60%Z | T_HOURS => Some 3600%Z | _ => None end.
