(* ConfSpec.v - the declarative reading of a configuration, independent of the
   parser's control flow (no token cursor, no ERROR/FATAL/NOP/APPEND protocol,
   no diagnostics, no error recovery).

   A configuration is a list of ENTRIES.  An entry is a keyword and a value of
   one of the documented shapes; [render_entry] says which tokens spell it.  A
   token stream CONFORMS to a grammar table when
     - it is the concatenation of the spellings of some entries (nothing else
       in between, nothing after),
     - every keyword is a settable keyword of the table and its value has the
       shape the table's row asks for (correctly typed values),
     - a keyword whose row is not repeatable is met only while its variable is
       still undefined (given once),
     - the side conditions of the row hold at the point of the entry: the user
       exists, the directory - after substituting the variables defined so far -
       exists and is a directory, the glob does not fail, the time-out fits an
       int after conversion to seconds, a step has a non-empty command, a test's
       environment can be expanded,
     - at the end every required row's variable is defined (required present).
   What an entry DEFINES is given by [apply_value]: the abstract dictionary is
   the same ordered list of (name, value) the code keeps, because "first
   definition wins" and the accumulation rules are part of what is documented. *)
From Robsd Require Export Conf.ConfDefs.
Local Open Scope N_scope.

(* tokens without their line numbers *)
Inductive stok := S_bool (b : Z) | S_int (z : Z) | S_str (s : bytes) | S_kw (s : bytes) | S_sym (t : ttype).

Definition erase (t : token) : stok :=
  match tk_type t with
  | T_BOOLEAN => S_bool (tk_int t)
  | T_INTEGER => S_int (tk_int t)
  | T_STRING => S_str (tk_str t)
  | T_KEYWORD => S_kw (tk_str t)
  | ty => S_sym ty
  end.

(* options of a regress entry / of a canvas step, in the order written *)
Inductive ropt :=
| O_env (l : list bytes) | O_no_parallel | O_obj (l : list bytes) | O_packages (l : list bytes)
| O_quiet | O_root | O_targets (l : list bytes).

Inductive sopt := SO_command (l : list bytes) | SO_parallel.

Inductive evalue :=
| E_bool (b : Z)
| E_int (z : Z)
| E_str (s : bytes)
| E_list (l : list bytes)
| E_timeout (n : Z) (unit : ttype)
| E_regress (path : bytes) (opts : list ropt)
| E_step (name : bytes) (opts : list sopt).

Record entry := mk_entry { en_kw : bytes; en_val : evalue }.

Definition render_list (l : list bytes) : list stok :=
  S_sym T_LBRACE :: map S_str l ++ [S_sym T_RBRACE].

Definition render_ropt (o : ropt) : list stok :=
  match o with
  | O_env l => S_sym T_ENV :: render_list l
  | O_no_parallel => [S_sym T_NO_PARALLEL]
  | O_obj l => S_sym T_OBJ :: render_list l
  | O_packages l => S_sym T_PACKAGES :: render_list l
  | O_quiet => [S_sym T_QUIET]
  | O_root => [S_sym T_ROOT]
  | O_targets l => S_sym T_TARGETS :: render_list l
  end.

Definition render_sopt (o : sopt) : list stok :=
  match o with
  | SO_command l => S_sym T_COMMAND :: render_list l
  | SO_parallel => [S_sym T_PARALLEL]
  end.

Definition render_value (v : evalue) : list stok :=
  match v with
  | E_bool b => [S_bool b]
  | E_int z => [S_int z]
  | E_str s => [S_str s]
  | E_list l => render_list l
  | E_timeout n u => [S_int n; S_sym u]
  | E_regress p opts => S_str p :: flat_map render_ropt opts
  | E_step n opts => S_str n :: flat_map render_sopt opts
  end.

Definition render_entry (e : entry) : list stok := S_kw (en_kw e) :: render_value (en_val e).

(* correctly typed: the shape of the value the row's kind asks for *)
Definition value_fits (f : pfun) (v : evalue) : bool :=
  match f, v with
  | PF_boolean, E_bool _ => true
  | PF_integer, E_int _ => true
  | (PF_string | PF_user | PF_directory | PF_glob | PF_canvas_directory), E_str _ => true
  | (PF_list | PF_regress_env), E_list _ => true
  | PF_regress_timeout, E_timeout _ _ => true
  | PF_regress, E_regress _ _ => true
  | PF_canvas_step, E_step _ _ => true
  | _, _ => false
  end.

(* the unit of a time-out in seconds *)
Definition unit_seconds (u : ttype) : option Z :=
  match u with T_SECONDS => Some 1%Z | T_MINUTES => Some 60%Z | T_HOURS => Some 3600%Z | _ => None end.

(* the last command given to a step, whether parallel was given *)
Fixpoint step_summary (opts : list sopt) (cmd : option (list bytes)) (par : bool) : option (list bytes) * bool :=
  match opts with
  | [] => (cmd, par)
  | SO_command l :: r => step_summary r (Some l) par
  | SO_parallel :: r => step_summary r cmd true
  end.

Section Sem.
  Variable E : env.
  Variable T : tables.

  (* the directory side condition: the value, with the variables defined so far
     substituted, names an existing directory.  Substitution may define
     variables (computed defaults), hence the resulting dictionary. *)
  Definition dir_ok (c : cfg) (s : bytes) : option cfg :=
    match s with
    | [] => None
    | _ =>
        let '(c1, r) := cfg_interp E T c s in
        match r with
        | IOk p => match e_dir E p with DS_dir => Some c1 | _ => None end
        | IErr _ => None
        end
    end.

  (* env { ... } of one test: ${regress-env} is put in front, rdomain references
     are expanded at once, everything else is left for later *)
  Definition apply_env (c : cfg) (path : bytes) (l : list bytes) : option cfg :=
    let name := regress_name path sfx_env in
    let idx := length (c_vars c) in
    let c2 := cfg_append c name (VList (regress_env_ref :: l)) in
    let '(c3, r) := cfg_interp_early E T c2 (36 :: 123 :: name ++ [125]) in
    match r with
    | IOk str => Some (set_vars c3 (set_nth (c_vars c3) idx (VStr str)))
    | IErr _ => None
    end.

  Definition apply_ropt (c : cfg) (path : bytes) (o : ropt) : option cfg :=
    match o with
    | O_env l => apply_env c path l
    | O_no_parallel => Some (cfg_append c (regress_name path sfx_parallel) (VInt 0))
    | O_obj l => Some (concat_list c kw_regress_obj l)
    | O_packages l => Some (concat_list c kw_regress_packages l)
    | O_quiet => Some (cfg_append c (regress_name path sfx_quiet) (VInt 1))
    | O_root => Some (cfg_append c (regress_name path sfx_root) (VInt 1))
    | O_targets l => Some (concat_list c (regress_name path sfx_targets) l)
    end.

  Fixpoint apply_ropts (c : cfg) (path : bytes) (os : list ropt) : option cfg :=
    match os with
    | [] => Some c
    | o :: r => match apply_ropt c path o with Some c1 => apply_ropts c1 path r | None => None end
    end.

  (* what a value of a row with parser kind [f] defines: the new dictionary and,
     for the kinds that define exactly the keyword's own variable, its value *)
  Definition apply_value (c : cfg) (f : pfun) (v : evalue) : option (cfg * option value) :=
    match f, v with
    | PF_boolean, E_bool b => Some (c, Some (VInt b))
    | PF_integer, E_int z => Some (c, Some (VInt z))
    | PF_string, E_str s => Some (c, Some (VStr s))
    | PF_user, E_str s => if e_user E s then Some (c, Some (VStr s)) else None
    | PF_directory, E_str s =>
        match dir_ok c s with Some c1 => Some (c1, Some (VStr s)) | None => None end
    | PF_canvas_directory, E_str s =>
        match dir_ok c s with
        | Some c1 => Some (cfg_append (cfg_append c1 kw_canvas_dir (VStr s)) kw_robsddir (VStr s), None)
        | None => None
        end
    | PF_glob, E_str s =>
        match e_glob E s with
        | GL_match l => Some (c, Some (VList l))
        | GL_nomatch => Some (c, None)
        | GL_err => None
        end
    | PF_list, E_list l => Some (c, Some (VList l))
    | PF_regress_env, E_list l => Some (concat_list c kw_regress_env l, None)
    | PF_regress_timeout, E_timeout n u =>
        match unit_seconds u with
        | Some k => if in_i32 (k * n) then Some (c, Some (VInt (k * n)%Z)) else None
        | None => None
        end
    | PF_regress, E_regress path opts =>
        match apply_ropts c path opts with
        | Some c1 => Some (concat_list c1 str_regress [path], None)
        | None => None
        end
    | PF_canvas_step, E_step name opts =>
        match step_summary opts None false with
        | (Some (a :: l), par) =>
            let c1 := match c_steps c with [] => cfg_append c kw_step VInvalid | _ => c end in
            Some (set_steps c1 (c_steps c1 ++ [mk_cstep name (a :: l) par]), None)
        | _ => None
        end
    | _, _ => None
    end.

  Definition apply_entry (c : cfg) (g : grammar) (e : entry) : option cfg :=
    match apply_value c (gr_fn g) (en_val e) with
    | Some (c1, Some v) => Some (cfg_append c1 (en_kw e) v)
    | Some (c1, None) => Some c1
    | None => None
    end.

  (* the entries one after the other *)
  Fixpoint run_entries (c : cfg) (es : list entry) : option cfg :=
    match es with
    | [] => Some c
    | e :: es' =>
        match grammar_for_keyword (t_grammar T) (en_kw e) with
        | None => None                                             (* keywords of that mode only *)
        | Some g =>
            if value_fits (gr_fn g) (en_val e)                     (* correctly typed *)
               && (gr_rep g || negb (present c (en_kw e)))         (* given once *)
            then match apply_entry c g e with
                 | Some c1 => run_entries c1 es'
                 | None => None                                    (* users, directories, ... *)
                 end
            else None
        end
    end.

  (* required present *)
  Definition required_ok (c : cfg) : bool :=
    forallb (fun g => negb (gr_req g) || present c (gr_kw g)) (t_grammar T).

  (* a token stream (the tokens before EOF) conforms, and defines [c] *)
  Definition conforms_to (toks : list token) (c : cfg) : Prop :=
    exists es, map erase toks = flat_map render_entry es
               /\ run_entries (cfg_init T) es = Some c
               /\ required_ok c = true.

  Definition conforms (toks : list token) : Prop := exists c, conforms_to toks c.

  (* a configuration text conforms when the lexer has nothing to complain
     about and its tokens conform *)
  Definition text_conforms (text : bytes) (c : cfg) : Prop :=
    exists toks eof, lex T text = LexOk toks eof [] /\ conforms_to toks c.
End Sem.
