(* ConfCost.v - the size bound of Interp/InterpCost.v for the interpolation the configuration reader really runs
   ([sinterp]: interpolate.c threaded through struct config, lookups may define variables and advance the rdomain
   counter).  V bounds the length of every value a lookup hands back (as a C string); then for [d] usable levels below
   the template
       4^d * |out|  <=  |s| * V^d
   whatever the lookups do to the state.  Instances: [cfg_interp] (templates, directory values) and
   [cfg_interp_early] (the env option of a test), at the depth limit found in interpolate.c. *)
From Robsd Require Import Conf.ConfSpec Conf.ConfInv Interp.InterpCost.
From Coq Require Import Lia Arith.
Local Open Scope nat_scope.

Section OneLevelSt.
  Context {St : Type}.
  Variable ignore : bool.
  Variable lk : St -> bytes -> St * option bytes.
  Variable rec : St -> bytes -> St * ires.
  Variables V A B : nat.
  Hypothesis HAB : A <= B.
  Hypothesis Hlk : forall st n st' v, lk st n = (st', Some v) -> length (cstr v) <= V.
  Hypothesis Hrec : forall st x st' o, length x <= V -> rec st x = (st', IOk o) -> A * length o <= 4 * B.

  Lemma sinner_cost_len n : forall s, length s <= n ->
    (forall st st' out, sinner ignore lk rec st s = (st', IOk out) -> A * length out <= length s * B)
    /\ (forall st acc st' out, sname_scan ignore lk rec st acc s = (st', IOk out) ->
                               A * length out <= (2 + length acc + length s) * B).
  Proof.
    induction n as [|n IH]; intros s Hlen.
    - destruct s as [|c s]; [|simpl in Hlen; lia]. split.
      + intros st st' out H. cbn in H. injection H as _ H; subst out. simpl. lia.
      + intros st acc st' out H. cbn in H. discriminate.
    - destruct s as [|c s].
      { split; [intros st st' out H; cbn in H; injection H as _ H; subst out; simpl; lia|intros st acc st' out H; cbn in H; discriminate]. }
      simpl in Hlen. assert (Hs : length s <= n) by lia. destruct (IH s Hs) as [I1 I2]. split.
      + intros st st' out H. rewrite sinner_cons in H. destruct (N.eqb c DOLLAR).
        * destruct s as [|c2 s2]; [discriminate|]. destruct (N.eqb c2 LBRACE); [|discriminate].
          simpl in Hs. destruct (IH s2 ltac:(lia)) as [_ J2]. specialize (J2 st [] st' out H). simpl in J2. simpl. lia.
        * destruct (sinner ignore lk rec st s) as [st1 [o|e]] eqn:E; cbn [ibind] in H; [|discriminate].
          injection H as _ H; subst out. specialize (I1 st st1 o E). simpl. nia.
      + intros st acc st' out H. rewrite sname_scan_cons in H. destruct (N.eqb c RBRACE).
        * destruct acc as [|a acc]; [discriminate|]. destruct (lk st (a :: acc)) as [st1 [v|]] eqn:Ev.
          -- destruct (rec st1 (cstr v)) as [st2 [o|e]] eqn:Er; [|discriminate].
             destruct (sinner ignore lk rec st2 s) as [st3 [o2|e2]] eqn:E2; cbn [ibind] in H; [|discriminate].
             injection H as _ H; subst out.
             pose proof (Hrec st1 (cstr v) st2 o (Hlk _ _ _ _ Ev) Er) as H1. specialize (I1 st2 st3 o2 E2).
             rewrite app_length. simpl. nia.
          -- destruct ignore; [|discriminate].
             destruct (sinner true lk rec st1 s) as [st2 [o2|e2]] eqn:E2; cbn [ibind] in H; [|discriminate].
             injection H as _ H; subst out.
             specialize (I1 st1 st2 o2 E2). simpl. rewrite !app_length. simpl. nia.
        * specialize (I2 st (acc ++ [c]) st' out H). rewrite app_length in I2. simpl in I2. simpl. lia.
  Qed.

  Lemma sinner_cost st s st' out : sinner ignore lk rec st s = (st', IOk out) -> A * length out <= length s * B.
  Proof. exact (proj1 (sinner_cost_len (length s) s (le_n _)) st st' out). Qed.
End OneLevelSt.

Theorem sinterp_output_bound {St : Type} ig (lk : St -> bytes -> St * option bytes) V : 4 <= V ->
  (forall st n st' v, lk st n = (st', Some v) -> length (cstr v) <= V) ->
  forall d st s st' out, sinterp (S d) ig lk st s = (st', IOk out) -> 4 ^ d * length out <= length s * V ^ d.
Proof.
  intros HV Hlk. induction d as [|d IH]; intros st s st' out H; cbn [sinterp] in H.
  - apply (sinner_cost ig lk (sinterp 0 ig lk) V (4 ^ 0) (V ^ 0)) in H; [exact H|simpl; lia|exact Hlk|].
    intros st0 x st1 o _ Hx. cbn in Hx. discriminate.
  - apply (sinner_cost ig lk (sinterp (S d) ig lk) V (4 ^ S d) (V ^ S d)) in H; [exact H|apply pow4_le; exact HV|exact Hlk|].
    intros st0 x st1 o Hx Ho. specialize (IH st0 x st1 o Ho). cbn [Nat.pow].
    assert (length x * V ^ d <= V * V ^ d) by (apply Nat.mul_le_mono_r; exact Hx). nia.
Qed.

(* the two interpolations of the configuration reader, at the table's depth limit L = d + 2 (the code: L = 5, d = 3) *)
Theorem cfg_interp_output_bound E T V d : t_depth_limit T = S (S d) -> 4 <= V ->
  (forall early c n c' v, lookup1 E T early c n = (c', Some v) -> length (cstr v) <= V) ->
  (forall c s c' out, cfg_interp E T c s = (c', IOk out) -> 4 ^ d * length out <= length (cstr s) * V ^ d)
  /\ (forall c s c' out, cfg_interp_early E T c s = (c', IOk out) -> 4 ^ d * length out <= length (cstr s) * V ^ d).
Proof.
  intros HL HV Hlk. split; intros c s c' out H.
  - unfold cfg_interp, sinterp_str in H. rewrite HL in H. cbn [pred] in H.
    exact (sinterp_output_bound false (lookup1 E T false) V HV (Hlk false) d c (cstr s) c' out H).
  - unfold cfg_interp_early, sinterp_str in H. rewrite HL in H. cbn [pred] in H.
    exact (sinterp_output_bound true (lookup1 E T true) V HV (Hlk true) d c (cstr s) c' out H).
Qed.
