(* ConfDocWitness.v - one witness per class of Conf/DocExceptions.v: a configuration (and template) on which the reader on
   the regenerated tables (= the code, by the correspondence check) and the reader on the purely documented tables
   ([doc_tables], the oracle) differ in acceptance or in what a reference yields.  Each is a closed computation in the
   environment [wit_env] (/r and /d exist, root is a user); findings/C08_doc_vs_code.md holds the replay of every one on
   the real robsd-config. *)
From Robsd Require Import Conf.ConfDefs Conf.ConfSpec Conf.DocSpec Conf.DocExceptions Conf.ConfOracle Conf.ConfTie Conf.ConfInst Conf.ConfDiag
  Conf.ConfProofs Conf.ConfDocIff.
From RobsdGen Require Import Gen_Conf.
From Coq Require Import String.
Local Open Scope string_scope.

Definition outcome_of (r : cmdres) : N * bytes := (r_exit r, r_stdout r).
Definition code_cmd m text vars stdin := outcome_of (robsd_config wit_env (tables_of m) (bs text) (map bs vars) (bs stdin)).
Definition doc_cmd m text vars stdin := outcome_of (robsd_config wit_env (doc_tables m) (bs text) (map bs vars) (bs stdin)).
Definition accepted (o : outcome) : bool := match o with Accepted _ => true | Rejected _ => false end.
Definition code_accepts m text := accepted (config_parse wit_env (tables_of m) (bs text)).
Definition doc_accepts m text := accepted (config_parse wit_env (doc_tables m) (bs text)).

Definition nl : string := "
".
Definition robsd_min : string := "robsddir ""/r""" ++ nl ++ "destdir ""/r""" ++ nl.
Definition regress_min : string := "robsddir ""/r""" ++ nl ++ "regress ""a""" ++ nl.
Definition cross_min : string := "robsddir ""/r""" ++ nl ++ "crossdir ""x""" ++ nl.
Definition ports_min (chroot : string) : string :=
  "robsddir ""/r""" ++ nl ++ "chroot """ ++ chroot ++ """" ++ nl ++ "ports-user ""root""" ++ nl ++ "ports { ""p"" }" ++ nl.

(* XC_undocumented_variable: ${build-user} has a value no page promises; a directory may be spelled with ${trace} *)
Lemma wit_undocumented_variable :
  code_cmd ROBSD robsd_min [] ("${build-user}" ++ nl) = (0%N, bs ("build" ++ nl))
  /\ fst (doc_cmd ROBSD robsd_min [] ("${build-user}" ++ nl)) = 1%N
  /\ code_accepts ROBSD (robsd_min ++ "bsd-srcdir ""${trace}/r""" ++ nl) = true
  /\ doc_accepts ROBSD (robsd_min ++ "bsd-srcdir ""${trace}/r""" ++ nl) = false.
Proof. repeat split; vm_compute; reflexivity. Qed.

Lemma wit_undocumented_variable_regress :
  fst (code_cmd ROBSD_REGRESS regress_min [] ("${regress-a-targets} ${regress-a-parallel}" ++ nl)) = 0%N
  /\ snd (code_cmd ROBSD_REGRESS regress_min [] ("${regress-a-targets} ${regress-a-parallel}" ++ nl)) = bs ("regress 1" ++ nl)
  /\ fst (doc_cmd ROBSD_REGRESS regress_min [] ("${regress-a-targets}" ++ nl)) = 1%N
  /\ fst (doc_cmd ROBSD_REGRESS regress_min [] ("${regress-a-parallel}" ++ nl)) = 1%N.
Proof. repeat split; vm_compute; reflexivity. Qed.

(* XC_documented_without_row: documented variables that are errors unless an option / -v defined them *)
Lemma wit_documented_without_row :
  fst (code_cmd ROBSD_REGRESS regress_min [] ("${regress-obj}" ++ nl)) = 1%N
  /\ doc_cmd ROBSD_REGRESS regress_min [] ("${regress-obj}" ++ nl) = (0%N, bs nl)
  /\ fst (code_cmd ROBSD_REGRESS regress_min [] ("${regress-a-quiet}" ++ nl)) = 1%N
  /\ doc_cmd ROBSD_REGRESS regress_min [] ("${regress-a-quiet} ${regress-a-root}" ++ nl) = (0%N, bs ("0 0" ++ nl))
  /\ fst (code_cmd ROBSD_CROSS cross_min [] ("${target}" ++ nl)) = 1%N
  /\ doc_cmd ROBSD_CROSS cross_min [] ("${target}" ++ nl) = (0%N, bs nl)
  (* ... and with the option given both agree: the variable then exists *)
  /\ code_cmd ROBSD_REGRESS ("robsddir ""/r""" ++ nl ++ "regress ""a"" quiet obj { ""o"" }" ++ nl) [] ("${regress-a-quiet} ${regress-obj}" ++ nl)
     = doc_cmd ROBSD_REGRESS ("robsddir ""/r""" ++ nl ++ "regress ""a"" quiet obj { ""o"" }" ++ nl) [] ("${regress-a-quiet} ${regress-obj}" ++ nl).
Proof. repeat split; vm_compute; reflexivity. Qed.

(* XC_directory_not_checked: a chroot / ports-dir that does not exist is accepted *)
Lemma wit_directory_not_checked :
  code_accepts ROBSD_PORTS (ports_min "/nonexistent") = true /\ doc_accepts ROBSD_PORTS (ports_min "/nonexistent") = false
  /\ code_accepts ROBSD_PORTS (ports_min "/r") = true /\ doc_accepts ROBSD_PORTS (ports_min "/r") = true
  /\ code_accepts ROBSD_PORTS (ports_min "/r" ++ "ports-dir ""/nonexistent""" ++ nl) = true
  /\ doc_accepts ROBSD_PORTS (ports_min "/r" ++ "ports-dir ""/nonexistent""" ++ nl) = false.
Proof. repeat split; vm_compute; reflexivity. Qed.

(* XC_repeatable_undocumented: regress-env given twice *)
Lemma wit_repeatable_undocumented :
  code_accepts ROBSD_REGRESS (regress_min ++ "regress-env { ""A=1"" }" ++ nl ++ "regress-env { ""B=2"" }" ++ nl) = true
  /\ doc_accepts ROBSD_REGRESS (regress_min ++ "regress-env { ""A=1"" }" ++ nl ++ "regress-env { ""B=2"" }" ++ nl) = false
  /\ code_cmd ROBSD_REGRESS (regress_min ++ "regress-env { ""A=1"" }" ++ nl ++ "regress-env { ""B=2"" }" ++ nl) [] ("${regress-env}" ++ nl)
     = (0%N, bs ("A=1 B=2" ++ nl)).
Proof. repeat split; vm_compute; reflexivity. Qed.

(* XC_default_text: "Defaults to build" is a reference to the undocumented build-user, visible once -v overrides it *)
Lemma wit_default_text :
  code_cmd ROBSD_REGRESS regress_min [] ("${regress-user}" ++ nl) = doc_cmd ROBSD_REGRESS regress_min [] ("${regress-user}" ++ nl)
  /\ code_cmd ROBSD_REGRESS regress_min ["build-user=x"] ("${regress-user}" ++ nl) = (0%N, bs ("x" ++ nl))
  /\ doc_cmd ROBSD_REGRESS regress_min ["build-user=x"] ("${regress-user}" ++ nl) = (0%N, bs ("build" ++ nl)).
Proof. repeat split; vm_compute; reflexivity. Qed.

(* XC_representation: no difference - "Defaults to no" either way *)
Lemma wit_representation_none :
  code_cmd ROBSD robsd_min [] ("${reboot}" ++ nl) = doc_cmd ROBSD robsd_min [] ("${reboot}" ++ nl)
  /\ code_cmd ROBSD_REGRESS regress_min [] ("${rdonly}" ++ nl) = doc_cmd ROBSD_REGRESS regress_min [] ("${rdonly}" ++ nl).
Proof. split; vm_compute; reflexivity. Qed.

(* the token exception: a bare s is rejected either way, with another message *)
Lemma wit_token_s :
  code_accepts ROBSD (robsd_min ++ "s" ++ nl) = false /\ doc_accepts ROBSD (robsd_min ++ "s" ++ nl) = false
  /\ code_accepts ROBSD (robsd_min ++ "keep 1 s" ++ nl) = false /\ doc_accepts ROBSD (robsd_min ++ "keep 1 s" ++ nl) = false.
Proof. repeat split; vm_compute; reflexivity. Qed.

(* canvas.conf.5:24-27 marks the options of a step as optional; a step without command is rejected *)
Definition canvas_min (step : string) : string :=
  "canvas-name ""x""" ++ nl ++ "canvas-dir ""/r""" ++ nl ++ step ++ nl.

Lemma wit_step_without_command :
  doc_step_shape false false = true /\ code_step_shape false false = false
  /\ (exists c, config_parse wit_env (tables_of CANVAS) (bs (canvas_min "step ""a""")) = Rejected c
                /\ c_diags c = [mk_diag P_conf 3 M_step_command_missing])
  /\ code_accepts CANVAS (canvas_min "step ""a"" command { ""true"" }") = true
  /\ code_accepts CANVAS (canvas_min "step ""a"" parallel") = false.
Proof.
  split; [reflexivity|]. split; [reflexivity|]. split; [eexists; split; vm_compute; reflexivity|].
  split; vm_compute; reflexivity.
Qed.

(* the full statement, refuted in every mode that has an exception touching acceptance or values *)
Definition accept_iff_documented_statement (m : mode) : Prop :=
  forall E text c, config_parse E (tables_of m) text = Accepted c <-> text_conforms E (doc_tables m) text c.

Lemma accepted_true o : accepted o = true -> exists c, o = Accepted c.
Proof. destruct o as [c|c]; [eauto|discriminate]. Qed.

Lemma accept_iff_documented_refuted m : ~ accept_iff_documented_statement m.
Proof.
  intros H.
  assert (W : exists text, code_accepts m text = true /\ doc_accepts m text = false).
  { destruct m.
    - exists (robsd_min ++ "bsd-srcdir ""${trace}/r""" ++ nl). split; vm_compute; reflexivity.
    - exists (cross_min ++ "bsd-srcdir ""${trace}/r""" ++ nl). split; vm_compute; reflexivity.
    - exists (ports_min "/nonexistent"). split; vm_compute; reflexivity.
    - exists (regress_min ++ "regress-env { ""A=1"" }" ++ nl ++ "regress-env { ""B=2"" }" ++ nl). split; vm_compute; reflexivity.
    - exists "canvas-name ""x""
robsddir ""/d""
canvas-dir ""/r""
step ""a"" command { ""true"" }
". split; vm_compute; reflexivity. }
  destruct W as [text [Hc Hd]]. unfold code_accepts in Hc. unfold doc_accepts in Hd.
  destruct (accepted_true _ Hc) as [c Hcc]. apply (H wit_env (bs text) c) in Hcc.
  apply config_parse_iff in Hcc. rewrite Hcc in Hd. discriminate.
Qed.

(* documented AND accepted: a second bsd-diff / x11-diff / ports-diff whose pattern matches nothing defines nothing, so it is
   never "given twice" (robsd.conf.5:69-71 "It's silently ignored if glob does not yield any matches") *)
Lemma glob_without_match_is_ignored E T c g e s :
  gr_fn g = PF_glob -> en_val e = E_str s -> e_glob E s = GL_nomatch -> apply_entry E T c g e = Some c.
Proof. intros Hg He Hn. unfold apply_entry. rewrite Hg, He. cbn [apply_value]. rewrite Hn. reflexivity. Qed.
