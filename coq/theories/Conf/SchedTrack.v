(* SchedTrack.v - the configuration the schedule is computed from, in terms of
   the entries of the accepted text (robsd-regress tables):
     ${regress}                 = the paths of the regress entries, in order
     regress-<path>-parallel    = 0 iff some regress entry of that path carries no-parallel
     parallel                   = the value of the parallel entry (ConfTrack.plain_value_run_entries) *)
From Robsd Require Import Conf.ConfSpec Conf.ConfInv Conf.ConfPrim Conf.ConfValue Conf.ConfTrack
  Conf.SchedDefs Conf.SchedSpec Conf.ConfOracle Conf.ConfTie Conf.SchedProofs.
From RobsdGen Require Import Gen_Conf.
Local Open Scope N_scope.

Lemma fg_some p G g : find_grammar p G = Some g -> p g = true.
Proof.
  induction G as [|h G IH]; simpl; [discriminate|]. destruct (p h) eqn:Hp; [|exact IH].
  intros H; inversion H; subst. exact Hp.
Qed.

(* ---------------------------------------------------------------- facts about the regress table *)
(* every settable keyword is short, and the one called regress is the regress production *)
Lemma TRg_settable g kw :
  grammar_for_keyword (t_grammar TRg) kw = Some g ->
  (length kw < 17)%nat /\ (gr_fn g = PF_regress <-> kw = str_regress).
Proof.
  intros H. pose proof (fg_some _ _ _ H) as Hp. apply andb_true_iff in Hp. destruct Hp as [Hhas Hk].
  apply beq_eq in Hk. subst kw.
  assert (Hall : forallb (fun g => negb (has_fn g) ||
                                   ((length (gr_kw g) <? 17)%nat
                                    && Bool.eqb (match gr_fn g with PF_regress => true | _ => false end) (beq (gr_kw g) str_regress)))
                         (t_grammar TRg) = true) by (vm_compute; reflexivity).
  rewrite forallb_forall in Hall.
  assert (Hin : In g (t_grammar TRg)).
  { clear -H. unfold grammar_for_keyword in H. induction (t_grammar TRg) as [|h G IH]; simpl in H; [discriminate|].
    destruct (has_fn h && beq (gr_kw h) (gr_kw g)); [inversion H; now left|right; auto]. }
  specialize (Hall g Hin). rewrite Hhas in Hall. simpl in Hall. apply andb_true_iff in Hall. destruct Hall as [Hl He].
  apply Nat.ltb_lt in Hl. split; [exact Hl|]. apply eqb_prop in He.
  destruct (beq_spec (gr_kw g) str_regress) as [Hs|Hs]; destruct (gr_fn g); split; intros; try discriminate; try congruence.
Qed.

Lemma str_regress_not_fun : ~ fun_name TRg str_regress.
Proof. intros [g [f [Hg [Hd _]]]]. vm_compute in Hg. inversion Hg; subst. discriminate. Qed.

Lemma rn_parallel_not_fun p : ~ fun_name TRg (rn_parallel p).
Proof.
  intros [g [f [Hg [Hd Ha]]]]. rewrite gfi_regress_parallel in Hg. inversion Hg; subst. simpl in Hd. inversion Hd; subst. discriminate.
Qed.

(* regress-<p>-<s> is never the bare word regress, nor one of the other fixed names *)
Lemma regress_name_long p s : (9 <= length (regress_name p s))%nat.
Proof. unfold regress_name. rewrite app_length, app_length. simpl. lia. Qed.

Lemma beq_len_false a b : length a <> length b -> beq a b = false.
Proof. intros H. destruct (beq a b) eqn:E; [apply beq_length in E; congruence|reflexivity]. Qed.

(* ---------------------------------------------------------------- ${regress} *)
Definition regress_path_of (e : entry) : list bytes :=
  match grammar_for_keyword (t_grammar TRg) (en_kw e) with
  | Some g => match gr_fn g, en_val e with PF_regress, E_regress path _ => [path] | _, _ => [] end
  | None => []
  end.

Definition regress_list (c : cfg) : list bytes :=
  match find_var (c_vars c) str_regress with Some (VList l) => l | _ => [] end.

Definition regress_typed (c : cfg) : Prop :=
  find_var (c_vars c) str_regress = None \/ exists l, find_var (c_vars c) str_regress = Some (VList l).

Lemma concat_list_value c n l :
  (find_var (c_vars c) n = None \/ exists l0, find_var (c_vars c) n = Some (VList l0)) ->
  find_var (c_vars (concat_list c n l)) n
  = Some (VList (match find_var (c_vars c) n with Some (VList l0) => l0 | _ => [] end ++ l)).
Proof.
  intros H. unfold concat_list, present. destruct H as [Hn|[l0 Hl]].
  - rewrite Hn. simpl. rewrite (find_var_app_none _ _ _ Hn). simpl. rewrite beq_refl. simpl.
    apply (find_var_set_first_same _ _ _ (VList [])). rewrite (find_var_app_none _ _ _ Hn). simpl. now rewrite beq_refl.
  - rewrite Hl. simpl. rewrite Hl. simpl. apply (find_var_set_first_same _ _ _ (VList l0)). exact Hl.
Qed.

Lemma ropt_targets_not_regress path opts : not_among str_regress (map (ropt_target path) opts).
Proof.
  apply Forall_forall. intros n Hin. apply in_map_iff in Hin. destruct Hin as [o [<- _]].
  destruct o; simpl; try reflexivity; apply beq_len_false; pose proof (regress_name_long path sfx_env);
    pose proof (regress_name_long path sfx_parallel); pose proof (regress_name_long path sfx_quiet);
    pose proof (regress_name_long path sfx_root); pose proof (regress_name_long path sfx_targets); simpl; lia.
Qed.

Theorem regress_list_run_entries E es : forall c c1,
  run_entries E TRg c es = Some c1 -> regress_typed c ->
  regress_list c1 = regress_list c ++ flat_map regress_path_of es /\ regress_typed c1.
Proof.
  induction es as [|e es IH]; intros c c1; cbn [run_entries flat_map].
  - intros H Ht; inversion H; subst. now rewrite app_nil_r.
  - unfold regress_path_of at 1.
    destruct (grammar_for_keyword (t_grammar TRg) (en_kw e)) as [g|] eqn:Hg; [|discriminate].
    destruct (value_fits (gr_fn g) (en_val e) && (gr_rep g || negb (present c (en_kw e)))) eqn:Hv; [|discriminate].
    destruct (apply_entry E TRg c g e) as [c2|] eqn:Ha; [|discriminate]. intros H Ht.
    destruct (TRg_settable _ _ Hg) as [_ Hfn].
    assert (Hstep : regress_list c2 = regress_list c ++ match gr_fn g, en_val e with PF_regress, E_regress path _ => [path] | _, _ => [] end
                    /\ regress_typed c2).
    { apply andb_true_iff in Hv. destruct Hv as [Hfit _].
      destruct (gr_fn g) eqn:Hf; destruct (en_val e) as [b|z|s|l|n u|path opts|name opts] eqn:Hev; try discriminate;
        try (assert (Hk : beq (en_kw e) str_regress = false)
               by (apply beq_false_ne; intros Heq; apply Hfn in Heq; discriminate);
             assert (Hu : find_var (c_vars c2) str_regress = find_var (c_vars c) str_regress)
               by (eapply (untouched_apply_entry E TRg str_regress str_regress_not_fun); [exact Hk| |exact Ha];
                   rewrite Hf, Hev; repeat constructor);
             unfold regress_list, regress_typed; rewrite Hu, app_nil_r; auto; fail).
      (* the regress production *)
      unfold apply_entry in Ha. rewrite Hf, Hev in Ha. simpl in Ha.
      destruct (apply_ropts E TRg c path opts) as [c3|] eqn:Hr; [|discriminate]. inversion Ha; subst.
      pose proof (untouched_apply_ropts E TRg str_regress str_regress_not_fun opts c path c3 (ropt_targets_not_regress path opts) Hr) as Hu.
      assert (Ht3 : find_var (c_vars c3) str_regress = None \/ exists l0, find_var (c_vars c3) str_regress = Some (VList l0))
        by (rewrite Hu; exact Ht).
      unfold regress_list, regress_typed. rewrite (concat_list_value c3 str_regress [path] Ht3), Hu. split; eauto. }
    destruct Hstep as [Hs Ht2]. destruct (IH _ _ H Ht2) as [Hl Ht1]. split; [|exact Ht1].
    rewrite Hl, Hs, <- app_assoc. reflexivity.
Qed.
