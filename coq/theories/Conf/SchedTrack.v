(* SchedTrack.v - the configuration the schedule is computed from, in terms of
   the entries of the accepted text (robsd-regress tables):
     ${regress}                 = the paths of the regress entries, in order
     regress-<path>-parallel    = 0 iff some regress entry of that path carries no-parallel
     parallel                   = the value of the parallel entry (ConfTrack.plain_value_run_entries) *)
From Robsd Require Import Conf.ConfSpec Conf.ConfInv Conf.ConfPrim Conf.ConfValue Conf.ConfTrack
  Conf.SchedDefs Conf.SchedSpec Conf.ConfOracle Conf.ConfTie Conf.SchedProofs.
From RobsdGen Require Import Gen_Conf.
Local Open Scope N_scope.

Lemma fg_some p G g : find_grammar p G = Some g -> p g = true.
Proof.
  induction G as [|h G IH]; simpl; [discriminate|]. destruct (p h) eqn:Hp; [|exact IH].
  intros H; inversion H; subst. exact Hp.
Qed.

(* ---------------------------------------------------------------- facts about the regress table *)
(* every settable keyword is short, and the one called regress is the regress production *)
Lemma TRg_settable g kw :
  grammar_for_keyword (t_grammar TRg) kw = Some g ->
  (length kw < 17)%nat /\ (gr_fn g = PF_regress <-> kw = str_regress).
Proof.
  intros H. pose proof (fg_some _ _ _ H) as Hp. apply andb_true_iff in Hp. destruct Hp as [Hhas Hk].
  apply beq_eq in Hk. subst kw.
  assert (Hall : forallb (fun g => negb (has_fn g) ||
                                   ((length (gr_kw g) <? 17)%nat
                                    && Bool.eqb (match gr_fn g with PF_regress => true | _ => false end) (beq (gr_kw g) str_regress)))
                         (t_grammar TRg) = true) by (vm_compute; reflexivity).
  rewrite forallb_forall in Hall.
  assert (Hin : In g (t_grammar TRg)).
  { clear -H. unfold grammar_for_keyword in H. induction (t_grammar TRg) as [|h G IH]; simpl in H; [discriminate|].
    destruct (has_fn h && beq (gr_kw h) (gr_kw g)); [inversion H; now left|right; auto]. }
  specialize (Hall g Hin). rewrite Hhas in Hall. simpl in Hall. apply andb_true_iff in Hall. destruct Hall as [Hl He].
  apply Nat.ltb_lt in Hl. split; [exact Hl|]. apply eqb_prop in He.
  destruct (beq_spec (gr_kw g) str_regress) as [Hs|Hs]; destruct (gr_fn g); split; intros; try discriminate; try congruence.
Qed.

Lemma str_regress_not_fun : ~ fun_name TRg str_regress.
Proof. intros [g [f [Hg [Hd _]]]]. vm_compute in Hg. inversion Hg; subst. discriminate. Qed.

Lemma rn_parallel_not_fun p : ~ fun_name TRg (rn_parallel p).
Proof.
  intros [g [f [Hg [Hd Ha]]]]. rewrite gfi_regress_parallel in Hg. inversion Hg; subst. simpl in Hd. inversion Hd; subst. discriminate.
Qed.

(* regress-<p>-<s> is never the bare word regress, nor one of the other fixed names *)
Lemma regress_name_long p s : (9 <= length (regress_name p s))%nat.
Proof. unfold regress_name. rewrite app_length, app_length. simpl. lia. Qed.

Lemma beq_len_false a b : length a <> length b -> beq a b = false.
Proof. intros H. destruct (beq a b) eqn:E; [apply beq_length in E; congruence|reflexivity]. Qed.

(* ---------------------------------------------------------------- ${regress} *)
Definition regress_path_of (e : entry) : list bytes :=
  match grammar_for_keyword (t_grammar TRg) (en_kw e) with
  | Some g => match gr_fn g, en_val e with PF_regress, E_regress path _ => [path] | _, _ => [] end
  | None => []
  end.

Definition regress_list (c : cfg) : list bytes :=
  match find_var (c_vars c) str_regress with Some (VList l) => l | _ => [] end.

Definition regress_typed (c : cfg) : Prop :=
  find_var (c_vars c) str_regress = None \/ exists l, find_var (c_vars c) str_regress = Some (VList l).

Lemma concat_list_value c n l :
  (find_var (c_vars c) n = None \/ exists l0, find_var (c_vars c) n = Some (VList l0)) ->
  find_var (c_vars (concat_list c n l)) n
  = Some (VList (match find_var (c_vars c) n with Some (VList l0) => l0 | _ => [] end ++ l)).
Proof.
  intros H. unfold concat_list, present. destruct H as [Hn|[l0 Hl]].
  - rewrite Hn. simpl. rewrite (find_var_app_none _ _ _ Hn). simpl. rewrite beq_refl. simpl.
    apply (find_var_set_first_same _ _ _ (VList [])). rewrite (find_var_app_none _ _ _ Hn). simpl. now rewrite beq_refl.
  - rewrite Hl. simpl. rewrite Hl. simpl. apply (find_var_set_first_same _ _ _ (VList l0)). exact Hl.
Qed.

Lemma ropt_targets_not_regress path opts : not_among str_regress (map (ropt_target path) opts).
Proof.
  apply Forall_forall. intros n Hin. apply in_map_iff in Hin. destruct Hin as [o [<- _]].
  destruct o; simpl; try reflexivity; apply beq_len_false; pose proof (regress_name_long path sfx_env);
    pose proof (regress_name_long path sfx_parallel); pose proof (regress_name_long path sfx_quiet);
    pose proof (regress_name_long path sfx_root); pose proof (regress_name_long path sfx_targets); simpl; lia.
Qed.

Theorem regress_list_run_entries E es : forall c c1,
  run_entries E TRg c es = Some c1 -> regress_typed c ->
  regress_list c1 = regress_list c ++ flat_map regress_path_of es /\ regress_typed c1.
Proof.
  induction es as [|e es IH]; intros c c1; cbn [run_entries flat_map].
  - intros H Ht; inversion H; subst. now rewrite app_nil_r.
  - unfold regress_path_of at 1.
    destruct (grammar_for_keyword (t_grammar TRg) (en_kw e)) as [g|] eqn:Hg; [|discriminate].
    destruct (value_fits (gr_fn g) (en_val e) && (gr_rep g || negb (present c (en_kw e)))) eqn:Hv; [|discriminate].
    destruct (apply_entry E TRg c g e) as [c2|] eqn:Ha; [|discriminate]. intros H Ht.
    destruct (TRg_settable _ _ Hg) as [_ Hfn].
    assert (Hstep : regress_list c2 = regress_list c ++ match gr_fn g, en_val e with PF_regress, E_regress path _ => [path] | _, _ => [] end
                    /\ regress_typed c2).
    { apply andb_true_iff in Hv. destruct Hv as [Hfit _].
      destruct (gr_fn g) eqn:Hf; destruct (en_val e) as [b|z|s|l|n u|path opts|name opts] eqn:Hev; try discriminate;
        try (assert (Hk : beq (en_kw e) str_regress = false)
               by (apply beq_false_ne; intros Heq; apply Hfn in Heq; discriminate);
             assert (Hu : find_var (c_vars c2) str_regress = find_var (c_vars c) str_regress)
               by (eapply (untouched_apply_entry E TRg str_regress str_regress_not_fun); [exact Hk| |exact Ha];
                   rewrite Hf, Hev; repeat constructor);
             unfold regress_list, regress_typed; rewrite Hu, app_nil_r; auto; fail).
      (* the regress production *)
      unfold apply_entry in Ha. rewrite Hf, Hev in Ha. simpl in Ha.
      destruct (apply_ropts E TRg c path opts) as [c3|] eqn:Hr; [|discriminate]. inversion Ha; subst.
      pose proof (untouched_apply_ropts E TRg str_regress str_regress_not_fun opts c path c3 (ropt_targets_not_regress path opts) Hr) as Hu.
      assert (Ht3 : find_var (c_vars c3) str_regress = None \/ exists l0, find_var (c_vars c3) str_regress = Some (VList l0))
        by (rewrite Hu; exact Ht).
      unfold regress_list, regress_typed. rewrite (concat_list_value c3 str_regress [path] Ht3), Hu. split; eauto. }
    destruct Hstep as [Hs Ht2]. destruct (IH _ _ H Ht2) as [Hl Ht1]. split; [|exact Ht1].
    rewrite Hl, Hs, <- app_assoc. reflexivity.
Qed.

(* ---------------------------------------------------------------- regress-<path>-parallel *)
Lemma beq_last_false a b d : last a d <> last b d -> beq a b = false.
Proof. intros H. destruct (beq_spec a b) as [->|]; [congruence|reflexivity]. Qed.

Lemma last_app_ne' {A} (a b : list A) d : b <> [] -> last (a ++ b) d = last b d.
Proof.
  intros Hb. induction a as [|x a IH]; simpl; [reflexivity|].
  destruct (a ++ b) eqn:Eab; [destruct a; simpl in Eab; [congruence|discriminate]|exact IH].
Qed.

Lemma regress_name_last p s d : s <> [] -> last (regress_name p s) d = last s d.
Proof.
  intros Hs. unfold regress_name. rewrite last_app_ne' by (destruct p; discriminate).
  change (p ++ 45 :: s) with (p ++ [45] ++ s). rewrite app_assoc. now apply last_app_ne'.
Qed.

Lemma regress_name_inj p q s : regress_name p s = regress_name q s -> p = q.
Proof.
  unfold regress_name. intros H. apply app_inv_head in H.
  change (p ++ 45 :: s) with (p ++ (45 :: s)) in H. change (q ++ 45 :: s) with (q ++ (45 :: s)) in H.
  now apply app_inv_tail in H.
Qed.

Definition is_nopar (o : ropt) : bool := match o with O_no_parallel => true | _ => false end.

Definition nopar_typed (c : cfg) (p : bytes) : Prop :=
  find_var (c_vars c) (rn_parallel p) = None \/ find_var (c_vars c) (rn_parallel p) = Some (VInt 0).

Lemma short_ne_rn kw p : (length kw < 17)%nat -> beq kw (rn_parallel p) = false.
Proof. intros H. apply beq_len_false. rewrite rn_parallel_length. lia. Qed.

Lemma apply_ropts_nopar E p opts : forall c path c1,
  apply_ropts E TRg c path opts = Some c1 -> nopar_typed c p ->
  find_var (c_vars c1) (rn_parallel p) =
    (if beq path p && existsb is_nopar opts then Some (VInt 0) else find_var (c_vars c) (rn_parallel p))
  /\ nopar_typed c1 p.
Proof.
  induction opts as [|o opts IH]; intros c path c1; simpl.
  - intros H Ht; inversion H; subst. rewrite andb_false_r. auto.
  - destruct (apply_ropt E TRg c path o) as [c2|] eqn:Ho; [|discriminate]. intros H Ht.
    assert (Hstep : find_var (c_vars c2) (rn_parallel p) =
                    (if beq path p && is_nopar o then Some (VInt 0) else find_var (c_vars c) (rn_parallel p))
                    /\ nopar_typed c2 p).
    { destruct (is_nopar o) eqn:Hn.
      - destruct o; try discriminate. simpl in Ho. inversion Ho; subst. fold (rn_parallel path).
        destruct (beq_spec path p) as [->|Hne]; simpl.
        + destruct Ht as [Ht|Ht]; unfold nopar_typed; simpl.
          * rewrite (find_var_app_none _ _ _ Ht). simpl. rewrite beq_refl. auto.
          * rewrite (find_var_app_some _ _ _ _ Ht). auto.
        + assert (Hb : beq (rn_parallel path) (rn_parallel p) = false).
          { apply beq_false_ne. intros Heq. apply Hne. unfold rn_parallel in Heq. now apply regress_name_inj in Heq. }
          unfold nopar_typed. simpl. rewrite (find_var_app_other _ _ _ _ Hb). auto.
      - rewrite andb_false_r.
        assert (Hb : beq (ropt_target path o) (rn_parallel p) = false).
        { destruct o; try discriminate; cbn [ropt_target];
            try (apply short_ne_rn; vm_compute; lia);
            (apply (beq_last_false _ _ 0); unfold rn_parallel; rewrite !regress_name_last by discriminate; vm_compute; discriminate). }
        pose proof (untouched_apply_ropt E TRg (rn_parallel p) (rn_parallel_not_fun p) c path o c2 Hb Ho) as Hu.
        unfold nopar_typed. rewrite Hu. auto. }
    destruct Hstep as [Hs Ht2]. destruct (IH _ _ _ H Ht2) as [Hl Ht1]. split; [|exact Ht1].
    rewrite Hl, Hs. destruct (beq path p); simpl; [|reflexivity].
    destruct (is_nopar o); simpl; [destruct (existsb is_nopar opts); reflexivity|reflexivity].
Qed.

Definition has_no_parallel (p : bytes) (e : entry) : bool :=
  match grammar_for_keyword (t_grammar TRg) (en_kw e) with
  | Some g => match gr_fn g, en_val e with
              | PF_regress, E_regress path opts => beq path p && existsb is_nopar opts
              | _, _ => false
              end
  | None => false
  end.

Theorem nopar_run_entries E p es : forall c c1,
  run_entries E TRg c es = Some c1 -> nopar_typed c p ->
  find_var (c_vars c1) (rn_parallel p) =
    (if existsb (has_no_parallel p) es then Some (VInt 0) else find_var (c_vars c) (rn_parallel p))
  /\ nopar_typed c1 p.
Proof.
  induction es as [|e es IH]; intros c c1; cbn [run_entries existsb].
  - intros H Ht; inversion H; subst. auto.
  - unfold has_no_parallel at 1.
    destruct (grammar_for_keyword (t_grammar TRg) (en_kw e)) as [g|] eqn:Hg; [|discriminate].
    destruct (value_fits (gr_fn g) (en_val e) && (gr_rep g || negb (present c (en_kw e)))) eqn:Hv; [|discriminate].
    destruct (apply_entry E TRg c g e) as [c2|] eqn:Ha; [|discriminate]. intros H Ht.
    destruct (TRg_settable _ _ Hg) as [Hlen Hfn].
    assert (Hk : beq (en_kw e) (rn_parallel p) = false) by (now apply short_ne_rn).
    assert (Hstep : find_var (c_vars c2) (rn_parallel p) =
                    (if match gr_fn g, en_val e with
                        | PF_regress, E_regress path opts => beq path p && existsb is_nopar opts
                        | _, _ => false end
                     then Some (VInt 0) else find_var (c_vars c) (rn_parallel p))
                    /\ nopar_typed c2 p).
    { apply andb_true_iff in Hv. destruct Hv as [Hfit _].
      destruct (gr_fn g) eqn:Hf; destruct (en_val e) as [b|z|s|l|n u|path opts|name opts] eqn:Hev; try discriminate;
        try (assert (Hu : find_var (c_vars c2) (rn_parallel p) = find_var (c_vars c) (rn_parallel p))
               by (eapply (untouched_apply_entry E TRg (rn_parallel p) (rn_parallel_not_fun p)); [exact Hk| |exact Ha];
                   rewrite Hf, Hev; repeat constructor; apply short_ne_rn; simpl; lia);
             unfold nopar_typed; rewrite Hu; auto; fail).
      unfold apply_entry in Ha. rewrite Hf, Hev in Ha. simpl in Ha.
      destruct (apply_ropts E TRg c path opts) as [c3|] eqn:Hr; [|discriminate]. inversion Ha; subst.
      destruct (apply_ropts_nopar E p opts c path c3 Hr Ht) as [H3 Ht3].
      assert (Hb : beq str_regress (rn_parallel p) = false) by (apply short_ne_rn; simpl; lia).
      unfold nopar_typed. rewrite (untouched_concat_list (rn_parallel p) c3 str_regress [path] Hb). auto. }
    destruct Hstep as [Hs Ht2]. destruct (IH _ _ H Ht2) as [Hl Ht1]. split; [|exact Ht1].
    rewrite Hl, Hs.
    destruct (match gr_fn g, en_val e with PF_regress, E_regress path opts => beq path p && existsb is_nopar opts | _, _ => false end);
      simpl; [destruct (existsb (has_no_parallel p) es); reflexivity|reflexivity].
Qed.

(* ---------------------------------------------------------------- the schedule in terms of the entries *)
Lemma plain_free_parallel : plain_free TRg kw_parallel = true.
Proof. vm_compute. reflexivity. Qed.

(* the global switch as written: parallel yes|no, default yes *)
Definition entries_global (E : env) (es : list entry) : Z :=
  match kw_value E TRg kw_parallel es with Some (VInt z) => z | Some _ => 1%Z | None => 1%Z end.

(* a test runs in parallel iff the switch is on and no entry of its path says no-parallel *)
Definition entries_par (E : env) (es : list entry) (n : bytes) : bool :=
  if (entries_global E es =? 0)%Z then false else negb (existsb (has_no_parallel n) es).

Lemma filter_ext' {A} (f g : A -> bool) l : (forall x, f x = g x) -> filter f l = filter g l.
Proof. intros H. induction l as [|x l IH]; simpl; [reflexivity|]. now rewrite H, IH. Qed.

Theorem regress_schedule_of_entries E es c :
  run_entries E TRg (cfg_init TRg) es = Some c ->
  let l := flat_map regress_path_of es in
  names (snd (raw_steps E TRg (after_parse TRg c))) =
    map fst (rows_before (t_steps TRg)) ++ filter (entries_par E es) l
    ++ filter (fun n => negb (entries_par E es n)) l ++ map fst (rows_after (t_steps TRg))
  /\ map ss_par (snd (raw_steps E TRg (after_parse TRg c))) =
    map (fun _ => false) (rows_before (t_steps TRg)) ++ map (fun _ => true) (filter (entries_par E es) l)
    ++ map (fun _ => false) (filter (fun n => negb (entries_par E es n)) l) ++ map (fun _ => false) (rows_after (t_steps TRg)).
Proof.
  intros Hr. cbv zeta. change (after_parse TRg c) with c.
  destruct (regress_two_passes E c) as [Hn [Hp _]].
  assert (Hl : match find_var (c_vars c) str_regress with Some (VList l) => l | _ => [] end = flat_map regress_path_of es).
  { destruct (regress_list_run_entries E es _ _ Hr (or_introl eq_refl)) as [Hl _]. exact Hl. }
  assert (Hg : global_parallel c = entries_global E es).
  { unfold global_parallel, entries_global.
    rewrite (plain_value_run_entries E TRg kw_parallel plain_free_parallel es _ _ Hr). reflexivity. }
  assert (Hpar : forall n, par_of c n = entries_par E es n).
  { intros n. unfold par_of, entries_par. rewrite Hg. destruct (entries_global E es =? 0)%Z; [reflexivity|].
    destruct (nopar_run_entries E n es _ _ Hr (or_introl eq_refl)) as [Hv _]. rewrite Hv.
    destruct (existsb (has_no_parallel n) es); reflexivity. }
  rewrite Hl in Hn, Hp. split.
  - rewrite Hn. rewrite (filter_ext' _ _ _ Hpar).
    rewrite (filter_ext' (fun n => negb (par_of c n)) (fun n => negb (entries_par E es n))) by (intros; now rewrite Hpar). reflexivity.
  - rewrite Hp. rewrite (filter_ext' _ _ _ Hpar).
    rewrite (filter_ext' (fun n => negb (par_of c n)) (fun n => negb (entries_par E es n))) by (intros; now rewrite Hpar). reflexivity.
Qed.

(* canvas: the step entries in configuration order, then end *)
Theorem canvas_schedule_of_entries E es c :
  run_entries E (tables_of CANVAS) (cfg_init (tables_of CANVAS)) es = Some c ->
  snd (raw_steps E (tables_of CANVAS) (after_parse (tables_of CANVAS) c)) =
  map (fun s => mk_sstep (cs_name s) (cs_command s) (cs_parallel s)) (flat_map (step_of_entry (tables_of CANVAS)) es)
  ++ [mk_sstep [101; 110; 100] (script_argv (tables_of CANVAS) (fst (t_canvas_end (tables_of CANVAS))) [101; 110; 100]) false].
Proof.
  intros Hr. rewrite raw_canvas. rewrite (steps_run_entries E _ es _ _ Hr). reflexivity.
Qed.
