(* ConfRows.v - a grammar table is read through "first matching row".  When no
   name can match two rows, the order of the rows is irrelevant: two tables
   with the same SET of rows answer every lookup alike.  The condition is a
   boolean on the table ([uniq_match]), so it is checked by computation on the
   regenerated and on the documented tables; the names it speaks about are
   universally quantified (patterns such as regress-*-env included). *)
From Robsd Require Import Conf.ConfDefs.
Local Open Scope N_scope.

(* ---------------------------------------------------------------- first match = the match *)
Lemma find_grammar_some p G g : find_grammar p G = Some g -> In g G /\ p g = true.
Proof.
  induction G as [|h G IH]; simpl; [discriminate|].
  destruct (p h) eqn:Hp.
  - intros H; inversion H; subst. auto.
  - intros H. destruct (IH H). auto.
Qed.

Lemma find_grammar_none p G : find_grammar p G = None -> forall g, In g G -> p g = false.
Proof.
  induction G as [|h G IH]; simpl; [intros _ g []|].
  destruct (p h) eqn:Hp; [discriminate|]. intros H g [<-|Hin]; auto.
Qed.

(* at most one row of the table satisfies the predicate *)
Definition amo (p : grammar -> bool) (G : list grammar) : Prop :=
  forall g h, In g G -> In h G -> p g = true -> p h = true -> g = h.

Definition same_rows (G G' : list grammar) : Prop := forall g, In g G <-> In g G'.

Lemma find_grammar_same_rows p G G' :
  same_rows G G' -> amo p G -> find_grammar p G = find_grammar p G'.
Proof.
  intros Hs Ha.
  destruct (find_grammar p G) as [g|] eqn:H1; destruct (find_grammar p G') as [g'|] eqn:H2; try reflexivity.
  - apply find_grammar_some in H1. apply find_grammar_some in H2. destruct H1 as [I1 P1], H2 as [I2 P2].
    f_equal. apply Ha; auto. apply Hs; exact I2.
  - apply find_grammar_some in H1. destruct H1 as [I1 P1].
    rewrite (find_grammar_none _ _ H2 g (proj1 (Hs g) I1)) in P1. discriminate.
  - apply find_grammar_some in H2. destruct H2 as [I2 P2].
    rewrite (find_grammar_none _ _ H1 g' (proj2 (Hs g') I2)) in P2. discriminate.
Qed.

(* ---------------------------------------------------------------- prefixes and suffixes of one string are comparable *)
Lemma prefixb_comparable a : forall b x,
  prefixb a x = true -> prefixb b x = true -> prefixb a b = true \/ prefixb b a = true.
Proof.
  induction a as [|c a IH]; intros b x Ha Hb; [left; reflexivity|].
  destruct b as [|d b]; [right; reflexivity|].
  destruct x as [|y x]; [discriminate|]. simpl in Ha, Hb.
  apply andb_true_iff in Ha. destruct Ha as [Hc Ha]. apply andb_true_iff in Hb. destruct Hb as [Hd Hb].
  apply N.eqb_eq in Hc. apply N.eqb_eq in Hd. subst c d. simpl. rewrite N.eqb_refl. simpl.
  exact (IH b x Ha Hb).
Qed.

Lemma suffixb_comparable a b x :
  suffixb a x = true -> suffixb b x = true -> suffixb a b = true \/ suffixb b a = true.
Proof. unfold suffixb. apply prefixb_comparable. Qed.

Lemma pat_split_app p : forall pre suf, pat_split p = Some (pre, suf) -> p = pre ++ 42 :: suf.
Proof.
  induction p as [|c p IH]; intros pre suf; simpl; [discriminate|].
  destruct (N.eqb_spec c 42) as [->|Hc].
  - intros H; inversion H; subst. reflexivity.
  - destruct (pat_split p) as [[a b]|]; [|discriminate]. intros H; inversion H; subst.
    simpl. f_equal. apply IH. reflexivity.
Qed.

Lemma suffixb_app a b : suffixb b (a ++ b) = true.
Proof. unfold suffixb. rewrite rev_app_distr. apply prefixb_spec. eauto. Qed.

Lemma suffixb_refl a : suffixb a a = true.
Proof. exact (suffixb_app [] a). Qed.

(* ---------------------------------------------------------------- rows that no name can match both *)
(* what every name matched by a row ends in *)
Definition row_suffix (g : grammar) : bytes :=
  if gr_pat g then match pat_split (gr_kw g) with Some (_, suf) => suf | None => gr_kw g end
  else gr_kw g.

Lemma grammar_equals_suffix g n : grammar_equals g n = true -> suffixb (row_suffix g) n = true.
Proof.
  unfold grammar_equals, row_suffix. intros H. apply orb_true_iff in H. destruct H as [H|H].
  - apply beq_eq in H. subst n. destruct (gr_pat g); [|apply suffixb_refl].
    destruct (pat_split (gr_kw g)) as [[pre suf]|] eqn:Hs; [|apply suffixb_refl].
    apply pat_split_app in Hs. rewrite Hs.
    change (pre ++ 42 :: suf) with (pre ++ [42] ++ suf). rewrite app_assoc. apply suffixb_app.
  - apply andb_true_iff in H. destruct H as [Hp H]. rewrite Hp. unfold patmatch in H.
    destruct (pat_split (gr_kw g)) as [[pre suf]|].
    + apply andb_true_iff in H. destruct H as [H _]. apply andb_true_iff in H. destruct H as [_ H]. exact H.
    + apply beq_eq in H. subst n. apply suffixb_refl.
Qed.

Lemma grammar_equals_literal g n : gr_pat g = false -> grammar_equals g n = true -> n = gr_kw g.
Proof.
  unfold grammar_equals. intros ->. rewrite andb_false_l, orb_false_r. intros H. apply beq_eq in H. auto.
Qed.

Definition rows_disjoint (g h : grammar) : bool :=
  if negb (gr_pat g) then negb (grammar_equals h (gr_kw g))
  else if negb (gr_pat h) then negb (grammar_equals g (gr_kw h))
  else negb (suffixb (row_suffix g) (row_suffix h)) && negb (suffixb (row_suffix h) (row_suffix g)).

Lemma rows_disjoint_sound g h n :
  rows_disjoint g h = true -> grammar_equals g n = true -> grammar_equals h n = true -> False.
Proof.
  unfold rows_disjoint. intros Hd Hg Hh.
  destruct (gr_pat g) eqn:Pg; simpl in Hd.
  - destruct (gr_pat h) eqn:Ph; simpl in Hd.
    + apply andb_true_iff in Hd. destruct Hd as [D1 D2].
      destruct (suffixb_comparable _ _ _ (grammar_equals_suffix _ _ Hg) (grammar_equals_suffix _ _ Hh)) as [C|C];
        rewrite C in *; discriminate.
    + rewrite (grammar_equals_literal h n Ph Hh) in Hg. rewrite Hg in Hd. discriminate.
  - rewrite (grammar_equals_literal g n Pg Hg) in Hh. rewrite Hh in Hd. discriminate.
Qed.

(* every row against every later row *)
Fixpoint uniq_match (G : list grammar) : bool :=
  match G with
  | [] => true
  | g :: G' => forallb (rows_disjoint g) G' && uniq_match G'
  end.

Lemma uniq_match_amo G : uniq_match G = true -> forall n, amo (fun g => grammar_equals g n) G.
Proof.
  induction G as [|a G IH]; intros Hu n g h Ig Ih Pg Ph; [destruct Ig|].
  simpl in Hu. apply andb_true_iff in Hu. destruct Hu as [Ha Hu].
  rewrite forallb_forall in Ha.
  destruct Ig as [<-|Ig], Ih as [<-|Ih]; auto.
  - exfalso. exact (rows_disjoint_sound _ _ n (Ha h Ih) Pg Ph).
  - exfalso. exact (rows_disjoint_sound _ _ n (Ha g Ig) Ph Pg).
  - exact (IH Hu n g h Ig Ih Pg Ph).
Qed.

(* the two lookups of the parser and the two table scans do not see the order *)
Lemma gfi_same_rows G G' n :
  same_rows G G' -> uniq_match G = true -> grammar_for_interp G n = grammar_for_interp G' n.
Proof. intros Hs Hu. apply find_grammar_same_rows; [exact Hs|]. exact (uniq_match_amo G Hu n). Qed.

Lemma gfk_same_rows G G' kw :
  same_rows G G' -> uniq_match G = true -> grammar_for_keyword G kw = grammar_for_keyword G' kw.
Proof.
  intros Hs Hu. apply find_grammar_same_rows; [exact Hs|].
  intros g h Ig Ih Pg Ph. apply andb_true_iff in Pg. apply andb_true_iff in Ph.
  apply (uniq_match_amo G Hu kw g h Ig Ih); unfold grammar_equals.
  - rewrite (proj2 Pg). reflexivity.
  - rewrite (proj2 Ph). reflexivity.
Qed.

Lemma forallb_same_rows (f : grammar -> bool) G G' : same_rows G G' -> forallb f G = forallb f G'.
Proof.
  intros Hs. destruct (forallb f G) eqn:H1; destruct (forallb f G') eqn:H2; try reflexivity.
  - rewrite forallb_forall in H1. assert (forallb f G' = true); [|congruence].
    apply forallb_forall. intros g Hg. apply H1, Hs, Hg.
  - rewrite forallb_forall in H2. assert (forallb f G = true); [|congruence].
    apply forallb_forall. intros g Hg. apply H2, Hs, Hg.
Qed.
