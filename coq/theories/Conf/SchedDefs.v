(* SchedDefs.v - executable model of the step schedule.  Definitions only.

   config_default_get_steps / config_robsd_regress_get_steps / is_parallel /
   config_canvas_get_steps (conf*.c)      -> [raw_steps]
   config_get_steps (argument interpolation, empty arguments dropped) -> [get_steps]
   steps_list of robsd-step.c (-L -m mode -C conf [-o k])            -> [list_cmd]
   find_step / resolve_step_command of step-exec.c                   -> [resolve] *)
From Robsd Require Export Conf.ConfDefs.
Local Open Scope N_scope.

Record sstep := mk_sstep { ss_name : bytes; ss_cmd : list bytes; ss_par : bool }.

(* config_value(cf, name, integer, fallback) *)
Definition int_value (E : env) (T : tables) (c : cfg) (name : bytes) (fallback : Z) : cfg * Z :=
  let '(c1, ov) := find1 E T c name in
  (c1, match ov with Some (VInt z) => z | Some _ => 1%Z | None => fallback end).

(* is_parallel *)
Definition is_parallel (E : env) (T : tables) (c : cfg) (name : bytes) : cfg * bool :=
  let '(c1, p) := int_value E T c kw_parallel 1 in
  if (p =? 0)%Z then (c1, false)
  else let '(c2, q) := int_value E T c1 (regress_name name sfx_parallel) 1 in (c2, negb (q =? 0)%Z).

(* the two passes over ${regress}: names that run in parallel, names that do not, both in configuration order *)
Fixpoint split_regress (E : env) (T : tables) (c : cfg) (l : list bytes) : cfg * list bytes * list bytes :=
  match l with
  | [] => (c, [], [])
  | n :: l' =>
      let '(c1, p) := is_parallel E T c n in
      let '(c2, ps, ns) := split_regress E T c1 l' in
      if p then (c2, n :: ps, ns) else (c2, ps, n :: ns)
  end.

(* config_steps_add_script *)
Definition script_step (T : tables) (script name : bytes) (par : bool) : sstep :=
  mk_sstep name (script_argv T script name) par.

Fixpoint rows_before (rows : list steprow) : list (bytes * bytes) :=
  match rows with
  | Some r :: t => r :: rows_before t
  | _ => []
  end.

Fixpoint rows_all (rows : list steprow) : list (bytes * bytes) :=
  match rows with
  | Some r :: t => r :: rows_all t
  | None :: t => rows_all t
  | [] => []
  end.

Fixpoint rows_after (rows : list steprow) : list (bytes * bytes) :=
  match rows with
  | Some _ :: t => rows_after t
  | None :: t => rows_all t
  | [] => []
  end.

Definition static_step (T : tables) (r : bytes * bytes) : sstep := script_step T (snd r) (fst r) false.

(* cf->callbacks->get_steps *)
Definition raw_steps (E : env) (T : tables) (c : cfg) : cfg * list sstep :=
  match t_mode T with
  | ROBSD_REGRESS =>
      let '(c1, ov) := find1 E T c str_regress in
      let l := match ov with Some (VList l) => l | _ => [] end in
      let '(c2, ps, ns) := split_regress E T c1 l in
      (c2, map (static_step T) (rows_before (t_steps T))
             ++ map (fun n => script_step T (t_regress_script T) n true) ps
             ++ map (fun n => script_step T (t_regress_script T) n false) ns
             ++ map (static_step T) (rows_after (t_steps T)))
  | CANVAS => (c, map (fun s => mk_sstep (cs_name s) (cs_command s) (cs_parallel s)) (c_steps c))
  | _ => (c, map (static_step T) (rows_all (t_steps T)))
  end.

(* the inner loop of config_get_steps: every argument interpolated, empty results dropped *)
Fixpoint interp_args (E : env) (T : tables) (c : cfg) (args : list bytes) : cfg * option (list bytes) :=
  match args with
  | [] => (c, Some [])
  | a :: r =>
      let '(c1, ir) := cfg_interp E T c a in
      match ir with
      | IErr e => (add_diag c1 (mk_diag P_none 0 (M_interp e)), None)
      | IOk s =>
          let '(c2, rest) := interp_args E T c1 r in
          match rest with
          | None => (c2, None)
          | Some l => (c2, Some (match s with [] => l | _ => s :: l end))
          end
      end
  end.

Fixpoint interp_steps (E : env) (T : tables) (c : cfg) (steps : list sstep) : cfg * option (list sstep) :=
  match steps with
  | [] => (c, Some [])
  | s :: r =>
      let '(c1, oa) := interp_args E T c (ss_cmd s) in
      match oa with
      | None => (c1, None)
      | Some a =>
          let '(c2, rest) := interp_steps E T c1 r in
          match rest with
          | None => (c2, None)
          | Some l => (c2, Some (mk_sstep (ss_name s) a (ss_par s) :: l))
          end
      end
  end.

(* config_get_steps; [trace] is CONFIG_STEPS_TRACE_COMMAND *)
Definition get_steps (E : env) (T : tables) (c : cfg) (trace : bool) : cfg * option (list sstep) :=
  let '(c1, raw) := raw_steps E T (set_trace c trace) in
  let '(c2, res) := interp_steps E T c1 raw in
  (set_trace c2 false, res).

(* "%zu %s%s\n" *)
Definition list_line (i : nat) (s : sstep) : bytes :=
  render_Z (Z.of_nat i) ++ 32 :: ss_name s ++ (if ss_par s then [32; 112; 97; 114; 97; 108; 108; 101; 108] else []) ++ [10].

Fixpoint list_lines (i : nat) (steps : list sstep) : bytes :=
  match steps with
  | [] => []
  | s :: r => list_line i s ++ list_lines (S i) r
  end.

Inductive listres :=
| L_ok (stdout : bytes)
| L_config_rejected (dg : list diag)
| L_steps_failed (dg : list diag)        (* config_get_steps returned NULL *)
| L_offset_too_large
| L_offset_invalid (r : numres).

Definition int_max : Z := 2147483647%Z.

(* robsd-step -L -m mode -C conf [-o offset] *)
Definition list_cmd (E : env) (T : tables) (text : bytes) (offset : option bytes) : listres :=
  let off := match offset with
             | None => NumOk 1%Z
             | Some s => strtonum 1 int_max s
             end in
  match off with
  | NumOk k =>
      match config_parse E T text with
      | Rejected c => L_config_rejected (rev (c_diags c))
      | Accepted c =>
          let '(c1, res) := get_steps E T (after_parse T c) false in
          match res with
          | None => L_steps_failed (rev (c_diags c1))
          | Some steps =>
              (* offset - 1 >= VECTOR_LENGTH(steps), compared as integers: the offset can be INT_MAX *)
              if (Z.of_nat (length steps) <=? k - 1)%Z then L_offset_too_large
              else let skip := Z.to_nat (k - 1) in L_ok (list_lines (S skip) (skipn skip steps))
          end
      end
  | r => L_offset_invalid r
  end.

(* find_step: the first step of that name; its command after interpolation *)
Fixpoint find_step (steps : list sstep) (name : bytes) : option sstep :=
  match steps with
  | [] => None
  | s :: r => if beq (ss_name s) (cstr name) then Some s else find_step r name
  end.

(* resolve_step_command for robsd-exec -m mode -C conf [-x] name *)
Definition resolve (E : env) (T : tables) (text : bytes) (trace : bool) (name : bytes) : option (list bytes) :=
  match config_parse E T text with
  | Rejected _ => None
  | Accepted c =>
      match snd (get_steps E T (after_parse T c) trace) with
      | None => None
      | Some steps => match find_step steps name with Some s => Some (ss_cmd s) | None => None end
      end
  end.

(* the names of a listing, for the theorems *)
Definition names (steps : list sstep) : list bytes := map ss_name steps.
