(* ConfAbort.v - when does the configuration reader trap?

   The model flags a trap ([c_abort], [r_abort]) where the C code would hit an
   assert / __builtin_trap / unbounded recursion.  ConfDefs.v sets the flag in
   ten places:
     1 config_find_plain   computed default behind ${parallel}           (config_default_parallel)
     2 config_find_plain   static default of type INVALID                (config_find, __builtin_trap)
     3 config_find         static default of type INVALID                (config_find, __builtin_trap)
     4 bd_diverge          ${builddir} needed while ${builddir} is being computed (unbounded recursion)
     5 step_opts           fuel of the option loop of a canvas step
     6 concat_list         a list variable that exists with another type (assert in config_find_or_create_list)
     7 regress_opts        fuel of the option loop of a regress entry
     8 run_pfun PF_none    a keyword row without parser
     9 parse_loop          fuel of the keyword loop
    10 config_parse        fuel of the lexer
   This file proves that for every table passing the boolean [trap_free]
   (computed for the five regenerated and the five documented tables) and for
   EVERY environment, configuration text, -v list and standard input, sites
   1-3 and 5-10 are never reached: the run traps only if a computation of
   ${builddir} traps, i.e. only through site 4 ([no_abort_unless_builddir]).
   Site 4 was live in the shipped code: [builddir_reentry_witness] (replayed on
   the real robsd-config: SIGSEGV by stack exhaustion, findings/D18_builddir_reentry.md;
   repaired in /repo 35cfab1 by a re-entry guard).  Which body the source has is
   read by the translator ([t_builddir_guard]); with the guard the nested lookup
   has no value and site 4 is dead too ([guarded_not_reentered]).

   The invariant carried through the parser is [lists_ok]: every variable with
   one of the names config_find_or_create_list is called with (regress,
   regress-obj, regress-packages, regress-env, regress-*-targets) holds a list. *)
From Robsd Require Import Conf.ConfDefs Conf.ConfSpec Conf.ConfInv Conf.ConfPrim Conf.ConfTrack Conf.ConfDiag Conf.ConfReject Conf.ConfRows.
Local Open Scope N_scope.

Definition is_list (v : value) : bool := match v with VList _ => true | _ => false end.

Definition dash_targets : bytes := Eval vm_compute in 45 :: sfx_targets.

(* the names config_find_or_create_list may be asked for (a superset, decidable) *)
Definition list_name (n : bytes) : bool :=
  beq n str_regress || beq n kw_regress_obj || beq n kw_regress_packages || beq n kw_regress_env
  || (prefixb regress_prefix n && suffixb dash_targets n).

Definition okpair (n : bytes) (v : value) : Prop := list_name n = true -> is_list v = true.
Definition lists_ok (vars : list (bytes * value)) : Prop := Forall (fun kv => okpair (fst kv) (snd kv)) vars.

Lemma lists_ok_app vars n v : lists_ok vars -> okpair n v -> lists_ok (vars ++ [(n, v)]).
Proof. intros H1 H2. apply Forall_app. split; [exact H1|]. constructor; [exact H2|constructor]. Qed.

Lemma lists_ok_find vars n v : lists_ok vars -> find_var vars n = Some v -> okpair n v.
Proof.
  induction 1 as [|[k w] vars Hk _ IH]; simpl; [discriminate|].
  destruct (beq k n) eqn:Hb; [|exact IH]. apply beq_eq in Hb. subst k. intros H; inversion H; subst. exact Hk.
Qed.

Lemma lists_ok_set_first vars n v : lists_ok vars -> okpair n v -> lists_ok (set_first vars n v).
Proof.
  intros H Hv. induction H as [|[k w] vars Hk Hr IH]; simpl; [constructor|].
  destruct (beq k n) eqn:Hb.
  - apply beq_eq in Hb. subst k. constructor; [exact Hv|exact Hr].
  - constructor; [exact Hk|exact IH].
Qed.

Lemma lists_ok_mid base k w v extra : lists_ok (base ++ (k, w) :: extra) -> okpair k v -> lists_ok (base ++ (k, v) :: extra).
Proof.
  intros H Hv. apply Forall_app in H. destruct H as [H1 H2]. inversion H2; subst.
  apply Forall_app. split; [exact H1|]. constructor; assumption.
Qed.

Lemma find_var_app_same vars n v : find_var vars n = None -> find_var (vars ++ [(n, v)]) n = Some v.
Proof.
  induction vars as [|[k w] vars IH]; simpl; [rewrite beq_refl; reflexivity|].
  destruct (beq k n); [discriminate|exact IH].
Qed.

(* ---------------------------------------------------------------- which names are list names *)
Lemma list_name_targets p : list_name (regress_name p sfx_targets) = true.
Proof.
  unfold list_name. assert (H : prefixb regress_prefix (regress_name p sfx_targets) && suffixb dash_targets (regress_name p sfx_targets) = true).
  { apply andb_true_iff. split; [apply prefixb_spec; unfold regress_name; eauto|].
    unfold regress_name. change (45 :: sfx_targets) with dash_targets. rewrite app_assoc. apply suffixb_app. }
  rewrite H. apply orb_true_r.
Qed.

Lemma beq_app_long p s t : (length t < length s)%nat -> beq (p ++ s) t = false.
Proof.
  intros Hl. destruct (beq (p ++ s) t) eqn:H; [|reflexivity]. apply beq_eq in H.
  apply (f_equal (@length N)) in H. rewrite app_length in H. exfalso. lia.
Qed.

Lemma beq_prefix_cancel a x y : beq (a ++ x) (a ++ y) = beq x y.
Proof. induction a as [|c a IH]; simpl; [reflexivity|]. rewrite N.eqb_refl. exact IH. Qed.

(* regress-<p>-<option> for an option other than targets is none of them *)
Lemma list_name_option p sfx :
  sfx = sfx_env \/ sfx = sfx_parallel \/ sfx = sfx_quiet \/ sfx = sfx_root -> list_name (regress_name p sfx) = false.
Proof.
  intros H. unfold list_name, regress_name.
  assert (Hs : suffixb dash_targets (regress_prefix ++ p ++ 45 :: sfx) = false).
  { unfold suffixb. rewrite !rev_app_distr. destruct H as [->|[->|[->| ->]]]; reflexivity. }
  rewrite Hs, andb_false_r, orb_false_r.
  assert (H1 : beq (regress_prefix ++ p ++ 45 :: sfx) str_regress = false).
  { reflexivity. }
  assert (H2 : forall t, (length t < 4)%nat -> beq (regress_prefix ++ p ++ 45 :: sfx) (regress_prefix ++ t) = false).
  { intros t Ht. rewrite beq_prefix_cancel. apply beq_app_long. destruct H as [->|[->|[->| ->]]]; simpl; lia. }
  assert (H3 : beq (regress_prefix ++ p ++ 45 :: sfx) kw_regress_obj = false).
  { change kw_regress_obj with (regress_prefix ++ [111; 98; 106]). apply H2. simpl; lia. }
  assert (H4 : beq (regress_prefix ++ p ++ 45 :: sfx) kw_regress_env = false).
  { change kw_regress_env with (regress_prefix ++ [101; 110; 118]). apply H2. simpl; lia. }
  rewrite H1, H3, H4. cbn [orb].
  (* regress-packages: the last byte differs or the length does *)
  destruct (beq (regress_prefix ++ p ++ 45 :: sfx) kw_regress_packages) eqn:Hp; [|reflexivity].
  apply beq_eq in Hp. apply (f_equal (@rev N)) in Hp. rewrite !rev_app_distr in Hp.
  destruct H as [->|[->|[->| ->]]]; discriminate.
Qed.

(* ---------------------------------------------------------------- the condition on a table *)
Definition nonlist_fun (f : dfun) : bool :=
  match f with DF_regress_targets | DF_rdomain | DF_parallel => false | _ => true end.

(* parsers that hand back a list, or nothing, for the keyword's own variable *)
Definition listy_fn (f : pfun) : bool :=
  match f with PF_boolean | PF_integer | PF_string | PF_user | PF_directory | PF_regress_timeout => false | _ => true end.

Definition invalid_type (g : grammar) : bool := match gr_type g with VT_INVALID => true | _ => false end.

(* config_find does not reach its __builtin_trap for this row *)
Definition static_ok (g : grammar) : bool :=
  gr_req g || match gr_default g with D_fun _ => true | _ => negb (invalid_type g) end.

Definition row_ok (g : grammar) : bool :=
  (negb (has_fn g) || negb (list_name (gr_kw g)) || listy_fn (gr_fn g))
  && match gr_default g with
     | D_fun f => negb (nonlist_fun f) || (negb (gr_pat g) && negb (list_name (gr_kw g)))
     | _ => true
     end
  && static_ok g.

Definition trap_free (T : tables) : bool :=
  forallb row_ok (t_grammar T)
  && match grammar_for_interp (t_grammar T) kw_parallel with
     | None => true
     | Some g => gr_req g || match gr_default g with D_fun _ => false | _ => negb (invalid_type g) end
     end.

Lemma default_value_valid E g : invalid_type g = false -> exists v, default_value E g = Some v.
Proof. unfold invalid_type, default_value. destruct (gr_type g); try discriminate; eauto. Qed.

(* ---------------------------------------------------------------- lookups *)
Section Lookups.
  Variable E : env.
  Variable T : tables.
  Hypothesis TF : trap_free T = true.
  Variable P : cfg -> Prop.
  Hypothesis P_app : forall c n v, okpair n v -> P c -> P (cfg_append c n v).
  Hypothesis P_rd : forall c r, P c -> P (set_rdomain c r).
  Hypothesis P_diag : forall c d, P c -> P (add_diag c d).

  Lemma rows_ok g : In g (t_grammar T) -> row_ok g = true.
  Proof.
    apply andb_true_iff in TF. destruct TF as [H _]. rewrite forallb_forall in H. apply H.
  Qed.

  Lemma ab_find_parallel c : P c -> P (fst (config_find_plain E T c kw_parallel)).
  Proof.
    intros H. unfold config_find_plain. destruct (find_var (c_vars c) kw_parallel); [exact H|].
    apply andb_true_iff in TF. destruct TF as [_ Hp].
    destruct (grammar_for_interp (t_grammar T) kw_parallel) as [g|]; [|exact H].
    destruct (gr_req g); [exact H|]. simpl in Hp.
    destruct (gr_default g); try discriminate; apply negb_true_iff in Hp;
      destruct (default_value_valid E g Hp) as [v ->]; exact H.
  Qed.

  Lemma ab_rdomain_next c : P c -> P (fst (rdomain_next T c)).
  Proof. intros H. unfold rdomain_next. destruct (_ =? _)%Z; simpl; apply P_rd, H. Qed.

  Section WithBd.
    Variable bd : cfg -> bytes -> cfg * option value.
    Hypothesis bd_pres : forall c n, list_name n = false -> P c -> P (fst (bd c n)).

    Lemma ab_call_fun g f c n :
      In g (t_grammar T) -> grammar_equals g n = true -> gr_default g = D_fun f ->
      P c -> P (fst (call_fun E T bd f c n)).
    Proof.
      intros Hin Hm Hd H. pose proof (rows_ok g Hin) as Hr. unfold row_ok in Hr.
      apply andb_true_iff in Hr. destruct Hr as [Hr _]. apply andb_true_iff in Hr. destruct Hr as [_ Hr].
      rewrite Hd in Hr.
      assert (Hn : nonlist_fun f = true -> list_name n = false).
      { intros Hf. rewrite Hf in Hr. simpl in Hr. apply andb_true_iff in Hr. destruct Hr as [Hp Hl].
        apply negb_true_iff in Hp. apply negb_true_iff in Hl. rewrite (grammar_equals_literal g n Hp Hm). exact Hl. }
      assert (Hok : forall v, nonlist_fun f = true -> okpair n v).
      { intros v Hf Hl. rewrite (Hn Hf) in Hl. discriminate. }
      destruct f; simpl.
      - apply bd_pres; auto.
      - apply P_app; auto.
      - apply P_app; auto.
      - apply P_app; auto.
      - apply P_app; auto.
      - apply P_app; auto.
      - pose proof (ab_rdomain_next c H) as H1. destruct (rdomain_next T c). exact H1.
      - apply P_app; [intros _; reflexivity|exact H].
      - apply ab_find_parallel, H.
    Qed.

    Lemma ab_config_find c n : P c -> P (fst (config_find E T bd c n)).
    Proof.
      intros H. unfold config_find. destruct (find_var (c_vars c) n); [exact H|].
      destruct (grammar_for_interp (t_grammar T) n) as [g|] eqn:Hg; [|exact H].
      apply find_grammar_some in Hg. destruct Hg as [Hin Hm].
      destruct (gr_req g) eqn:Hq; [exact H|].
      pose proof (rows_ok g Hin) as Hr. unfold row_ok, static_ok in Hr. rewrite Hq in Hr.
      apply andb_true_iff in Hr. destruct Hr as [_ Hs]. simpl in Hs.
      destruct (gr_default g) eqn:Hd;
        try (apply negb_true_iff in Hs; destruct (default_value_valid E g Hs) as [v ->]; exact H).
      eapply ab_call_fun; eauto.
    Qed.

    Lemma ab_lookup early c n : P c -> P (fst (lookup E T bd early c n)).
    Proof.
      intros H. unfold lookup. destruct (early && negb (is_early (t_grammar T) n)); [exact H|].
      pose proof (ab_config_find c n H) as Hf. destruct (config_find E T bd c n) as [c1 ov]. simpl in Hf.
      destruct ov as [[| | |]|]; exact Hf.
    Qed.
  End WithBd.

  (* config_default_build_dir, given that the nested interpolation keeps P *)
  Lemma ab_build_dir_nested c n :
    (forall c0 m, P c0 -> P (fst (lookup E T (bd_nested T) false c0 m))) ->
    list_name n = false -> P c -> P (fst (build_dir E T c n)).
  Proof.
    intros Hlk Hn H. unfold build_dir, sinterp_str.
    pose proof (sinterp_pres P false (lookup E T (bd_nested T) false) Hlk (pred (t_depth_limit T)) c (cstr running_tmpl) H) as Hs.
    destruct (sinterp _ _ _ c _) as [c1 r]. simpl in Hs. destruct r as [p|e].
    - destruct (e_file E p); [exact Hs|]. destruct (first_line (cstr b)); simpl.
      + apply P_app; [|exact Hs]. intros Hl. rewrite Hn in Hl. discriminate.
      + apply P_diag, Hs.
    - simpl. apply P_diag, Hs.
  Qed.

  (* from here on: the computation of ${builddir} keeps P *)
  Hypothesis bdP : forall c n, list_name n = false -> P c -> P (fst (build_dir E T c n)).

  Lemma ab_lookup1 early c n : P c -> P (fst (lookup1 E T early c n)).
  Proof. apply ab_lookup. exact bdP. Qed.

  Lemma ab_cfg_interp c s : P c -> P (fst (cfg_interp E T c s)).
  Proof. intros H. unfold cfg_interp, sinterp_str. apply sinterp_pres; [|exact H]. intros; now apply ab_lookup1. Qed.

  Lemma ab_cfg_interp_early c s : P c -> P (fst (cfg_interp_early E T c s)).
  Proof. intros H. unfold cfg_interp_early, sinterp_str. apply sinterp_pres; [|exact H]. intros; now apply ab_lookup1. Qed.

  Lemma ab_interp_lines ls : forall c lno, P c -> P (fst (interp_lines_st E T c lno ls)).
  Proof.
    induction ls as [|l ls IH]; intros c lno H; simpl; [exact H|].
    pose proof (sinterp_pres P false (lookup1 E T false) (fun st m Hst => ab_lookup1 false st m Hst)
                  (pred (t_depth_limit T)) c l H) as Hs.
    destruct (sinterp _ _ _ c l) as [c1 r]. simpl in Hs. destruct r as [o|e]; [|simpl; apply P_diag, Hs].
    pose proof (IH c1 (lno + 1)%Z Hs) as H2. destruct (interp_lines_st E T c1 (lno + 1) ls) as [c2 rest]. simpl in H2.
    destruct rest; exact H2.
  Qed.

  (* ---------------------------------------------------------------- the parser *)
  Hypothesis P_lists : forall c, P c -> lists_ok (c_vars c).
  Hypothesis P_vars : forall c vs, lists_ok vs -> P c -> P (set_vars c vs).
  Hypothesis P_steps : forall c s, P c -> P (set_steps c s).
  Variable eof : Z.

  Lemma ab_expect c ts ty : P c -> P (fst (fst (expect eof c ts ty))).
  Proof. intros H. unfold expect. destruct (next eof ts) as [t r]. destruct (ttype_eqb (tk_type t) ty); simpl; auto. Qed.

  Lemma ab_list_items ts : forall c acc, P c -> P (snd (fst (fst (list_items eof c ts acc)))).
  Proof.
    induction ts as [|t ts IH]; intros c acc H; simpl; [auto|].
    destruct (ttype_eqb (tk_type t) T_RBRACE); [exact H|].
    destruct (ttype_eqb (tk_type t) T_STRING); [apply IH, H|simpl; auto].
  Qed.

  Lemma ab_parse_list_l c ts : P c -> P (snd (fst (fst (parse_list_l eof c ts)))).
  Proof.
    intros H. unfold parse_list_l. pose proof (ab_expect c ts T_LBRACE H) as He.
    destruct (expect eof c ts T_LBRACE) as [[c1 r] [tk|]]; simpl in *; [|exact He]. apply ab_list_items, He.
  Qed.

  Lemma ab_parse_list c ts : P c -> P (snd (fst (parse_list eof c ts))).
  Proof.
    intros H. unfold parse_list. pose proof (ab_parse_list_l c ts H) as Hl.
    destruct (parse_list_l eof c ts) as [[[rv c1] r] l]. exact Hl.
  Qed.

  Ltac ab_expect_tac c ts ty H :=
    let He := fresh "He" in
    pose proof (ab_expect c ts ty H) as He;
    destruct (expect eof c ts ty) as [[?c ?r] [?tk|]]; simpl in He.

  Lemma ab_parse_directory c ts : P c -> P (snd (fst (parse_directory E T eof c ts))).
  Proof.
    intros H. unfold parse_directory. ab_expect_tac c ts T_STRING H; [|exact He].
    destruct (tk_str tk) as [|b s]; [exact He|].
    pose proof (ab_cfg_interp c0 (b :: s) He) as Hi.
    destruct (cfg_interp E T c0 (b :: s)) as [c2 [p|e]]; simpl in Hi; [|simpl; auto].
    destruct (e_dir E p); simpl; auto.
  Qed.

  (* site 6: the variable asked for is a list, or is created as one *)
  Lemma ab_concat_list c n l : list_name n = true -> P c -> P (concat_list c n l).
  Proof.
    intros Hn H. unfold concat_list. unfold present.
    destruct (find_var (c_vars c) n) as [v|] eqn:Hf.
    - rewrite Hf. pose proof (lists_ok_find _ _ _ (P_lists c H) Hf Hn) as Hv.
      destruct v; try discriminate. apply P_vars; [|exact H].
      apply lists_ok_set_first; [apply P_lists, H|intros _; reflexivity].
    - simpl. rewrite (find_var_app_same _ _ (VList []) Hf).
      assert (H1 : P (cfg_append c n (VList []))) by (apply P_app; [intros _; reflexivity|exact H]).
      apply P_vars; [|exact H1]. apply lists_ok_set_first; [apply (P_lists _ H1)|intros _; reflexivity].
  Qed.

  (* site 5 *)
  Lemma ab_step_opts fuel : forall c ts cmd par last,
    (length ts < fuel)%nat -> P c -> P (snd (fst (step_opts eof fuel c ts cmd par last))).
  Proof.
    induction fuel as [|fuel IH]; intros c ts cmd par last Hlen H; [lia|]. simpl.
    unfold lexer_if. destruct ts as [|t ts']; [simpl; exact H|]. simpl in Hlen |- *.
    destruct (ttype_eqb (tk_type t) T_COMMAND).
    - pose proof (ab_parse_list_l c ts' H) as Hl. pose proof (parse_list_l_suffix eof c ts') as Hs.
      destruct (parse_list_l eof c ts') as [[[rv c1] r1] l1]. simpl in Hl, Hs. apply suffix_length in Hs.
      destruct rv as [[| | |l]| | |]; try exact Hl. apply IH; [lia|exact Hl].
    - destruct (ttype_eqb (tk_type t) T_PARALLEL); [apply IH; [lia|exact H]|exact H].
  Qed.

  Lemma list_name_consts :
    list_name kw_canvas_dir = false /\ list_name kw_robsddir = false /\ list_name kw_step = false
    /\ list_name str_regress = true /\ list_name kw_regress_obj = true /\ list_name kw_regress_packages = true
    /\ list_name kw_regress_env = true.
  Proof. repeat split; vm_compute; reflexivity. Qed.

  Lemma ab_nonlist c n v : list_name n = false -> P c -> P (cfg_append c n v).
  Proof. intros Hn. apply P_app. intros Hl. rewrite Hn in Hl. discriminate. Qed.

  Lemma ab_regress_option_env c ts path : P c -> P (snd (fst (regress_option_env E T eof c ts path))).
  Proof.
    intros H. unfold regress_option_env. pose proof (ab_parse_list c ts H) as Hl.
    destruct (parse_list eof c ts) as [[rv c1] r]. simpl in Hl. destruct rv as [[| | |l]| | |]; try exact Hl.
    set (name := regress_name path sfx_env). set (v := VList (regress_env_ref :: l)).
    set (tm := 36 :: 123 :: name ++ [125]).
    assert (Hname : list_name name = false) by (apply list_name_option; auto).
    assert (H2 : P (cfg_append c1 name v)) by (apply ab_nonlist; assumption).
    pose proof (ab_cfg_interp_early (cfg_append c1 name v) tm H2) as Hi.
    assert (Hx : exists extra, c_vars (fst (cfg_interp_early E T (cfg_append c1 name v) tm)) = c_vars (cfg_append c1 name v) ++ extra).
    { apply (prim_cfg_interp_early E T (fun c' => exists extra, c_vars c' = c_vars (cfg_append c1 name v) ++ extra)).
      - intros c' n0 v0 _ [ex Hx]. exists (ex ++ [(n0, v0)]). simpl. simpl in Hx. rewrite Hx, app_assoc. reflexivity.
      - intros c' r0 Hx. exact Hx.
      - intros c' Hx. exact Hx.
      - intros c' d _ Hx. exact Hx.
      - exists []. now rewrite app_nil_r. }
    destruct (cfg_interp_early E T (cfg_append c1 name v) tm) as [c3 [str|e]]; simpl in Hi, Hx; [|simpl; apply P_diag, Hi].
    simpl. apply P_vars; [|exact Hi]. destruct Hx as [extra Hx].
    pose proof (P_lists c3 Hi) as Hl3. rewrite Hx in Hl3 |- *. rewrite <- app_assoc in Hl3 |- *. simpl app in Hl3 |- *.
    rewrite set_nth_app. eapply lists_ok_mid; [exact Hl3|]. intros Hq. rewrite Hname in Hq. discriminate.
  Qed.

  (* site 7 *)
  Lemma ab_regress_opts fuel : forall c ts path,
    (length ts < fuel)%nat -> P c -> P (snd (fst (regress_opts E T eof fuel c ts path))).
  Proof.
    induction fuel as [|fuel IH]; intros c ts path Hlen H; [lia|]. simpl.
    destruct ts as [|t r]; [simpl; exact H|]. simpl in Hlen |- *.
    assert (Hl : forall k, (forall c1 l, P c1 -> P (k c1 l)) ->
                 P (snd (fst (let '(rv, c1, r1) := parse_list eof c r in
                              match rv with
                              | R_append (VList l) => regress_opts E T eof fuel (k c1 l) r1 path
                              | _ => (false, c1, r1)
                              end)))).
    { intros k Hk. pose proof (ab_parse_list c r H) as Hp. pose proof (parse_list_suffix eof c r) as Hs.
      destruct (parse_list eof c r) as [[rv c1] r1]. simpl in Hp, Hs. apply suffix_length in Hs.
      destruct rv as [[| | |l]| | |]; try exact Hp. apply IH; [lia|]. apply Hk, Hp. }
    destruct (tk_type t); try exact H.
    - pose proof (ab_regress_option_env c r path H) as Ho. pose proof (regress_option_env_suffix E T eof c r path) as Hs.
      destruct (regress_option_env E T eof c r path) as [[ok c1] r1]. simpl in Ho, Hs. apply suffix_length in Hs.
      destruct ok; [apply IH; [lia|exact Ho]|exact Ho].
    - apply IH; [lia|]. apply ab_nonlist; [apply list_name_option; auto|exact H].
    - apply (Hl (fun c1 l => concat_list c1 kw_regress_obj l)). intros. apply ab_concat_list; [apply list_name_consts|assumption].
    - apply (Hl (fun c1 l => concat_list c1 kw_regress_packages l)). intros. apply ab_concat_list; [apply list_name_consts|assumption].
    - apply IH; [lia|]. apply ab_nonlist; [apply list_name_option; auto|exact H].
    - apply IH; [lia|]. apply ab_nonlist; [apply list_name_option; auto|exact H].
    - apply (Hl (fun c1 l => concat_list c1 (regress_name path sfx_targets) l)). intros. apply ab_concat_list; [apply list_name_targets|assumption].
  Qed.

  (* the value a parser hands back for the keyword's own variable is a list when the row's parser is [listy_fn] *)
  Lemma run_pfun_listy f c ts v c1 r :
    listy_fn f = true -> run_pfun E T eof f c ts = (R_append v, c1, r) -> is_list v = true.
  Proof.
    intros Hf. destruct f; simpl in Hf |- *; try discriminate.
    - intros H. destruct (parse_list_cases eof _ _ _ _ _ H) as [[l Hl]|Hx]; [inversion Hl; subst; reflexivity|destruct Hx].
    - unfold parse_glob. destruct (expect eof c ts T_STRING) as [[c0 r0] [tk|]]; [|intros H; inversion H].
      destruct (e_glob E (tk_str tk)); intros H; inversion H. reflexivity.
    - unfold parse_canvas_directory. destruct (parse_directory E T eof c ts) as [[rv c0] r0].
      destruct rv; intros H; inversion H.
    - unfold parse_canvas_step. destruct (expect eof c ts T_STRING) as [[c0 r0] [tk|]]; [|intros H; inversion H].
      destruct (step_opts eof (S (length r0)) c0 r0 None false (tk_lno tk)) as [[res c2] r2].
      destruct res as [[[[[|a l]|] par] last]|]; intros H; inversion H.
    - unfold parse_regress. destruct (expect eof c ts T_STRING) as [[c0 r0] [tk|]]; [|intros H; inversion H].
      destruct (regress_opts E T eof (S (length r0)) c0 r0 (tk_str tk)) as [[ok c2] r2].
      destruct ok; intros H; inversion H.
    - unfold parse_regress_env. destruct (parse_list eof c ts) as [[rv c0] r0].
      destruct rv as [[| | |l]| | |]; intros H; inversion H.
  Qed.

  (* site 8 excluded by the caller: the row has a parser *)
  Lemma ab_run_pfun f c ts : f <> PF_none -> P c -> P (snd (fst (run_pfun E T eof f c ts))).
  Proof.
    intros Hn H. destruct f; simpl; try congruence.
    - unfold parse_boolean. ab_expect_tac c ts T_BOOLEAN H; exact He.
    - unfold parse_integer. ab_expect_tac c ts T_INTEGER H; exact He.
    - unfold parse_string. ab_expect_tac c ts T_STRING H; exact He.
    - apply ab_parse_list, H.
    - unfold parse_glob. ab_expect_tac c ts T_STRING H; [|exact He]. destruct (e_glob E (tk_str tk)); simpl; auto.
    - unfold parse_user. ab_expect_tac c ts T_STRING H; [|exact He]. destruct (e_user E (tk_str tk)); simpl; auto.
    - apply ab_parse_directory, H.
    - unfold parse_canvas_directory. pose proof (ab_parse_directory c ts H) as Hd.
      destruct (parse_directory E T eof c ts) as [[rv c1] r]. simpl in Hd. destruct rv; simpl; auto.
      apply ab_nonlist; [apply list_name_consts|]. apply ab_nonlist; [apply list_name_consts|exact Hd].
    - unfold parse_canvas_step. ab_expect_tac c ts T_STRING H; [|exact He].
      pose proof (ab_step_opts (S (length r)) c0 r None false (tk_lno tk) ltac:(lia) He) as Ho.
      destruct (step_opts eof (S (length r)) c0 r None false (tk_lno tk)) as [[res c2] r2]. simpl in Ho.
      destruct res as [[[[[|a l]|] par] last]|]; simpl; auto.
      apply P_steps. destruct (c_steps c2); auto. apply ab_nonlist; [apply list_name_consts|exact Ho].
    - unfold parse_regress. ab_expect_tac c ts T_STRING H; [|exact He].
      pose proof (ab_regress_opts (S (length r)) c0 r (tk_str tk) ltac:(lia) He) as Ho.
      destruct (regress_opts E T eof (S (length r)) c0 r (tk_str tk)) as [[ok c2] r2]. simpl in Ho.
      destruct ok; simpl; auto. apply ab_concat_list; [apply list_name_consts|exact Ho].
    - unfold parse_regress_env. pose proof (ab_parse_list c ts H) as Hl.
      destruct (parse_list eof c ts) as [[rv c1] r]. simpl in Hl. destruct rv as [[| | |l]| | |]; simpl; auto.
      apply ab_concat_list; [apply list_name_consts|exact Hl].
    - unfold parse_regress_timeout, parse_integer. ab_expect_tac c ts T_INTEGER H; [|exact He].
      destruct (next eof r) as [u r1]. destruct (tk_type u); try (simpl; auto; fail); destruct (mul_ov _ (tk_int tk)) as [v [|]]; simpl; auto.
  Qed.

  Lemma ab_parse_keyword c tk ts : P c -> P (snd (fst (parse_keyword E T eof c tk ts))).
  Proof.
    intros H. unfold parse_keyword. destruct (grammar_for_keyword (t_grammar T) (tk_str tk)) as [g|] eqn:Hg; [|simpl; auto].
    apply find_grammar_some in Hg. destruct Hg as [Hin Hg]. apply andb_true_iff in Hg. destruct Hg as [Hfn Hkw].
    apply beq_eq in Hkw.
    assert (Hn : gr_fn g <> PF_none) by (unfold has_fn in Hfn; destruct (gr_fn g); congruence).
    pose proof (ab_run_pfun (gr_fn g) c ts Hn H) as Hr.
    destruct (run_pfun E T eof (gr_fn g) c ts) as [[rv c1] r] eqn:Hp. simpl in Hr.
    assert (H2 : P (match rv with R_append v => cfg_append c1 (tk_str tk) v | _ => c1 end)).
    { destruct rv; auto. apply P_app; [|exact Hr]. intros Hl.
      pose proof (rows_ok g Hin) as Hro. unfold row_ok in Hro.
      apply andb_true_iff in Hro. destruct Hro as [Hro _]. apply andb_true_iff in Hro. destruct Hro as [Hro _].
      rewrite Hfn, Hkw, Hl in Hro. simpl in Hro. eapply run_pfun_listy; eauto. }
    destruct (negb (gr_rep g) && present c (tk_str tk)); simpl; auto.
  Qed.

  (* site 9 *)
  Lemma ab_parse_loop fuel : forall c ts e, (length ts < fuel)%nat -> P c -> P (fst (parse_loop E T eof fuel c ts e)).
  Proof.
    induction fuel as [|fuel IH]; intros c ts e Hlen H; [lia|]. simpl.
    destruct ts as [|t r]; [exact H|]. simpl in Hlen. destruct (ttype_eqb (tk_type t) T_KEYWORD); [|simpl; auto].
    pose proof (ab_parse_keyword c t r H) as Hk. pose proof (parse_keyword_suffix E T eof c t r) as Hs.
    destruct (parse_keyword E T eof c t r) as [[rv c1] r1]. simpl in Hk, Hs. apply suffix_length in Hs.
    destruct rv; try (apply IH; [lia|exact Hk]). exact Hk.
  Qed.

  Lemma ab_validate G : forall c, P c -> P (fst (validate G c)).
  Proof.
    induction G as [|g G IH]; intros c H; simpl; [exact H|].
    destruct (gr_req g && negb (present c (gr_kw g))); [|apply IH, H].
    pose proof (IH _ (P_diag c (lexerr 0 (M_mandatory_missing (gr_kw g))) H)) as H2.
    destruct (validate G _) as [c1 b]. exact H2.
  Qed.
End Lookups.

(* ---------------------------------------------------------------- the three instances *)
Definition safe (c : cfg) : Prop := c_abort c = false.
Definition lists (c : cfg) : Prop := lists_ok (c_vars c).
Definition inv (c : cfg) : Prop := safe c /\ lists c.

(* the guard: a computation of ${builddir} does not trap, i.e. never asks for ${builddir} again (site 4) *)
Definition builddir_not_reentered (E : env) (T : tables) : Prop :=
  forall c n, c_abort c = false -> c_abort (fst (build_dir E T c n)) = false.

Section Run.
  Variable E : env.
  Variable T : tables.
  Hypothesis TF : trap_free T = true.

  Lemma lists_app c n v : okpair n v -> lists c -> lists (cfg_append c n v).
  Proof. intros Hv H. unfold lists. simpl. apply lists_ok_app; assumption. Qed.

  (* lists survive every lookup, trapping ones included *)
  Lemma lists_build_dir c n : list_name n = false -> lists c -> lists (fst (build_dir E T c n)).
  Proof.
    apply (ab_build_dir_nested E T lists lists_app (fun c d H => H) c n).
    intros c0 m. apply (ab_lookup E T TF lists lists_app (fun c r H => H) (bd_nested T)). intros c1 n1 _ H1.
    unfold bd_nested. destruct (t_builddir_guard T); exact H1.
  Qed.

  (* with the guard of findings/D18_builddir_reentry.diff the computation of ${builddir} cannot trap *)
  Lemma guarded_not_reentered : t_builddir_guard T = true -> forall c n, c_abort c = false -> c_abort (fst (build_dir E T c n)) = false.
  Proof.
    intros Hg c n H.
    assert (Hsafe : forall c0 n0 v, okpair n0 v -> c_abort c0 = false -> c_abort (cfg_append c0 n0 v) = false) by (intros; assumption).
    destruct (list_name n) eqn:Hn.
    - (* the name asked for plays no role for the flag *)
      unfold build_dir, sinterp_str.
      pose proof (sinterp_pres (fun c0 => c_abort c0 = false) false (lookup E T (bd_nested T) false)
                    (fun st m Hst => ab_lookup E T TF (fun c0 => c_abort c0 = false) Hsafe (fun c0 r H0 => H0) (bd_nested T)
                                       (fun c1 n1 _ H1 => ltac:(unfold bd_nested; rewrite Hg; exact H1)) false st m Hst)
                    (pred (t_depth_limit T)) c (cstr running_tmpl) H) as Hs.
      destruct (sinterp _ _ _ c _) as [c1 r]. simpl in Hs. destruct r as [p|e]; [|exact Hs].
      destruct (e_file E p); [exact Hs|]. destruct (first_line (cstr b)); exact Hs.
    - apply (ab_build_dir_nested E T (fun c0 => c_abort c0 = false) Hsafe (fun c0 d H0 => H0) c n); [|exact Hn|exact H].
      intros c0 m. apply (ab_lookup E T TF (fun c0 => c_abort c0 = false) Hsafe (fun c0 r H0 => H0) (bd_nested T)).
      intros c1 n1 _ H1. unfold bd_nested. rewrite Hg. exact H1.
  Qed.

  Hypothesis BD : builddir_not_reentered E T.

  Lemma inv_app c n v : okpair n v -> inv c -> inv (cfg_append c n v).
  Proof. intros Hv [H1 H2]. split; [exact H1|apply lists_app; assumption]. Qed.

  Lemma inv_build_dir c n : list_name n = false -> inv c -> inv (fst (build_dir E T c n)).
  Proof. intros Hn [H1 H2]. split; [apply BD, H1|apply lists_build_dir; assumption]. Qed.

  Lemma safe_build_dir c n : list_name n = false -> safe c -> safe (fst (build_dir E T c n)).
  Proof. intros _ H. apply BD, H. Qed.

  Lemma inv_init dg : inv (with_diags (cfg_init T) dg).
  Proof. split; [reflexivity|constructor]. Qed.

  (* config_parse_inner *)
  Lemma inv_parse_tokens toks eof dg : inv (cfg_of (parse_tokens E T toks eof dg)).
  Proof.
    unfold parse_tokens.
    pose proof (ab_parse_loop E T TF inv inv_app (fun c r H => H) (fun c d H => H) inv_build_dir
                  (fun c H => proj2 H) (fun c vs Hv H => conj (proj1 H) Hv) (fun c s H => H)
                  eof (S (length toks)) (with_diags (cfg_init T) dg) toks false ltac:(lia) (inv_init dg)) as Hl.
    destruct (parse_loop E T eof (S (length toks)) (with_diags (cfg_init T) dg) toks false) as [c1 error]. simpl in Hl.
    destruct (lexer_get_error c1); [exact Hl|].
    pose proof (ab_validate inv (fun c d H => H) (t_grammar T) c1 Hl) as Hv.
    destruct (validate (t_grammar T) c1) as [c2 verr]. simpl in Hv.
    destruct verr; [exact Hv|]. destruct error; exact Hv.
  Qed.

  (* config_parse; site 10 *)
  Lemma inv_config_parse text : inv (cfg_of (config_parse E T text)).
  Proof.
    unfold config_parse. pose proof (lex_fuel T text) as Hf.
    destruct (lex T text) as [toks eof dg|dg|]; [apply inv_parse_tokens|apply inv_init|congruence].
  Qed.

  Lemma safe_append_vars vs : forall c, safe c -> safe (fst (append_vars T c vs)).
  Proof.
    induction vs as [|v vs IH]; intros c H; simpl; [exact H|].
    assert (H1 : safe (fst (append_var T c v))).
    { unfold append_var. destruct (split_eq (cstr v)) as [[name val]|]; [|exact H].
      destruct (grammar_for_keyword (t_grammar T) name); exact H. }
    destruct (append_var T c v) as [c1 ok]. simpl in H1. destruct ok; [apply IH, H1|exact H1].
  Qed.

  (* robsd-config as a whole *)
  Theorem no_abort_unless_builddir text vars stdin : r_abort (robsd_config E T text vars stdin) = false.
  Proof.
    unfold robsd_config. pose proof (inv_config_parse text) as [Hs _].
    destruct (config_parse E T text) as [c|c]; simpl in Hs; [|exact Hs].
    assert (H0 : safe (after_parse T c)).
    { unfold after_parse. destruct (t_mode T); try exact Hs. destruct (t_canvas_end T). exact Hs. }
    pose proof (safe_append_vars vars _ H0) as H1.
    destruct (append_vars T (after_parse T c) vars) as [c1 ok]. simpl in H1. destruct ok; [|exact H1].
    pose proof (ab_interp_lines E T TF safe (fun c n v _ H => H) (fun c r H => H) (fun c d H => H) safe_build_dir
                  (clines stdin) c1 0%Z H1) as H2.
    destruct (interp_lines_st E T c1 0 (clines stdin)) as [c2 out]. simpl in H2. destruct out; exact H2.
  Qed.

  (* the same for the accepted dictionary *)
  Theorem accepted_no_abort text c : config_parse E T text = Accepted c -> c_abort c = false /\ lists_ok (c_vars c).
  Proof. intros H. pose proof (inv_config_parse text) as Hi. rewrite H in Hi. exact Hi. Qed.
End Run.

(* ---------------------------------------------------------------- when the guard holds *)
Definition nodollar (s : bytes) : Prop := Forall (fun c => c <> DOLLAR) s.

Section Plain.
  Context {St : Type}.
  Variable ignore : bool.
  Variable lk : St -> bytes -> St * option bytes.
  Variable rec : St -> bytes -> St * ires.

  Lemma sinner_nodollar s : nodollar s -> forall st, sinner ignore lk rec st s = (st, IOk s).
  Proof.
    induction 1 as [|c s Hc _ IH]; intros st; [reflexivity|]. rewrite sinner_cons.
    destruct (N.eqb_spec c DOLLAR) as [->|_]; [contradiction|]. rewrite IH. reflexivity.
  Qed.
End Plain.

Lemma cstr_nodollar s : nodollar s -> nodollar (cstr s).
Proof.
  induction 1 as [|c s Hc _ IH]; simpl; [constructor|]. destruct (c =? 0); [constructor|]. constructor; assumption.
Qed.

(* once robsddir is defined with a value free of '$' the computation of ${builddir} asks for nothing else *)
Lemma build_dir_plain E T c n s :
  find_var (c_vars c) kw_robsddir = Some (VStr s) -> nodollar s ->
  c_abort (fst (build_dir E T c n)) = c_abort c.
Proof.
  intros Hf Hs. unfold build_dir, sinterp_str.
  assert (Hi : fst (sinterp (pred (t_depth_limit T)) false (lookup E T (bd_nested T) false) c (cstr running_tmpl)) = c).
  { destruct (pred (t_depth_limit T)) as [|d]; [reflexivity|]. cbn [sinterp].
    change (cstr running_tmpl) with (36 :: 123 :: kw_robsddir ++ 125 :: [47; 46; 114; 117; 110; 110; 105; 110; 103]).
    rewrite sinner_cons. cbn [N.eqb Pos.eqb DOLLAR]. cbn [LBRACE N.eqb Pos.eqb].
    unfold kw_robsddir. cbn [app]. repeat (rewrite sname_scan_cons; cbn [RBRACE N.eqb Pos.eqb app]).
    fold kw_robsddir. unfold lookup at 1. cbn [andb]. unfold config_find. rewrite Hf. cbn [render].
    assert (Hr : forall st, sinterp d false (lookup E T (bd_nested T) false) st (cstr s) = (st, IOk (cstr s)) \/
                            sinterp d false (lookup E T (bd_nested T) false) st (cstr s) = (st, IErr EDeep)).
    { intros st. destruct d as [|d']; [right; reflexivity|left]. cbn [sinterp]. apply sinner_nodollar, cstr_nodollar, Hs. }
    destruct (Hr c) as [-> | ->]; [|reflexivity].
    rewrite sinner_nodollar by (repeat constructor; discriminate). reflexivity. }
  destruct (sinterp _ _ _ c _) as [c1 r]. simpl in Hi. subst c1. destruct r as [p|e]; [|reflexivity].
  destruct (e_file E p); [reflexivity|]. destruct (first_line (cstr b)); reflexivity.
Qed.
