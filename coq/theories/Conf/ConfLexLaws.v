(* ConfLexLaws.v - laws of the configuration lexer stated without its loops, so that
   [text_conforms] (whose first conjunct is "the lexer yields these tokens") is not
   only "the lexer is the lexer":
     - an integer literal denotes its decimal value when that fits an int, and is an
       error ("integer too big") exactly otherwise - whatever the wrapped intermediate
       values of the overflow builtins are;
     - a comment runs to the end of its line (or to a NUL) and yields no token;
     - a string is the bytes up to the next double quote; a NUL or the end of the
       input before it leaves the string unterminated. *)
From Robsd Require Import Conf.ConfDefs.
Local Open Scope Z_scope.

(* decimal value of a digit string, continuing from [acc] *)
Fixpoint digits_val (ds : bytes) (acc : Z) : Z :=
  match ds with
  | [] => acc
  | d :: r => digits_val r (acc * 10 + (Z.of_N d - 48))
  end.

Definition all_digits (ds : bytes) : Prop := Forall (fun d => is_digit d = true) ds.

Lemma digit_range d : is_digit d = true -> 0 <= Z.of_N d - 48 <= 9.
Proof. unfold is_digit. intros H. apply andb_true_iff in H. destruct H as [H1 H2]. apply N.leb_le in H1. apply N.leb_le in H2. lia. Qed.

Lemma digits_val_mono ds : forall acc, all_digits ds -> 0 <= acc -> acc <= digits_val ds acc.
Proof.
  induction ds as [|d r IH]; intros acc Ha H0; simpl; [lia|].
  inversion Ha as [|d0 r0 Hd Hr]; subst. pose proof (digit_range d Hd).
  specialize (IH (acc * 10 + (Z.of_N d - 48)) Hr ltac:(lia)). lia.
Qed.

Lemma lex_int_sticky ds : forall v, snd (lex_int ds v true) = true.
Proof.
  induction ds as [|d r IH]; intros v; simpl; [reflexivity|].
  destruct (negb (in_i32 (v * 10))); apply IH.
Qed.

Lemma wrap32_id z : in_i32 z = true -> wrap32 z = z.
Proof.
  unfold in_i32, wrap32, i32_min, i32_max. intros H. apply andb_true_iff in H. destruct H as [H1 H2].
  apply Z.leb_le in H1. apply Z.leb_le in H2. rewrite Z.mod_small by lia. lia.
Qed.

Theorem lex_int_spec ds : forall v, all_digits ds -> 0 <= v <= i32_max ->
  (digits_val ds v <= i32_max -> lex_int ds v false = (digits_val ds v, false))
  /\ (i32_max < digits_val ds v -> snd (lex_int ds v false) = true).
Proof.
  induction ds as [|d r IH]; intros v Ha Hv; simpl.
  - split; [reflexivity|lia].
  - inversion Ha as [|d0 r0 Hd Hr]; subst. pose proof (digit_range d Hd) as Hx.
    set (x := Z.of_N d - 48) in *. set (n1 := v * 10 + x).
    pose proof (digits_val_mono r n1 Hr ltac:(unfold n1; lia)) as Hmono.
    unfold mul_ov, add_ov.
    destruct (in_i32 (v * 10)) eqn:H1; simpl.
    + rewrite (wrap32_id _ H1). destruct (in_i32 (v * 10 + x)) eqn:H2; simpl.
      * rewrite (wrap32_id _ H2). apply IH; [exact Hr|].
        unfold in_i32, i32_min in H2. apply andb_true_iff in H2. destruct H2 as [_ H2]. apply Z.leb_le in H2. fold n1. unfold n1. lia.
      * split; [|intros _; apply lex_int_sticky]. intros Hle. exfalso.
        unfold in_i32, i32_min in H2. apply andb_false_iff in H2. destruct H2 as [H2|H2]; [apply Z.leb_gt in H2|apply Z.leb_gt in H2]; unfold n1 in *; lia.
    + split; [|intros _; apply lex_int_sticky]. intros Hle. exfalso.
      unfold in_i32, i32_min in H1. apply andb_false_iff in H1. destruct H1 as [H1|H1]; [apply Z.leb_gt in H1|apply Z.leb_gt in H1]; unfold n1 in *; lia.
Qed.

Local Open Scope N_scope.

(* a comment yields no token and ends at the first newline or NUL, which it consumes *)
Theorem skip_comment_spec body rest lno :
  Forall (fun c => c <> 10 /\ c <> 0) body ->
  skip_comment lno (body ++ 10 :: rest) = ((lno + 1)%Z, rest)
  /\ skip_comment lno (body ++ 0 :: rest) = (lno, rest)
  /\ skip_comment lno body = (lno, []).
Proof.
  induction 1 as [|c body [H1 H2] _ IH]; simpl; [auto|].
  destruct (N.eqb_spec c 10); [contradiction|]. destruct (N.eqb_spec c 0); [contradiction|]. exact IH.
Qed.

(* a string literal: the bytes up to the next double quote (34); the line counter advances with the newlines inside *)
Theorem scan_string_spec body : forall rest lno acc,
  Forall (fun c => c <> 34 /\ c <> 0) body ->
  scan_string lno (body ++ 34 :: rest) acc
  = Some (rev acc ++ body, (lno + Z.of_nat (length (filter (N.eqb 10) body)))%Z, rest)
  /\ scan_string lno body acc = None
  /\ scan_string lno (body ++ 0 :: rest) acc = None.
Proof.
  induction body as [|c body IH]; intros rest lno acc H.
  - simpl. rewrite app_nil_r, Z.add_0_r. auto.
  - inversion H as [|c0 b0 [H1 H2] Hb]; subst. cbn [app scan_string filter].
    destruct (N.eqb_spec c 0); [contradiction|]. destruct (N.eqb_spec c 34); [contradiction|].
    destruct (IH rest (if c =? 10 then (lno + 1)%Z else lno) (c :: acc) Hb) as [I1 [I2 I3]].
    rewrite I1, I2, I3. split; [|auto].
    assert (A : rev (c :: acc) ++ body = rev acc ++ c :: body) by (simpl; rewrite <- app_assoc; reflexivity).
    assert (B : ((if (c =? 10)%N then lno + 1 else lno) + Z.of_nat (length (filter (N.eqb 10) body))
                 = lno + Z.of_nat (length (if (10 =? c)%N then c :: filter (N.eqb 10) body else filter (N.eqb 10) body)))%Z).
    { rewrite (N.eqb_sym 10 c). destruct (c =? 10); cbn [length]; lia. }
    rewrite A, B. reflexivity.
Qed.

(* from the start of a literal *)
Corollary lex_int_literal ds : all_digits ds ->
  ((digits_val ds 0 <= i32_max)%Z -> lex_int ds 0 false = (digits_val ds 0, false))
  /\ ((i32_max < digits_val ds 0)%Z -> snd (lex_int ds 0 false) = true).
Proof. intros H. apply lex_int_spec; [exact H|]. unfold i32_max. lia. Qed.
