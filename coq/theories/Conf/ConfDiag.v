(* ConfDiag.v - rejection and diagnostics.
   * every routine returns a suffix of the tokens it was given (so the fuel of
     the loops is never exhausted),
   * a property of the diagnostics that survives adding any diagnostic survives
     the whole parser ("sticky"): once a lexer-class diagnostic is there the
     configuration is rejected,
   * every failing routine leaves a diagnostic: lexer-class (these are printed
     with the path of the configuration file by construction, lexer_error), or
     an "invalid substitution" one printed by interpolate.c, which carries only
     a line number (defect found here, see Properties_C08). *)
From Robsd Require Import Conf.ConfSpec Conf.ConfSound Conf.ConfInv Conf.ConfComplete.
Local Open Scope N_scope.

(* ---------------------------------------------------------------- suffixes *)
Definition suffix_of (r ts : list token) : Prop := exists pre, ts = pre ++ r.

Lemma suffix_refl ts : suffix_of ts ts.
Proof. exists []. reflexivity. Qed.
Lemma suffix_cons t r ts : suffix_of r ts -> suffix_of r (t :: ts).
Proof. intros [pre ->]. exists (t :: pre). reflexivity. Qed.
Lemma suffix_trans a b c : suffix_of a b -> suffix_of b c -> suffix_of a c.
Proof. intros [p ->] [q ->]. exists (q ++ p). now rewrite app_assoc. Qed.
Lemma suffix_nil ts : suffix_of [] ts.
Proof. exists ts. now rewrite app_nil_r. Qed.
Lemma suffix_length r ts : suffix_of r ts -> (length r <= length ts)%nat.
Proof. intros [pre ->]. rewrite app_length. lia. Qed.

Section Suffix.
  Variable E : env.
  Variable T : tables.
  Variable eof : Z.

  Lemma next_suffix ts : suffix_of (snd (next eof ts)) ts.
  Proof. destruct ts; simpl; [apply suffix_refl|apply suffix_cons, suffix_refl]. Qed.

  Lemma expect_suffix c ts ty : suffix_of (snd (fst (expect eof c ts ty))) ts.
  Proof.
    unfold expect. pose proof (next_suffix ts) as H. destruct (next eof ts) as [t r].
    destruct (ttype_eqb (tk_type t) ty); exact H.
  Qed.

  Lemma list_items_suffix ts : forall c acc, suffix_of (snd (fst (list_items eof c ts acc))) ts.
  Proof.
    induction ts as [|t ts IH]; intros c acc; simpl; [apply suffix_refl|].
    destruct (ttype_eqb (tk_type t) T_RBRACE); [apply suffix_cons, suffix_refl|].
    destruct (ttype_eqb (tk_type t) T_STRING); [apply suffix_cons, IH|apply suffix_cons, suffix_refl].
  Qed.

  Lemma parse_list_l_suffix c ts : suffix_of (snd (fst (parse_list_l eof c ts))) ts.
  Proof.
    unfold parse_list_l. pose proof (expect_suffix c ts T_LBRACE) as H.
    destruct (expect eof c ts T_LBRACE) as [[c1 r] [tk|]]; simpl in *; [|exact H].
    eapply suffix_trans; [apply list_items_suffix|exact H].
  Qed.

  Lemma parse_list_suffix c ts : suffix_of (snd (parse_list eof c ts)) ts.
  Proof.
    unfold parse_list. pose proof (parse_list_l_suffix c ts) as H.
    destruct (parse_list_l eof c ts) as [[[rv c1] r] l]. exact H.
  Qed.

  Ltac expect_suffix_tac c ts ty :=
    let H := fresh "Hsuf" in
    pose proof (expect_suffix c ts ty) as H;
    destruct (expect eof c ts ty) as [[?c ?r] [?tk|]]; simpl in H.

  Lemma simple_suffix (f : cfg -> list token -> prv * cfg * list token) :
    (f = parse_boolean eof \/ f = parse_integer eof \/ f = parse_string eof \/ f = parse_glob E eof
     \/ f = parse_user E eof \/ f = parse_directory E T eof) ->
    forall c ts, suffix_of (snd (f c ts)) ts.
  Proof.
    intros Hf c ts.
    destruct Hf as [->|[->|[->|[->|[->| ->]]]]];
      [unfold parse_boolean; expect_suffix_tac c ts T_BOOLEAN
      |unfold parse_integer; expect_suffix_tac c ts T_INTEGER
      |unfold parse_string; expect_suffix_tac c ts T_STRING
      |unfold parse_glob; expect_suffix_tac c ts T_STRING
      |unfold parse_user; expect_suffix_tac c ts T_STRING
      |unfold parse_directory; expect_suffix_tac c ts T_STRING]; try exact Hsuf.
    - destruct (e_glob E (tk_str tk)); exact Hsuf.
    - destruct (e_user E (tk_str tk)); exact Hsuf.
    - destruct (tk_str tk); [exact Hsuf|]. destruct (cfg_interp E T c0 (n :: l)) as [c2 [p|e]]; [|exact Hsuf].
      destruct (e_dir E p); exact Hsuf.
  Qed.

  Lemma parse_directory_suffix c ts : suffix_of (snd (parse_directory E T eof c ts)) ts.
  Proof. apply simple_suffix. tauto. Qed.
  Lemma parse_integer_suffix c ts : suffix_of (snd (parse_integer eof c ts)) ts.
  Proof. apply simple_suffix. tauto. Qed.

  Lemma parse_canvas_directory_suffix c ts : suffix_of (snd (parse_canvas_directory E T eof c ts)) ts.
  Proof.
    unfold parse_canvas_directory. pose proof (parse_directory_suffix c ts) as H.
    destruct (parse_directory E T eof c ts) as [[rv c1] r]. destruct rv; exact H.
  Qed.

  Lemma step_opts_suffix fuel : forall c ts cmd par last,
    suffix_of (snd (step_opts eof fuel c ts cmd par last)) ts.
  Proof.
    induction fuel as [|fuel IH]; intros c ts cmd par last; simpl; [apply suffix_refl|].
    unfold lexer_if. destruct ts as [|t ts'].
    - simpl. apply suffix_refl.
    - simpl. destruct (ttype_eqb (tk_type t) T_COMMAND).
      + pose proof (parse_list_l_suffix c ts') as H. destruct (parse_list_l eof c ts') as [[[rv c1] r1] l1]. simpl in H.
        destruct rv as [[| | |l]| | |]; try (apply suffix_cons; exact H).
        apply suffix_cons. eapply suffix_trans; [apply IH|exact H].
      + destruct (ttype_eqb (tk_type t) T_PARALLEL); [apply suffix_cons, IH|apply suffix_refl].
  Qed.

  Lemma parse_canvas_step_suffix c ts : suffix_of (snd (parse_canvas_step eof c ts)) ts.
  Proof.
    unfold parse_canvas_step. expect_suffix_tac c ts T_STRING; [|exact Hsuf].
    pose proof (step_opts_suffix (S (length r)) c0 r None false (tk_lno tk)) as H.
    destruct (step_opts eof (S (length r)) c0 r None false (tk_lno tk)) as [[res c2] r2]. simpl in H.
    assert (H2 : suffix_of r2 ts) by (eapply suffix_trans; eauto).
    destruct res as [[[[[|a l]|] par] last]|]; exact H2.
  Qed.

  Lemma regress_option_env_suffix c ts path : suffix_of (snd (regress_option_env E T eof c ts path)) ts.
  Proof.
    unfold regress_option_env. pose proof (parse_list_suffix c ts) as H.
    destruct (parse_list eof c ts) as [[rv c1] r]. simpl in H. destruct rv as [[| | |l]| | |]; try exact H.
    destruct (cfg_interp_early E T _ _) as [c3 [s|e]]; exact H.
  Qed.

  Lemma regress_opts_suffix fuel : forall c ts path, suffix_of (snd (regress_opts E T eof fuel c ts path)) ts.
  Proof.
    induction fuel as [|fuel IH]; intros c ts path; simpl; [apply suffix_refl|].
    destruct ts as [|t ts']; [simpl; apply suffix_refl|]. simpl.
    assert (Hl : forall k, suffix_of (snd (let '(rv, c1, r1) := parse_list eof c ts' in
                                            match rv with
                                            | R_append (VList l) => regress_opts E T eof fuel (k c1 l) r1 path
                                            | _ => (false, c1, r1)
                                            end)) (t :: ts')).
    { intros k. pose proof (parse_list_suffix c ts') as H. destruct (parse_list eof c ts') as [[rv c1] r1]. simpl in H.
      destruct rv as [[| | |l]| | |]; try (apply suffix_cons; exact H).
      apply suffix_cons. eapply suffix_trans; [apply IH|exact H]. }
    destruct (tk_type t); try apply suffix_refl; try (apply suffix_cons, IH).
    - pose proof (regress_option_env_suffix c ts' path) as H.
      destruct (regress_option_env E T eof c ts' path) as [[ok c1] r1]. simpl in H.
      destruct ok; [apply suffix_cons; eapply suffix_trans; [apply IH|exact H]|apply suffix_cons; exact H].
    - exact (Hl (fun c1 l => concat_list c1 kw_regress_obj l)).
    - exact (Hl (fun c1 l => concat_list c1 kw_regress_packages l)).
    - exact (Hl (fun c1 l => concat_list c1 (regress_name path sfx_targets) l)).
  Qed.

  Lemma parse_regress_suffix c ts : suffix_of (snd (parse_regress E T eof c ts)) ts.
  Proof.
    unfold parse_regress. expect_suffix_tac c ts T_STRING; [|exact Hsuf].
    pose proof (regress_opts_suffix (S (length r)) c0 r (tk_str tk)) as H.
    destruct (regress_opts E T eof (S (length r)) c0 r (tk_str tk)) as [[ok c2] r2]. simpl in H.
    destruct ok; simpl; eapply suffix_trans; eauto.
  Qed.

  Lemma parse_regress_env_suffix c ts : suffix_of (snd (parse_regress_env eof c ts)) ts.
  Proof.
    unfold parse_regress_env. pose proof (parse_list_suffix c ts) as H.
    destruct (parse_list eof c ts) as [[rv c1] r]. destruct rv as [[| | |l]| | |]; exact H.
  Qed.

  Lemma parse_regress_timeout_suffix c ts : suffix_of (snd (parse_regress_timeout eof c ts)) ts.
  Proof.
    unfold parse_regress_timeout. pose proof (parse_integer_suffix c ts) as H.
    destruct (parse_integer eof c ts) as [[rv c1] r]. simpl in H.
    destruct rv as [[|n| |]| | |]; try exact H.
    pose proof (next_suffix r) as Hn. destruct (next eof r) as [u r1]. simpl in Hn.
    assert (H2 : suffix_of r1 ts) by (eapply suffix_trans; eauto).
    destruct (tk_type u); try exact H2; destruct (mul_ov _ n) as [v [|]]; exact H2.
  Qed.

  Lemma run_pfun_suffix f c ts : suffix_of (snd (run_pfun E T eof f c ts)) ts.
  Proof.
    destruct f; simpl.
    - apply suffix_refl.
    - apply simple_suffix; tauto.
    - apply simple_suffix; tauto.
    - apply simple_suffix; tauto.
    - apply parse_list_suffix.
    - apply simple_suffix; tauto.
    - apply simple_suffix; tauto.
    - apply simple_suffix; tauto.
    - apply parse_canvas_directory_suffix.
    - apply parse_canvas_step_suffix.
    - apply parse_regress_suffix.
    - apply parse_regress_env_suffix.
    - apply parse_regress_timeout_suffix.
  Qed.

  Lemma parse_keyword_suffix c tk ts : suffix_of (snd (parse_keyword E T eof c tk ts)) ts.
  Proof.
    unfold parse_keyword. destruct (grammar_for_keyword (t_grammar T) (tk_str tk)) as [g|]; [|apply suffix_refl].
    pose proof (run_pfun_suffix (gr_fn g) c ts) as H. destruct (run_pfun E T eof (gr_fn g) c ts) as [[rv c1] r].
    destruct (negb (gr_rep g) && present c (tk_str tk)); exact H.
  Qed.
End Suffix.

(* ---------------------------------------------------------------- sticky properties *)
Section Sticky.
  Variable P : cfg -> Prop.
  Variable Q : diag -> Prop.          (* the diagnostics whose addition P survives *)
  Hypothesis Q_lexerr : forall l m, Q (lexerr l m).
  Hypothesis Q_nonlexer : forall d, is_lexer_msg (d_msg d) = false -> Q d.
  Hypothesis P_same : forall c c', c_diags c' = c_diags c -> P c -> P c'.
  Hypothesis P_add : forall c d, Q d -> P c -> P (add_diag c d).
  Variable E : env.
  Variable T : tables.
  Variable eof : Z.

  Let P_addl c d : is_lexer_msg (d_msg d) = false -> P c -> P (add_diag c d) := fun H => P_add c d (Q_nonlexer d H).

  Lemma st_append c n v : P c -> P (cfg_append c n v).
  Proof. apply P_same. reflexivity. Qed.
  Lemma st_set_steps c v : P c -> P (set_steps c v).
  Proof. apply P_same. reflexivity. Qed.
  Lemma st_set_vars c v : P c -> P (set_vars c v).
  Proof. apply P_same. reflexivity. Qed.
  Lemma st_set_abort c : P c -> P (set_abort c).
  Proof. apply P_same. reflexivity. Qed.

  Lemma st_expect c ts ty : P c -> P (fst (fst (expect eof c ts ty))).
  Proof. intros H. unfold expect. destruct (next eof ts) as [t r]. destruct (ttype_eqb (tk_type t) ty); simpl; auto. Qed.

  Lemma st_list_items ts : forall c acc, P c -> P (snd (fst (fst (list_items eof c ts acc)))).
  Proof.
    induction ts as [|t ts IH]; intros c acc H; simpl; [auto|].
    destruct (ttype_eqb (tk_type t) T_RBRACE); [exact H|].
    destruct (ttype_eqb (tk_type t) T_STRING); [apply IH, H|simpl; auto].
  Qed.

  Lemma st_parse_list_l c ts : P c -> P (snd (fst (fst (parse_list_l eof c ts)))).
  Proof.
    intros H. unfold parse_list_l. pose proof (st_expect c ts T_LBRACE H) as He.
    destruct (expect eof c ts T_LBRACE) as [[c1 r] [tk|]]; simpl in *; [|exact He]. apply st_list_items, He.
  Qed.

  Lemma st_parse_list c ts : P c -> P (snd (fst (parse_list eof c ts))).
  Proof.
    intros H. unfold parse_list. pose proof (st_parse_list_l c ts H) as Hl.
    destruct (parse_list_l eof c ts) as [[[rv c1] r] l]. exact Hl.
  Qed.

  Ltac st_expect_tac c ts ty H :=
    let He := fresh "He" in
    pose proof (st_expect c ts ty H) as He;
    destruct (expect eof c ts ty) as [[?c ?r] [?tk|]]; simpl in He.

  Lemma st_parse_directory c ts : P c -> P (snd (fst (parse_directory E T eof c ts))).
  Proof.
    intros H. unfold parse_directory. st_expect_tac c ts T_STRING H; [|exact He].
    destruct (tk_str tk) as [|b s]; [exact He|].
    pose proof (clean_cfg_interp P P_same P_addl E T c0 (b :: s) He) as Hi.
    destruct (cfg_interp E T c0 (b :: s)) as [c2 [p|e]]; simpl in Hi; [|simpl; auto].
    destruct (e_dir E p); simpl; auto.
  Qed.

  Lemma st_concat_list c n l : P c -> P (concat_list c n l).
  Proof. apply (clean_concat_list P P_same). Qed.

  Lemma st_step_opts fuel : forall c ts cmd par last, P c -> P (snd (fst (step_opts eof fuel c ts cmd par last))).
  Proof.
    induction fuel as [|fuel IH]; intros c ts cmd par last H; simpl; [apply st_set_abort, H|].
    destruct (lexer_if eof ts T_COMMAND) as [[tk r]|].
    - pose proof (st_parse_list_l c r H) as Hl. destruct (parse_list_l eof c r) as [[[rv c1] r1] l1]. simpl in Hl.
      destruct rv as [[| | |l]| | |]; try exact Hl. apply IH, Hl.
    - destruct (lexer_if eof ts T_PARALLEL) as [[tk r]|]; [apply IH, H|exact H].
  Qed.

  Lemma st_regress_option_env c ts path : P c -> P (snd (fst (regress_option_env E T eof c ts path))).
  Proof.
    intros H. unfold regress_option_env. pose proof (st_parse_list c ts H) as Hl.
    destruct (parse_list eof c ts) as [[rv c1] r]. simpl in Hl. destruct rv as [[| | |l]| | |]; try exact Hl.
    match goal with |- context [cfg_interp_early E T ?c2 ?s] =>
      pose proof (clean_cfg_interp_early P P_same P_addl E T c2 s (st_append _ _ _ Hl)) as Hi;
      destruct (cfg_interp_early E T c2 s) as [c3 [str|e]] end; simpl in *; auto using st_set_vars.
  Qed.

  Lemma st_regress_opts fuel : forall c ts path, P c -> P (snd (fst (regress_opts E T eof fuel c ts path))).
  Proof.
    induction fuel as [|fuel IH]; intros c ts path H; simpl; [apply st_set_abort, H|].
    destruct (next eof ts) as [t r].
    assert (Hl : forall k, (forall c1 l, P c1 -> P (k c1 l)) ->
                 P (snd (fst (let '(rv, c1, r1) := parse_list eof c r in
                              match rv with
                              | R_append (VList l) => regress_opts E T eof fuel (k c1 l) r1 path
                              | _ => (false, c1, r1)
                              end)))).
    { intros k Hk. pose proof (st_parse_list c r H) as Hp. destruct (parse_list eof c r) as [[rv c1] r1]. simpl in Hp.
      destruct rv as [[| | |l]| | |]; try exact Hp. apply IH, Hk, Hp. }
    destruct (tk_type t); try exact H; try (apply IH, st_append, H).
    - pose proof (st_regress_option_env c r path H) as Ho.
      destruct (regress_option_env E T eof c r path) as [[ok c1] r1]. simpl in Ho. destruct ok; [apply IH, Ho|exact Ho].
    - apply (Hl (fun c1 l => concat_list c1 kw_regress_obj l)). intros; now apply st_concat_list.
    - apply (Hl (fun c1 l => concat_list c1 kw_regress_packages l)). intros; now apply st_concat_list.
    - apply (Hl (fun c1 l => concat_list c1 (regress_name path sfx_targets) l)). intros; now apply st_concat_list.
  Qed.

  Lemma st_run_pfun f c ts : P c -> P (snd (fst (run_pfun E T eof f c ts))).
  Proof.
    intros H. destruct f; simpl.
    - apply st_set_abort, H.
    - unfold parse_boolean. st_expect_tac c ts T_BOOLEAN H; exact He.
    - unfold parse_integer. st_expect_tac c ts T_INTEGER H; exact He.
    - unfold parse_string. st_expect_tac c ts T_STRING H; exact He.
    - apply st_parse_list, H.
    - unfold parse_glob. st_expect_tac c ts T_STRING H; [|exact He]. destruct (e_glob E (tk_str tk)); simpl; auto.
    - unfold parse_user. st_expect_tac c ts T_STRING H; [|exact He]. destruct (e_user E (tk_str tk)); simpl; auto.
    - apply st_parse_directory, H.
    - unfold parse_canvas_directory. pose proof (st_parse_directory c ts H) as Hd.
      destruct (parse_directory E T eof c ts) as [[rv c1] r]. simpl in Hd. destruct rv; simpl; auto using st_append.
    - unfold parse_canvas_step. st_expect_tac c ts T_STRING H; [|exact He].
      pose proof (st_step_opts (S (length r)) c0 r None false (tk_lno tk) He) as Ho.
      destruct (step_opts eof (S (length r)) c0 r None false (tk_lno tk)) as [[res c2] r2]. simpl in Ho.
      destruct res as [[[[[|a l]|] par] last]|]; simpl; auto.
      apply st_set_steps. destruct (c_steps c2); auto using st_append.
    - unfold parse_regress. st_expect_tac c ts T_STRING H; [|exact He].
      pose proof (st_regress_opts (S (length r)) c0 r (tk_str tk) He) as Ho.
      destruct (regress_opts E T eof (S (length r)) c0 r (tk_str tk)) as [[ok c2] r2]. simpl in Ho.
      destruct ok; simpl; auto using st_concat_list.
    - unfold parse_regress_env. pose proof (st_parse_list c ts H) as Hl.
      destruct (parse_list eof c ts) as [[rv c1] r]. simpl in Hl. destruct rv as [[| | |l]| | |]; simpl; auto using st_concat_list.
    - unfold parse_regress_timeout, parse_integer. st_expect_tac c ts T_INTEGER H; [|exact He].
      destruct (next eof r) as [u r1]. destruct (tk_type u); try (simpl; auto; fail); destruct (mul_ov _ (tk_int tk)) as [v [|]]; simpl; auto.
  Qed.

  Lemma st_parse_keyword c tk ts : P c -> P (snd (fst (parse_keyword E T eof c tk ts))).
  Proof.
    intros H. unfold parse_keyword. destruct (grammar_for_keyword (t_grammar T) (tk_str tk)) as [g|]; [|simpl; auto].
    pose proof (st_run_pfun (gr_fn g) c ts H) as Hr. destruct (run_pfun E T eof (gr_fn g) c ts) as [[rv c1] r]. simpl in Hr.
    assert (H2 : P (match rv with R_append v => cfg_append c1 (tk_str tk) v | _ => c1 end)) by (destruct rv; auto using st_append).
    destruct (negb (gr_rep g) && present c (tk_str tk)); simpl; auto.
  Qed.

  Lemma st_parse_loop fuel : forall c ts e, P c -> P (fst (parse_loop E T eof fuel c ts e)).
  Proof.
    induction fuel as [|fuel IH]; intros c ts e H; simpl; [apply st_set_abort, H|].
    destruct ts as [|t r]; [exact H|]. destruct (ttype_eqb (tk_type t) T_KEYWORD); [|simpl; auto].
    pose proof (st_parse_keyword c t r H) as Hk. destruct (parse_keyword E T eof c t r) as [[rv c1] r1]. simpl in Hk.
    destruct rv; try (apply IH, Hk). exact Hk.
  Qed.

  Lemma st_validate G : forall c, P c -> P (fst (validate G c)).
  Proof.
    induction G as [|g G IH]; intros c H; simpl; [exact H|].
    destruct (gr_req g && negb (present c (gr_kw g))); [|apply IH, H].
    pose proof (IH _ (P_add c (lexerr 0 (M_mandatory_missing (gr_kw g))) (Q_lexerr _ _) H)) as H2.
    destruct (validate G _) as [c1 b]. exact H2.
  Qed.
End Sticky.

(* a lexer-class diagnostic among the initial ones rejects the configuration *)
Lemma dirty_rejected E T toks eof dg :
  existsb (fun d => is_lexer_msg (d_msg d)) dg = true -> exists c, parse_tokens E T toks eof dg = Rejected c.
Proof.
  intros Hd. unfold parse_tokens.
  pose proof (st_parse_loop dirty (fun _ => True) (fun _ _ => I) (fun _ _ => I) dirty_same (fun c d _ => dirty_add_any c d) E T eof (S (length toks)) (with_diags (cfg_init T) dg) toks false Hd) as H.
  destruct (parse_loop E T eof (S (length toks)) (with_diags (cfg_init T) dg) toks false) as [c1 e]. simpl in H.
  unfold dirty in H. rewrite H. eauto.
Qed.

(* ---------------------------------------------------------------- the lexer's diagnostics *)
Definition all_lexer (dg : list diag) : Prop := Forall (fun d => is_lexer_msg (d_msg d) = true /\ d_path d = P_conf) dg.

Lemma lex_go_diags fuel T : forall lno s acc dg,
  all_lexer dg ->
  match lex_go fuel T lno s acc dg with
  | LexOk _ _ dg' => all_lexer dg'
  | LexFail dg' => all_lexer dg' /\ dg' <> []
  | LexFuel => True
  end.
Proof.
  induction fuel as [|fuel IH]; intros lno s acc dg H; simpl; [exact I|].
  destruct (skip_ws lno s) as [lno1 s1]. destruct s1 as [|c r]; [exact H|].
  destruct (c =? 0); [exact H|]. destruct (c =? 35).
  { destruct (skip_comment lno1 r) as [lno2 r2]. apply IH, H. }
  destruct (is_lower c).
  { destruct (span is_wordch (c :: r)) as [w r2]. apply IH, H. }
  destruct (is_digit c).
  { destruct (span is_digit (c :: r)) as [ds r2]. destruct (lex_int ds 0 false) as [v err]. apply IH.
    destruct err; [constructor; [split; reflexivity|exact H]|exact H]. }
  destruct (c =? 34).
  { destruct (scan_string lno1 r []) as [[[str lno2] r2]|].
    - apply IH. destruct str; [constructor; [split; reflexivity|exact H]|exact H].
    - split; [constructor; [split; reflexivity|exact H]|discriminate]. }
  apply IH, H.
Qed.

Lemma all_lexer_dirty dg : all_lexer dg -> dg <> [] -> existsb (fun d => is_lexer_msg (d_msg d)) dg = true.
Proof. intros H Hn. destruct dg as [|d dg]; [congruence|]. inversion H as [|? ? [Hd _] _]; subst. simpl. now rewrite Hd. Qed.

(* the text-level equivalence *)
Theorem config_parse_iff E T text c :
  config_parse E T text = Accepted c <-> text_conforms E T text c.
Proof.
  unfold config_parse, text_conforms, lex. split.
  - pose proof (lex_go_diags (S (length text)) T 1%Z text [] [] (Forall_nil _)) as Hd.
    destruct (lex_go (S (length text)) T 1 text [] []) as [toks eof dg| |]; try discriminate.
    destruct dg as [|d dg].
    + intros H. exists toks, eof. split; [reflexivity|]. now apply parse_tokens_sound in H.
    + destruct (dirty_rejected E T toks eof (d :: dg) (all_lexer_dirty _ Hd ltac:(discriminate))) as [c' ->]. discriminate.
  - intros [toks [eof [-> Hc]]]. now apply parse_tokens_complete.
Qed.
