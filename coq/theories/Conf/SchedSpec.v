(* SchedSpec.v - what the property demands of a listing, written over the
   parsed output of `robsd-step -L` (number, name, parallel flag per line) and
   over what was configured, independently of the schedule model:
     - numbers are consecutive from the offset,
     - listing from offset k is the suffix of the full listing starting at step k,
     - the documented fixed steps occur in documented order, nothing else occurs
       besides the configured entries, the last step is end,
     - regress mode: after mount come the configured tests that run in parallel,
       in configuration order and flagged parallel, then the others in
       configuration order, then the documented rest; with the global switch off
       none is parallel,
     - canvas: the configured steps in configuration order with their flags, then end. *)
From Robsd Require Export Conf.ConfDefs Conf.DocSpec.
Local Open Scope N_scope.

Definition line := (Z * bytes * bool)%type.
Definition l_num (l : line) : Z := fst (fst l).
Definition l_name (l : line) : bytes := snd (fst l).
Definition l_par (l : line) : bool := snd l.

Fixpoint numbered_from (k : Z) (ls : list line) : bool :=
  match ls with
  | [] => true
  | l :: r => (l_num l =? k)%Z && numbered_from (k + 1) r
  end.

Fixpoint subseqb (a b : list bytes) : bool :=
  match a, b with
  | [], _ => true
  | _ :: _, [] => false
  | x :: a', y :: b' => if beq x y then subseqb a' b' else subseqb a b'
  end.

Definition name_flag_eqb (x y : bytes * bool) : bool := beq (fst x) (fst y) && Bool.eqb (snd x) (snd y).

Fixpoint list_eqb {A} (eq : A -> A -> bool) (a b : list A) : bool :=
  match a, b with
  | [], [] => true
  | x :: a', y :: b' => eq x y && list_eqb eq a' b'
  | _, _ => false
  end.

(* what the configuration says: (name, runs-in-parallel) in configuration order;
   for regress the flag is "no no-parallel option", subject to the global switch *)
Definition expected_regress (global_parallel : bool) (cfgd : list (bytes * bool)) : list (bytes * bool) :=
  if global_parallel then
    filter (fun e => snd e) cfgd ++ filter (fun e => negb (snd e)) cfgd
  else map (fun e => (fst e, false)) cfgd.

Fixpoint split_at_name (n : bytes) (l : list (bytes * bool)) : option (list (bytes * bool) * list (bytes * bool)) :=
  match l with
  | [] => None
  | x :: r => if beq (fst x) n then Some ([x], r)
              else match split_at_name n r with Some (a, b) => Some (x :: a, b) | None => None end
  end.

Definition plainflag (names : list bytes) : list (bytes * bool) := map (fun n => (n, false)) names.

(* the full listing (offset 1) *)
Definition spec_full_ok (m : mode) (global_parallel : bool) (cfgd : list (bytes * bool)) (ls : list line) : bool :=
  let nf := map (fun l => (l_name l, l_par l)) ls in
  numbered_from 1 ls &&
  match m with
  | CANVAS => list_eqb name_flag_eqb nf (cfgd ++ plainflag (doc_steps CANVAS))
  | ROBSD_REGRESS =>
      match split_at_name doc_regress_after (plainflag (doc_steps ROBSD_REGRESS)) with
      | Some (pre, post) => list_eqb name_flag_eqb nf (pre ++ expected_regress global_parallel cfgd ++ post)
      | None => false
      end
  | _ =>
      subseqb (doc_steps m) (map fst nf)
      && forallb (fun e => existsb (beq (fst e)) (doc_steps m) && negb (snd e)) nf
      && match rev nf with e :: _ => beq (fst e) [101; 110; 100] | [] => false end
  end.

(* listing from offset k, given the full listing *)
Definition spec_offset_ok (k : nat) (full ls : list line) : bool :=
  list_eqb (fun a b => (l_num a =? l_num b)%Z && beq (l_name a) (l_name b) && Bool.eqb (l_par a) (l_par b))
           ls (skipn (pred k) full).
