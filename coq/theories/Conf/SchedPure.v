(* SchedPure.v - looking a variable up while the schedule is computed is a PURE
   function of the configuration the computation starts from.

   config_interpolate_lookup changes the configuration (ConfPrim.v): a computed
   default (FUN) appends the variable it computed, config_default_rdomain moves
   a counter, diagnostics are added.  This file proves that - apart from the
   rdomain counter - none of this can be observed by a later lookup: in every
   state [c'] reached from [c] by lookups ([ext c c']), every name resolves to
   the value it resolves to in [c] itself.  Hence the state-passing
   interpolation of the configuration model (ConfDefs.sinterp over [lookup1])
   computes exactly C09's state-free [interp] over the environment
       penv c := fun n => snd (lookup1 E T false c n),
   which is what bridges the schedule model of C10 (SchedDefs.get_steps /
   resolve) to the argument-vector model of C06 (Exec/ArgvDefs.v), see
   Exec/SchedBridge.v.

   Hypotheses on the tables (booleans, checked by computation for the five
   generated tables in Exec/SchedBridge.v):
     no_rd      no row with the rdomain default (true for robsd, robsd-cross,
                robsd-ports, canvas; robsd-regress has one - treated there by
                hiding it, see [hide_rd]),
     par_plain  the global switch "parallel" has no computed default,
     bd_unique  one name only is answered by config_default_build_dir. *)
From Robsd Require Import Conf.ConfSpec Conf.ConfInv Conf.SchedDefs.
Local Open Scope N_scope.

(* ---------------------------------------------------------------- the generic simulation *)
Section PureSim.
  Context {St : Type}.
  Variable Inv : St -> Prop.
  Variable ignore : bool.
  Variable lk : St -> bytes -> St * option bytes.
  Variable pe : bytes -> option bytes.
  Hypothesis lk_pure : forall st n, Inv st -> Inv (fst (lk st n)) /\ snd (lk st n) = pe n.

  Lemma inner_cons prec c s' :
    inner ignore pe prec (c :: s') =
    if c =? DOLLAR then
      match s' with
      | c2 :: s'' => if c2 =? LBRACE then name_scan ignore pe prec [] s'' else IErr EBrace
      | [] => IErr EBrace
      end
    else ibind [c] (inner ignore pe prec s').
  Proof. reflexivity. Qed.

  Lemma name_scan_cons prec acc c s' :
    name_scan ignore pe prec acc (c :: s') =
    if c =? RBRACE then
      match acc with
      | [] => IErr EEmpty
      | _ =>
          match pe acc with
          | None => if ignore then ibind (DOLLAR :: LBRACE :: acc ++ [RBRACE]) (inner ignore pe prec s')
                    else IErr (EUnknown acc)
          | Some v => match prec (cstr v) with
                      | IErr e => IErr e
                      | IOk o => ibind o (inner ignore pe prec s')
                      end
          end
      end
    else name_scan ignore pe prec (acc ++ [c]) s'.
  Proof. reflexivity. Qed.

  Definition simulates (f : St -> St * ires) (r : ires) : Prop :=
    forall st, Inv st -> Inv (fst (f st)) /\ snd (f st) = r.

  Lemma sinner_sim (rec : St -> bytes -> St * ires) (prec : bytes -> ires) :
    (forall s, simulates (fun st => rec st s) (prec s)) ->
    forall n s, (length s <= n)%nat ->
      simulates (fun st => sinner ignore lk rec st s) (inner ignore pe prec s)
      /\ (forall acc, simulates (fun st => sname_scan ignore lk rec st acc s) (name_scan ignore pe prec acc s)).
  Proof.
    intros Hrec. induction n as [|n IH]; intros s Hlen.
    - destruct s; [|simpl in Hlen; lia]. split; [|intros acc]; intros st Hst; simpl; auto.
    - destruct s as [|ch s']; [split; [|intros acc]; intros st Hst; simpl; auto|].
      simpl in Hlen. assert (Hs' : (length s' <= n)%nat) by lia.
      destruct (IH s' Hs') as [I1 I2]. split.
      + intros st Hst. rewrite sinner_cons, inner_cons. destruct (ch =? DOLLAR).
        * destruct s' as [|c2 s'']; [simpl; auto|]. destruct (c2 =? LBRACE); [|simpl; auto].
          simpl in Hs'. apply (proj2 (IH s'' ltac:(lia))). exact Hst.
        * destruct (I1 st Hst) as [Hi Hr]. destruct (sinner ignore lk rec st s') as [st' r]. simpl in *.
          now rewrite Hr.
      + intros acc st Hst. rewrite sname_scan_cons, name_scan_cons. destruct (ch =? RBRACE).
        * destruct acc as [|a acc']; [simpl; auto|].
          destruct (lk_pure st (a :: acc') Hst) as [H1 Hv].
          destruct (lk st (a :: acc')) as [st1 ov]. simpl in H1, Hv. rewrite <- Hv. destruct ov as [v|].
          -- destruct (Hrec (cstr v) st1 H1) as [H2 Hr2]. destruct (rec st1 (cstr v)) as [st2 r]. simpl in H2, Hr2.
             rewrite <- Hr2. destruct r as [o|e]; [|simpl; auto].
             destruct (I1 st2 H2) as [H3 Hr3]. destruct (sinner ignore lk rec st2 s') as [st3 r3]. simpl in *.
             now rewrite Hr3.
          -- destruct ignore; [|simpl; auto].
             destruct (I1 st1 H1) as [H3 Hr3]. destruct (sinner true lk rec st1 s') as [st3 r3]. simpl in *.
             now rewrite Hr3.
        * apply I2. exact Hst.
  Qed.

  Lemma sinterp_sim d : forall s, simulates (fun st => sinterp d ignore lk st s) (interp d ignore pe s).
  Proof.
    induction d as [|d IH]; intros s st Hst; simpl; [auto|].
    apply (proj1 (sinner_sim (sinterp d ignore lk) (interp d ignore pe) IH (length s) s (le_n _))). exact Hst.
  Qed.
End PureSim.

(* ---------------------------------------------------------------- variable lists *)
Lemma find_var_app vars added n :
  find_var (vars ++ added) n = match find_var vars n with Some v => Some v | None => find_var added n end.
Proof.
  induction vars as [|[k w] vars IH]; simpl; [reflexivity|]. destruct (beq k n); [reflexivity|exact IH].
Qed.

Lemma find_var_in added n v : find_var added n = Some v -> In (n, v) added.
Proof.
  induction added as [|[k w] added IH]; simpl; [discriminate|].
  destruct (beq_spec k n) as [->|Hk]; [intros H; inversion H; now left|intros H; right; auto].
Qed.

Lemma in_find_var added n v : In (n, v) added -> find_var added n <> None.
Proof.
  induction added as [|[k w] added IH]; simpl; [intros []|].
  intros [H|H]; [inversion H; subst; now rewrite beq_refl|]. destruct (beq k n); [discriminate|auto].
Qed.

(* ---------------------------------------------------------------- lookups are pure *)
Section LookupPure.
  Variable E : env.
  Variable T : tables.

  (* the computed default that answers a name which is not a variable *)
  Definition fun_of (n : bytes) : option dfun :=
    match grammar_for_interp (t_grammar T) n with
    | Some g => if gr_req g then None else match gr_default g with D_fun f => Some f | _ => None end
    | None => None
    end.

  Hypothesis no_rd : forall n, fun_of n <> Some DF_rdomain.
  Hypothesis par_plain : fun_of kw_parallel = None.
  Hypothesis bd_unique : forall n1 n2, fun_of n1 = Some DF_build_dir -> fun_of n2 = Some DF_build_dir -> n1 = n2.

  (* [c'] extends [c] by variables that cache what their name resolves to in [c] *)
  Definition cached (bd : cfg -> bytes -> cfg * option value) (c : cfg) (kv : bytes * value) : Prop :=
    find_var (c_vars c) (fst kv) = None /\ fun_of (fst kv) <> None /\ snd (config_find E T bd c (fst kv)) = Some (snd kv).

  Definition ext (bd : cfg -> bytes -> cfg * option value) (c c' : cfg) : Prop :=
    c_trace c' = c_trace c /\ exists added, c_vars c' = c_vars c ++ added /\ Forall (cached bd c) added.

  Lemma ext_refl bd c : ext bd c c.
  Proof. split; [reflexivity|]. exists []. now rewrite app_nil_r. Qed.

  Lemma ext_same bd c c' c'' : c_trace c'' = c_trace c' -> c_vars c'' = c_vars c' -> ext bd c c' -> ext bd c c''.
  Proof. intros Ht Hv [H1 H2]. split; [congruence|]. now rewrite Hv. Qed.

  Lemma ext_append bd c c' n v :
    ext bd c c' -> cached bd c (n, v) -> ext bd c (cfg_append c' n v).
  Proof.
    intros [Ht [added [Hv Hall]]] Hc. split; [exact Ht|]. exists (added ++ [(n, v)]). simpl. split.
    - now rewrite Hv, app_assoc.
    - apply Forall_app. split; [exact Hall|]. now constructor.
  Qed.

  (* what config_find does for a name that is not a variable *)
  Definition find_default (bd : cfg -> bytes -> cfg * option value) (c : cfg) (n : bytes) : cfg * option value :=
    match grammar_for_interp (t_grammar T) n with
    | None => (c, None)
    | Some g =>
        if gr_req g then (c, None)
        else match gr_default g with
             | D_fun f => call_fun E T bd f c n
             | _ => match default_value E g with Some v => (c, Some v) | None => (set_abort c, None) end
             end
    end.

  Lemma config_find_unfold bd c n :
    config_find E T bd c n = match find_var (c_vars c) n with Some v => (c, Some v) | None => find_default bd c n end.
  Proof. reflexivity. Qed.

  Lemma find_default_fun bd c n f : fun_of n = Some f -> find_default bd c n = call_fun E T bd f c n.
  Proof.
    unfold fun_of, find_default. destruct (grammar_for_interp (t_grammar T) n) as [g|]; [|discriminate].
    destruct (gr_req g); [discriminate|]. destruct (gr_default g); try discriminate. intros H; inversion H; reflexivity.
  Qed.

  Lemma find_default_static bd c n : fun_of n = None ->
    find_default bd c n = (c, snd (find_default bd c n)) \/ find_default bd c n = (set_abort c, None).
  Proof.
    unfold fun_of, find_default. destruct (grammar_for_interp (t_grammar T) n) as [g|]; [|now left].
    destruct (gr_req g); [now left|]. destruct (gr_default g); try discriminate; intros _;
      (destruct (default_value E g); [now left|now right]).
  Qed.

  Lemma find_default_static_indep bd c c' n : fun_of n = None ->
    snd (find_default bd c' n) = snd (find_default bd c n).
  Proof.
    unfold fun_of, find_default. destruct (grammar_for_interp (t_grammar T) n) as [g|]; [|reflexivity].
    destruct (gr_req g); [reflexivity|]. destruct (gr_default g); try discriminate; intros _;
      (destruct (default_value E g); reflexivity).
  Qed.

  (* config_find_plain on the global switch *)
  Lemma plain_pure bd c c' : ext bd c c' ->
    snd (config_find_plain E T c' kw_parallel) = snd (config_find_plain E T c kw_parallel)
    /\ ext bd c (fst (config_find_plain E T c' kw_parallel)).
  Proof.
    intros Hx. destruct Hx as [Ht [added [Hv Hall]]].
    assert (Hx : ext bd c c') by (split; [exact Ht|]; exists added; auto).
    unfold config_find_plain. rewrite Hv, find_var_app.
    destruct (find_var (c_vars c) kw_parallel) as [v|] eqn:Hm; [split; [reflexivity|exact Hx]|].
    destruct (find_var added kw_parallel) as [v|] eqn:Ha.
    { apply find_var_in in Ha. rewrite Forall_forall in Hall. destruct (Hall _ Ha) as [_ [Hf _]]. simpl in Hf. contradiction. }
    revert par_plain. unfold fun_of. destruct (grammar_for_interp (t_grammar T) kw_parallel) as [g|]; [|intros _; split; [reflexivity|exact Hx]].
    destruct (gr_req g); [intros _; split; [reflexivity|exact Hx]|].
    destruct (gr_default g); try discriminate; intros _;
      (destruct (default_value E g); simpl; (split; [reflexivity|]); [exact Hx|eapply ext_same; [| |exact Hx]; reflexivity]).
  Qed.

  Section Level.
    Variable bd : cfg -> bytes -> cfg * option value.
    (* config_default_build_dir, called for an uncached name, sees what it sees from [c] *)
    Hypothesis bd_stable : forall c c' n, ext bd c c' -> find_var (c_vars c') n = None -> fun_of n = Some DF_build_dir ->
      snd (bd c' n) = snd (bd c n) /\
      (forall v, snd (bd c' n) = Some v -> exists c1, fst (bd c' n) = cfg_append c1 n v /\ ext bd c c1) /\
      (snd (bd c' n) = None -> ext bd c (fst (bd c' n))).

    Lemma find_pure c c' m : ext bd c c' ->
      snd (config_find E T bd c' m) = snd (config_find E T bd c m) /\ ext bd c (fst (config_find E T bd c' m)).
    Proof.
      intros Hx. destruct Hx as [Ht [added [Hv Hall]]].
      assert (Hx : ext bd c c') by (split; [exact Ht|]; exists added; auto).
      rewrite (config_find_unfold bd c' m). rewrite Hv, find_var_app.
      destruct (find_var (c_vars c) m) as [v|] eqn:Hm.
      { rewrite config_find_unfold, Hm. split; [reflexivity|exact Hx]. }
      destruct (find_var added m) as [v|] eqn:Ha.
      { apply find_var_in in Ha. rewrite Forall_forall in Hall. destruct (Hall _ Ha) as [_ [_ Hf]]. simpl in Hf.
        split; [now rewrite Hf|exact Hx]. }
      assert (Hnone' : find_var (c_vars c') m = None) by (now rewrite Hv, find_var_app, Hm, Ha).
      rewrite (config_find_unfold bd c m), Hm.
      destruct (fun_of m) as [f|] eqn:Hf.
      2:{ split; [now apply find_default_static_indep|].
          destruct (find_default_static bd c' m Hf) as [-> | ->]; simpl; [exact Hx|]. eapply ext_same; [| |exact Hx]; reflexivity. }
      rewrite !(find_default_fun bd _ m f Hf).
      assert (Hcache : forall v, snd (call_fun E T bd f c m) = Some v -> cached bd c (m, v)).
      { intros v Hval. repeat split; simpl; [exact Hm|congruence|]. now rewrite config_find_unfold, Hm, (find_default_fun bd c m f Hf). }
      destruct f; simpl in *.
      - (* build_dir *)
        destruct (bd_stable c c' m Hx Hnone' Hf) as [Hs [Hsome Hnone]]. split; [exact Hs|].
        destruct (snd (bd c' m)) as [v|] eqn:Hb.
        + destruct (Hsome v eq_refl) as [c1 [-> Hx1]]. apply ext_append; [exact Hx1|]. apply Hcache. now rewrite <- Hs.
        + now apply Hnone.
      - split; [reflexivity|]. apply ext_append; [exact Hx|]. now apply Hcache.
      - split; [reflexivity|]. apply ext_append; [exact Hx|]. now apply Hcache.
      - split; [reflexivity|]. apply ext_append; [exact Hx|]. now apply Hcache.
      - split; [reflexivity|]. apply ext_append; [exact Hx|]. now apply Hcache.
      - rewrite Ht. split; [reflexivity|]. apply ext_append; [exact Hx|]. now apply Hcache.
      - exfalso. exact (no_rd m Hf).
      - split; [reflexivity|]. apply ext_append; [exact Hx|]. now apply Hcache.
      - now apply plain_pure.
    Qed.

    Lemma lookup_pure c c' m : ext bd c c' ->
      ext bd c (fst (lookup E T bd false c' m)) /\ snd (lookup E T bd false c' m) = snd (lookup E T bd false c m).
    Proof.
      intros Hx. unfold lookup. cbn [andb].
      destruct (find_pure c c' m Hx) as [Hv Hs].
      destruct (config_find E T bd c' m) as [c1 ov]. destruct (config_find E T bd c m) as [c2 ov2]. simpl in Hv, Hs. subst ov2.
      destruct ov as [[| | |]|]; simpl; auto.
    Qed.

    (* the state-passing interpolation from any extension of [c] is the state-free one over [c]'s own lookups *)
    Lemma sinterp_pure c d c' s : ext bd c c' ->
      ext bd c (fst (sinterp d false (lookup E T bd false) c' s))
      /\ snd (sinterp d false (lookup E T bd false) c' s) = interp d false (fun n => snd (lookup E T bd false c n)) s.
    Proof.
      intros Hx.
      apply (sinterp_sim (ext bd c) false (lookup E T bd false) (fun n => snd (lookup E T bd false c n))
                         (fun st n Hst => lookup_pure c st n Hst) d s c' Hx).
    Qed.
  End Level.

  (* a name whose default is not the build directory resolves independently of how that one is computed *)
  Lemma config_find_bd_irrelevant bd1 bd2 c n : fun_of n <> Some DF_build_dir ->
    config_find E T bd1 c n = config_find E T bd2 c n.
  Proof.
    intros Hn. rewrite !config_find_unfold. destruct (find_var (c_vars c) n); [reflexivity|].
    destruct (fun_of n) as [f|] eqn:Hf.
    - rewrite !(find_default_fun _ c n f Hf). destruct f; try reflexivity. congruence.
    - revert Hf. unfold fun_of, find_default. destruct (grammar_for_interp (t_grammar T) n) as [g|]; [|reflexivity].
      destruct (gr_req g); [reflexivity|]. destruct (gr_default g); try discriminate; reflexivity.
  Qed.

  Lemma ext_change_bd bd1 bd2 c c' :
    (forall n v, In (n, v) (skipn (length (c_vars c)) (c_vars c')) -> fun_of n <> Some DF_build_dir) ->
    ext bd1 c c' -> ext bd2 c c'.
  Proof.
    intros Hno [Ht [added [Hv Hall]]]. split; [exact Ht|]. exists added. split; [exact Hv|].
    rewrite Hv in Hno. rewrite skipn_app, skipn_all, Nat.sub_diag in Hno. simpl in Hno.
    rewrite Forall_forall in *. intros [n v] Hin. destruct (Hall _ Hin) as [H1 [H2 H3]]. simpl in *.
    repeat split; simpl; auto. rewrite <- H3. symmetry. f_equal. apply config_find_bd_irrelevant. eapply Hno, Hin.
  Qed.

  (* level 0: the lookups made while config_default_build_dir interpolates ${robsddir}/.running *)
  Lemma bd_nested_stable c c' n : ext (bd_nested T) c c' -> find_var (c_vars c') n = None -> fun_of n = Some DF_build_dir ->
    snd (bd_nested T c' n) = snd (bd_nested T c n) /\
    (forall v, snd (bd_nested T c' n) = Some v -> exists c1, fst (bd_nested T c' n) = cfg_append c1 n v /\ ext (bd_nested T) c c1) /\
    (snd (bd_nested T c' n) = None -> ext (bd_nested T) c (fst (bd_nested T c' n))).
  Proof.
    intros Hx _ _. unfold bd_nested in *. destruct (t_builddir_guard T); unfold bd_quiet, bd_diverge in *; simpl;
      (split; [reflexivity|]; split; [discriminate|]); intros _; [exact Hx|]. eapply ext_same; [| |exact Hx]; reflexivity.
  Qed.

  Definition penv0 (c : cfg) : bytes -> option bytes := fun n => snd (lookup E T (bd_nested T) false c n).

  Lemma build_dir_stable c c' n : ext (build_dir E T) c c' -> find_var (c_vars c') n = None -> fun_of n = Some DF_build_dir ->
    snd (build_dir E T c' n) = snd (build_dir E T c n) /\
    (forall v, snd (build_dir E T c' n) = Some v -> exists c1, fst (build_dir E T c' n) = cfg_append c1 n v /\ ext (build_dir E T) c c1) /\
    (snd (build_dir E T c' n) = None -> ext (build_dir E T) c (fst (build_dir E T c' n))).
  Proof.
    intros Hx Hnone Hf.
    (* no variable of [c'] caches a build directory: the only such name is [n], which is not cached *)
    assert (Hno : forall k v, In (k, v) (skipn (length (c_vars c)) (c_vars c')) -> fun_of k <> Some DF_build_dir).
    { intros k v Hin Hk. assert (k = n) by (now apply bd_unique). subst k.
      destruct Hx as [_ [added [Hv _]]]. rewrite Hv in Hin, Hnone.
      rewrite skipn_app, skipn_all, Nat.sub_diag in Hin. simpl in Hin.
      rewrite find_var_app in Hnone. destruct (find_var (c_vars c) n); [discriminate|].
      exact (in_find_var _ _ _ Hin Hnone). }
    assert (Hx0 : ext (bd_nested T) c c') by (eapply ext_change_bd; eauto).
    assert (Hback : forall c1, ext (bd_nested T) c c1 -> ext (build_dir E T) c c1).
    { intros c1 H1. eapply ext_change_bd; [|exact H1].
      intros k v Hin Hk. destruct H1 as [_ [added [Hv Hall]]]. rewrite Hv in Hin.
      rewrite skipn_app, skipn_all, Nat.sub_diag in Hin. simpl in Hin. rewrite Forall_forall in Hall.
      destruct (Hall _ Hin) as [Hm [_ Hval]]. simpl in *.
      rewrite config_find_unfold, Hm, (find_default_fun _ c k _ Hk) in Hval.
      cbn [call_fun] in Hval. unfold bd_nested in Hval. destruct (t_builddir_guard T); discriminate Hval. }
    unfold build_dir, sinterp_str.
    destruct (sinterp_pure (bd_nested T) bd_nested_stable c (pred (t_depth_limit T)) c' (cstr running_tmpl) Hx0) as [He' Hr'].
    destruct (sinterp_pure (bd_nested T) bd_nested_stable c (pred (t_depth_limit T)) c (cstr running_tmpl) (ext_refl _ c)) as [_ Hr].
    destruct (sinterp (pred (t_depth_limit T)) false (lookup E T (bd_nested T) false) c' (cstr running_tmpl)) as [c1' r'].
    destruct (sinterp (pred (t_depth_limit T)) false (lookup E T (bd_nested T) false) c (cstr running_tmpl)) as [c1 r].
    simpl in He', Hr', Hr. rewrite <- Hr in Hr'. subst r'.
    destruct r as [path|e]; simpl.
    - destruct (e_file E path) as [|b]; simpl.
      + split; [reflexivity|]. split; [discriminate|]. intros _. now apply Hback.
      + destruct (first_line (cstr b)) as [l|]; simpl.
        * split; [reflexivity|]. split; [|discriminate]. intros v Hv. inversion Hv; subst. exists c1'. split; [reflexivity|now apply Hback].
        * split; [reflexivity|]. split; [discriminate|]. intros _. eapply ext_same; [| |apply Hback, He']; reflexivity.
    - split; [reflexivity|]. split; [discriminate|]. intros _. eapply ext_same; [| |apply Hback, He']; reflexivity.
  Qed.

  (* the environment the schedule is computed in *)
  Definition penv (c : cfg) : bytes -> option bytes := fun n => snd (lookup1 E T false c n).

  Definition ext1 := ext (build_dir E T).

  Theorem cfg_interp_pure c c' s : ext1 c c' ->
    ext1 c (fst (cfg_interp E T c' s)) /\ snd (cfg_interp E T c' s) = interp_str (t_depth_limit T) false (penv c) s.
  Proof.
    intros Hx. unfold cfg_interp, sinterp_str, interp_str, lookup1.
    apply (sinterp_pure (build_dir E T) build_dir_stable c _ c' _ Hx).
  Qed.

  (* config_get_steps' loops *)
  Fixpoint pure_args (env : bytes -> option bytes) (args : list bytes) : option (list bytes) :=
    match args with
    | [] => Some []
    | a :: r =>
        match interp_str (t_depth_limit T) false env a with
        | IErr _ => None
        | IOk s => match pure_args env r with
                   | None => None
                   | Some l => Some (match s with [] => l | _ => s :: l end)
                   end
        end
    end.

  Fixpoint pure_steps (env : bytes -> option bytes) (steps : list sstep) : option (list sstep) :=
    match steps with
    | [] => Some []
    | s :: r =>
        match pure_args env (ss_cmd s) with
        | None => None
        | Some a => match pure_steps env r with
                    | None => None
                    | Some l => Some (mk_sstep (ss_name s) a (ss_par s) :: l)
                    end
        end
    end.

  Lemma interp_args_pure c args : forall c', ext1 c c' ->
    ext1 c (fst (interp_args E T c' args)) /\ snd (interp_args E T c' args) = pure_args (penv c) args.
  Proof.
    induction args as [|a r IH]; intros c' Hx; cbn [interp_args pure_args]; [auto|].
    destruct (cfg_interp_pure c c' a Hx) as [H1 Hr]. destruct (cfg_interp E T c' a) as [c1 ir]. simpl in H1, Hr. rewrite <- Hr.
    destruct ir as [s|e]; simpl.
    - destruct (IH c1 H1) as [H2 Hr2]. destruct (interp_args E T c1 r) as [c2 rest]. simpl in H2, Hr2. rewrite <- Hr2.
      destruct rest; simpl; auto.
    - split; [|reflexivity]. eapply ext_same; [| |exact H1]; reflexivity.
  Qed.

  Lemma interp_steps_pure c steps : forall c', ext1 c c' ->
    ext1 c (fst (interp_steps E T c' steps)) /\ snd (interp_steps E T c' steps) = pure_steps (penv c) steps.
  Proof.
    induction steps as [|s r IH]; intros c' Hx; cbn [interp_steps pure_steps]; [auto|].
    destruct (interp_args_pure c (ss_cmd s) c' Hx) as [H1 Hr]. destruct (interp_args E T c' (ss_cmd s)) as [c1 oa]. simpl in H1, Hr.
    rewrite <- Hr. destruct oa as [a|]; simpl; [|auto].
    destruct (IH c1 H1) as [H2 Hr2]. destruct (interp_steps E T c1 r) as [c2 rest]. simpl in H2, Hr2. rewrite <- Hr2.
    destruct rest; simpl; auto.
  Qed.
End LookupPure.

(* ---------------------------------------------------------------- two lookups that agree on success *)
Section Mono.
  Context {St : Type}.
  Variable lk lk' : St -> bytes -> St * option bytes.
  Hypothesis lk_mono : forall st n st1 v, lk' st n = (st1, Some v) -> lk st n = (st1, Some v).

  Lemma sinner_mono (rec rec' : St -> bytes -> St * ires) :
    (forall st s st1 o, rec' st s = (st1, IOk o) -> rec st s = (st1, IOk o)) ->
    forall n s, (length s <= n)%nat ->
      (forall st st1 o, sinner false lk' rec' st s = (st1, IOk o) -> sinner false lk rec st s = (st1, IOk o))
      /\ (forall st acc st1 o, sname_scan false lk' rec' st acc s = (st1, IOk o) -> sname_scan false lk rec st acc s = (st1, IOk o)).
  Proof.
    intros Hrec. induction n as [|n IH]; intros s Hlen.
    - destruct s; [|simpl in Hlen; lia]. split; intros; simpl in *; auto; discriminate.
    - destruct s as [|ch s']; [split; intros; simpl in *; auto; discriminate|].
      simpl in Hlen. assert (Hs' : (length s' <= n)%nat) by lia.
      destruct (IH s' Hs') as [I1 I2]. split.
      + intros st st1 o. rewrite !sinner_cons. destruct (ch =? DOLLAR).
        * destruct s' as [|c2 s'']; [discriminate|]. destruct (c2 =? LBRACE); [|discriminate].
          simpl in Hs'. apply (proj2 (IH s'' ltac:(lia))).
        * destruct (sinner false lk' rec' st s') as [st' r] eqn:Es. destruct r as [o'|e]; [|discriminate].
          rewrite (I1 _ _ _ Es). auto.
      + intros st acc st1 o. rewrite !sname_scan_cons. destruct (ch =? RBRACE).
        * destruct acc as [|a acc']; [discriminate|].
          destruct (lk' st (a :: acc')) as [st2 ov] eqn:El. destruct ov as [v|]; [|discriminate].
          rewrite (lk_mono _ _ _ _ El).
          destruct (rec' st2 (cstr v)) as [st3 r] eqn:Er. destruct r as [o'|e]; [|discriminate].
          rewrite (Hrec _ _ _ _ Er).
          destruct (sinner false lk' rec' st3 s') as [st4 r4] eqn:Es. destruct r4 as [o4|e]; [|discriminate].
          rewrite (I1 _ _ _ Es). auto.
        * apply I2.
  Qed.

  Lemma sinterp_mono d : forall st s st1 o,
    sinterp d false lk' st s = (st1, IOk o) -> sinterp d false lk st s = (st1, IOk o).
  Proof.
    induction d as [|d IH]; intros st s st1 o; simpl; [discriminate|].
    apply (proj1 (sinner_mono (sinterp d false lk) (sinterp d false lk') IH (length s) s (le_n _))).
  Qed.
End Mono.

(* ---------------------------------------------------------------- the rdomain counter hidden *)
(* the same tables, except that the row answered by config_default_rdomain answers nothing:
   the one lookup whose result depends on how many lookups went before *)
Definition is_rd (g : grammar) : bool := match gr_default g with D_fun DF_rdomain => true | _ => false end.

Definition hide_row (g : grammar) : grammar :=
  if is_rd g then mk_grammar (gr_kw g) (gr_type g) (gr_fn g) true (gr_rep g) (gr_pat g) (gr_early g) D_null else g.

Definition hide_rd (T : tables) : tables :=
  mk_tables (t_mode T) (t_tokens T) (map hide_row (t_grammar T)) (t_steps T) (t_argv T) (t_regress_script T)
            (t_canvas_end T) (t_rdomain_min T) (t_rdomain_max T) (t_rdomain_fixed T) (t_execdir_default T)
            (t_depth_limit T) (t_interp_path T) (t_builddir_guard T).

Lemma find_grammar_in p G g : find_grammar p G = Some g -> In g G /\ p g = true.
Proof.
  induction G as [|h G IH]; simpl; [discriminate|]. destruct (p h) eqn:Hp.
  - intros H; inversion H; subst. split; [now left|exact Hp].
  - intros H. destruct (IH H). split; [now right|assumption].
Qed.

Lemma grammar_equals_hide g n : grammar_equals (hide_row g) n = grammar_equals g n.
Proof. unfold hide_row. destruct (is_rd g); reflexivity. Qed.

Lemma gfi_hide G n :
  grammar_for_interp (map hide_row G) n = match grammar_for_interp G n with Some g => Some (hide_row g) | None => None end.
Proof.
  unfold grammar_for_interp. induction G as [|g G IH]; simpl; [reflexivity|].
  rewrite grammar_equals_hide. destruct (grammar_equals g n); [reflexivity|exact IH].
Qed.

Section Hidden.
  Variable E : env.
  Variable T : tables.
  Let T0 := hide_rd T.
  Hypothesis par_plain : fun_of T kw_parallel = None.

  Lemma find_plain_hide c : config_find_plain E T0 c kw_parallel = config_find_plain E T c kw_parallel.
  Proof.
    unfold config_find_plain. destruct (find_var (c_vars c) kw_parallel); [reflexivity|].
    unfold T0. cbn [t_grammar hide_rd]. rewrite gfi_hide. revert par_plain. unfold fun_of.
    destruct (grammar_for_interp (t_grammar T) kw_parallel) as [g|]; [|reflexivity].
    unfold hide_row. destruct (is_rd g) eqn:Hrd; [|reflexivity].
    unfold is_rd in Hrd. destruct (gr_default g) as [| | | |f] eqn:Hd; try discriminate. destruct f; try discriminate.
    destruct (gr_req g) eqn:Hr; [intros _; reflexivity|intros Hx; discriminate Hx].
  Qed.

  Section Lv.
    Variable bd bd0 : cfg -> bytes -> cfg * option value.
    Hypothesis bd_mono : forall c n c1 v, bd0 c n = (c1, Some v) -> bd c n = (c1, Some v).

    Lemma find_mono c n c1 v : config_find E T0 bd0 c n = (c1, Some v) -> config_find E T bd c n = (c1, Some v).
    Proof.
      unfold config_find. destruct (find_var (c_vars c) n); [auto|].
      unfold T0 at 1. cbn [t_grammar hide_rd]. rewrite gfi_hide.
      destruct (grammar_for_interp (t_grammar T) n) as [g|]; [|auto].
      unfold hide_row. destruct (is_rd g) eqn:Hrd; [cbn [gr_req]; intros Hx; discriminate Hx|].
      destruct (gr_req g); [auto|]. destruct (gr_default g) as [| | | |f] eqn:Hd; auto.
      destruct f; simpl; auto; try (unfold is_rd in Hrd; rewrite Hd in Hrd; discriminate Hrd).
      rewrite find_plain_hide. auto.
    Qed.

    Lemma lookup_mono c n c1 v : lookup E T0 bd0 false c n = (c1, Some v) -> lookup E T bd false c n = (c1, Some v).
    Proof.
      unfold lookup. cbn [andb]. destruct (config_find E T0 bd0 c n) as [c2 ov] eqn:Ef.
      destruct ov as [[| | |]|]; try discriminate; intros H; inversion H; subst; rewrite (find_mono _ _ _ _ Ef); reflexivity.
    Qed.
  End Lv.

  Lemma build_dir_mono c n c1 v : build_dir E T0 c n = (c1, Some v) -> build_dir E T c n = (c1, Some v).
  Proof.
    unfold build_dir, sinterp_str. change (t_depth_limit T0) with (t_depth_limit T).
    change (bd_nested T0) with (bd_nested T).
    destruct (sinterp (pred (t_depth_limit T)) false (lookup E T0 (bd_nested T) false) c (cstr running_tmpl)) as [c2 r] eqn:Es.
    destruct r as [path|e]; [|discriminate].
    rewrite (sinterp_mono (lookup E T (bd_nested T) false) (lookup E T0 (bd_nested T) false)
                          (lookup_mono (bd_nested T) (bd_nested T) (fun _ _ _ _ H => H)) _ _ _ _ _ Es).
    auto.
  Qed.

  Lemma cfg_interp_mono c s c1 o : cfg_interp E T0 c s = (c1, IOk o) -> cfg_interp E T c s = (c1, IOk o).
  Proof.
    unfold cfg_interp, sinterp_str. change (t_depth_limit T0) with (t_depth_limit T).
    apply sinterp_mono. apply lookup_mono. apply build_dir_mono.
  Qed.

  Lemma interp_args_mono args : forall c c1 l, interp_args E T0 c args = (c1, Some l) -> interp_args E T c args = (c1, Some l).
  Proof.
    induction args as [|a r IH]; intros c c1 l; cbn [interp_args]; [auto|].
    destruct (cfg_interp E T0 c a) as [c2 ir] eqn:Ei. destruct ir as [s|e]; [|discriminate].
    rewrite (cfg_interp_mono _ _ _ _ Ei).
    destruct (interp_args E T0 c2 r) as [c3 rest] eqn:Er. destruct rest as [l'|]; [|discriminate].
    rewrite (IH _ _ _ Er). auto.
  Qed.

  Lemma interp_steps_mono steps : forall c c1 l, interp_steps E T0 c steps = (c1, Some l) -> interp_steps E T c steps = (c1, Some l).
  Proof.
    induction steps as [|s r IH]; intros c c1 l; cbn [interp_steps]; [auto|].
    destruct (interp_args E T0 c (ss_cmd s)) as [c2 oa] eqn:Ea. destruct oa as [a|]; [|discriminate].
    rewrite (interp_args_mono _ _ _ _ Ea).
    destruct (interp_steps E T0 c2 r) as [c3 rest] eqn:Er. destruct rest as [l'|]; [|discriminate].
    rewrite (IH _ _ _ Er). auto.
  Qed.
End Hidden.

(* ---------------------------------------------------------------- the three table conditions as computations *)
Definition rd_freeb (G : list grammar) : bool := forallb (fun g => negb (is_rd g)) G.

Definition kw_builddir : bytes := Eval vm_compute in [98; 117; 105; 108; 100; 100; 105; 114].

Definition bd_uniqueb (G : list grammar) : bool :=
  forallb (fun g => match gr_default g with D_fun DF_build_dir => negb (gr_pat g) && beq (gr_kw g) kw_builddir | _ => true end) G.

Lemma fun_of_row T n f : fun_of T n = Some f ->
  exists g, In g (t_grammar T) /\ grammar_equals g n = true /\ gr_default g = D_fun f.
Proof.
  unfold fun_of. destruct (grammar_for_interp (t_grammar T) n) as [g|] eqn:Hg; [|discriminate].
  destruct (gr_req g); [discriminate|]. destruct (gr_default g) eqn:Hd; try discriminate. intros H; inversion H; subst.
  apply find_grammar_in in Hg. destruct Hg. eauto.
Qed.

Lemma no_rd_of_b T : rd_freeb (t_grammar T) = true -> forall n, fun_of T n <> Some DF_rdomain.
Proof.
  intros Hb n Hf. destruct (fun_of_row T n _ Hf) as [g [Hin [_ Hd]]].
  unfold rd_freeb in Hb. rewrite forallb_forall in Hb. specialize (Hb g Hin). unfold is_rd in Hb. now rewrite Hd in Hb.
Qed.

Lemma bd_unique_of_b T : bd_uniqueb (t_grammar T) = true ->
  forall n1 n2, fun_of T n1 = Some DF_build_dir -> fun_of T n2 = Some DF_build_dir -> n1 = n2.
Proof.
  intros Hb. assert (H : forall n, fun_of T n = Some DF_build_dir -> n = kw_builddir).
  { intros n Hf. destruct (fun_of_row T n _ Hf) as [g [Hin [He Hd]]].
    unfold bd_uniqueb in Hb. rewrite forallb_forall in Hb. specialize (Hb g Hin). rewrite Hd in Hb.
    apply andb_true_iff in Hb. destruct Hb as [Hp Hk]. apply negb_true_iff in Hp. apply beq_eq in Hk.
    unfold grammar_equals in He. rewrite Hp, andb_false_l, orb_false_r in He. apply beq_eq in He. congruence. }
  intros n1 n2 H1 H2. now rewrite (H n1 H1), (H n2 H2).
Qed.

Lemma rd_freeb_hide G : rd_freeb (map hide_row G) = true.
Proof.
  unfold rd_freeb. rewrite forallb_forall. intros g Hin. apply in_map_iff in Hin. destruct Hin as [g0 [<- _]].
  unfold hide_row. destruct (is_rd g0) eqn:Hr; [reflexivity|]. now rewrite Hr.
Qed.

(* ---------------------------------------------------------------- config_get_steps as a pure computation *)
Section GetSteps.
  Variable E : env.
  Variable T : tables.
  Let T0 := hide_rd T.
  Hypothesis par_plain : fun_of T kw_parallel = None.
  Hypothesis par_plain0 : fun_of T0 kw_parallel = None.
  Hypothesis bd_u0 : bd_uniqueb (t_grammar T0) = true.

  (* the environment of the schedule: what every name resolves to in the parsed configuration, -x applied,
     rdomain hidden *)
  Definition sched_env (c : cfg) (tr : bool) : bytes -> option bytes := penv E T0 (set_trace c tr).

  (* whenever the schedule renders in that environment, config_get_steps returns exactly that rendering *)
  Theorem get_steps_of_pure c tr l :
    fst (raw_steps E T (set_trace c tr)) = set_trace c tr ->
    pure_steps T0 (sched_env c tr) (snd (raw_steps E T (set_trace c tr))) = Some l ->
    snd (get_steps E T c tr) = Some l.
  Proof.
    intros Hst Hp. unfold get_steps. destruct (raw_steps E T (set_trace c tr)) as [c1 raw]. simpl in Hst, Hp. subst c1.
    destruct (interp_steps_pure E T0 (no_rd_of_b T0 (rd_freeb_hide _)) par_plain0 (bd_unique_of_b T0 bd_u0)
                                (set_trace c tr) raw (set_trace c tr) (ext_refl _ _ _ _)) as [_ Hr].
    fold (sched_env c tr) in Hr. rewrite Hp in Hr.
    destruct (interp_steps E T0 (set_trace c tr) raw) as [c2 res] eqn:Ei. simpl in Hr. subst res.
    rewrite (interp_steps_mono E T par_plain raw _ _ _ Ei). reflexivity.
  Qed.

  (* without an rdomain row the two coincide, failure included *)
  Theorem get_steps_pure c tr :
    rd_freeb (t_grammar T) = true -> bd_uniqueb (t_grammar T) = true ->
    fst (raw_steps E T (set_trace c tr)) = set_trace c tr ->
    snd (get_steps E T c tr) = pure_steps T (penv E T (set_trace c tr)) (snd (raw_steps E T (set_trace c tr))).
  Proof.
    intros Hrd Hbd Hst. unfold get_steps. destruct (raw_steps E T (set_trace c tr)) as [c1 raw]. simpl in Hst |- *. subst c1.
    destruct (interp_steps_pure E T (no_rd_of_b T Hrd) par_plain (bd_unique_of_b T Hbd)
                                (set_trace c tr) raw (set_trace c tr) (ext_refl _ _ _ _)) as [_ Hr].
    destruct (interp_steps E T (set_trace c tr) raw) as [c2 res]. exact Hr.
  Qed.
End GetSteps.
