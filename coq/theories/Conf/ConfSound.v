(* ConfSound.v - accept -> conforms: whenever a parser routine reports success
   (CONFIG_APPEND or CONFIG_NOP) the tokens it consumed spell a value of the
   shape its row asks for, the side conditions of the specification hold, and
   the dictionary it leaves is the one the specification assigns. *)
From Robsd Require Import Conf.ConfSpec.
Local Open Scope N_scope.
Local Arguments Z.mul : simpl never.
Local Arguments Z.add : simpl never.

(* ---------------------------------------------------------------- erase *)
Lemma erase_str t : tk_type t = T_STRING -> erase t = S_str (tk_str t).
Proof. unfold erase. intros ->. reflexivity. Qed.
Lemma erase_bool t : tk_type t = T_BOOLEAN -> erase t = S_bool (tk_int t).
Proof. unfold erase. intros ->. reflexivity. Qed.
Lemma erase_int t : tk_type t = T_INTEGER -> erase t = S_int (tk_int t).
Proof. unfold erase. intros ->. reflexivity. Qed.
Lemma erase_kw t : tk_type t = T_KEYWORD -> erase t = S_kw (tk_str t).
Proof. unfold erase. intros ->. reflexivity. Qed.

Definition is_payload (ty : ttype) : bool :=
  match ty with T_BOOLEAN | T_INTEGER | T_STRING | T_KEYWORD => true | _ => false end.

Lemma erase_sym t : is_payload (tk_type t) = false -> erase t = S_sym (tk_type t).
Proof. unfold erase. destruct (tk_type t); simpl; intros H; try discriminate; reflexivity. Qed.

Lemma erase_str_inv t s : erase t = S_str s -> tk_type t = T_STRING /\ tk_str t = s.
Proof. unfold erase. destruct (tk_type t); intros H; inversion H; auto. Qed.
Lemma erase_bool_inv t b : erase t = S_bool b -> tk_type t = T_BOOLEAN /\ tk_int t = b.
Proof. unfold erase. destruct (tk_type t); intros H; inversion H; auto. Qed.
Lemma erase_int_inv t z : erase t = S_int z -> tk_type t = T_INTEGER /\ tk_int t = z.
Proof. unfold erase. destruct (tk_type t); intros H; inversion H; auto. Qed.
Lemma erase_kw_inv t s : erase t = S_kw s -> tk_type t = T_KEYWORD /\ tk_str t = s.
Proof. unfold erase. destruct (tk_type t); intros H; inversion H; auto. Qed.
Lemma erase_sym_inv t ty : erase t = S_sym ty -> tk_type t = ty /\ is_payload ty = false.
Proof. unfold erase. destruct (tk_type t) eqn:Et; intros H; inversion H; subst; auto. Qed.

Lemma ttype_eqb_eq a b : ttype_eqb a b = true <-> a = b.
Proof. destruct (ttype_eqb_spec a b); split; congruence. Qed.

(* ---------------------------------------------------------------- cursor *)
Section Sound.
  Variable E : env.
  Variable T : tables.
  Variable eof : Z.

  Lemma expect_some c ts ty c1 r tk :
    ty <> T_EOF ->
    expect eof c ts ty = (c1, r, Some tk) -> c1 = c /\ ts = tk :: r /\ tk_type tk = ty.
  Proof.
    unfold expect, next. intros Hty. destruct ts as [|t ts'].
    - simpl. destruct (ttype_eqb_spec T_EOF ty) as [He|He]; [congruence|]. intros H; inversion H.
    - destruct (ttype_eqb_spec (tk_type t) ty) as [He|He]; intros H; inversion H; subst. auto.
  Qed.

  Lemma lexer_if_some ts ty tk r :
    ty <> T_EOF -> lexer_if eof ts ty = Some (tk, r) -> ts = tk :: r /\ tk_type tk = ty.
  Proof.
    unfold lexer_if, next. intros Hty. destruct ts as [|t ts'].
    - simpl. destruct (ttype_eqb_spec T_EOF ty) as [He|He]; [congruence|]. discriminate.
    - destruct (ttype_eqb_spec (tk_type t) ty) as [He|He]; intros H; inversion H; subst. auto.
  Qed.

  (* what a successful routine hands back, as the optional value of the specification *)
  Definition ov_of (rv : prv) : option value := match rv with R_append v => Some v | _ => None end.
  Definition succeeded (rv : prv) : Prop := match rv with R_append _ | R_nop => True | _ => False end.

  (* ---------------------------------------------------------------- lists *)
  Lemma list_items_sound c ts acc l c1 r lno :
    list_items eof c ts acc = (R_append (VList l), c1, r, lno) ->
    c1 = c /\ exists items tsv, ts = tsv ++ r /\ map erase tsv = map S_str items ++ [S_sym T_RBRACE]
                                /\ l = rev acc ++ items.
  Proof.
    revert acc. induction ts as [|t ts IH]; intros acc H; simpl in H; [inversion H|].
    destruct (ttype_eqb_spec (tk_type t) T_RBRACE) as [Hr|Hr].
    - inversion H; subst. split; [reflexivity|]. exists [], [t]. simpl.
      rewrite erase_sym by (rewrite Hr; reflexivity). rewrite Hr, app_nil_r. auto.
    - destruct (ttype_eqb_spec (tk_type t) T_STRING) as [Hs|Hs]; [|inversion H].
      destruct (IH _ H) as [-> [items [tsv [-> [Hm ->]]]]]. split; [reflexivity|].
      exists (tk_str t :: items), (t :: tsv). simpl. rewrite erase_str, Hm by assumption.
      rewrite <- app_assoc. auto.
  Qed.

  Lemma list_items_rv c ts acc rv c1 r lno :
    list_items eof c ts acc = (rv, c1, r, lno) -> rv = R_fatal \/ exists l, rv = R_append (VList l).
  Proof.
    revert acc. induction ts as [|t ts IH]; intros acc H; simpl in H; [inversion H; auto|].
    destruct (ttype_eqb (tk_type t) T_RBRACE); [inversion H; eauto|].
    destruct (ttype_eqb (tk_type t) T_STRING); [eauto|inversion H; auto].
  Qed.

  Lemma parse_list_l_sound c ts l c1 r lno :
    parse_list_l eof c ts = (R_append (VList l), c1, r, lno) ->
    c1 = c /\ exists tsv, ts = tsv ++ r /\ map erase tsv = render_list l.
  Proof.
    unfold parse_list_l. destruct (expect eof c ts T_LBRACE) as [[c0 r0] [tk|]] eqn:He; [|intros H; inversion H].
    apply expect_some in He; [|discriminate]. destruct He as [-> [-> Ht]]. intros H.
    apply list_items_sound in H. destruct H as [-> [items [tsv [-> [Hm ->]]]]]. split; [reflexivity|].
    exists (tk :: tsv). simpl. rewrite erase_sym by (rewrite Ht; reflexivity). rewrite Ht, Hm. auto.
  Qed.

  Lemma parse_list_l_rv c ts rv c1 r lno :
    parse_list_l eof c ts = (rv, c1, r, lno) -> succeeded rv -> exists l, rv = R_append (VList l).
  Proof.
    unfold parse_list_l. destruct (expect eof c ts T_LBRACE) as [[c0 r0] [tk|]]; [|intros H; inversion H; simpl; tauto].
    intros H Hs. apply list_items_rv in H. destruct H as [->|H]; [destruct Hs|exact H].
  Qed.

  Lemma parse_list_sound c ts l c1 r :
    parse_list eof c ts = (R_append (VList l), c1, r) ->
    c1 = c /\ exists tsv, ts = tsv ++ r /\ map erase tsv = render_list l.
  Proof.
    unfold parse_list. destruct (parse_list_l eof c ts) as [[[rv c0] r0] lno] eqn:Hp. simpl.
    intros H; inversion H; subst. eapply parse_list_l_sound; eauto.
  Qed.

  Lemma parse_list_rv c ts rv c1 r :
    parse_list eof c ts = (rv, c1, r) -> succeeded rv -> exists l, rv = R_append (VList l).
  Proof.
    unfold parse_list. destruct (parse_list_l eof c ts) as [[[rv0 c0] r0] lno] eqn:Hp. simpl.
    intros H; inversion H; subst. eapply parse_list_l_rv; eauto.
  Qed.

  (* ---------------------------------------------------------------- a value and what it defines *)
  Definition sound_at (f : pfun) (c : cfg) (ts : list token) (rv : prv) (c1 : cfg) (r : list token) : Prop :=
    exists ev tsv, ts = tsv ++ r /\ map erase tsv = render_value ev /\ value_fits f ev = true
                   /\ apply_value E T c f ev = Some (c1, ov_of rv).

  Ltac expect_case He :=
    apply expect_some in He; [|discriminate]; destruct He as [-> [-> Hty]].

  Lemma parse_boolean_sound c ts rv c1 r :
    parse_boolean eof c ts = (rv, c1, r) -> succeeded rv -> sound_at PF_boolean c ts rv c1 r.
  Proof.
    unfold parse_boolean. destruct (expect eof c ts T_BOOLEAN) as [[c0 r0] [tk|]] eqn:He; intros H Hs; inversion H; subst; [|destruct Hs].
    expect_case He. exists (E_bool (tk_int tk)), [tk]. simpl. rewrite erase_bool by assumption. auto.
  Qed.

  Lemma parse_integer_sound c ts rv c1 r :
    parse_integer eof c ts = (rv, c1, r) -> succeeded rv -> sound_at PF_integer c ts rv c1 r.
  Proof.
    unfold parse_integer. destruct (expect eof c ts T_INTEGER) as [[c0 r0] [tk|]] eqn:He; intros H Hs; inversion H; subst; [|destruct Hs].
    expect_case He. exists (E_int (tk_int tk)), [tk]. simpl. rewrite erase_int by assumption. auto.
  Qed.

  Lemma parse_string_sound c ts rv c1 r :
    parse_string eof c ts = (rv, c1, r) -> succeeded rv -> sound_at PF_string c ts rv c1 r.
  Proof.
    unfold parse_string. destruct (expect eof c ts T_STRING) as [[c0 r0] [tk|]] eqn:He; intros H Hs; inversion H; subst; [|destruct Hs].
    expect_case He. exists (E_str (tk_str tk)), [tk]. simpl. rewrite erase_str by assumption. auto.
  Qed.

  Lemma parse_glob_sound c ts rv c1 r :
    parse_glob E eof c ts = (rv, c1, r) -> succeeded rv -> sound_at PF_glob c ts rv c1 r.
  Proof.
    unfold parse_glob. destruct (expect eof c ts T_STRING) as [[c0 r0] [tk|]] eqn:He; [|intros H Hs; inversion H; subst; destruct Hs].
    expect_case He. destruct (e_glob E (tk_str tk)) eqn:Eg; intros H Hs; inversion H; subst; try destruct Hs;
      exists (E_str (tk_str tk)), [tk]; simpl; rewrite erase_str by assumption; rewrite Eg; auto.
  Qed.

  Lemma parse_user_sound c ts rv c1 r :
    parse_user E eof c ts = (rv, c1, r) -> succeeded rv -> sound_at PF_user c ts rv c1 r.
  Proof.
    unfold parse_user. destruct (expect eof c ts T_STRING) as [[c0 r0] [tk|]] eqn:He; [|intros H Hs; inversion H; subst; destruct Hs].
    expect_case He. destruct (e_user E (tk_str tk)) eqn:Eu; intros H Hs; inversion H; subst; try destruct Hs.
    exists (E_str (tk_str tk)), [tk]; simpl; rewrite erase_str by assumption; rewrite Eu; auto.
  Qed.

  (* parse_directory succeeds exactly along dir_ok *)
  Lemma parse_directory_inv c ts rv c1 r :
    parse_directory E T eof c ts = (rv, c1, r) -> succeeded rv ->
    exists tk, ts = tk :: r /\ tk_type tk = T_STRING /\ rv = R_append (VStr (tk_str tk))
               /\ dir_ok E T c (tk_str tk) = Some c1.
  Proof.
    unfold parse_directory. destruct (expect eof c ts T_STRING) as [[c0 r0] [tk|]] eqn:He; [|intros H Hs; inversion H; subst; destruct Hs].
    expect_case He. intros H Hs. exists tk. unfold dir_ok.
    destruct (tk_str tk) as [|b s] eqn:Es; [inversion H; subst; destruct Hs|].
    destruct (cfg_interp E T c (b :: s)) as [c2 ir]. destruct ir as [p|e]; [|inversion H; subst; destruct Hs].
    destruct (e_dir E p); inversion H; subst; try destruct Hs. auto.
  Qed.

  Lemma parse_directory_sound c ts rv c1 r :
    parse_directory E T eof c ts = (rv, c1, r) -> succeeded rv -> sound_at PF_directory c ts rv c1 r.
  Proof.
    intros H Hs. destruct (parse_directory_inv _ _ _ _ _ H Hs) as [tk [-> [Ht [-> Hd]]]].
    exists (E_str (tk_str tk)), [tk]. simpl. rewrite erase_str by assumption. rewrite Hd. auto.
  Qed.

  Lemma parse_canvas_directory_sound c ts rv c1 r :
    parse_canvas_directory E T eof c ts = (rv, c1, r) -> succeeded rv -> sound_at PF_canvas_directory c ts rv c1 r.
  Proof.
    unfold parse_canvas_directory. destruct (parse_directory E T eof c ts) as [[rv0 c0] r0] eqn:Hp.
    destruct rv0 as [v| | |]; intros H Hs; inversion H; subst; try destruct Hs.
    - destruct (parse_directory_inv _ _ _ _ _ Hp I) as [tk [-> [Ht [Hv Hd]]]]. inversion Hv; subst.
      exists (E_str (tk_str tk)), [tk]. simpl. rewrite erase_str by assumption. rewrite Hd. auto.
    - destruct (parse_directory_inv _ _ _ _ _ Hp I) as [tk [_ [_ [Hv _]]]]. discriminate.
  Qed.

  Lemma parse_regress_env_sound c ts rv c1 r :
    parse_regress_env eof c ts = (rv, c1, r) -> succeeded rv -> sound_at PF_regress_env c ts rv c1 r.
  Proof.
    unfold parse_regress_env. destruct (parse_list eof c ts) as [[rv0 c0] r0] eqn:Hp.
    destruct rv0 as [[| | |l]| | |]; intros H Hs; inversion H; subst; try destruct Hs.
    apply parse_list_sound in Hp. destruct Hp as [-> [tsv [-> Hm]]].
    exists (E_list l), tsv. simpl. auto.
  Qed.

  Lemma parse_list_sound_at c ts rv c1 r :
    parse_list eof c ts = (rv, c1, r) -> succeeded rv -> sound_at PF_list c ts rv c1 r.
  Proof.
    intros H Hs. destruct (parse_list_rv _ _ _ _ _ H Hs) as [l ->].
    apply parse_list_sound in H. destruct H as [-> [tsv [-> Hm]]].
    exists (E_list l), tsv. simpl. auto.
  Qed.

  Lemma mul_ov_spec k n v : mul_ov k n = (v, false) -> in_i32 (k * n) = true /\ v = (k * n)%Z.
  Proof.
    unfold mul_ov. intros H. inversion H as [[Hv Ho]]. apply negb_false_iff in Ho. split; [exact Ho|].
    unfold in_i32, i32_min, i32_max in Ho. apply andb_true_iff in Ho. destruct Ho as [H1 H2].
    apply Z.leb_le in H1, H2. unfold wrap32. rewrite Z.mod_small by lia. lia.
  Qed.

  Lemma parse_regress_timeout_sound c ts rv c1 r :
    parse_regress_timeout eof c ts = (rv, c1, r) -> succeeded rv -> sound_at PF_regress_timeout c ts rv c1 r.
  Proof.
    unfold parse_regress_timeout, parse_integer.
    destruct (expect eof c ts T_INTEGER) as [[c0 r0] [tk|]] eqn:He; [|intros H Hs; inversion H; subst; destruct Hs].
    expect_case He. unfold next. destruct r0 as [|u r1].
    - simpl. intros H Hs; inversion H; subst; destruct Hs.
    - destruct (tk_type u) eqn:Eu; try (intros H Hs; inversion H; subst; destruct Hs);
        (destruct (mul_ov _ (tk_int tk)) as [v ov] eqn:Em; destruct ov; intros H Hs; inversion H; subst; try destruct Hs;
         apply mul_ov_spec in Em; destruct Em as [Hin ->];
         exists (E_timeout (tk_int tk) (tk_type u)), [tk; u]; simpl;
         rewrite erase_int by assumption; rewrite erase_sym by (rewrite Eu; reflexivity);
         rewrite Eu; simpl; rewrite Hin; auto).
  Qed.

  (* ---------------------------------------------------------------- canvas step *)
  Lemma step_opts_sound fuel : forall c ts cmd par last cmd' par' last' c1 r,
    step_opts eof fuel c ts cmd par last = (Some (cmd', par', last'), c1, r) ->
    c1 = c /\ exists opts tsv, ts = tsv ++ r /\ map erase tsv = flat_map render_sopt opts
                               /\ step_summary opts cmd par = (cmd', par').
  Proof.
    induction fuel as [|fuel IH]; intros c ts cmd par last cmd' par' last' c1 r H; simpl in H; [inversion H|].
    destruct (lexer_if eof ts T_COMMAND) as [[tk r0]|] eqn:Hc.
    - apply lexer_if_some in Hc; [|discriminate]. destruct Hc as [-> Ht].
      destruct (parse_list_l eof c r0) as [[[rv c0] r1] l1] eqn:Hp.
      destruct rv as [[| | |l]| | |]; try (inversion H; fail).
      apply parse_list_l_sound in Hp. destruct Hp as [-> [tsv [-> Hm]]].
      destruct (IH _ _ _ _ _ _ _ _ _ _ H) as [-> [opts [tsv2 [-> [Hm2 Hsum]]]]]. split; [reflexivity|].
      exists (SO_command l :: opts), (tk :: tsv ++ tsv2). simpl.
      rewrite erase_sym by (rewrite Ht; reflexivity). rewrite Ht, map_app, Hm, Hm2.
      split; [now rewrite <- app_assoc|]. split; [|exact Hsum]. simpl. now rewrite <- app_assoc.
    - destruct (lexer_if eof ts T_PARALLEL) as [[tk r0]|] eqn:Hp.
      + apply lexer_if_some in Hp; [|discriminate]. destruct Hp as [-> Ht].
        destruct (IH _ _ _ _ _ _ _ _ _ _ H) as [-> [opts [tsv2 [-> [Hm2 Hsum]]]]]. split; [reflexivity|].
        exists (SO_parallel :: opts), (tk :: tsv2). simpl.
        rewrite erase_sym by (rewrite Ht; reflexivity). rewrite Ht, Hm2. auto.
      + inversion H; subst. split; [reflexivity|]. exists [], []. auto.
  Qed.

  Lemma parse_canvas_step_sound c ts rv c1 r :
    parse_canvas_step eof c ts = (rv, c1, r) -> succeeded rv -> sound_at PF_canvas_step c ts rv c1 r.
  Proof.
    unfold parse_canvas_step. destruct (expect eof c ts T_STRING) as [[c0 r0] [tk|]] eqn:He; [|intros H Hs; inversion H; subst; destruct Hs].
    expect_case He. destruct (step_opts eof (S (length r0)) c r0 None false (tk_lno tk)) as [[res c2] r2] eqn:Ho.
    destruct res as [[[cmd par] last]|]; [|intros H Hs; inversion H; subst; destruct Hs].
    apply step_opts_sound in Ho. destruct Ho as [-> [opts [tsv [-> [Hm Hsum]]]]].
    destruct cmd as [[|a l]|]; intros H Hs; inversion H; subst; try destruct Hs.
    exists (E_step (tk_str tk) opts), (tk :: tsv). simpl. rewrite erase_str by assumption.
    rewrite Hm, Hsum. auto.
  Qed.

  (* ---------------------------------------------------------------- regress *)
  Lemma regress_option_env_sound c ts path c1 r :
    regress_option_env E T eof c ts path = (true, c1, r) ->
    exists l tsv, ts = tsv ++ r /\ map erase tsv = render_list l /\ apply_env E T c path l = Some c1.
  Proof.
    unfold regress_option_env. destruct (parse_list eof c ts) as [[rv c0] r0] eqn:Hp.
    destruct rv as [[| | |l]| | |]; try (intros H; inversion H; fail).
    apply parse_list_sound in Hp. destruct Hp as [-> [tsv [-> Hm]]]. intros H. exists l, tsv. unfold apply_env.
    destruct (cfg_interp_early E T _ _) as [c3 ir]. destruct ir as [str|e]; inversion H; subst. auto.
  Qed.

  Lemma regress_opts_sound fuel : forall c ts path c1 r,
    regress_opts E T eof fuel c ts path = (true, c1, r) ->
    exists opts tsv, ts = tsv ++ r /\ map erase tsv = flat_map render_ropt opts
                     /\ apply_ropts E T c path opts = Some c1.
  Proof.
    induction fuel as [|fuel IH]; intros c ts path c1 r H; simpl in H; [inversion H|].
    unfold next in H. destruct ts as [|t ts'].
    - simpl in H. inversion H; subst. exists [], []. auto.
    - destruct (tk_type t) eqn:Et; try (inversion H; subst; exists [], []; simpl; auto; fail).
      + (* env *)
        destruct (regress_option_env E T eof c ts' path) as [[ok c0] r0] eqn:Ho. destruct ok; [|inversion H].
        apply regress_option_env_sound in Ho. destruct Ho as [l [tsv [-> [Hm Ha]]]].
        destruct (IH _ _ _ _ _ H) as [opts [tsv2 [-> [Hm2 Hr]]]].
        exists (O_env l :: opts), (t :: tsv ++ tsv2). simpl. rewrite erase_sym by (rewrite Et; reflexivity).
        rewrite Et, map_app, Hm, Hm2, Ha. split; [now rewrite <- app_assoc|]. split; [|exact Hr]. simpl. now rewrite <- app_assoc.
      + (* no-parallel *)
        destruct (IH _ _ _ _ _ H) as [opts [tsv2 [-> [Hm2 Hr]]]].
        exists (O_no_parallel :: opts), (t :: tsv2). simpl. rewrite erase_sym by (rewrite Et; reflexivity). rewrite Et, Hm2. auto.
      + (* obj *)
        destruct (parse_list eof c ts') as [[rv c0] r0] eqn:Hp. destruct rv as [[| | |l]| | |]; try (inversion H; fail).
        apply parse_list_sound in Hp. destruct Hp as [-> [tsv [-> Hm]]].
        destruct (IH _ _ _ _ _ H) as [opts [tsv2 [-> [Hm2 Hr]]]].
        exists (O_obj l :: opts), (t :: tsv ++ tsv2). simpl. rewrite erase_sym by (rewrite Et; reflexivity).
        rewrite Et, map_app, Hm, Hm2. split; [now rewrite <- app_assoc|]. split; [|exact Hr]. simpl. now rewrite <- app_assoc.
      + (* packages *)
        destruct (parse_list eof c ts') as [[rv c0] r0] eqn:Hp. destruct rv as [[| | |l]| | |]; try (inversion H; fail).
        apply parse_list_sound in Hp. destruct Hp as [-> [tsv [-> Hm]]].
        destruct (IH _ _ _ _ _ H) as [opts [tsv2 [-> [Hm2 Hr]]]].
        exists (O_packages l :: opts), (t :: tsv ++ tsv2). simpl. rewrite erase_sym by (rewrite Et; reflexivity).
        rewrite Et, map_app, Hm, Hm2. split; [now rewrite <- app_assoc|]. split; [|exact Hr]. simpl. now rewrite <- app_assoc.
      + (* quiet *)
        destruct (IH _ _ _ _ _ H) as [opts [tsv2 [-> [Hm2 Hr]]]].
        exists (O_quiet :: opts), (t :: tsv2). simpl. rewrite erase_sym by (rewrite Et; reflexivity). rewrite Et, Hm2. auto.
      + (* root *)
        destruct (IH _ _ _ _ _ H) as [opts [tsv2 [-> [Hm2 Hr]]]].
        exists (O_root :: opts), (t :: tsv2). simpl. rewrite erase_sym by (rewrite Et; reflexivity). rewrite Et, Hm2. auto.
      + (* targets *)
        destruct (parse_list eof c ts') as [[rv c0] r0] eqn:Hp. destruct rv as [[| | |l]| | |]; try (inversion H; fail).
        apply parse_list_sound in Hp. destruct Hp as [-> [tsv [-> Hm]]].
        destruct (IH _ _ _ _ _ H) as [opts [tsv2 [-> [Hm2 Hr]]]].
        exists (O_targets l :: opts), (t :: tsv ++ tsv2). simpl. rewrite erase_sym by (rewrite Et; reflexivity).
        rewrite Et, map_app, Hm, Hm2. split; [now rewrite <- app_assoc|]. split; [|exact Hr]. simpl. now rewrite <- app_assoc.
  Qed.

  Lemma parse_regress_sound c ts rv c1 r :
    parse_regress E T eof c ts = (rv, c1, r) -> succeeded rv -> sound_at PF_regress c ts rv c1 r.
  Proof.
    unfold parse_regress. destruct (expect eof c ts T_STRING) as [[c0 r0] [tk|]] eqn:He; [|intros H Hs; inversion H; subst; destruct Hs].
    expect_case He. destruct (regress_opts E T eof (S (length r0)) c r0 (tk_str tk)) as [[ok c2] r2] eqn:Ho.
    destruct ok; intros H Hs; inversion H; subst; try destruct Hs.
    apply regress_opts_sound in Ho. destruct Ho as [opts [tsv [-> [Hm Ha]]]].
    exists (E_regress (tk_str tk) opts), (tk :: tsv). simpl. rewrite erase_str by assumption. rewrite Hm, Ha. auto.
  Qed.

  (* ---------------------------------------------------------------- dispatch *)
  Lemma run_pfun_sound f c ts rv c1 r :
    run_pfun E T eof f c ts = (rv, c1, r) -> succeeded rv -> sound_at f c ts rv c1 r.
  Proof.
    destruct f; simpl; intros H Hs.
    - inversion H; subst. destruct Hs.
    - eapply parse_boolean_sound; eauto.
    - eapply parse_integer_sound; eauto.
    - eapply parse_string_sound; eauto.
    - eapply parse_list_sound_at; eauto.
    - eapply parse_glob_sound; eauto.
    - eapply parse_user_sound; eauto.
    - eapply parse_directory_sound; eauto.
    - eapply parse_canvas_directory_sound; eauto.
    - eapply parse_canvas_step_sound; eauto.
    - eapply parse_regress_sound; eauto.
    - eapply parse_regress_env_sound; eauto.
    - eapply parse_regress_timeout_sound; eauto.
  Qed.

  (* config_parse_keyword *)
  Lemma parse_keyword_sound c tk ts rv c1 r :
    tk_type tk = T_KEYWORD ->
    parse_keyword E T eof c tk ts = (rv, c1, r) -> succeeded rv ->
    exists e tsv, ts = tsv ++ r /\ map erase (tk :: tsv) = render_entry e
                  /\ run_entries E T c [e] = Some c1.
  Proof.
    intros Hk. unfold parse_keyword.
    destruct (grammar_for_keyword (t_grammar T) (tk_str tk)) as [g|] eqn:Hg; [|intros H Hs; inversion H; subst; destruct Hs].
    destruct (run_pfun E T eof (gr_fn g) c ts) as [[rv0 c0] r0] eqn:Hp.
    destruct (negb (gr_rep g) && present c (tk_str tk)) eqn:Hnr; intros H Hs; inversion H; subst; [destruct Hs|].
    destruct (run_pfun_sound _ _ _ _ _ _ Hp Hs) as [ev [tsv [-> [Hm [Hf Ha]]]]].
    exists (mk_entry (tk_str tk) ev), tsv. split; [reflexivity|]. split.
    - unfold render_entry. simpl. rewrite erase_kw by assumption. now rewrite Hm.
    - simpl. rewrite Hg, Hf. simpl.
      assert (Hrep : gr_rep g || negb (present c (tk_str tk)) = true).
      { destruct (gr_rep g); simpl in *; [reflexivity|]. now rewrite Hnr. }
      rewrite Hrep. unfold apply_entry. simpl. rewrite Ha. destruct rv; simpl; try reflexivity; destruct Hs.
  Qed.

  Lemma run_entries_app c es1 es2 c1 :
    run_entries E T c es1 = Some c1 -> run_entries E T c (es1 ++ es2) = run_entries E T c1 es2.
  Proof.
    revert c. induction es1 as [|e es1 IH]; intros c H; simpl in *; [inversion H; reflexivity|].
    destruct (grammar_for_keyword (t_grammar T) (en_kw e)); [|discriminate].
    destruct (value_fits (gr_fn g) (en_val e) && (gr_rep g || negb (present c (en_kw e)))); [|discriminate].
    destruct (apply_entry E T c g e); [|discriminate]. now apply IH.
  Qed.

  (* the for(;;) of config_parse_inner *)
  Lemma parse_loop_error_sticks fuel : forall c ts c1 e, parse_loop E T eof fuel c ts true = (c1, e) -> e = true.
  Proof.
    induction fuel as [|fuel IH]; intros c ts c1 e H; simpl in H; [inversion H; reflexivity|].
    destruct ts as [|t r]; [inversion H; reflexivity|].
    destruct (ttype_eqb (tk_type t) T_KEYWORD); [|inversion H; reflexivity].
    destruct (parse_keyword E T eof c t r) as [[rv c0] r0].
    destruct rv; [eapply IH; exact H|eapply IH; exact H|eapply IH; exact H|inversion H; reflexivity].
  Qed.

  Lemma parse_loop_sound fuel : forall c ts c1,
    parse_loop E T eof fuel c ts false = (c1, false) ->
    exists es, map erase ts = flat_map render_entry es /\ run_entries E T c es = Some c1.
  Proof.
    induction fuel as [|fuel IH]; intros c ts c1 H; simpl in H; [inversion H|].
    destruct ts as [|t r]; [inversion H; subst; exists []; auto|].
    destruct (ttype_eqb_spec (tk_type t) T_KEYWORD) as [Hk|Hk]; [|inversion H].
    destruct (parse_keyword E T eof c t r) as [[rv c0] r0] eqn:Hp.
    assert (Hs : succeeded rv).
    { destruct rv; simpl; auto.
      - apply parse_loop_error_sticks in H. discriminate.
      - inversion H. }
    destruct (parse_keyword_sound _ _ _ _ _ _ Hk Hp Hs) as [e [tsv [-> [Hm Hr]]]].
    assert (H' : parse_loop E T eof fuel c0 r0 false = (c1, false)) by (destruct rv; try destruct Hs; exact H).
    destruct (IH _ _ _ H') as [es [Hm2 Hr2]].
    exists (e :: es). split.
    - change (t :: tsv ++ r0) with ((t :: tsv) ++ r0). rewrite map_app, Hm, Hm2. reflexivity.
    - change (e :: es) with ([e] ++ es). rewrite (run_entries_app _ _ _ _ Hr). exact Hr2.
  Qed.
End Sound.

(* config_validate *)
Lemma validate_false G : forall c c1, validate G c = (c1, false) ->
  c1 = c /\ forallb (fun g => negb (gr_req g) || present c (gr_kw g)) G = true.
Proof.
  induction G as [|g G IH]; intros c c1 H; simpl in *; [inversion H; auto|].
  destruct (gr_req g && negb (present c (gr_kw g))) eqn:Hq.
  - destruct (validate G _) as [c2 b]. inversion H.
  - destruct (IH _ _ H) as [-> Hf]. split; [reflexivity|]. rewrite Hf, andb_true_r.
    destruct (gr_req g); simpl in *; [|reflexivity]. apply negb_false_iff in Hq. exact Hq.
Qed.

Theorem parse_tokens_sound E T toks eof c :
  parse_tokens E T toks eof [] = Accepted c -> conforms_to E T toks c.
Proof.
  unfold parse_tokens.
  destruct (parse_loop E T eof (S (length toks)) (with_diags (cfg_init T) []) toks false) as [c1 error] eqn:Hl.
  destruct (lexer_get_error c1); [discriminate|].
  destruct (validate (t_grammar T) c1) as [c2 verr] eqn:Hv.
  destruct verr; [discriminate|]. destruct error; [discriminate|]. intros H; inversion H; subst.
  apply validate_false in Hv. destruct Hv as [-> Hreq].
  apply parse_loop_sound in Hl. destruct Hl as [es [Hm Hr]].
  exists es. split; [exact Hm|]. split; [exact Hr|exact Hreq].
Qed.
