(* DocExceptions.v - where the C tables are NOT what the manual pages say.

   Conf/DocSpec.v holds the documented rows and nothing else.  This file lists, per mode, every difference between
   those rows and the rows of the C tables, hand-typed and annotated; Conf/ConfTie.v proves by computation that the
   list is EXACTLY the difference (the documented table with the exceptions applied has the same rows as the regenerated
   one, and every exception is proper: an added name is undocumented, a dropped or replaced name is documented and the
   replacement differs from the documented row).  So a keyword, type, flag or default that changes in the C sources, or a
   row that is edited here or in DocSpec, stops a proof.

   Classes (what the difference means for a user; which of them contradict property C08 is argued in
   findings/C08_doc_vs_code.md):
     XC_undocumented_variable     the code answers ${name} / accepts the keyword, no page mentions it
     XC_documented_without_row    a page documents the variable, the code knows it only after it has been assigned
                                  (an option was given, -v was passed); a reference to it is otherwise an error
     XC_directory_not_checked     the page describes a directory on this machine (rule R2), the code takes any string
     XC_repeatable_undocumented   the code lets the keyword be given several times, the page does not say so
     XC_default_text              the documented default and the code's differ as text (equal unless a -v overrides)
     XC_representation            same behaviour, different initialiser: "Defaults to no" is { NULL } in C, not D_I32(0) *)
From Robsd Require Export Conf.DocSpec.
From Coq Require Import String.
Local Open Scope string_scope.

Inductive xclass :=
| XC_undocumented_variable | XC_documented_without_row | XC_directory_not_checked
| XC_repeatable_undocumented | XC_default_text | XC_representation.

Inductive exception :=
| X_add (g : grammar)         (* a row of the code for a name no page documents *)
| X_drop (kw : bytes)         (* a documented name the code has no row for *)
| X_replace (g : grammar).    (* the code's row for a documented name; it differs from the documented one *)

(* a row as the C tables spell it *)
Definition crow (kw : string) (ty : vtype) (fn : pfun) (req rep pat early : bool) (d : gdefault) : grammar :=
  mk_grammar (bs kw) ty fn req rep pat early d.

(* conf.c common_grammar: five rows no page mentions *)
Definition exc_common : list (xclass * exception) := [
  (XC_undocumented_variable, X_add (crow "build-user"  VT_STRING PF_none false false false false (D_str (bs "build"))));
  (XC_undocumented_variable, X_add (crow "exec-dir"    VT_STRING PF_none false false false false (D_fun DF_exec_dir)));
  (XC_undocumented_variable, X_add (crow "report-path" VT_STRING PF_none false false false false (D_str (bs "${builddir}/report"))));
  (XC_undocumented_variable, X_add (crow "tags-path"   VT_STRING PF_none false false false false (D_str (bs "${builddir}/tags"))));
  (XC_undocumented_variable, X_add (crow "trace"       VT_STRING PF_none false false false false (D_fun DF_trace)))
].

Definition doc_exceptions_own (m : mode) : list (xclass * exception) :=
  match m with
  | ROBSD => [
      (* robsd.conf.5:55-58 "Defaults to no" = 0; conf-robsd.c: { NULL }, which an INTEGER row renders as 0 *)
      (XC_representation, X_replace (crow "reboot" VT_INTEGER PF_boolean false false false false D_null)) ]
  | ROBSD_CROSS => [
      (* robsd-config.8:66; robsd-cross passes -v target=..., the table has no row: ${target} without -v is an error *)
      (XC_documented_without_row, X_drop (bs "target")) ]
  | ROBSD_PORTS => [
      (* robsd-ports.conf.5:22-25, :94-96: directories by rule R2; conf-robsd-ports.c: STRING, config_parse_string *)
      (XC_directory_not_checked, X_replace (crow "chroot"    VT_STRING PF_string true  false false false D_null));
      (XC_directory_not_checked, X_replace (crow "ports-dir" VT_STRING PF_string false false false false (D_str (bs "/usr/ports")))) ]
  | ROBSD_REGRESS => [
      (XC_representation, X_replace (crow "rdonly" VT_INTEGER PF_boolean false false false false D_null));
      (* robsd-regress.conf.5:131-132 does not say "multiple times"; conf-robsd-regress.c: REP (the lists accumulate) *)
      (XC_repeatable_undocumented, X_replace (crow "regress-env" VT_LIST PF_regress_env false true false false D_null));
      (* :143-145 "Defaults to build"; the code's default is a reference to the undocumented build-user *)
      (XC_default_text, X_replace (crow "regress-user" VT_STRING PF_user false false false false (D_str (bs "${build-user}"))));
      (* no page names these two; the targets OPTION is documented (:125-129 "Defaults to regress"), the variable is not *)
      (XC_undocumented_variable, X_add (crow "regress-*-parallel" VT_INTEGER PF_none false false true false (D_fun DF_parallel)));
      (XC_undocumented_variable, X_add (crow "regress-*-targets"  VT_LIST    PF_none false false true false (D_fun DF_regress_targets)));
      (* robsd-config.8:80, :84, :86: defined by the obj / quiet / root option of some test, otherwise unknown *)
      (XC_documented_without_row, X_drop (bs "regress-obj"));
      (XC_documented_without_row, X_drop (bs "regress-*-quiet"));
      (XC_documented_without_row, X_drop (bs "regress-*-root")) ]
  | CANVAS => [
      (* D7: canvas.conf.5 has no robsddir; conf.c common_grammar gives every mode the settable, required directory *)
      (XC_undocumented_variable, X_add (crow "robsddir" VT_DIRECTORY PF_directory true false false false D_null)) ]
  end.

Definition doc_exceptions (m : mode) : list (xclass * exception) := doc_exceptions_own m ++ exc_common.

(* ---- applying the exceptions to a table *)
Definition drop_kw (kw : bytes) (l : list grammar) : list grammar := filter (fun g => negb (beq (gr_kw g) kw)) l.

Definition apply_exception (l : list grammar) (x : exception) : list grammar :=
  match x with
  | X_add g => g :: l
  | X_drop kw => drop_kw kw l
  | X_replace g => g :: drop_kw (gr_kw g) l
  end.

Definition as_built_rows (m : mode) : list grammar :=
  fold_left apply_exception (map snd (doc_exceptions m)) (doc_rows m).

Definition as_built_table_robsd : list grammar := Eval vm_compute in canon (as_built_rows ROBSD).
Definition as_built_table_cross : list grammar := Eval vm_compute in canon (as_built_rows ROBSD_CROSS).
Definition as_built_table_ports : list grammar := Eval vm_compute in canon (as_built_rows ROBSD_PORTS).
Definition as_built_table_regress : list grammar := Eval vm_compute in canon (as_built_rows ROBSD_REGRESS).
Definition as_built_table_canvas : list grammar := Eval vm_compute in canon (as_built_rows CANVAS).
Definition as_built_table (m : mode) : list grammar :=
  match m with
  | ROBSD => as_built_table_robsd | ROBSD_CROSS => as_built_table_cross | ROBSD_PORTS => as_built_table_ports
  | ROBSD_REGRESS => as_built_table_regress | CANVAS => as_built_table_canvas
  end.

(* ---- decidable equality of rows, to say "differs" *)
Definition vtype_eqb (a b : vtype) : bool :=
  match a, b with
  | VT_INVALID, VT_INVALID | VT_INTEGER, VT_INTEGER | VT_STRING, VT_STRING | VT_DIRECTORY, VT_DIRECTORY | VT_LIST, VT_LIST => true
  | _, _ => false
  end.
Definition pfun_idx (f : pfun) : N :=
  match f with
  | PF_none => 0 | PF_boolean => 1 | PF_integer => 2 | PF_string => 3 | PF_list => 4 | PF_glob => 5 | PF_user => 6
  | PF_directory => 7 | PF_canvas_directory => 8 | PF_canvas_step => 9 | PF_regress => 10 | PF_regress_env => 11
  | PF_regress_timeout => 12
  end.
Definition dfun_idx (f : dfun) : N :=
  match f with
  | DF_build_dir => 0 | DF_exec_dir => 1 | DF_inet4 => 2 | DF_inet6 => 3 | DF_ncpu => 4 | DF_trace => 5
  | DF_rdomain => 6 | DF_regress_targets => 7 | DF_parallel => 8
  end.
Definition gdefault_eqb (a b : gdefault) : bool :=
  match a, b with
  | D_null, D_null => true
  | D_str s, D_str t => beq s t
  | D_macro M_MACHINE, D_macro M_MACHINE | D_macro M_MACHINE_ARCH, D_macro M_MACHINE_ARCH => true
  | D_i32 x, D_i32 y => Z.eqb x y
  | D_fun f, D_fun g => N.eqb (dfun_idx f) (dfun_idx g)
  | _, _ => false
  end.
Definition grammar_eqb (a b : grammar) : bool :=
  beq (gr_kw a) (gr_kw b) && vtype_eqb (gr_type a) (gr_type b) && N.eqb (pfun_idx (gr_fn a)) (pfun_idx (gr_fn b))
  && Bool.eqb (gr_req a) (gr_req b) && Bool.eqb (gr_rep a) (gr_rep b) && Bool.eqb (gr_pat a) (gr_pat b)
  && Bool.eqb (gr_early a) (gr_early b) && gdefault_eqb (gr_default a) (gr_default b).

Definition has_kw (l : list grammar) (kw : bytes) : bool := existsb (fun g => beq (gr_kw g) kw) l.

(* an exception is PROPER with respect to the documented rows: it really is a difference *)
Definition proper (docs : list grammar) (x : exception) : bool :=
  match x with
  | X_add g => negb (has_kw docs (gr_kw g))
  | X_drop kw => has_kw docs kw
  | X_replace g => has_kw docs (gr_kw g) && negb (existsb (grammar_eqb g) docs)
  end.

(* the difference computed from the two tables: what must be added, dropped, replaced to get from [docs] to [code] *)
Definition table_diff (docs code : list grammar) : list exception :=
  map X_drop (map gr_kw (filter (fun d => negb (has_kw code (gr_kw d))) docs))
  ++ map X_replace (filter (fun c => has_kw docs (gr_kw c) && negb (existsb (grammar_eqb c) docs)) code)
  ++ map X_add (filter (fun c => negb (has_kw docs (gr_kw c))) code).

Definition exception_kw (x : exception) : bytes :=
  match x with X_add g => gr_kw g | X_drop kw => kw | X_replace g => gr_kw g end.

(* representation-only exceptions do not change what a lookup yields *)
Definition same_default_value (a b : grammar) : Prop :=
  gr_type a = gr_type b /\ gr_type a = VT_INTEGER
  /\ match gr_default a, gr_default b with
     | D_i32 0%Z, D_null | D_null, D_i32 0%Z => True
     | _, _ => False
     end.

(* ---- the token table: robsd-regress.conf.5:136-141 documents the units s, m, h for regress-timeout, a keyword of that
   page only; conf-token.h makes "s" a token of every mode (its mode column is 0).  Acceptance is not affected (a
   bare word s is rejected either way: "want KEYWORD, got SECONDS" instead of "unknown keyword 's'"). *)
Definition token_exceptions : list (ttype * option mode) := [ (T_SECONDS, None) ].

(* ---- canvas.conf.5:24-27: "step" Dq name [options] - the options are optional (.Op Ar options), so a step without
   command conforms to the page; :33 command { "argument" ... } has at least one argument.  config_parse_canvas_step
   rejects a step without command ("mandatory step option 'command' missing"). *)
Definition doc_step_shape (has_command : bool) (nonempty_command : bool) : bool :=
  negb has_command || nonempty_command.
Definition code_step_shape (has_command : bool) (nonempty_command : bool) : bool :=
  has_command && nonempty_command.
