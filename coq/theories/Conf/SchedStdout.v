(* SchedStdout.v - C10, "listing from offset k yields exactly the suffix starting at step k", on what
   robsd-step -L writes to STDOUT, for every offset 1 .. INT_MAX - in particular k = N + 1 (and beyond): the
   suffix is empty, nothing is printed (robsd-step says "offset too large" on stderr and exits 1; the property's
   observation point is stdout).  [L_offset_too_large] and every other failure print nothing. *)
From Robsd Require Import Conf.SchedDefs Conf.SchedProofs Conf.SchedNames.
Local Open Scope N_scope.

Definition stdout_of (r : listres) : bytes :=
  match r with L_ok o => o | _ => [] end.

Lemma skipn_all_nil {A} (l : list A) n : (length l <= n)%nat -> skipn n l = [].
Proof. revert n. induction l as [|x l IH]; intros [|n] H; simpl in *; try reflexivity; try lia. apply IH. lia. Qed.

Theorem offset_stdout_suffix E T text c steps c1 (k : nat) :
  config_parse E T text = Accepted c -> get_steps E T (after_parse T c) false = (c1, Some steps) ->
  (1 <= k)%nat -> (Z.of_nat k <= int_max)%Z ->
  stdout_of (list_cmd E T text (Some (render_Z (Z.of_nat k)))) = list_lines k (skipn (k - 1) steps).
Proof.
  intros Hp Hg H1 Hmax. rewrite (list_cmd_offset_decimal E T text c steps c1 k Hp Hg H1 Hmax).
  destruct (Nat.ltb_spec (length steps) k) as [Hlt|Hge]; [|reflexivity].
  rewrite skipn_all_nil by lia. reflexivity.
Qed.

(* the corollary for the offset one past the last step: exit status aside, exactly the (empty) suffix *)
Corollary offset_past_end_stdout E T text c steps c1 :
  config_parse E T text = Accepted c -> get_steps E T (after_parse T c) false = (c1, Some steps) ->
  (Z.of_nat (S (length steps)) <= int_max)%Z ->
  list_cmd E T text (Some (render_Z (Z.of_nat (S (length steps))))) = L_offset_too_large /\
  stdout_of (list_cmd E T text (Some (render_Z (Z.of_nat (S (length steps)))))) = [] /\
  list_lines (S (length steps)) (skipn (S (length steps) - 1) steps) = [].
Proof.
  intros Hp Hg Hmax.
  pose proof (list_cmd_offset_decimal E T text c steps c1 (S (length steps)) Hp Hg ltac:(lia) Hmax) as H.
  destruct (Nat.ltb_spec (length steps) (S (length steps))) as [_|Hge]; [|lia].
  rewrite H. split; [reflexivity|]. split; [reflexivity|].
  rewrite skipn_all_nil by lia. reflexivity.
Qed.

(* an accepted configuration without a schedule, a rejected one, a refused offset: nothing on stdout *)
Lemma failure_prints_nothing r : (forall o, r <> L_ok o) -> stdout_of r = [].
Proof. destruct r; intros H; try reflexivity. now contradiction (H stdout). Qed.
