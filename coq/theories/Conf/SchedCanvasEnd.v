(* SchedCanvasEnd.v - C10: how canvas appends its synthetic end step, with the switch the translator reads
   from conf-canvas.c (Gen_Conf.canvas_end_reserved).

   config_canvas_after_parse calls config_steps_add_script(cf->canvas.steps, "/dev/null", "end"), which takes the
   vector pointer BY VALUE.  libks grows a vector from capacity 16 by doubling (vector_reserve1): when the append
   has to grow it - exactly when 16, 32, 64, ... steps are configured - the block may move and cf->canvas.steps is
   left pointing at freed memory: the step list is LOST (observed on the source as shipped: double free / abort
   with 16 steps, nothing listed with 32).  /repo 8c850c1 reserves the room through the real pointer first
   (VECTOR_RESERVE(cf->canvas.steps, 1)), after which the append never reallocates.

   [after_parse] of ConfDefs.v is the append as such; [end_append_loses] says when the source loses the list;
   [list_cmd_with] is robsd-step -L with that taken into account.  [list_cmd_in_force]: for the source as it is
   now - the switch is [true] - robsd-step -L IS [list_cmd], so every canvas theorem of Properties_C10.v speaks
   about the code; it stops compiling when the reservation is removed.  [end_append_unreserved]: without it the
   model loses the list exactly at the growth points (the driver's `listv` command runs this model, so a revert
   makes the correspondence on corpus/C10/04, 05 fail as well). *)
From Robsd Require Import Conf.SchedDefs.
From RobsdGen Require Import Gen_Conf.
Local Open Scope N_scope.

(* the capacity reaches exactly n by doubling from cap *)
Fixpoint doubles_to (fuel cap n : nat) : bool :=
  match fuel with
  | O => false
  | S f => Nat.eqb n cap || (Nat.ltb cap n && doubles_to f (2 * cap) n)
  end.

(* appending one element to a vector of n elements makes vector_reserve1 reallocate *)
Definition grows_at (n : nat) : bool := Nat.eqb n 0 || doubles_to n 16 n.

Definition end_append_loses (reserved : bool) (T : tables) (c : cfg) : bool :=
  match t_mode T with
  | CANVAS => negb reserved && grows_at (length (c_steps c))
  | _ => false
  end.

Inductive listres_v := LV (r : listres) | LV_lost.   (* LV_lost: cf->canvas.steps is stale, anything may happen *)

(* [c] is the configuration BEFORE the end step is appended *)
Definition list_cmd_with (reserved : bool) (E : env) (T : tables) (text : bytes) (offset : option bytes) : listres_v :=
  match list_cmd E T text offset with
  | L_offset_invalid r => LV (L_offset_invalid r)          (* refused before the configuration is read *)
  | r =>
      match config_parse E T text with
      | Accepted c => if end_append_loses reserved T c then LV_lost else LV r
      | Rejected _ => LV r
      end
  end.

Lemma reserved_never_loses T c : end_append_loses true T c = false.
Proof. unfold end_append_loses. destruct (t_mode T); reflexivity. Qed.

(* THE PIN WITH CONTENT: for the source in force the listing is [list_cmd] *)
Theorem list_cmd_in_force :
  canvas_end_reserved = true ->
  forall E T text offset, list_cmd_with canvas_end_reserved E T text offset = LV (list_cmd E T text offset).
Proof.
  intros -> E T text offset. unfold list_cmd_with.
  destruct (list_cmd E T text offset); try reflexivity;
    destruct (config_parse E T text); try reflexivity; now rewrite reserved_never_loses.
Qed.

(* HISTORICAL: without the reservation the list is lost exactly when the number of configured steps is a growth
   point of the vector *)
Lemma canvas_tables_mode : t_mode (tables_of CANVAS) = CANVAS.
Proof. reflexivity. Qed.

Theorem end_append_unreserved c :
  end_append_loses false (tables_of CANVAS) c = grows_at (length (c_steps c)).
Proof. unfold end_append_loses. rewrite canvas_tables_mode. reflexivity. Qed.

Lemma growth_points :
  map grows_at [1; 15; 16; 17; 31; 32; 33; 63; 64; 65; 128]%nat
  = [false; false; true; false; false; true; false; false; true; false; true].
Proof. reflexivity. Qed.

(* a canvas configuration with n steps "s1" ... *)
From Coq Require Import String.
Fixpoint canvas_steps_text (n : nat) : bytes :=
  match n with
  | O => []
  | S k => canvas_steps_text k ++ bs "step ""s"" command { ""true"" }
"
  end.
Definition canvas_text (n : nat) : bytes :=
  bs "canvas-name ""x""
canvas-dir ""/r""
" ++ canvas_steps_text n.

Definition canvas_wit_env : env :=
  mk_env (fun p => if beq p (bs "/r") then DS_dir else DS_err 2) (fun _ => true) (fun _ => GL_nomatch) (fun _ => F_noopen)
         (Some (bs "/x")) 4%Z [] [] (bs "amd64") (bs "amd64").

(* 16 and 32 configured steps: lost without the reservation, listed (17 / 33 lines) with it; 15 steps: listed either way *)
Definition lines_listed (r : listres_v) : option nat :=
  match r with LV (L_ok o) => Some (List.length (filter (N.eqb 10) o)) | _ => None end.

Theorem canvas_end_unreserved_refuted :
  list_cmd_with false canvas_wit_env (tables_of CANVAS) (canvas_text 16) None = LV_lost /\
  list_cmd_with false canvas_wit_env (tables_of CANVAS) (canvas_text 32) None = LV_lost /\
  lines_listed (list_cmd_with true canvas_wit_env (tables_of CANVAS) (canvas_text 16) None) = Some 17%nat /\
  lines_listed (list_cmd_with true canvas_wit_env (tables_of CANVAS) (canvas_text 32) None) = Some 33%nat /\
  lines_listed (list_cmd_with false canvas_wit_env (tables_of CANVAS) (canvas_text 15) None) = Some 16%nat.
Proof. repeat split; vm_compute; reflexivity. Qed.
