(* ConfPrim.v - what interpolation can do to a configuration.
   Looking a variable up changes the configuration only by: appending a
   variable whose NAME is answered by a row with a computed default (FUN), moving
   the rdomain counter, flagging a trap, adding a diagnostic that is not
   lexer-class.  Any property closed under these four steps survives
   config_interpolate_str and config_interpolate_early. *)
From Robsd Require Import Conf.ConfSpec Conf.ConfInv.
Local Open Scope N_scope.

Section PrimInv.
  Variable E : env.
  Variable T : tables.
  Variable P : cfg -> Prop.

  (* the computed defaults that define a variable when they are consulted *)
  Definition appends (f : dfun) : bool :=
    match f with DF_rdomain | DF_parallel => false | _ => true end.

  (* the name is answered by a row with such a default *)
  Definition fun_name (n : bytes) : Prop :=
    exists g f, grammar_for_interp (t_grammar T) n = Some g /\ gr_default g = D_fun f /\ appends f = true.

  Hypothesis P_append_fun : forall c n v, fun_name n -> P c -> P (cfg_append c n v).
  Hypothesis P_rdomain : forall c r, P c -> P (set_rdomain c r).
  Hypothesis P_abort : forall c, P c -> P (set_abort c).
  Hypothesis P_diag : forall c d, is_lexer_msg (d_msg d) = false -> P c -> P (add_diag c d).

  Lemma prim_find_plain c n : P c -> P (fst (config_find_plain E T c n)).
  Proof.
    intros H. unfold config_find_plain. destruct (find_var (c_vars c) n); [exact H|].
    destruct (grammar_for_interp (t_grammar T) n) as [g|]; [|exact H]. destruct (gr_req g); [exact H|].
    destruct (gr_default g); try (destruct (default_value E g); simpl; auto); simpl; auto.
  Qed.

  Lemma prim_rdomain_next c : P c -> P (fst (rdomain_next T c)).
  Proof. intros H. unfold rdomain_next. destruct (_ =? _)%Z; simpl; apply P_rdomain, H. Qed.

  Section WithBd.
    Variable bd : cfg -> bytes -> cfg * option value.
    Hypothesis bd_pres : forall c n, fun_name n -> P c -> P (fst (bd c n)).

    Lemma prim_call_fun f c n : (appends f = true -> fun_name n) -> P c -> P (fst (call_fun E T bd f c n)).
    Proof.
      intros Hn H. destruct f; simpl; auto using prim_find_plain.
      pose proof (prim_rdomain_next c H) as Hr. destruct (rdomain_next T c). exact Hr.
    Qed.

    Lemma prim_config_find c n : P c -> P (fst (config_find E T bd c n)).
    Proof.
      intros H. unfold config_find. destruct (find_var (c_vars c) n); [exact H|].
      destruct (grammar_for_interp (t_grammar T) n) as [g|] eqn:Hg; [|exact H]. destruct (gr_req g); [exact H|].
      destruct (gr_default g) eqn:Hd; try (destruct (default_value E g); simpl; auto; fail).
      apply prim_call_fun; [|exact H]. intros Ha. exists g, f. auto.
    Qed.

    Lemma prim_lookup early c n : P c -> P (fst (lookup E T bd early c n)).
    Proof.
      intros H. unfold lookup. destruct (early && negb (is_early (t_grammar T) n)); [exact H|].
      pose proof (prim_config_find c n H) as Hf. destruct (config_find E T bd c n) as [c1 ov]. simpl in Hf.
      destruct ov as [[| | |]|]; exact Hf.
    Qed.
  End WithBd.

  Lemma prim_build_dir c n : fun_name n -> P c -> P (fst (build_dir E T c n)).
  Proof.
    intros Hn H. unfold build_dir, sinterp_str.
    assert (Hnest : forall c0 n0, fun_name n0 -> P c0 -> P (fst (bd_nested T c0 n0))).
    { intros c0 n0 _ Hc. unfold bd_nested. destruct (t_builddir_guard T); [exact Hc|apply P_abort, Hc]. }
    pose proof (sinterp_pres P false (lookup E T (bd_nested T) false)
                  (fun st m Hst => prim_lookup (bd_nested T) Hnest false st m Hst)
                  (pred (t_depth_limit T)) c (cstr running_tmpl) H) as Hs.
    destruct (sinterp _ _ _ c _) as [c1 r]. simpl in Hs. destruct r as [p|e].
    - destruct (e_file E p); [exact Hs|]. destruct (first_line (cstr b)); simpl.
      + apply P_append_fun; assumption.
      + apply P_diag; [reflexivity|exact Hs].
    - simpl. apply P_diag; [reflexivity|exact Hs].
  Qed.

  Lemma prim_lookup1 early c n : P c -> P (fst (lookup1 E T early c n)).
  Proof. apply prim_lookup. apply prim_build_dir. Qed.

  Lemma prim_cfg_interp c s : P c -> P (fst (cfg_interp E T c s)).
  Proof. intros H. unfold cfg_interp, sinterp_str. apply sinterp_pres; [|exact H]. intros; now apply prim_lookup1. Qed.

  Lemma prim_cfg_interp_early c s : P c -> P (fst (cfg_interp_early E T c s)).
  Proof. intros H. unfold cfg_interp_early, sinterp_str. apply sinterp_pres; [|exact H]. intros; now apply prim_lookup1. Qed.

  Lemma prim_dir_ok c s c1 : P c -> dir_ok E T c s = Some c1 -> P c1.
  Proof.
    intros H. unfold dir_ok. destruct s as [|b s]; [discriminate|].
    pose proof (prim_cfg_interp c (b :: s) H) as Hi. destruct (cfg_interp E T c (b :: s)) as [c2 r]. simpl in Hi.
    destruct r as [p|e]; [|discriminate]. destruct (e_dir E p); try discriminate. intros H1; inversion H1; subst. exact Hi.
  Qed.
End PrimInv.
