(* ConfTypes.v - the data the configuration model works on: modes, token
   types, tokens, grammar tables (struct grammar of conf-priv.h), values
   (struct variable_value), the environment the parser consults, diagnostics,
   and the parser state (struct config).  Definitions only.

   The tables themselves are NOT here: they are regenerated from the C sources
   on every run (coq/gen/Gen_Conf.v, harness/t_conf.py) and, independently,
   transcribed by hand from the manual pages (Conf/DocSpec.v). *)
From Robsd Require Export Base.Bytes Base.Decimal Interp.InterpDefs.
Local Open Scope N_scope.

(* mode.h FOR_ROBSD_MODES *)
Inductive mode := ROBSD | ROBSD_CROSS | ROBSD_PORTS | ROBSD_REGRESS | CANVAS.

Definition mode_eqb (a b : mode) : bool :=
  match a, b with
  | ROBSD, ROBSD | ROBSD_CROSS, ROBSD_CROSS | ROBSD_PORTS, ROBSD_PORTS
  | ROBSD_REGRESS, ROBSD_REGRESS | CANVAS, CANVAS => true
  | _, _ => false
  end.

(* conf-token.h FOR_TOKEN_TYPES, plus LEXER_EOF of lexer.h *)
Inductive ttype :=
| T_UNKNOWN | T_BOOLEAN | T_INTEGER | T_STRING | T_KEYWORD | T_LBRACE | T_RBRACE
| T_COMMAND | T_ENV | T_HOURS | T_MINUTES | T_NO | T_NO_PARALLEL | T_OBJ | T_PACKAGES
| T_PARALLEL | T_QUIET | T_ROOT | T_SECONDS | T_TARGETS | T_YES
| T_EOF.

Definition ttype_idx (t : ttype) : N :=
  match t with
  | T_UNKNOWN => 0 | T_BOOLEAN => 1 | T_INTEGER => 2 | T_STRING => 3 | T_KEYWORD => 4
  | T_LBRACE => 5 | T_RBRACE => 6 | T_COMMAND => 7 | T_ENV => 8 | T_HOURS => 9
  | T_MINUTES => 10 | T_NO => 11 | T_NO_PARALLEL => 12 | T_OBJ => 13 | T_PACKAGES => 14
  | T_PARALLEL => 15 | T_QUIET => 16 | T_ROOT => 17 | T_SECONDS => 18 | T_TARGETS => 19
  | T_YES => 20 | T_EOF => 21
  end.

Definition ttype_eqb (a b : ttype) : bool := ttype_idx a =? ttype_idx b.

Lemma ttype_eqb_spec a b : reflect (a = b) (ttype_eqb a b).
Proof.
  unfold ttype_eqb. destruct (N.eqb_spec (ttype_idx a) (ttype_idx b)) as [H|H]; constructor.
  - destruct a, b; simpl in H; try reflexivity; discriminate.
  - intros ->. apply H. reflexivity.
Qed.

Lemma ttype_eqb_refl a : ttype_eqb a a = true.
Proof. unfold ttype_eqb. apply N.eqb_refl. Qed.

(* struct token: type, line, string payload (STRING, KEYWORD), integer payload
   (INTEGER, BOOLEAN) *)
Record token := mk_token { tk_type : ttype; tk_lno : Z; tk_str : bytes; tk_int : Z }.

(* one row of FOR_TOKEN_TYPES: type, literal, the mode it is restricted to *)
Record tokrow := mk_tokrow { tr_type : ttype; tr_key : bytes; tr_mode : option mode }.

(* enum variable_type *)
Inductive vtype := VT_INVALID | VT_INTEGER | VT_STRING | VT_DIRECTORY | VT_LIST.

(* which function gr_fn points to *)
Inductive pfun :=
| PF_none | PF_boolean | PF_integer | PF_string | PF_list | PF_glob | PF_user | PF_directory
| PF_canvas_directory | PF_canvas_step | PF_regress | PF_regress_env | PF_regress_timeout.

(* which function gr_default.fun points to *)
Inductive dfun :=
| DF_build_dir | DF_exec_dir | DF_inet4 | DF_inet6 | DF_ncpu | DF_trace
| DF_rdomain | DF_regress_targets | DF_parallel.

Inductive cmacro := M_MACHINE | M_MACHINE_ARCH.

Inductive gdefault :=
| D_null                      (* { NULL } *)
| D_str (s : bytes)           (* { "..." } *)
| D_macro (m : cmacro)        (* { MACHINE } / { MACHINE_ARCH } *)
| D_i32 (z : Z)               (* { D_I32(n) } *)
| D_fun (f : dfun).           (* { D_FUN(f) }, flag FUN *)

(* struct grammar; FUN is represented by gr_default = D_fun _ (the translator
   refuses a table where the flag and the initialiser disagree) *)
Record grammar := mk_grammar {
  gr_kw : bytes; gr_type : vtype; gr_fn : pfun;
  gr_req : bool; gr_rep : bool; gr_pat : bool; gr_early : bool;
  gr_default : gdefault }.

(* struct config_step of the static tables: name and script path; None marks
   the ${regress} placeholder row { NULL, { NULL } } *)
Definition steprow := option (bytes * bytes).

(* one argument of the argv template of config_steps_add_script *)
Inductive argtmpl := A_lit (s : bytes) | A_script | A_name.

(* everything the translator reads out of the sources for one mode *)
Record tables := mk_tables {
  t_mode : mode;
  t_tokens : list tokrow;
  t_grammar : list grammar;          (* mode grammar followed by common_grammar, as config_copy_grammar builds it *)
  t_steps : list steprow;
  t_argv : list argtmpl;             (* config_steps_add_script *)
  t_regress_script : bytes;          (* "${exec-dir}/robsd-regress-exec.sh" *)
  t_canvas_end : bytes * bytes;      (* config_canvas_after_parse: (script, name) *)
  t_rdomain_min : Z;
  t_rdomain_max : Z;
  t_rdomain_fixed : bool;            (* which of the two known bodies config_default_rdomain has *)
  t_execdir_default : bytes;
  t_depth_limit : nat;
  t_interp_path : bool;              (* whether the interpolations done while parsing pass the configuration path to interpolate.c (findings/D16_interp_diag_path.diff) *)
  t_builddir_guard : bool            (* whether config_default_build_dir refuses to be re-entered (findings/D18_builddir_reentry.diff) *) }.

(* struct variable_value; DIRECTORY-typed defaults render like strings and are
   represented by VStr *)
Inductive value := VInvalid | VInt (z : Z) | VStr (s : bytes) | VList (l : list bytes).

(* the world outside the parser *)
Inductive dstat := DS_dir | DS_notdir | DS_err (errno : N).
Inductive globres := GL_match (l : list bytes) | GL_nomatch | GL_err.
Inductive fileres := F_noopen | F_content (b : bytes).

Record env := mk_env {
  e_dir : bytes -> dstat;            (* stat(2) + S_ISDIR *)
  e_user : bytes -> bool;            (* getpwnam(3) != NULL *)
  e_glob : bytes -> globres;         (* glob(3) with GLOB_ERR *)
  e_file : bytes -> fileres;         (* open + read of ${robsddir}/.running *)
  e_execdir : option bytes;          (* getenv("EXECDIR") *)
  e_ncpu : Z;                        (* sysconf(_SC_NPROCESSORS_ONLN), -1 replaced by 1 by the caller *)
  e_inet4 : bytes; e_inet6 : bytes;  (* if_group_addr("egress", ...) or "" *)
  e_machine : bytes; e_arch : bytes  (* MACHINE, MACHINE_ARCH of config.h *) }.

(* diagnostics: where the message says it comes from, the line, the text class *)
Inductive dpath := P_conf | P_stdin | P_none.

Inductive dmsg :=
(* through lexer_error(): counted in lx_err, always prefixed with the configuration path *)
| M_want (exp act : ttype)
| M_unknown_keyword (s : bytes)
| M_already_defined (s : bytes)
| M_mandatory_missing (s : bytes)
| M_integer_too_big
| M_unterminated_string
| M_empty_string
| M_user_not_found (s : bytes)
| M_dir_error (path : bytes) (errno : N)
| M_not_a_directory (path : bytes)
| M_glob_error
| M_step_command_missing
| M_unknown_timeout_unit
| M_timeout_too_large
(* through log_warnx() of interpolate.c: not counted by the lexer *)
| M_interp (e : ierr)
(* plain warnx *)
| M_line_not_found (path : bytes)
| M_no_separator (s : bytes)
| M_cannot_define (s : bytes).

Record diag := mk_diag { d_path : dpath; d_lno : Z; d_msg : dmsg }.

Definition is_lexer_msg (m : dmsg) : bool :=
  match m with
  | M_interp _ | M_line_not_found _ | M_no_separator _ | M_cannot_define _ => false
  | _ => true
  end.

(* a canvas step as config_parse_canvas_step stores it *)
Record cstep := mk_cstep { cs_name : bytes; cs_command : list bytes; cs_parallel : bool }.

(* struct config, the part that changes while parsing and interpolating *)
Record cfg := mk_cfg {
  c_vars : list (bytes * value);     (* cf->variables, in order of definition *)
  c_rdomain : Z;                     (* cf->interpolate.rdomain *)
  c_trace : bool;                    (* cf->interpolate.trace *)
  c_steps : list cstep;              (* cf->canvas.steps *)
  c_diags : list diag;               (* stderr, newest first *)
  c_abort : bool                     (* the C program would have trapped: assert, __builtin_trap, unbounded recursion *) }.

(* the path the "invalid substitution" diagnostics of the parser carry *)
Definition ipath (T : tables) : dpath := if t_interp_path T then P_conf else P_none.

Definition cfg_init (T : tables) : cfg :=
  mk_cfg [] (t_rdomain_min T) false [] [] false.

Definition set_vars (c : cfg) v := mk_cfg v (c_rdomain c) (c_trace c) (c_steps c) (c_diags c) (c_abort c).
Definition set_rdomain (c : cfg) r := mk_cfg (c_vars c) r (c_trace c) (c_steps c) (c_diags c) (c_abort c).
Definition set_trace (c : cfg) t := mk_cfg (c_vars c) (c_rdomain c) t (c_steps c) (c_diags c) (c_abort c).
Definition set_steps (c : cfg) s := mk_cfg (c_vars c) (c_rdomain c) (c_trace c) s (c_diags c) (c_abort c).
Definition add_diag (c : cfg) (d : diag) := mk_cfg (c_vars c) (c_rdomain c) (c_trace c) (c_steps c) (d :: c_diags c) (c_abort c).
Definition set_abort (c : cfg) := mk_cfg (c_vars c) (c_rdomain c) (c_trace c) (c_steps c) (c_diags c) true.

(* config_append *)
Definition cfg_append (c : cfg) (name : bytes) (v : value) : cfg :=
  set_vars c (c_vars c ++ [(name, v)]).
