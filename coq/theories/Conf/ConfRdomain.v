(* ConfRdomain.v - the values successive ${rdomain} references yield.
   config_default_rdomain is [rdomain_next]; the translator says which of the
   two known bodies the source has ([t_rdomain_fixed]).
     shipped:   11,12,...,255,11,11,12,...   (the wrap hands out 11 twice)
     repaired:  11,12,...,255,11,12,...      (period max - min) *)
From Robsd Require Import Conf.ConfDefs.
Local Open Scope Z_scope.

(* the value of the (k+1)-th reference from configuration c, and the configuration after k references *)
Fixpoint rd_after (T : tables) (k : nat) (c : cfg) : cfg :=
  match k with O => c | S k' => rd_after T k' (fst (rdomain_next T c)) end.

Definition rd_val (T : tables) (k : nat) (c : cfg) : Z := snd (rdomain_next T (rd_after T k c)).

(* documented behaviour: cycling through min .. max-1 *)
Definition rd_spec (T : tables) (k : nat) : Z :=
  t_rdomain_min T + Z.of_nat k mod (t_rdomain_max T - t_rdomain_min T).

Lemma rd_after_S T k c : rd_after T (S k) c = fst (rdomain_next T (rd_after T k c)).
Proof. revert c. induction k as [|k IH]; intros c; [reflexivity|]. simpl in *. now rewrite IH. Qed.

Section Cycle.
  Variable T : tables.
  Let lo := t_rdomain_min T.
  Let hi := t_rdomain_max T.
  Hypothesis lo_lt_hi : lo < hi.

  (* the counter is in lo..hi; hi stands for "wrap on the next reference" *)
  Definition norm (x : Z) : Z := if x =? hi then lo else x.

  Lemma step_fixed c j :
    t_rdomain_fixed T = true -> 0 <= j < hi - lo -> norm (c_rdomain c) = lo + j ->
    snd (rdomain_next T c) = lo + j /\ norm (c_rdomain (fst (rdomain_next T c))) = lo + (j + 1) mod (hi - lo).
  Proof.
    intros Hf Hj Hn. unfold rdomain_next, norm in *. fold lo hi. rewrite Hf.
    destruct (Z.eqb_spec (c_rdomain c) hi) as [He|He]; simpl.
    - assert (j = 0) by lia. subst j. split; [lia|].
      destruct (Z.eqb_spec (lo + 1) hi) as [H1|H1].
      + replace (hi - lo) with 1 by lia. rewrite Z.mod_1_r. lia.
      + rewrite Z.mod_small by lia. lia.
    - split; [lia|]. destruct (Z.eqb_spec (c_rdomain c + 1) hi) as [H1|H1].
      + replace (j + 1) with (hi - lo) by lia. rewrite Z.mod_same by lia. lia.
      + rewrite Z.mod_small by lia. lia.
  Qed.

  Lemma fixed_after k : forall c j,
    t_rdomain_fixed T = true -> 0 <= j < hi - lo -> norm (c_rdomain c) = lo + j ->
    norm (c_rdomain (rd_after T k c)) = lo + (j + Z.of_nat k) mod (hi - lo).
  Proof.
    induction k as [|k IH]; intros c j Hf Hj Hn.
    - simpl. rewrite Z.add_0_r, Z.mod_small by lia. exact Hn.
    - simpl rd_after. destruct (step_fixed c j Hf Hj Hn) as [_ Hs].
      rewrite (IH _ ((j + 1) mod (hi - lo)) Hf); [| apply Z.mod_pos_bound; lia | exact Hs].
      f_equal. rewrite Nat2Z.inj_succ, Zplus_mod_idemp_l. f_equal. lia.
  Qed.

  (* the repaired body: every reference, for ever *)
  Theorem fixed_cycle c k :
    t_rdomain_fixed T = true -> c_rdomain c = lo -> rd_val T k c = rd_spec T k.
  Proof.
    intros Hf Hc. unfold rd_val, rd_spec. fold lo hi.
    assert (Hn : norm (c_rdomain c) = lo + 0).
    { unfold norm. rewrite Hc. destruct (Z.eqb_spec lo hi); lia. }
    pose proof (fixed_after k c 0 Hf ltac:(lia) Hn) as Ha. rewrite Z.add_0_l in Ha.
    destruct (step_fixed (rd_after T k c) (Z.of_nat k mod (hi - lo)) Hf ltac:(apply Z.mod_pos_bound; lia) Ha) as [Hv _].
    exact Hv.
  Qed.

  Theorem fixed_consecutive_distinct c k :
    t_rdomain_fixed T = true -> c_rdomain c = lo -> 1 < hi - lo -> rd_val T k c <> rd_val T (S k) c.
  Proof.
    intros Hf Hc Hm. rewrite !fixed_cycle by assumption. unfold rd_spec. fold lo hi.
    rewrite Nat2Z.inj_succ. set (m := hi - lo). set (x := Z.of_nat k).
    assert (Hx : 0 <= x) by (unfold x; lia).
    intros H. assert (H2 : x mod m = Z.succ x mod m) by lia.
    pose proof (Z.mod_pos_bound x m ltac:(lia)) as Hb.
    destruct (Z.eq_dec (x mod m + 1) m) as [He|He].
    - assert (Z.succ x mod m = 0).
      { unfold Z.succ. rewrite <- Zplus_mod_idemp_l, He, Z.mod_same by lia. reflexivity. }
      lia.
    - assert (Z.succ x mod m = x mod m + 1).
      { unfold Z.succ. rewrite <- Zplus_mod_idemp_l. apply Z.mod_small. lia. }
      lia.
  Qed.

  (* the shipped body: right as long as no more than hi - lo references were made before *)
  Lemma shipped_after k : forall c,
    t_rdomain_fixed T = false -> c_rdomain c = lo -> (Z.of_nat k <= hi - lo) ->
    c_rdomain (rd_after T k c) = lo + Z.of_nat k.
  Proof.
    induction k as [|k IH]; intros c Hf Hc Hk; [simpl; lia|].
    rewrite rd_after_S. rewrite Nat2Z.inj_succ in *. specialize (IH c Hf Hc ltac:(lia)).
    unfold rdomain_next. fold lo hi. destruct (Z.eqb_spec (c_rdomain (rd_after T k c)) hi) as [He|He]; simpl; lia.
  Qed.

  Theorem shipped_first_cycle c k :
    t_rdomain_fixed T = false -> c_rdomain c = lo -> (Z.of_nat k <= hi - lo) -> rd_val T k c = rd_spec T k.
  Proof.
    intros Hf Hc Hk. unfold rd_val, rd_spec. fold lo hi.
    pose proof (shipped_after k c Hf Hc Hk) as Ha. unfold rdomain_next. fold lo hi.
    destruct (Z.eqb_spec (c_rdomain (rd_after T k c)) hi) as [He|He]; simpl.
    - replace (Z.of_nat k) with (hi - lo) by lia. rewrite Z.mod_same by lia. lia.
    - rewrite Z.mod_small by lia. lia.
  Qed.
End Cycle.
