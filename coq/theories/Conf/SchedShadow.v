(* SchedShadow.v - witnesses for what SchedNames.v proves in general: the step
   runner addresses a step by NAME and takes the first one; the listing
   addresses it by POSITION.  Where a configuration repeats a name, a listed
   position exists that no invocation of the runner can reach:

     regress "umount"          the test is listed at 7, the fixed step umount
                               at 9; `robsd-exec umount` runs the test - the
                               file systems are never unmounted, the test runs twice
     regress "env"             the other way round: the fixed step env shadows the test
     canvas step "end"         the configured step shadows the synthetic end step
     canvas, one name twice    the second command is never executed

   and the line format "<number> <name>[ parallel]" of robsd-step -L does not
   determine the schedule when a name holds a blank or a newline
   ([listing_ambiguous], [listing_newline]).  All replayed on the real
   robsd-step / robsd-exec, see findings/C10_name_collisions.md. *)
From Robsd Require Import Conf.SchedDefs Conf.SchedSpec Conf.ConfTie Conf.SchedProofs Conf.SchedNames.
From RobsdGen Require Import Gen_Conf.
From Coq Require Import String.
Local Open Scope N_scope.

Definition shadow_regress_text : bytes :=
  bs "robsddir ""/r""
regress ""umount""
regress ""bin/ls""
".

Lemma shadow_regress_umount :
  list_cmd sched_wit_env TRg shadow_regress_text None =
  L_ok (bs "1 env
2 pkg-add
3 cvs
4 patch
5 obj
6 mount
7 umount parallel
8 bin/ls parallel
9 umount
10 revert
11 pkg-del
12 dmesg
13 end
")
  (* the runner resolves the name to step 7; the command of step 9 is unreachable *)
  /\ resolve sched_wit_env TRg shadow_regress_text false (bs "umount")
     = Some [bs "sh"; bs "-eu"; bs "/x/robsd-regress-exec.sh"; bs "umount"]
  /\ exists c1 steps s9, get_steps sched_wit_env TRg (after_parse TRg (cfg_of (config_parse sched_wit_env TRg shadow_regress_text))) false = (c1, Some steps)
       /\ nth_error steps 8 = Some s9 /\ ss_name s9 = bs "umount"
       /\ ss_cmd s9 = [bs "sh"; bs "-eu"; bs "/x/robsd-regress-umount.sh"; bs "umount"]
       /\ forall n, find_step steps n <> Some s9.
Proof.
  split; [vm_compute; reflexivity|]. split; [vm_compute; reflexivity|].
  destruct (get_steps sched_wit_env TRg (after_parse TRg (cfg_of (config_parse sched_wit_env TRg shadow_regress_text))) false) as [c1 res] eqn:Hg.
  vm_compute in Hg. inversion Hg; subst. clear Hg.
  eexists _, _, _. split; [reflexivity|]. split; [reflexivity|]. split; [reflexivity|]. split; [reflexivity|].
  intros n Hf.
  match type of Hf with find_step ?steps n = Some ?s9 =>
    assert (Hsh := shadowed_never_resolved steps 8 6 s9 _ ltac:(vm_compute; repeat constructor; discriminate) ltac:(lia) eq_refl eq_refl eq_refl n Hf)
  end.
  destruct Hsh as [k [Hk Hn]]. do 8 (destruct k as [|k]; [vm_compute in Hn; discriminate Hn|]). lia.
Qed.

Definition shadow_regress_env_text : bytes :=
  bs "robsddir ""/r""
regress ""env""
".

(* the fixed step env shadows the regress test env: the test is never run *)
Lemma shadow_regress_env :
  resolve sched_wit_env TRg shadow_regress_env_text false (bs "env")
  = Some [bs "sh"; bs "-eu"; bs "/x/robsd-env.sh"; bs "env"].
Proof. vm_compute. reflexivity. Qed.

Definition shadow_canvas_text : bytes :=
  bs "canvas-name ""x""
canvas-dir ""/r""
step ""a"" command { ""echo"" ""first"" }
step ""a"" command { ""echo"" ""second"" }
step ""end"" command { ""echo"" ""mine"" }
".

Lemma shadow_canvas :
  list_cmd sched_wit_env (tables_of CANVAS) shadow_canvas_text None = L_ok (bs "1 a
2 a
3 end
4 end
")
  /\ resolve sched_wit_env (tables_of CANVAS) shadow_canvas_text false (bs "a") = Some [bs "echo"; bs "first"]
  /\ resolve sched_wit_env (tables_of CANVAS) shadow_canvas_text false (bs "end") = Some [bs "echo"; bs "mine"].
Proof. repeat split; vm_compute; reflexivity. Qed.

(* ---------------------------------------------------------------- the line format *)
Definition ambiguous_text_1 : bytes :=
  bs "robsddir ""/r""
regress ""a parallel"" no-parallel
".
Definition ambiguous_text_2 : bytes :=
  bs "robsddir ""/r""
regress ""a""
".

(* two schedules (a test "a parallel" that does not run in parallel / a test "a" that does), one listing *)
Lemma listing_ambiguous :
  list_cmd sched_wit_env TRg ambiguous_text_1 None = list_cmd sched_wit_env TRg ambiguous_text_2 None
  /\ (exists out, list_cmd sched_wit_env TRg ambiguous_text_1 None = L_ok out)
  /\ resolve sched_wit_env TRg ambiguous_text_1 false (bs "a") = None
  /\ resolve sched_wit_env TRg ambiguous_text_2 false (bs "a parallel") = None.
Proof. split; [vm_compute; reflexivity|]. split; [eexists; vm_compute; reflexivity|]. split; vm_compute; reflexivity. Qed.

Definition newline_text : bytes :=
  bs "robsddir ""/r""
regress ""x
7 y""
".

(* a name with a newline: the listing shows a line "7 y parallel" after the line "7 x" *)
Lemma listing_newline :
  list_cmd sched_wit_env TRg newline_text None =
  L_ok (bs "1 env
2 pkg-add
3 cvs
4 patch
5 obj
6 mount
7 x
7 y parallel
8 umount
9 revert
10 pkg-del
11 dmesg
12 end
").
Proof. vm_compute. reflexivity. Qed.
