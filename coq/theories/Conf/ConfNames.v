(* ConfNames.v - the byte strings the configuration model spells out, as
   normalised constants (kept apart so that Coq.Strings.String, which shadows
   List.length, is imported only here). *)
From Robsd Require Export Base.Bytes.
From Coq Require Import String.

Definition minus_x : bytes := Eval vm_compute in bs "-x".
Definition kw_parallel : bytes := Eval vm_compute in bs "parallel".
Definition str_regress : bytes := Eval vm_compute in bs "regress".
Definition running_tmpl : bytes := Eval vm_compute in bs "${robsddir}/.running".
Definition regress_prefix : bytes := Eval vm_compute in bs "regress-".
Definition kw_canvas_dir : bytes := Eval vm_compute in bs "canvas-dir".
Definition kw_robsddir : bytes := Eval vm_compute in bs "robsddir".
Definition kw_step : bytes := Eval vm_compute in bs "step".
Definition kw_regress_env : bytes := Eval vm_compute in bs "regress-env".
Definition kw_regress_obj : bytes := Eval vm_compute in bs "regress-obj".
Definition kw_regress_packages : bytes := Eval vm_compute in bs "regress-packages".
Definition sfx_env : bytes := Eval vm_compute in bs "env".
Definition sfx_parallel : bytes := Eval vm_compute in bs "parallel".
Definition sfx_quiet : bytes := Eval vm_compute in bs "quiet".
Definition sfx_root : bytes := Eval vm_compute in bs "root".
Definition sfx_targets : bytes := Eval vm_compute in bs "targets".
Definition regress_env_ref : bytes := Eval vm_compute in bs "${regress-env}".
