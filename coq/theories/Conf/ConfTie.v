(* ConfTie.v - the regenerated tables (coq/gen/Gen_Conf.v) against the
   hand-transcribed documentation (Conf/DocSpec.v) and the hand-typed list of
   differences (Conf/DocExceptions.v).  Each lemma is a closed computation: it
   stops compiling when a keyword, type, parser, flag, default, step or constant
   of the sources no longer is what the manual pages say plus the listed exceptions. *)
From Robsd Require Import Conf.ConfDefs Conf.DocSpec Conf.DocExceptions.
From RobsdGen Require Import Gen_Conf.

Definition gen_grammar (m : mode) : list grammar := t_grammar (tables_of m).

(* the code's table = the documented rows with the exceptions applied, up to the order of the rows; all five modes *)
Lemma tables_match_as_built m : canon (gen_grammar m) = as_built_table m.
Proof. destruct m; vm_compute; reflexivity. Qed.

Lemma as_built_is_canon m : as_built_table m = canon (as_built_rows m).
Proof. destruct m; vm_compute; reflexivity. Qed.

(* sorting exceptions by the name they speak about *)
Fixpoint insert_exc (x : exception) (l : list exception) : list exception :=
  match l with
  | [] => [x]
  | h :: t => if bytes_leb (exception_kw x) (exception_kw h) then x :: l else h :: insert_exc x t
  end.
Definition xcanon (l : list exception) : list exception := fold_right insert_exc [] l.

(* THE LIST IS EXACTLY THE DIFFERENCE: computed from the documented and the regenerated table (rows only in one, rows of
   the same name that differ) it is the hand-typed, annotated list - nothing is missing from it, nothing in it is idle *)
Lemma exceptions_are_the_difference m :
  xcanon (table_diff (doc_table m) (canon (gen_grammar m))) = xcanon (map snd (doc_exceptions m)).
Proof. destruct m; vm_compute; reflexivity. Qed.

Lemma exceptions_proper m : forallb (proper (doc_rows m)) (map snd (doc_exceptions m)) = true.
Proof. destruct m; vm_compute; reflexivity. Qed.

(* ... hence in NO mode is the code's table the documented one *)
Lemma tables_match_docs_refuted m : canon (gen_grammar m) <> doc_table m.
Proof.
  intros H. pose proof (exceptions_are_the_difference m) as D. rewrite H in D.
  destruct m; vm_compute in D; discriminate.
Qed.

(* D7 in particular: the canvas table of the code has a settable, required robsddir the page does not have *)
Lemma tables_match_docs_canvas_refuted :
  grammar_for_keyword (gen_grammar CANVAS) kw_robsddir <> None /\
  grammar_for_keyword (doc_table CANVAS) kw_robsddir = None /\
  canon (gen_grammar CANVAS) <> doc_table CANVAS.
Proof.
  split; [vm_compute; discriminate|]. split; [vm_compute; reflexivity|]. apply tables_match_docs_refuted.
Qed.

(* the representation-only exceptions (class XC_representation) yield the same default value as the documented row:
   an INTEGER row with { NULL } renders 0, as D_I32(0) does *)
Definition same_default_b (d g : grammar) : bool :=
  vtype_eqb (gr_type d) VT_INTEGER && vtype_eqb (gr_type g) VT_INTEGER
  && match gr_default d, gr_default g with
     | D_i32 0%Z, D_null | D_null, D_i32 0%Z => true
     | _, _ => false
     end.

Lemma same_default_value_b E d g : same_default_b d g = true -> default_value E d = default_value E g.
Proof.
  unfold same_default_b, default_value. destruct (gr_type d); try discriminate. destruct (gr_type g); try discriminate.
  destruct (gr_default d) as [| | |z|]; destruct (gr_default g) as [| | |z'|]; try discriminate;
    try (destruct z; discriminate); try (destruct z'; discriminate); try reflexivity;
    (destruct z as [|p|p]; try discriminate; reflexivity) || (destruct z' as [|p|p]; try discriminate; reflexivity).
Qed.

Lemma representation_exceptions_harmless m :
  forallb (fun cx => match cx with
                     | (XC_representation, X_replace g) =>
                         existsb (fun d => beq (gr_kw d) (gr_kw g) && same_default_b d g) (doc_rows m)
                     | (XC_representation, _) => false
                     | _ => true
                     end) (doc_exceptions m) = true.
Proof. destruct m; vm_compute; reflexivity. Qed.

(* every mode reads the same token table, argv template and constants *)
Lemma token_table_same m : t_tokens (tables_of m) = token_table.
Proof. destruct m; reflexivity. Qed.

Lemma mode_of_tables m : t_mode (tables_of m) = m.
Proof. destruct m; reflexivity. Qed.

(* rdomain: RDOMAIN_MIN .. RDOMAIN_MAX - 1 is the documented range *)
Lemma rdomain_range_matches_docs m :
  t_rdomain_min (tables_of m) = doc_rdomain_first /\ (t_rdomain_max (tables_of m) - 1)%Z = doc_rdomain_last.
Proof. destruct m; split; reflexivity. Qed.

(* the static step names, in order, with the placeholder removed *)
Fixpoint step_names (l : list steprow) : list bytes :=
  match l with
  | [] => []
  | Some (n, _) :: r => n :: step_names r
  | None :: r => step_names r
  end.

(* drop repeated occurrences of a name that was seen before (robsd runs env twice) *)
Fixpoint dedup (seen : list bytes) (l : list bytes) : list bytes :=
  match l with
  | [] => []
  | x :: r => if existsb (beq x) seen then dedup seen r else x :: dedup (x :: seen) r
  end.

Lemma steps_match_docs m :
  m <> CANVAS -> dedup [] (step_names (t_steps (tables_of m))) = doc_steps m.
Proof. destruct m; intros H; try contradiction (H eq_refl); vm_compute; reflexivity. Qed.

Lemma canvas_end_matches_docs : [snd (t_canvas_end (tables_of CANVAS))] = doc_steps CANVAS.
Proof. vm_compute. reflexivity. Qed.

(* yes/no lex to the documented 1/0 in every mode *)
Lemma yes_no_tokens m :
  word_token (tables_of m) 0 [121; 101; 115]%N = mk_token T_BOOLEAN 0 [] doc_yes /\
  word_token (tables_of m) 0 [110; 111]%N = mk_token T_BOOLEAN 0 [] doc_no.
Proof. destruct m; split; vm_compute; reflexivity. Qed.
