(* ConfTie.v - the regenerated tables (coq/gen/Gen_Conf.v) against the
   hand-transcribed documentation (Conf/DocSpec.v).  Each lemma is a closed
   computation: it stops compiling when a keyword, type, parser, flag, default,
   step or constant of the sources no longer is what the manual pages say. *)
From Robsd Require Import Conf.ConfDefs Conf.DocSpec.
From RobsdGen Require Import Gen_Conf.

Definition gen_grammar (m : mode) : list grammar := t_grammar (tables_of m).

Lemma tables_match_docs_robsd : canon (gen_grammar ROBSD) = doc_table ROBSD.
Proof. vm_compute. reflexivity. Qed.
Lemma tables_match_docs_cross : canon (gen_grammar ROBSD_CROSS) = doc_table ROBSD_CROSS.
Proof. vm_compute. reflexivity. Qed.
Lemma tables_match_docs_ports : canon (gen_grammar ROBSD_PORTS) = doc_table ROBSD_PORTS.
Proof. vm_compute. reflexivity. Qed.
Lemma tables_match_docs_regress : canon (gen_grammar ROBSD_REGRESS) = doc_table ROBSD_REGRESS.
Proof. vm_compute. reflexivity. Qed.

Lemma tables_match_docs_non_canvas m : m <> CANVAS -> canon (gen_grammar m) = doc_table m.
Proof.
  destruct m; intros H; try contradiction (H eq_refl).
  - exact tables_match_docs_robsd.
  - exact tables_match_docs_cross.
  - exact tables_match_docs_ports.
  - exact tables_match_docs_regress.
Qed.

(* D7: the canvas table of the code is the documented one plus a settable,
   required robsddir *)
Lemma tables_match_docs_canvas_partial :
  canon (gen_grammar CANVAS) = insert_row canvas_extra_row (doc_table CANVAS).
Proof. vm_compute. reflexivity. Qed.

Lemma tables_match_docs_canvas_refuted :
  grammar_for_keyword (gen_grammar CANVAS) kw_robsddir <> None /\
  grammar_for_keyword (doc_table CANVAS) kw_robsddir = None /\
  canon (gen_grammar CANVAS) <> doc_table CANVAS.
Proof.
  split; [vm_compute; discriminate|]. split; [vm_compute; reflexivity|].
  intros H. apply (f_equal (@length grammar)) in H. vm_compute in H. discriminate.
Qed.

(* every mode reads the same token table, argv template and constants *)
Lemma token_table_same m : t_tokens (tables_of m) = token_table.
Proof. destruct m; reflexivity. Qed.

Lemma mode_of_tables m : t_mode (tables_of m) = m.
Proof. destruct m; reflexivity. Qed.

(* rdomain: RDOMAIN_MIN .. RDOMAIN_MAX - 1 is the documented range *)
Lemma rdomain_range_matches_docs m :
  t_rdomain_min (tables_of m) = doc_rdomain_first /\ (t_rdomain_max (tables_of m) - 1)%Z = doc_rdomain_last.
Proof. destruct m; split; reflexivity. Qed.

(* the static step names, in order, with the placeholder removed *)
Fixpoint step_names (l : list steprow) : list bytes :=
  match l with
  | [] => []
  | Some (n, _) :: r => n :: step_names r
  | None :: r => step_names r
  end.

(* drop repeated occurrences of a name that was seen before (robsd runs env twice) *)
Fixpoint dedup (seen : list bytes) (l : list bytes) : list bytes :=
  match l with
  | [] => []
  | x :: r => if existsb (beq x) seen then dedup seen r else x :: dedup (x :: seen) r
  end.

Lemma steps_match_docs m :
  m <> CANVAS -> dedup [] (step_names (t_steps (tables_of m))) = doc_steps m.
Proof. destruct m; intros H; try contradiction (H eq_refl); vm_compute; reflexivity. Qed.

Lemma canvas_end_matches_docs : [snd (t_canvas_end (tables_of CANVAS))] = doc_steps CANVAS.
Proof. vm_compute. reflexivity. Qed.

(* yes/no lex to the documented 1/0 in every mode *)
Lemma yes_no_tokens m :
  word_token (tables_of m) 0 [121; 101; 115]%N = mk_token T_BOOLEAN 0 [] doc_yes /\
  word_token (tables_of m) 0 [110; 111]%N = mk_token T_BOOLEAN 0 [] doc_no.
Proof. destruct m; split; vm_compute; reflexivity. Qed.
