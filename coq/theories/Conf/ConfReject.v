(* ConfReject.v - every rejection comes with a diagnostic.
   [errd d]: d is lexer-class (lexer_error prints these with the path of the
   configuration file), or it is the "invalid substitution" message of
   interpolate.c printed without a path.  Every failing routine leaves such a
   diagnostic; the fuel of the loops and of the lexer is never exhausted. *)
From Robsd Require Import Conf.ConfSpec Conf.ConfSound Conf.ConfInv Conf.ConfComplete Conf.ConfDiag.
Local Open Scope N_scope.

Section Good.
Variable T : tables.

Definition errd (d : diag) : Prop :=
  is_lexer_msg (d_msg d) = true \/ (d_path d = ipath T /\ exists e, d_msg d = M_interp e).

Definition good (c : cfg) : Prop := exists d, In d (c_diags c) /\ errd d.

Lemma good_same c c' : c_diags c' = c_diags c -> good c -> good c'.
Proof. unfold good. intros ->. auto. Qed.
Lemma good_add c d : good c -> good (add_diag c d).
Proof. intros [d0 [Hin He]]. exists d0. split; [right; exact Hin|exact He]. Qed.
Lemma good_new c d : errd d -> good (add_diag c d).
Proof. intros He. exists d. split; [left; reflexivity|exact He]. Qed.
Lemma good_lexerr c lno m : is_lexer_msg m = true -> good (add_diag c (lexerr lno m)).
Proof. intros H. apply good_new. left. exact H. Qed.
Lemma good_interp c lno e : good (add_diag c (mk_diag (ipath T) lno (M_interp e))).
Proof. apply good_new. right. split; [reflexivity|exists e; reflexivity]. Qed.

Definition noempty (ts : list token) : Prop :=
  forall t, In t ts -> tk_type t = T_STRING -> tk_str t <> [].

Lemma noempty_suffix r ts : suffix_of r ts -> noempty ts -> noempty r.
Proof. intros [pre ->] H t Hin. apply H. apply in_or_app. now right. Qed.

Definition failed (rv : prv) : Prop := match rv with R_error | R_fatal => True | _ => False end.

Section Fail.
  Variable E : env.
  Variable eof : Z.

  Lemma f_expect c ts ty c1 r : expect eof c ts ty = (c1, r, None) -> good c1.
  Proof.
    unfold expect. destruct (next eof ts) as [t r0]. destruct (ttype_eqb (tk_type t) ty); intros H; inversion H; subst.
    now apply good_lexerr.
  Qed.

  Lemma f_list_items ts : forall c acc rv c1 r l, list_items eof c ts acc = (rv, c1, r, l) -> failed rv -> good c1.
  Proof.
    induction ts as [|t ts IH]; intros c acc rv c1 r l H Hf; simpl in H.
    - inversion H; subst. now apply good_lexerr.
    - destruct (ttype_eqb (tk_type t) T_RBRACE); [inversion H; subst; destruct Hf|].
      destruct (ttype_eqb (tk_type t) T_STRING); [eapply IH; eauto|]. inversion H; subst. now apply good_lexerr.
  Qed.

  Lemma f_parse_list_l c ts rv c1 r l : parse_list_l eof c ts = (rv, c1, r, l) -> failed rv -> good c1.
  Proof.
    unfold parse_list_l. destruct (expect eof c ts T_LBRACE) as [[c0 r0] [tk|]] eqn:He.
    - intros H Hf. eapply f_list_items; eauto.
    - intros H Hf. inversion H; subst. eapply f_expect; eauto.
  Qed.

  Lemma f_parse_list c ts rv c1 r : parse_list eof c ts = (rv, c1, r) -> failed rv -> good c1.
  Proof.
    unfold parse_list. destruct (parse_list_l eof c ts) as [[[rv0 c0] r0] l] eqn:Hp. simpl.
    intros H Hf; inversion H; subst. eapply f_parse_list_l; eauto.
  Qed.

  (* a list routine yields a list or fails *)
  Lemma parse_list_cases c ts rv c1 r :
    parse_list eof c ts = (rv, c1, r) -> (exists l, rv = R_append (VList l)) \/ failed rv.
  Proof.
    unfold parse_list, parse_list_l. destruct (expect eof c ts T_LBRACE) as [[c0 r0] [tk|]].
    - destruct (list_items eof c0 r0 []) as [[[rv0 c2] r2] l] eqn:Hl. simpl. intros H; inversion H; subst.
      destruct (list_items_rv _ _ _ _ _ _ _ _ Hl) as [->|[l0 ->]]; [right; exact I|left; eauto].
    - simpl. intros H; inversion H; subst. right. exact I.
  Qed.

  Lemma f_parse_directory c ts rv c1 r :
    noempty ts -> parse_directory E T eof c ts = (rv, c1, r) -> failed rv -> good c1.
  Proof.
    intros Hne. unfold parse_directory. destruct (expect eof c ts T_STRING) as [[c0 r0] [tk|]] eqn:He.
    - apply expect_some in He; [|discriminate]. destruct He as [-> [-> Ht]].
      destruct (tk_str tk) as [|b s] eqn:Es.
      + exfalso. apply (Hne tk (or_introl eq_refl) Ht Es).
      + destruct (cfg_interp E T c (b :: s)) as [c2 [p|e]].
        * destruct (e_dir E p); intros H Hf; inversion H; subst; try destruct Hf; now apply good_lexerr.
        * intros H Hf; inversion H; subst. apply good_interp.
    - intros H Hf; inversion H; subst. eapply f_expect; eauto.
  Qed.

  Lemma f_step_opts fuel : forall c ts cmd par last c1 r,
    (length ts < fuel)%nat -> step_opts eof fuel c ts cmd par last = (None, c1, r) -> good c1.
  Proof.
    induction fuel as [|fuel IH]; intros c ts cmd par last c1 r Hlen H; [lia|]. simpl in H.
    unfold lexer_if in H. destruct ts as [|t ts'].
    - simpl in H. discriminate.
    - simpl in H. simpl in Hlen. destruct (ttype_eqb (tk_type t) T_COMMAND).
      + pose proof (parse_list_l_suffix eof c ts') as Hs.
        destruct (parse_list_l eof c ts') as [[[rv c0] r1] l1] eqn:Hp. simpl in Hs. apply suffix_length in Hs.
        destruct rv as [[| | |l]| | |]; try (inversion H; subst; eapply f_parse_list_l; eauto; exact I).
        * apply parse_list_l_rv in Hp; [|exact I]. destruct Hp as [? Hp]; discriminate.
        * apply parse_list_l_rv in Hp; [|exact I]. destruct Hp as [? Hp]; discriminate.
        * apply parse_list_l_rv in Hp; [|exact I]. destruct Hp as [? Hp]; discriminate.
        * eapply IH; [|exact H]. lia.
        * apply parse_list_l_rv in Hp; [|exact I]. destruct Hp as [? Hp]; discriminate.
      + destruct (ttype_eqb (tk_type t) T_PARALLEL); [eapply IH; [|exact H]; lia|discriminate].
  Qed.

  Lemma f_parse_canvas_step c ts rv c1 r : parse_canvas_step eof c ts = (rv, c1, r) -> failed rv -> good c1.
  Proof.
    unfold parse_canvas_step. destruct (expect eof c ts T_STRING) as [[c0 r0] [tk|]] eqn:He.
    - destruct (step_opts eof (S (length r0)) c0 r0 None false (tk_lno tk)) as [[res c2] r2] eqn:Ho.
      destruct res as [[[cmd par] last]|].
      + destruct cmd as [[|a l]|]; intros H Hf; inversion H; subst; try destruct Hf; now apply good_lexerr.
      + intros H Hf; inversion H; subst. eapply f_step_opts; [|exact Ho]. lia.
    - intros H Hf; inversion H; subst. eapply f_expect; eauto.
  Qed.

  Lemma f_regress_option_env c ts path c1 r : regress_option_env E T eof c ts path = (false, c1, r) -> good c1.
  Proof.
    unfold regress_option_env. destruct (parse_list eof c ts) as [[rv c0] r0] eqn:Hp.
    destruct (parse_list_cases _ _ _ _ _ Hp) as [[l ->]|Hf].
    - destruct (cfg_interp_early E T _ _) as [c3 [str|e]]; intros H; inversion H; subst. apply good_interp.
    - intros H. assert (c1 = c0) by (destruct rv; try destruct Hf; inversion H; reflexivity). subst.
      eapply f_parse_list; eauto.
  Qed.

  Lemma f_regress_opts fuel : forall c ts path c1 r,
    (length ts < fuel)%nat -> regress_opts E T eof fuel c ts path = (false, c1, r) -> good c1.
  Proof.
    induction fuel as [|fuel IH]; intros c ts path c1 r Hlen H; [lia|]. simpl in H.
    destruct ts as [|t ts']; [simpl in H; discriminate|]. simpl in H, Hlen.
    assert (Hl : forall k,
               (let '(rv, c0, r1) := parse_list eof c ts' in
                match rv with
                | R_append (VList l) => regress_opts E T eof fuel (k c0 l) r1 path
                | _ => (false, c0, r1)
                end) = (false, c1, r) -> good c1).
    { intros k. pose proof (parse_list_suffix eof c ts') as Hs.
      destruct (parse_list eof c ts') as [[rv c0] r1] eqn:Hp. simpl in Hs. apply suffix_length in Hs.
      destruct (parse_list_cases _ _ _ _ _ Hp) as [[l ->]|Hf].
      - intros H1. eapply IH; [|exact H1]. lia.
      - intros H1. assert (c1 = c0) by (destruct rv; try destruct Hf; inversion H1; reflexivity). subst.
        eapply f_parse_list; eauto. }
    destruct (tk_type t); try discriminate; try (eapply IH; [|exact H]; lia); try (eapply Hl; exact H).
    pose proof (regress_option_env_suffix E T eof c ts' path) as Hs.
    destruct (regress_option_env E T eof c ts' path) as [[ok c0] r1] eqn:Ho. simpl in Hs. apply suffix_length in Hs.
    destruct ok; [eapply IH; [|exact H]; lia|]. inversion H; subst. eapply f_regress_option_env; eauto.
  Qed.

  Lemma f_run_pfun f c ts rv c1 r :
    f <> PF_none -> noempty ts -> run_pfun E T eof f c ts = (rv, c1, r) -> failed rv -> good c1.
  Proof.
    intros Hn Hne. destruct f; simpl; try congruence.
    - unfold parse_boolean. destruct (expect eof c ts T_BOOLEAN) as [[c0 r0] [tk|]] eqn:He; intros H Hf; inversion H; subst; [destruct Hf|eapply f_expect; eauto].
    - unfold parse_integer. destruct (expect eof c ts T_INTEGER) as [[c0 r0] [tk|]] eqn:He; intros H Hf; inversion H; subst; [destruct Hf|eapply f_expect; eauto].
    - unfold parse_string. destruct (expect eof c ts T_STRING) as [[c0 r0] [tk|]] eqn:He; intros H Hf; inversion H; subst; [destruct Hf|eapply f_expect; eauto].
    - apply f_parse_list.
    - unfold parse_glob. destruct (expect eof c ts T_STRING) as [[c0 r0] [tk|]] eqn:He.
      + destruct (e_glob E (tk_str tk)); intros H Hf; inversion H; subst; try destruct Hf. now apply good_lexerr.
      + intros H Hf; inversion H; subst. eapply f_expect; eauto.
    - unfold parse_user. destruct (expect eof c ts T_STRING) as [[c0 r0] [tk|]] eqn:He.
      + destruct (e_user E (tk_str tk)); intros H Hf; inversion H; subst; try destruct Hf. now apply good_lexerr.
      + intros H Hf; inversion H; subst. eapply f_expect; eauto.
    - now apply f_parse_directory.
    - unfold parse_canvas_directory. destruct (parse_directory E T eof c ts) as [[rv0 c0] r0] eqn:Hp.
      destruct rv0; intros H Hf; inversion H; subst; try destruct Hf; eapply f_parse_directory; eauto; exact I.
    - apply f_parse_canvas_step.
    - unfold parse_regress. destruct (expect eof c ts T_STRING) as [[c0 r0] [tk|]] eqn:He.
      + destruct (regress_opts E T eof (S (length r0)) c0 r0 (tk_str tk)) as [[ok c2] r2] eqn:Ho.
        destruct ok; intros H Hf; inversion H; subst; [destruct Hf|]. eapply f_regress_opts; [|exact Ho]. lia.
      + intros H Hf; inversion H; subst. eapply f_expect; eauto.
    - unfold parse_regress_env. destruct (parse_list eof c ts) as [[rv0 c0] r0] eqn:Hp.
      destruct (parse_list_cases _ _ _ _ _ Hp) as [[l ->]|Hf0].
      + intros H Hf; inversion H; subst. destruct Hf.
      + intros H Hf. assert (c1 = c0) by (destruct rv0; try destruct Hf0; inversion H; reflexivity). subst.
        eapply f_parse_list; eauto.
    - unfold parse_regress_timeout, parse_integer.
      destruct (expect eof c ts T_INTEGER) as [[c0 r0] [tk|]] eqn:He; [|intros H Hf; inversion H; subst; eapply f_expect; eauto].
      destruct (next eof r0) as [u r1].
      destruct (tk_type u); try (intros H Hf; inversion H; subst; now apply good_lexerr);
        (destruct (mul_ov _ (tk_int tk)) as [v [|]]; intros H Hf; inversion H; subst; [now apply good_lexerr|destruct Hf]).
  Qed.

  Lemma find_grammar_some p G g : find_grammar p G = Some g -> p g = true.
  Proof.
    induction G as [|h G IH]; simpl; [discriminate|]. destruct (p h) eqn:Hp; [|exact IH].
    intros H; inversion H; subst. exact Hp.
  Qed.

  Lemma f_parse_keyword c tk ts rv c1 r :
    noempty ts -> parse_keyword E T eof c tk ts = (rv, c1, r) -> failed rv -> good c1.
  Proof.
    intros Hne. unfold parse_keyword.
    destruct (grammar_for_keyword (t_grammar T) (tk_str tk)) as [g|] eqn:Hg.
    - apply find_grammar_some in Hg. apply andb_true_iff in Hg. destruct Hg as [Hfn _].
      assert (Hn : gr_fn g <> PF_none) by (unfold has_fn in Hfn; destruct (gr_fn g); congruence).
      destruct (run_pfun E T eof (gr_fn g) c ts) as [[rv0 c0] r0] eqn:Hp.
      destruct (negb (gr_rep g) && present c (tk_str tk)).
      + intros H Hf; inversion H; subst. now apply good_lexerr.
      + intros H Hf; inversion H; subst. destruct rv; try destruct Hf; simpl; eapply f_run_pfun; eauto; exact I.
    - intros H Hf; inversion H; subst. now apply good_lexerr.
  Qed.

  Lemma f_parse_loop fuel : forall c ts c1,
    (length ts < fuel)%nat -> noempty ts -> parse_loop E T eof fuel c ts false = (c1, true) -> good c1.
  Proof.
    induction fuel as [|fuel IH]; intros c ts c1 Hlen Hne H; [lia|]. simpl in H.
    destruct ts as [|t r]; [discriminate|]. simpl in Hlen.
    destruct (ttype_eqb (tk_type t) T_KEYWORD); [|inversion H; subst; now apply good_lexerr].
    assert (Hner : noempty r) by (intros t0 Hin; apply Hne; now right).
    pose proof (parse_keyword_suffix E T eof c t r) as Hs.
    destruct (parse_keyword E T eof c t r) as [[rv c0] r0] eqn:Hp. simpl in Hs.
    pose proof (suffix_length _ _ Hs) as Hl. pose proof (noempty_suffix _ _ Hs Hner) as Hne0.
    destruct rv.
    - eapply IH; [| |exact H]; [lia|exact Hne0].
    - pose proof (f_parse_keyword _ _ _ _ _ _ Hner Hp I) as Hg.
      pose proof (st_parse_loop good (fun _ => True) (fun _ _ => I) (fun _ _ => I) good_same (fun c d _ => good_add c d) E T eof fuel c0 r0 true Hg) as Hst. rewrite H in Hst. exact Hst.
    - eapply IH; [| |exact H]; [lia|exact Hne0].
    - inversion H; subst. exact (f_parse_keyword _ _ _ _ _ _ Hner Hp I).
  Qed.
End Fail.

Lemma f_validate G : forall c c1, validate G c = (c1, true) -> good c1.
Proof.
  induction G as [|g G IH]; intros c c1 H; simpl in H; [discriminate|].
  destruct (gr_req g && negb (present c (gr_kw g))); [|eapply IH; eauto].
  pose proof (st_validate good (fun _ => True) (fun _ _ => I) (fun c d _ => good_add c d) G (add_diag c (lexerr 0 (M_mandatory_missing (gr_kw g))))
                (good_lexerr c 0 (M_mandatory_missing (gr_kw g)) eq_refl)) as Hst.
  destruct (validate G _) as [c2 b]. inversion H; subst. exact Hst.
Qed.

Lemma dirty_good c : lexer_get_error c = true -> good c.
Proof.
  unfold lexer_get_error. intros H. apply existsb_exists in H. destruct H as [d [Hin Hd]].
  exists d. split; [exact Hin|left; exact Hd].
Qed.
End Good.

(* ---------------------------------------------------------------- the lexer: fuel and empty strings *)
Lemma skip_ws_len s : forall lno, (length (snd (skip_ws lno s)) <= length s)%nat.
Proof. induction s as [|c s IH]; intros lno; simpl; [lia|]. destruct (is_space c); simpl; [specialize (IH (if c =? 10 then (lno + 1)%Z else lno)); lia|lia]. Qed.
Lemma skip_comment_len s : forall lno, (length (snd (skip_comment lno s)) <= length s)%nat.
Proof. induction s as [|c s IH]; intros lno; simpl; [lia|]. destruct (c =? 10); simpl; [lia|]. destruct (c =? 0); simpl; [lia|]. specialize (IH lno); lia. Qed.
Lemma span_len p s : (length (snd (span p s)) <= length s)%nat.
Proof. induction s as [|c s IH]; simpl; [lia|]. destruct (p c); [|simpl; lia]. destruct (span p s). simpl in *. lia. Qed.
Lemma span_len_hd p c s : p c = true -> (length (snd (span p (c :: s))) <= length s)%nat.
Proof. intros H. simpl. rewrite H. pose proof (span_len p s). destruct (span p s). simpl in *. lia. Qed.
Lemma scan_string_len s : forall lno acc str lno2 r2, scan_string lno s acc = Some (str, lno2, r2) -> (length r2 < S (length s))%nat.
Proof.
  induction s as [|c s IH]; intros lno acc str lno2 r2 H; simpl in H; [discriminate|].
  destruct (c =? 0); [discriminate|]. destruct (c =? 34); [inversion H; subst; simpl; lia|].
  apply IH in H. simpl. lia.
Qed.

Lemma is_lower_wordch c : is_lower c = true -> is_wordch c = true.
Proof. unfold is_wordch. intros ->. reflexivity. Qed.

Lemma lex_go_fuel fuel T : forall lno s acc dg, (length s < fuel)%nat -> lex_go fuel T lno s acc dg <> LexFuel.
Proof.
  induction fuel as [|fuel IH]; intros lno s acc dg Hlen; [lia|]. simpl.
  pose proof (skip_ws_len s lno) as Hw. destruct (skip_ws lno s) as [lno1 s1]. simpl in Hw.
  destruct s1 as [|c r]; [discriminate|]. simpl in Hw. destruct (c =? 0); [discriminate|].
  destruct (c =? 35).
  { pose proof (skip_comment_len r lno1) as Hc. destruct (skip_comment lno1 r) as [lno2 r2]. simpl in Hc. apply IH. lia. }
  destruct (is_lower c) eqn:Hl.
  { pose proof (span_len_hd is_wordch c r (is_lower_wordch c Hl)) as Hs. destruct (span is_wordch (c :: r)) as [w r2]. simpl in Hs. apply IH. lia. }
  destruct (is_digit c) eqn:Hd.
  { pose proof (span_len_hd is_digit c r Hd) as Hs. destruct (span is_digit (c :: r)) as [ds r2]. simpl in Hs.
    destruct (lex_int ds 0 false) as [v err]. apply IH. lia. }
  destruct (c =? 34).
  { destruct (scan_string lno1 r []) as [[[str lno2] r2]|] eqn:Hs; [|discriminate]. apply scan_string_len in Hs. apply IH. lia. }
  apply IH. lia.
Qed.

Lemma lex_fuel T text : lex T text <> LexFuel.
Proof. unfold lex. apply lex_go_fuel. lia. Qed.

(* the token table never maps a literal to one of the payload types *)
Definition wf_tokens (T : tables) : bool :=
  forallb (fun r => negb (row_visible (t_mode T) r) || negb (is_payload (tr_type r))) (t_tokens T).

Lemma tt_lookup_type tbl m key fb :
  forallb (fun r => negb (row_visible m r) || negb (is_payload (tr_type r))) tbl = true ->
  tt_lookup tbl m key fb = fb \/ is_payload (tt_lookup tbl m key fb) = false.
Proof.
  induction tbl as [|r tbl IH]; simpl; [auto|]. intros H. apply andb_true_iff in H. destruct H as [Hr Ht].
  destruct (row_visible m r) eqn:Hv; simpl in *; [|auto].
  destruct (beq (tr_key r) key); [|auto]. right. now apply negb_true_iff in Hr.
Qed.

(* an empty string token is always accompanied by a diagnostic *)
Lemma lex_go_noempty fuel T : wf_tokens T = true -> forall lno s acc dg toks eof dg',
  ((exists t, In t acc /\ tk_type t = T_STRING /\ tk_str t = []) -> dg <> []) ->
  lex_go fuel T lno s acc dg = LexOk toks eof dg' ->
  (exists t, In t toks /\ tk_type t = T_STRING /\ tk_str t = []) -> dg' <> [].
Proof.
  intros Hwf. induction fuel as [|fuel IH]; intros lno s acc dg toks eof dg' Hinv; simpl; [discriminate|].
  destruct (skip_ws lno s) as [lno1 s1].
  assert (Hend : LexOk (rev acc) lno1 dg = LexOk toks eof dg' ->
                 (exists t, In t toks /\ tk_type t = T_STRING /\ tk_str t = []) -> dg' <> []).
  { intros H; inversion H; subst. intros [t [Hin Ht]]. apply Hinv. exists t. split; [now apply in_rev|exact Ht]. }
  destruct s1 as [|c r]; [exact Hend|]. destruct (c =? 0); [exact Hend|].
  assert (Hstep : forall tk (dg2 : list diag), (tk_type tk = T_STRING -> tk_str tk = [] -> dg2 <> []) -> (dg <> [] -> dg2 <> []) ->
                  (exists t, In t (tk :: acc) /\ tk_type t = T_STRING /\ tk_str t = []) -> dg2 <> []).
  { intros tk dg2 H1 H2 [t [[<-|Hin] [Ht Hs]]]; [now apply H1|]. apply H2, Hinv. eauto. }
  destruct (c =? 35).
  { destruct (skip_comment lno1 r) as [lno2 r2]. apply IH, Hinv. }
  destruct (is_lower c).
  { destruct (span is_wordch (c :: r)) as [w r2]. apply IH. apply Hstep; [|auto].
    unfold word_token. destruct (tt_lookup_type (t_tokens T) (t_mode T) w T_KEYWORD Hwf) as [->|Hp]; [simpl; discriminate|].
    destruct (tt_lookup (t_tokens T) (t_mode T) w T_KEYWORD); simpl in *; discriminate. }
  destruct (is_digit c).
  { destruct (span is_digit (c :: r)) as [ds r2]. destruct (lex_int ds 0 false) as [v err]. apply IH. apply Hstep.
    - simpl. discriminate.
    - destruct err; [discriminate|auto]. }
  destruct (c =? 34).
  { destruct (scan_string lno1 r []) as [[[str lno2] r2]|]; [|discriminate]. apply IH. apply Hstep.
    - simpl. intros _ ->. discriminate.
    - destruct str; [discriminate|auto]. }
  apply IH. apply Hstep; [|auto]. simpl.
  destruct (tt_lookup_type (t_tokens T) (t_mode T) [c] T_UNKNOWN Hwf) as [->|Hp]; [discriminate|].
  intros Ht. rewrite Ht in Hp. discriminate.
Qed.

Lemma lex_noempty T text toks eof : wf_tokens T = true -> lex T text = LexOk toks eof [] -> noempty toks.
Proof.
  intros Hwf H t Hin Ht Hs. unfold lex in H.
  assert (Hinv : (exists t0, In t0 (@nil token) /\ tk_type t0 = T_STRING /\ tk_str t0 = []) -> (@nil diag) <> []).
  { intros [t0 [[] _]]. }
  apply (lex_go_noempty _ T Hwf _ _ _ _ _ _ _ Hinv H); [eauto|reflexivity].
Qed.

(* ---------------------------------------------------------------- every rejection has its diagnostic *)
Theorem reject_good E T text c :
  wf_tokens T = true -> config_parse E T text = Rejected c -> good T c.
Proof.
  intros Hwf. unfold config_parse.
  pose proof (lex_go_diags (S (length text)) T 1%Z text [] [] (Forall_nil _)) as Hd. fold (lex T text) in Hd.
  destruct (lex T text) as [toks eof dg|dg|] eqn:Hl.
  - unfold parse_tokens.
    destruct (parse_loop E T eof (S (length toks)) (with_diags (cfg_init T) dg) toks false) as [c1 error] eqn:Hp.
    destruct (lexer_get_error c1) eqn:Hg; [intros H; inversion H; subst; now apply dirty_good|].
    destruct (validate (t_grammar T) c1) as [c2 verr] eqn:Hv.
    destruct verr; [intros H; inversion H; subst; eapply f_validate; eauto|].
    destruct error; [|discriminate]. intros H; inversion H; subst.
    apply validate_false in Hv. destruct Hv as [-> _].
    destruct dg as [|d dg].
    + eapply f_parse_loop; [| |exact Hp]; [lia|]. eapply lex_noempty; eauto.
    + exfalso.
      pose proof (st_parse_loop dirty (fun _ => True) (fun _ _ => I) (fun _ _ => I) dirty_same (fun c d _ => dirty_add_any c d) E T eof (S (length toks)) (with_diags (cfg_init T) (d :: dg)) toks false
                    (all_lexer_dirty _ Hd ltac:(discriminate))) as Hst.
      rewrite Hp in Hst. unfold dirty in Hst. simpl in Hst. congruence.
  - intros H; inversion H; subst. destruct Hd as [Ha Hn]. destruct dg as [|d dg]; [congruence|].
    exists d. split; [left; reflexivity|]. inversion Ha as [|? ? [Hd1 _] _]; subst. left. exact Hd1.
  - exfalso. exact (lex_fuel T text Hl).
Qed.

(* ---------------------------------------------------------------- lexer-class diagnostics carry the configuration path *)
Definition wfd (d : diag) : Prop := is_lexer_msg (d_msg d) = true -> d_path d = P_conf.
Definition paths_ok (c : cfg) : Prop := Forall wfd (c_diags c).

Lemma paths_ok_same c c' : c_diags c' = c_diags c -> paths_ok c -> paths_ok c'.
Proof. unfold paths_ok. intros ->. auto. Qed.
Lemma paths_ok_add c d : wfd d -> paths_ok c -> paths_ok (add_diag c d).
Proof. intros Hd H. constructor; assumption. Qed.
Lemma wfd_lexerr l m : wfd (lexerr l m).
Proof. intros _. reflexivity. Qed.
Lemma wfd_nonlexer d : is_lexer_msg (d_msg d) = false -> wfd d.
Proof. intros H H1. congruence. Qed.

Lemma all_lexer_paths dg : all_lexer dg -> Forall wfd dg.
Proof. intros H. eapply Forall_impl; [|exact H]. intros d [_ Hp] _. exact Hp. Qed.

Lemma config_parse_paths_ok E T text : paths_ok (cfg_of (config_parse E T text)).
Proof.
  unfold config_parse.
  pose proof (lex_go_diags (S (length text)) T 1%Z text [] [] (Forall_nil _)) as Hd. fold (lex T text) in Hd.
  destruct (lex T text) as [toks eof dg|dg|].
  - unfold parse_tokens.
    pose proof (st_parse_loop paths_ok wfd wfd_lexerr wfd_nonlexer paths_ok_same paths_ok_add E T eof (S (length toks))
                  (with_diags (cfg_init T) dg) toks false (all_lexer_paths _ Hd)) as H1.
    destruct (parse_loop E T eof (S (length toks)) (with_diags (cfg_init T) dg) toks false) as [c1 error]. simpl in H1.
    destruct (lexer_get_error c1); [exact H1|].
    pose proof (st_validate paths_ok wfd wfd_lexerr paths_ok_add (t_grammar T) c1 H1) as H2.
    destruct (validate (t_grammar T) c1) as [c2 verr]. simpl in H2. destruct verr; [exact H2|]. destruct error; exact H2.
  - simpl. apply all_lexer_paths. exact (proj1 Hd).
  - simpl. constructor.
Qed.

(* a diagnostic that names the configuration file, or the path-less one of interpolate.c *)
Definition names_file (d : diag) : Prop := is_lexer_msg (d_msg d) = true /\ d_path d = P_conf.
Definition interp_diag (T : tables) (d : diag) : Prop := d_path d = ipath T /\ exists e, d_msg d = M_interp e.

Theorem reject_diagnostic E T text c :
  wf_tokens T = true -> config_parse E T text = Rejected c ->
  exists d, In d (c_diags c) /\ (names_file d \/ interp_diag T d).
Proof.
  intros Hwf H. destruct (reject_good E T text c Hwf H) as [d [Hin [Hl|Hi]]].
  - exists d. split; [exact Hin|]. left. split; [exact Hl|].
    pose proof (config_parse_paths_ok E T text) as Hp. rewrite H in Hp. simpl in Hp.
    unfold paths_ok in Hp. rewrite Forall_forall in Hp. exact (Hp d Hin Hl).
  - exists d. split; [exact Hin|]. right. exact Hi.
Qed.

(* the command exits 1 and prints nothing when the configuration is rejected *)
Lemma robsd_config_rejected E T text vars stdin c :
  config_parse E T text = Rejected c ->
  r_exit (robsd_config E T text vars stdin) = 1 /\ r_stdout (robsd_config E T text vars stdin) = []
  /\ r_diags (robsd_config E T text vars stdin) = rev (c_diags c).
Proof. intros H. unfold robsd_config. rewrite H. auto. Qed.
