(* ConfAbortInst.v - Conf/ConfAbort.v instantiated with the regenerated and the
   documented tables, the witness of the one live trap (D18: ${builddir} needed
   while ${builddir} is being computed), and the exit status / diagnostic of
   robsd-config as a whole. *)
From Robsd Require Import Conf.ConfDefs Conf.ConfSpec Conf.ConfOracle Conf.ConfDiag Conf.ConfReject Conf.ConfInst Conf.ConfAbort.
From RobsdGen Require Import Gen_Conf.
From Coq Require Import String.
Local Open Scope string_scope.

Lemma trap_free_gen m : trap_free (tables_of m) = true.
Proof. destruct m; vm_compute; reflexivity. Qed.

Lemma trap_free_doc m : trap_free (doc_tables m) = true.
Proof. destruct m; vm_compute; reflexivity. Qed.

(* ---------------------------------------------------------------- all five modes, every input *)
Theorem config_no_abort_partial E m text vars stdin :
  builddir_not_reentered E (tables_of m) -> r_abort (robsd_config E (tables_of m) text vars stdin) = false.
Proof. intros H. apply no_abort_unless_builddir; [apply trap_free_gen|exact H]. Qed.

Theorem accepted_no_abort_partial E m text c :
  builddir_not_reentered E (tables_of m) -> config_parse E (tables_of m) text = Accepted c ->
  c_abort c = false /\ lists_ok (c_vars c).
Proof. intros H. apply accepted_no_abort; [apply trap_free_gen|exact H]. Qed.

(* ---------------------------------------------------------------- D18 *)
(* every path is a directory, every user exists, no lock file *)
Definition wit_env_all : env :=
  mk_env (fun _ => DS_dir) (fun _ => true) (fun _ => GL_nomatch) (fun _ => F_noopen) None 4%Z [] [] (bs "amd64") (bs "amd64").

(* accepted; ${builddir} on standard input then needs ${robsddir} -> ${cvs-root} -> ${builddir} *)
Definition wit_reentry_text : bytes := bs "robsddir ""/r/${cvs-root}""
destdir ""/r""
cvs-root ""${builddir}""
".
Definition wit_reentry_stdin : bytes := bs "${builddir}
".

(* the same while parsing: destdir is a directory, its value is expanded at once *)
Definition wit_reentry_parse_text : bytes := bs "robsddir ""/r/${cvs-root}""
cvs-root ""${builddir}""
destdir ""${builddir}""
".

(* canvas: robsddir is the value of canvas-dir *)
Definition wit_reentry_canvas_text : bytes := bs "canvas-name ""x""
canvas-dir ""/r/${hook}""
hook { ""${builddir}"" }
step ""a"" command { ""true"" }
".
Definition wit_reentry_canvas_stdin : bytes := bs "${tmp-dir}
".

(* with the body config_default_build_dir has in the source now (the translator's switch says which) *)
Lemma builddir_reentry_witness :
  t_builddir_guard (tables_of ROBSD) = false ->
  (exists c, config_parse wit_env_all (tables_of ROBSD) wit_reentry_text = Accepted c /\ c_abort c = false)
  /\ r_abort (robsd_config wit_env_all (tables_of ROBSD) wit_reentry_text [] (bs "x")) = false
  /\ r_abort (robsd_config wit_env_all (tables_of ROBSD) wit_reentry_text [] wit_reentry_stdin) = true
  /\ (exists c, config_parse wit_env_all (tables_of ROBSD) wit_reentry_parse_text = Rejected c /\ c_abort c = true)
  /\ r_abort (robsd_config wit_env_all (tables_of CANVAS) wit_reentry_canvas_text [] wit_reentry_canvas_stdin) = true.
Proof.
  intros Hf.
  first [ vm_compute in Hf; discriminate
        | split; [eexists; split; vm_compute; reflexivity|]; split; [vm_compute; reflexivity|];
          split; [vm_compute; reflexivity|]; split; [eexists; split; vm_compute; reflexivity|]; vm_compute; reflexivity ].
Qed.

(* the full statement "no input traps the reader" *)
Definition config_no_abort_statement : Prop :=
  forall E m text vars stdin, r_abort (robsd_config E (tables_of m) text vars stdin) = false.

Lemma config_no_abort_refuted :
  t_builddir_guard (tables_of ROBSD) = false ->
  ~ config_no_abort_statement /\ ~ builddir_not_reentered wit_env_all (tables_of ROBSD).
Proof.
  intros Hf. destruct (builddir_reentry_witness Hf) as [_ [_ [H _]]]. split.
  - intros S. rewrite S in H. discriminate.
  - intros B. rewrite (config_no_abort_partial _ _ _ _ _ B) in H. discriminate.
Qed.

(* guarded against re-entry (findings/D18_builddir_reentry.diff) the statement is a theorem, for every table
   passing [trap_free] *)
Theorem config_no_abort_if_guarded E T text vars stdin :
  trap_free T = true -> t_builddir_guard T = true -> r_abort (robsd_config E T text vars stdin) = false.
Proof.
  intros TF Hg. apply no_abort_unless_builddir; [exact TF|]. exact (guarded_not_reentered E T TF Hg).
Qed.

Lemma guard_same m : t_builddir_guard (tables_of m) = t_builddir_guard (tables_of ROBSD).
Proof. destruct m; reflexivity. Qed.

(* false for the shipped body, a theorem for the guarded one; the translator tells which one the source has *)
Lemma config_no_abort_dichotomy :
  (t_builddir_guard (tables_of ROBSD) = false /\ ~ config_no_abort_statement)
  \/ (t_builddir_guard (tables_of ROBSD) = true /\ config_no_abort_statement).
Proof.
  destruct (t_builddir_guard (tables_of ROBSD)) eqn:Hg.
  - right. split; [reflexivity|]. intros E m text vars stdin.
    apply config_no_abort_if_guarded; [apply trap_free_gen|]. rewrite guard_same. exact Hg.
  - left. split; [reflexivity|]. exact (proj1 (config_no_abort_refuted Hg)).
Qed.

(* ---------------------------------------------------------------- exit status and diagnostics of the command *)
Inductive cmd_diag (T : tables) (d : diag) : Prop :=
| CD_file : names_file d -> cmd_diag T d                                          (* <file>:<line>: ... *)
| CD_interp : interp_diag T d -> cmd_diag T d                                     (* invalid substitution while parsing *)
| CD_var : d_path d = P_none -> (exists s, d_msg d = M_no_separator s \/ d_msg d = M_cannot_define s) -> cmd_diag T d   (* -v *)
| CD_stdin : d_path d = P_stdin -> (0 < d_lno d)%Z -> (exists e, d_msg d = M_interp e) -> cmd_diag T d.               (* /dev/stdin:<line> *)

Lemma append_vars_refused T vs : forall c c1, append_vars T c vs = (c1, false) ->
  exists d, In d (c_diags c1) /\ d_path d = P_none /\ exists s, d_msg d = M_no_separator s \/ d_msg d = M_cannot_define s.
Proof.
  induction vs as [|v vs IH]; intros c c1; simpl; [discriminate|].
  unfold append_var. destruct (split_eq (cstr v)) as [[name val]|].
  - destruct (grammar_for_keyword (t_grammar T) name).
    + intros H; inversion H; subst. eexists. split; [left; reflexivity|]. simpl. eauto.
    + apply IH.
  - intros H; inversion H; subst. eexists. split; [left; reflexivity|]. simpl. eauto.
Qed.

Lemma interp_lines_failed E T ls : forall c lno c1, (0 <= lno)%Z -> interp_lines_st E T c lno ls = (c1, None) ->
  exists d, In d (c_diags c1) /\ d_path d = P_stdin /\ (0 < d_lno d)%Z /\ exists e, d_msg d = M_interp e.
Proof.
  induction ls as [|l ls IH]; intros c lno c1 Hl; simpl; [discriminate|].
  destruct (sinterp _ _ _ c l) as [c0 [o|e]].
  - destruct (interp_lines_st E T c0 (lno + 1) ls) as [c2 [t|]] eqn:Hr; [discriminate|].
    intros H; inversion H; subst. eapply IH; [|exact Hr]. lia.
  - intros H; inversion H; subst. eexists. split; [left; reflexivity|]. simpl. split; [reflexivity|]. split; [lia|eauto].
Qed.

(* robsd-config -m mode -C file [-v ...] -: exit 0 or 1; exit 1 comes with an empty standard output and a
   diagnostic of one of the four documented shapes; exit 0 comes with no lexer-class diagnostic *)
Theorem config_exit_and_diag E T text vars stdin :
  wf_tokens T = true ->
  let r := robsd_config E T text vars stdin in
  (r_exit r = 0%N \/ r_exit r = 1%N)
  /\ (r_exit r = 1%N -> r_stdout r = [] /\ exists d, In d (r_diags r) /\ cmd_diag T d)
  /\ (r_exit r = 0%N -> exists c, config_parse E T text = Accepted c).
Proof.
  intros Hwf. unfold robsd_config.
  destruct (config_parse E T text) as [c|c] eqn:Hp.
  - destruct (append_vars T (after_parse T c) vars) as [c1 ok] eqn:Hv. destruct ok.
    + destruct (interp_lines_st E T c1 0 (clines stdin)) as [c2 [o|]] eqn:Hi; simpl.
      * split; [auto|]. split; [discriminate|eauto].
      * split; [auto|]. split; [|discriminate]. intros _. split; [reflexivity|].
        destruct (interp_lines_failed E T (clines stdin) c1 0%Z c2 (Z.le_refl 0) Hi) as [d [Hin [H1 [H2 H3]]]].
        exists d. split; [apply in_rev in Hin; exact Hin|apply CD_stdin; assumption].
    + simpl. split; [auto|]. split; [|discriminate]. intros _. split; [reflexivity|].
      destruct (append_vars_refused _ _ _ _ Hv) as [d [Hin [H1 H2]]].
      exists d. split; [apply in_rev in Hin; exact Hin|apply CD_var; assumption].
  - simpl. split; [auto|]. split; [|discriminate]. intros _. split; [reflexivity|].
    destruct (reject_diagnostic E T text c Hwf Hp) as [d [Hin Hd]].
    exists d. split; [apply in_rev in Hin; exact Hin|]. destruct Hd; [apply CD_file|apply CD_interp]; assumption.
Qed.
