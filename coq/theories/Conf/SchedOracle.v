(* SchedOracle.v - the specification oracles of SchedSpec.v ([spec_full_ok],
   [spec_offset_ok]), which the harness applies to what robsd-step -L printed,
   accept every listing of the MODEL: for an accepted configuration spelled by
   the entries [es], with the schedule [steps] config_get_steps returns,
   the lines (number, name, parallel flag) of `list_cmd` satisfy the oracle for
   what the entries configure.  This ties the oracle to the theorems of C10. *)
From Robsd Require Import Conf.ConfSpec Conf.ConfTrack Conf.SchedDefs Conf.SchedSpec Conf.ConfTie Conf.SchedProofs
  Conf.SchedTrack Conf.SchedNames.
From RobsdGen Require Import Gen_Conf.
Local Open Scope N_scope.

(* the listing, structured: what the harness parses out of the bytes *)
Definition lines_of (i : nat) (steps : list sstep) : list line :=
  map (fun js => (Z.of_nat (fst js), ss_name (snd js), ss_par (snd js))) (combine (seq i (length steps)) steps).

Definition render_line (l : line) : bytes :=
  render_Z (l_num l) ++ 32 :: l_name l ++ (if l_par l then [32; 112; 97; 114; 97; 108; 108; 101; 108] else []) ++ [10].

(* the bytes robsd-step prints are these lines rendered *)
Lemma list_lines_render i steps : list_lines i steps = flat_map render_line (lines_of i steps).
Proof.
  revert i. induction steps as [|s r IH]; intros i; simpl; [reflexivity|]. rewrite IH. reflexivity.
Qed.

Lemma lines_of_cons i s r : lines_of i (s :: r) = (Z.of_nat i, ss_name s, ss_par s) :: lines_of (S i) r.
Proof. reflexivity. Qed.

Lemma numbered_lines i steps : numbered_from (Z.of_nat i) (lines_of i steps) = true.
Proof.
  revert i. induction steps as [|s r IH]; intros i; [reflexivity|]. rewrite lines_of_cons. cbn [numbered_from l_num fst].
  rewrite Z.eqb_refl. replace (Z.of_nat i + 1)%Z with (Z.of_nat (S i)) by lia. apply IH.
Qed.

Lemma lines_name_flag i steps :
  map (fun l => (l_name l, l_par l)) (lines_of i steps) = map (fun s => (ss_name s, ss_par s)) steps.
Proof. revert i. induction steps as [|s r IH]; intros i; [reflexivity|]. rewrite lines_of_cons. simpl. now rewrite IH. Qed.

Lemma skipn_lines k : forall i steps, skipn k (lines_of i steps) = lines_of (i + k) (skipn k steps).
Proof.
  induction k as [|k IH]; intros i steps; [now rewrite Nat.add_0_r|].
  destruct steps as [|s r]; [reflexivity|]. rewrite lines_of_cons. cbn [skipn]. rewrite IH. f_equal. lia.
Qed.

Lemma list_eqb_refl {A} (eq : A -> A -> bool) l : (forall x, eq x x = true) -> list_eqb eq l l = true.
Proof. intros H. induction l as [|x l IH]; [reflexivity|]. simpl. now rewrite H, IH. Qed.

(* offsets: the listing from offset k is accepted as the suffix of the full listing *)
Theorem spec_offset_accepts_model (k : nat) steps : (1 <= k)%nat ->
  spec_offset_ok k (lines_of 1 steps) (lines_of k (skipn (k - 1) steps)) = true.
Proof.
  intros Hk. unfold spec_offset_ok. replace (pred k) with (k - 1)%nat by lia. rewrite skipn_lines.
  replace (1 + (k - 1))%nat with k by lia. apply list_eqb_refl.
  intros [[n nm] p]. unfold l_num, l_name, l_par. simpl. now rewrite Z.eqb_refl, beq_refl, Bool.eqb_reflx.
Qed.

Lemma name_flag_refl x : name_flag_eqb x x = true.
Proof. unfold name_flag_eqb. now rewrite beq_refl, Bool.eqb_reflx. Qed.

Lemma pairs_of_names_pars (steps : list sstep) (ns : list bytes) (ps : list bool) :
  names steps = ns -> map ss_par steps = ps -> map (fun s => (ss_name s, ss_par s)) steps = combine ns ps.
Proof.
  intros <- <-. unfold names. induction steps as [|s r IH]; [reflexivity|]. simpl. now rewrite IH.
Qed.

Lemma combine_app {A B} (a1 a2 : list A) (b1 b2 : list B) : length a1 = length b1 ->
  combine (a1 ++ a2) (b1 ++ b2) = combine a1 b1 ++ combine a2 b2.
Proof.
  revert b1. induction a1 as [|x a1 IH]; intros [|y b1] H; simpl in *; try discriminate; [reflexivity|]. f_equal. apply IH. lia.
Qed.

Lemma combine_const {A} (l : list A) (b : bool) : combine l (map (fun _ => b) l) = map (fun n => (n, b)) l.
Proof. induction l as [|x l IH]; [reflexivity|]. simpl. now rewrite IH. Qed.

(* ---------------------------------------------------------------- robsd, robsd-cross, robsd-ports *)
Theorem spec_full_accepts_static E m text c c1 steps gp cfgd :
  m = ROBSD \/ m = ROBSD_CROSS \/ m = ROBSD_PORTS ->
  config_parse E (tables_of m) text = Accepted c ->
  get_steps E (tables_of m) (after_parse (tables_of m) c) false = (c1, Some steps) ->
  spec_full_ok m gp cfgd (lines_of 1 steps) = true.
Proof.
  intros Hm Hp Hg. destruct (get_steps_names _ _ _ _ _ _ Hg) as [Hn Hpar].
  set (c0 := set_trace (after_parse (tables_of m) c) false) in *.
  destruct (raw_names_static E m c0 Hm) as [Hs Hnp].
  assert (Hps : map ss_par steps = map (fun _ => false) (step_names (t_steps (tables_of m)))).
  { rewrite Hpar, <- Hs. unfold names. rewrite map_map. clear -Hnp. induction Hnp as [|x l Hx _ IH]; [reflexivity|]. simpl. now rewrite Hx, IH. }
  rewrite Hs in Hn.
  unfold spec_full_ok. change (numbered_from 1 (lines_of 1 steps)) with (numbered_from (Z.of_nat 1) (lines_of 1 steps)).
  rewrite numbered_lines, lines_name_flag, (pairs_of_names_pars steps _ _ Hn Hps), combine_const. cbn [andb].
  destruct Hm as [->|[->| ->]]; vm_compute; reflexivity.
Qed.

(* ---------------------------------------------------------------- robsd-regress *)
(* what the harness tells the oracle: every regress entry with "its test carries no no-parallel option", in the
   order written, and the global switch *)
Definition regress_cfgd (es : list entry) : list (bytes * bool) :=
  map (fun n => (n, negb (existsb (has_no_parallel n) es))) (flat_map regress_path_of es).

Definition regress_gp (E : env) (es : list entry) : bool := negb (entries_global E es =? 0)%Z.

Lemma filter_pairs' (f : bytes -> bool) l :
  filter (fun e : bytes * bool => snd e) (map (fun n => (n, f n)) l) = map (fun n => (n, true)) (filter f l)
  /\ filter (fun e : bytes * bool => negb (snd e)) (map (fun n => (n, f n)) l) = map (fun n => (n, false)) (filter (fun n => negb (f n)) l).
Proof. induction l as [|n l [IH1 IH2]]; simpl; [auto|]. destruct (f n); simpl; rewrite IH1, IH2; auto. Qed.

Lemma filter_none {A} (l : list A) : filter (fun _ => false) l = [].
Proof. induction l; auto. Qed.
Lemma filter_all {A} (l : list A) : filter (fun _ => true) l = l.
Proof. induction l as [|x l IH]; [reflexivity|]. simpl. now rewrite IH. Qed.

Theorem spec_full_accepts_regress E c c1 steps es :
  run_entries E TRg (cfg_init TRg) es = Some c ->
  get_steps E TRg (after_parse TRg c) false = (c1, Some steps) ->
  spec_full_ok ROBSD_REGRESS (regress_gp E es) (regress_cfgd es) (lines_of 1 steps) = true.
Proof.
  intros Hr Hg. destruct (get_steps_names _ _ _ _ _ _ Hg) as [Hn Hpar].
  change (after_parse TRg c) with c in *.
  (* the trace flag does not enter the schedule of names and flags *)
  assert (Hraw : names (snd (raw_steps E TRg (set_trace c false))) = names (snd (raw_steps E TRg c))
                 /\ map ss_par (snd (raw_steps E TRg (set_trace c false))) = map ss_par (snd (raw_steps E TRg c))).
  { destruct (regress_two_passes E (set_trace c false)) as [H1 [H2 _]]. destruct (regress_two_passes E c) as [H3 [H4 _]].
    cbv zeta in *. rewrite H1, H2, H3, H4. split; reflexivity. }
  destruct Hraw as [Hrn Hrp]. rewrite Hrn in Hn. rewrite Hrp in Hpar.
  destruct (regress_schedule_of_entries E es c Hr) as [Hen Hep]. cbv zeta in Hen, Hep.
  change (after_parse TRg c) with c in Hen, Hep. rewrite Hen in Hn. rewrite Hep in Hpar.
  set (l := flat_map regress_path_of es) in *.
  unfold spec_full_ok. change (numbered_from 1 (lines_of 1 steps)) with (numbered_from (Z.of_nat 1) (lines_of 1 steps)).
  rewrite numbered_lines, lines_name_flag, (pairs_of_names_pars steps _ _ Hn Hpar). cbn [andb].
  assert (Hsplit : split_at_name doc_regress_after (plainflag (doc_steps ROBSD_REGRESS))
                   = Some (map (fun n => (n, false)) (map fst (rows_before (t_steps TRg))),
                           map (fun n => (n, false)) (map fst (rows_after (t_steps TRg))))) by (vm_compute; reflexivity).
  rewrite Hsplit.
  rewrite !combine_app by (rewrite ?map_length; reflexivity).
  rewrite !combine_const.
  assert (Hmid : map (fun n => (n, true)) (filter (entries_par E es) l) ++ map (fun n => (n, false)) (filter (fun n => negb (entries_par E es n)) l)
                 = expected_regress (regress_gp E es) (regress_cfgd es)).
  { unfold expected_regress, regress_gp, regress_cfgd. fold l. unfold entries_par.
    destruct (entries_global E es =? 0)%Z eqn:Hz; cbn [negb].
    - change (fun n : bytes => negb false) with (fun _ : bytes => true).
      rewrite (filter_none l), (filter_all l). simpl. rewrite map_map. reflexivity.
    - destruct (filter_pairs' (fun n => negb (existsb (has_no_parallel n) es)) l) as [-> ->]. reflexivity. }
  assert (Hc : forall rows : list (bytes * bytes),
             combine (map fst rows) (map (fun _ => false) rows) = map (fun n => (n, false)) (map fst rows)).
  { induction rows as [|r rows IH]; simpl; [reflexivity|]. now rewrite IH. }
  rewrite !Hc. rewrite (app_assoc (map (fun n => (n, true)) (filter (entries_par E es) l))). rewrite Hmid.
  apply list_eqb_refl, name_flag_refl.
Qed.

(* ---------------------------------------------------------------- canvas *)
Definition canvas_cfgd (es : list entry) : list (bytes * bool) :=
  map (fun s => (cs_name s, cs_parallel s)) (flat_map (step_of_entry (tables_of CANVAS)) es).

Theorem spec_full_accepts_canvas E c c1 steps es gp :
  run_entries E (tables_of CANVAS) (cfg_init (tables_of CANVAS)) es = Some c ->
  get_steps E (tables_of CANVAS) (after_parse (tables_of CANVAS) c) false = (c1, Some steps) ->
  spec_full_ok CANVAS gp (canvas_cfgd es) (lines_of 1 steps) = true.
Proof.
  intros Hr Hg. destruct (get_steps_names _ _ _ _ _ _ Hg) as [Hn Hpar].
  assert (Hraw : snd (raw_steps E (tables_of CANVAS) (set_trace (after_parse (tables_of CANVAS) c) false))
                 = snd (raw_steps E (tables_of CANVAS) (after_parse (tables_of CANVAS) c))) by reflexivity.
  rewrite Hraw, (canvas_schedule_of_entries E es c Hr) in Hn, Hpar.
  unfold spec_full_ok. change (numbered_from 1 (lines_of 1 steps)) with (numbered_from (Z.of_nat 1) (lines_of 1 steps)).
  rewrite numbered_lines, lines_name_flag. cbn [andb].
  assert (Hpairs : map (fun s => (ss_name s, ss_par s)) steps = canvas_cfgd es ++ plainflag (doc_steps CANVAS)).
  { unfold names in Hn. rewrite map_app, map_map in Hn. rewrite map_app, map_map in Hpar. cbn [map ss_name ss_par] in Hn, Hpar.
    unfold canvas_cfgd. set (cs := flat_map (step_of_entry (tables_of CANVAS)) es) in *.
    assert (Hgen : forall (st : list sstep) (ns : list bytes) (ps : list bool), map ss_name st = ns -> map ss_par st = ps ->
                   map (fun s => (ss_name s, ss_par s)) st = combine ns ps).
    { intros st ns ps <- <-. induction st as [|s r IH]; [reflexivity|]. simpl. now rewrite IH. }
    rewrite (Hgen steps _ _ Hn Hpar). rewrite combine_app by (now rewrite !map_length).
    f_equal. clear. induction cs as [|x cs IH]; [reflexivity|]. simpl. now rewrite IH. }
  rewrite Hpairs. apply list_eqb_refl, name_flag_refl.
Qed.
